#!/usr/bin/env python3
"""Regenerates MANIFEST.json from checks.json (claimed properties) and not_applicable.json."""
import json
props = [json.loads(l) for l in open('/verif/properties.jsonl') if l.strip()]
cfg = json.load(open('/verif/checks.json'))
na = json.load(open('/verif/not_applicable.json'))
m = {
 "version": 1,
 "setup_cmd": "./setup.sh",
 "hooks": {"guard": "palantir_conjure_rust_verif",
           "enable": "no hooks are needed: every function under study is reachable through public (if doc-hidden) API or the generator's output; the guard name is reserved and unused",
           "baseline_off_cmd": "cd /repo && cargo test --workspace --no-fail-fast --offline",
           "source_commits": [], "add_only": True},
 "engines": [{"name": "lean-proof+tie", "path": "check", "serves_properties": sorted(cfg),
              "kind_free_text": "Lean 4 theorems over executable models; models tied to /repo on every run by a syn-based extractor (generated Lean tables whose instantiation lemmas are re-checked) and by differential execution of the compiled Lean model driver against the real code on the same operation lines"}],
 "checks": [],
 "notes": "See DESIGN.md. ./check <id> quick|thorough; known findings in known-findings.json; seeded breaking changes in seeded/.",
 "not_applicable": [],
}
for p in props:
    i = p["id"]
    if i in cfg:
        c = cfg[i]
        m["checks"].append({
            "property_id": i, "quick_cmd": "./check %s quick" % i, "thorough_cmd": "./check %s thorough" % i,
            "evidence_file": "evidence/%s.json" % i, "replay_cmd_template": "./check %s --replay {path}" % i,
            "engine": "lean-proof+tie",
            "level_claimed": {"category": c.get("level", "proof"), "text": c["level_text"], "design_ref": "DESIGN.md section 5, " + i},
            "level_note": c["level_note"], "technique": c.get("technique", "Lean 4 proof over extracted tables + differential correspondence")})
    else:
        m["not_applicable"].append({"property_id": i, "reason": na.get(i, "not yet claimed: check under construction (designed in DESIGN.md section 5; no technical obstacle)")})
json.dump(m, open('/verif/MANIFEST.json', 'w'), indent=1)
print("claimed", len(m["checks"]), "not claimed", len(m["not_applicable"]))
