//! Conjure IR construction, running the real generator on it, and reading back what it emitted.
use serde_json::{json, Value};
use std::collections::BTreeMap;
use std::path::{Path, PathBuf};

pub const PKG: &str = "com.palantir.verif";

pub fn tname(name: &str) -> Value {
    json!({"name": name, "package": PKG})
}
pub fn tname_in(name: &str, package: &str) -> Value {
    json!({"name": name, "package": package})
}
pub fn prim(p: &str) -> Value {
    json!({"type": "primitive", "primitive": p})
}
pub fn opt(t: Value) -> Value {
    json!({"type": "optional", "optional": {"itemType": t}})
}
pub fn list(t: Value) -> Value {
    json!({"type": "list", "list": {"itemType": t}})
}
pub fn set(t: Value) -> Value {
    json!({"type": "set", "set": {"itemType": t}})
}
pub fn map(k: Value, v: Value) -> Value {
    json!({"type": "map", "map": {"keyType": k, "valueType": v}})
}
pub fn reference(name: &str) -> Value {
    json!({"type": "reference", "reference": tname(name)})
}
pub fn reference_in(name: &str, package: &str) -> Value {
    json!({"type": "reference", "reference": tname_in(name, package)})
}
pub fn external(fallback: Value) -> Value {
    json!({"type": "external", "external": {"externalReference": {"name": "Ext", "package": "com.example"}, "fallback": fallback}})
}
pub fn safe_marker() -> Value {
    json!({"type": "external", "external": {"externalReference": {"name": "Safe", "package": "com.palantir.logsafe"}, "fallback": prim("ANY")}})
}

pub fn with_safety(mut v: Value, safety: Option<&str>) -> Value {
    if let Some(s) = safety {
        v.as_object_mut().unwrap().insert("safety".into(), json!(s));
    }
    v
}

pub fn field(name: &str, ty: Value, safety: Option<&str>) -> Value {
    with_safety(json!({"fieldName": name, "type": ty}), safety)
}

pub fn alias_def(name: &str, ty: Value, safety: Option<&str>) -> Value {
    json!({"type": "alias", "alias": with_safety(json!({"typeName": tname(name), "alias": ty}), safety)})
}
pub fn enum_def(name: &str, values: &[&str]) -> Value {
    json!({"type": "enum", "enum": {"typeName": tname(name), "values": values.iter().map(|v| json!({"value": v})).collect::<Vec<_>>()}})
}
pub fn object_def(name: &str, fields: Vec<Value>) -> Value {
    json!({"type": "object", "object": {"typeName": tname(name), "fields": fields}})
}
pub fn union_def(name: &str, fields: Vec<Value>) -> Value {
    json!({"type": "union", "union": {"typeName": tname(name), "union": fields}})
}

pub fn ir(types: Vec<Value>, services: Vec<Value>, errors: Vec<Value>) -> Value {
    json!({"version": 1, "errors": errors, "types": types, "services": services, "extensions": {}})
}

#[derive(Clone, Debug)]
pub struct GenCfg {
    pub exhaustive: bool,
    pub serialize_empty_collections: bool,
    pub strip_prefix: Option<String>,
    pub build_crate: Option<(String, String)>,
}

impl Default for GenCfg {
    fn default() -> Self {
        GenCfg { exhaustive: false, serialize_empty_collections: false, strip_prefix: None, build_crate: None }
    }
}

fn scratch_root() -> PathBuf {
    PathBuf::from(std::env::var("VERIF_SCRATCH").unwrap_or_else(|_| "/verif/work/scratch".into()))
}

static COUNTER: std::sync::atomic::AtomicUsize = std::sync::atomic::AtomicUsize::new(0);

/// Runs the real generator; returns the emitted tree (relative path -> content) or its error.
pub fn generate(ir: &Value, cfg: &GenCfg) -> Result<BTreeMap<String, String>, String> {
    let n = COUNTER.fetch_add(1, std::sync::atomic::Ordering::SeqCst);
    let dir = scratch_root().join(format!("gen-{}-{}", std::process::id(), n));
    let _ = std::fs::remove_dir_all(&dir);
    std::fs::create_dir_all(&dir).map_err(|e| e.to_string())?;
    let ir_path = dir.join("ir.json");
    std::fs::write(&ir_path, serde_json::to_string(ir).unwrap()).map_err(|e| e.to_string())?;
    let out = dir.join("out");
    let mut c = conjure_codegen::Config::new();
    c.exhaustive(cfg.exhaustive).serialize_empty_collections(cfg.serialize_empty_collections);
    if let Some(p) = &cfg.strip_prefix {
        c.strip_prefix(p.clone());
    }
    if let Some((n, v)) = &cfg.build_crate {
        c.build_crate(n, v);
    }
    let r = crate::run::guarded(|| c.generate_files(&ir_path, &out).map_err(|e| format!("{:#}", e)));
    let res = match r {
        Ok(Ok(())) => {
            let mut tree = BTreeMap::new();
            read_tree(&out, &out, &mut tree);
            Ok(tree)
        }
        Ok(Err(e)) => Err(e),
        Err(p) => Err(format!("generator panicked: {}", p)),
    };
    let _ = std::fs::remove_dir_all(&dir);
    res
}

pub fn read_tree(root: &Path, dir: &Path, out: &mut BTreeMap<String, String>) {
    if let Ok(rd) = std::fs::read_dir(dir) {
        for e in rd.flatten() {
            let p = e.path();
            if p.is_dir() {
                read_tree(root, &p, out);
            } else if let Ok(s) = std::fs::read_to_string(&p) {
                out.insert(p.strip_prefix(root).unwrap().to_string_lossy().to_string(), s);
            }
        }
    }
}

#[derive(Debug, Clone)]
pub struct ArgInfo {
    pub ident: String,
    pub kind: String, // path | query | header | body | auth | context
    pub attr: String, // whitespace-free attribute tokens
    pub safe: bool,
    pub log_as: Option<String>,
    pub name: Option<String>,
    pub ty: String,
}

#[derive(Debug, Clone)]
pub struct EndpointInfo {
    pub trait_name: String,
    pub method: String,
    pub attr: String,
    pub args: Vec<ArgInfo>,
}

fn lit_after(attr: &str, key: &str) -> Option<String> {
    // attr is whitespace-free: key="value"
    let pat = format!("{}=\"", key);
    let i = attr.find(&pat)? + pat.len();
    let j = attr[i..].find('"')? + i;
    Some(attr[i..j].to_string())
}

/// Every method of every `#[conjure_endpoints]` trait in the emitted tree, in emission order.
pub fn endpoints(tree: &BTreeMap<String, String>) -> Result<Vec<EndpointInfo>, String> {
    let mut out = vec![];
    for (path, text) in tree {
        if !path.ends_with(".rs") {
            continue;
        }
        let file = syn::parse_file(text).map_err(|e| format!("{}: {}", path, e))?;
        for item in &file.items {
            if let syn::Item::Trait(t) = item {
                let is_ep = t.attrs.iter().any(|a| {
                    let p = &a.path();
                    p.segments.last().map(|s| s.ident == "conjure_endpoints").unwrap_or(false)
                });
                if !is_ep {
                    continue;
                }
                for ti in &t.items {
                    if let syn::TraitItem::Fn(f) = ti {
                        let eattr = f
                            .attrs
                            .iter()
                            .filter(|a| a.path().is_ident("endpoint"))
                            .map(|a| {
                                let s = quote::quote!(#a).to_string();
                                s.chars().filter(|c| !c.is_whitespace()).collect::<String>()
                            })
                            .collect::<Vec<_>>()
                            .join("");
                        let mut args = vec![];
                        for inp in &f.sig.inputs {
                            if let syn::FnArg::Typed(pt) = inp {
                                let ident = match &*pt.pat {
                                    syn::Pat::Ident(i) => i.ident.to_string(),
                                    other => quote::quote!(#other).to_string(),
                                };
                                let (kind, attr) = pt
                                    .attrs
                                    .iter()
                                    .map(|a| {
                                        let k = a.path().segments.last().map(|s| s.ident.to_string()).unwrap_or_default();
                                        let s = quote::quote!(#a).to_string();
                                        (k, s.chars().filter(|c| !c.is_whitespace()).collect::<String>())
                                    })
                                    .next()
                                    .unwrap_or_default();
                                let safe = attr.ends_with(",safe)]") || attr.contains(",safe,") || attr.contains("(safe)") || attr.contains("(safe,");
                                let ty = &pt.ty;
                                args.push(ArgInfo {
                                    ident: ident.trim_start_matches("r#").to_string(),
                                    kind,
                                    safe,
                                    log_as: lit_after(&attr, "log_as"),
                                    name: lit_after(&attr, "name"),
                                    attr,
                                    ty: quote::quote!(#ty).to_string().chars().filter(|c| !c.is_whitespace()).collect(),
                                });
                            }
                        }
                        out.push(EndpointInfo { trait_name: t.ident.to_string(), method: f.sig.ident.to_string(), attr: eattr, args });
                    }
                }
            }
        }
    }
    Ok(out)
}

pub fn arg_def(name: &str, ty: Value, param: Value, safety: Option<&str>, markers: Vec<Value>, tags: Vec<&str>) -> Value {
    with_safety(json!({"argName": name, "type": ty, "paramType": param, "markers": markers, "tags": tags}), safety)
}
pub fn body_param() -> Value {
    json!({"type": "body", "body": {}})
}
pub fn query_param(id: &str) -> Value {
    json!({"type": "query", "query": {"paramId": id}})
}
pub fn header_param(id: &str) -> Value {
    json!({"type": "header", "header": {"paramId": id}})
}
pub fn path_param() -> Value {
    json!({"type": "path", "path": {}})
}
pub fn endpoint_def(name: &str, method: &str, path: &str, args: Vec<Value>, returns: Option<Value>, auth: Option<Value>) -> Value {
    let mut v = json!({"endpointName": name, "httpMethod": method, "httpPath": path, "args": args, "markers": [], "tags": []});
    if let Some(r) = returns {
        v.as_object_mut().unwrap().insert("returns".into(), r);
    }
    if let Some(a) = auth {
        v.as_object_mut().unwrap().insert("auth".into(), a);
    }
    v
}
pub fn service_def(name: &str, endpoints: Vec<Value>) -> Value {
    json!({"serviceName": tname(name), "endpoints": endpoints})
}
