//! An in-process `Client` / `AsyncClient`: the request a generated client method produces is routed (by method and
//! path template, as a web server's router would) to the generated server endpoint of the same service, and the
//! endpoint's response is handed back to the client's decode function.  Every request is captured.
use crate::svc::{Handler, RemoteBody};
use bytes::Bytes;
use conjure_error::Error;
use conjure_http::client::{AsyncClient, AsyncRequestBody, AsyncWriteBody as ClientAsyncWriteBody, Client, RequestBody, WriteBody as ClientWriteBody};
use conjure_http::server::{AsyncEndpoint, AsyncResponseBody, AsyncService, ConjureRuntime, Endpoint, EndpointMetadata, PathSegment, ResponseBody, Service};
use conjure_http::{PathParams, SafeParams};
use http::{Extensions, Request, Response, StatusCode};
use std::pin::Pin;
use std::sync::{Arc, Mutex};
use verifgen::plain::{AsyncVerifServiceEndpoints, VerifServiceEndpoints};

#[derive(Clone, Debug, Default)]
pub struct Captured {
    pub method: String,
    pub target: String,
    /// lower-case name, value bytes; in `HeaderMap` iteration order
    pub headers: Vec<(String, Vec<u8>)>,
    /// "empty" | "fixed" | "streaming"
    pub body_kind: String,
    pub body: Vec<u8>,
    pub has_endpoint_ext: bool,
    /// what the router found: endpoint name
    pub routed_to: Option<String>,
    /// response as the server produced it
    pub status: Option<u16>,
    pub response_ct: Option<Vec<u8>>,
    pub response_body_kind: String,
    pub safe_params: Vec<(String, String)>,
}

#[derive(Clone, Default)]
pub struct LoopClient {
    pub handler: Handler,
    pub captured: Arc<Mutex<Vec<Captured>>>,
    /// split fixed response bodies into chunks of this size (0: one chunk)
    pub chunk: usize,
}

/// raw path segments of a request target's path (text after each `/`)
fn raw_segments(path: &str) -> Vec<&str> {
    let mut it = path.split('/');
    it.next();
    it.collect()
}

fn matches(template: &[PathSegment], segs: &[&str]) -> Option<PathParams> {
    if template.len() != segs.len() {
        return None;
    }
    let mut pp = PathParams::new();
    for (t, s) in template.iter().zip(segs) {
        match t {
            PathSegment::Literal(l) => {
                if l != s {
                    return None;
                }
            }
            PathSegment::Parameter { name, .. } => pp.insert(name.to_string(), s.to_string()),
        }
    }
    Some(pp)
}

fn chunks(b: &[u8], n: usize) -> Vec<Vec<u8>> {
    if b.is_empty() {
        vec![]
    } else if n == 0 {
        vec![b.to_vec()]
    } else {
        b.chunks(n).map(|c| c.to_vec()).collect()
    }
}

fn capture<B>(req: &Request<B>) -> Captured {
    Captured {
        method: req.method().to_string(),
        target: req.uri().to_string(),
        headers: req.headers().iter().map(|(k, v)| (k.as_str().to_string(), v.as_bytes().to_vec())).collect(),
        has_endpoint_ext: req.extensions().get::<conjure_http::client::Endpoint>().is_some(),
        ..Default::default()
    }
}

fn server_request<B>(req: Request<B>, body: Vec<u8>, pp: PathParams) -> Request<RemoteBody> {
    let (parts, _) = req.into_parts();
    let mut r = Request::new(RemoteBody(if body.is_empty() { vec![] } else { vec![body] }));
    *r.method_mut() = parts.method;
    *r.uri_mut() = parts.uri;
    *r.headers_mut() = parts.headers;
    r.extensions_mut().insert(pp);
    r
}

fn safe_params_of(ext: &mut Extensions) -> Vec<(String, String)> {
    let sp = ext.remove::<SafeParams>().unwrap_or_default();
    let mut v: Vec<(String, String)> = sp.iter().map(|(k, v)| (k.to_string(), serde_json::to_string(v).unwrap_or_default())).collect();
    v.sort();
    v
}

impl Client for LoopClient {
    type BodyWriter = Vec<u8>;
    type ResponseBody = RemoteBody;

    fn send(&self, req: Request<RequestBody<'_, Vec<u8>>>) -> Result<Response<RemoteBody>, Error> {
        let mut cap = capture(&req);
        let (parts, body) = req.into_parts();
        let (kind, bytes) = match body {
            RequestBody::Empty => ("empty", vec![]),
            RequestBody::Fixed(b) => ("fixed", b.to_vec()),
            RequestBody::Streaming(mut w) => {
                let mut buf = vec![];
                ClientWriteBody::write_body(&mut *w, &mut buf)?;
                ("streaming", buf)
            }
        };
        cap.body_kind = kind.to_string();
        cap.body = bytes.clone();
        let req = Request::from_parts(parts, ());
        let svc = VerifServiceEndpoints::new(self.handler.clone());
        let rt = Arc::new(ConjureRuntime::new());
        let path = req.uri().path().to_string();
        let segs = raw_segments(&path);
        let mut found = None;
        for ep in Service::<RemoteBody, Vec<u8>>::endpoints(&svc, &rt) {
            if ep.method() == *req.method() {
                if let Some(pp) = matches(ep.path(), &segs) {
                    found = Some((ep, pp));
                    break;
                }
            }
        }
        let Some((ep, pp)) = found else {
            self.captured.lock().unwrap().push(cap);
            return Err(Error::internal_safe("loopback: no endpoint matches the request"));
        };
        cap.routed_to = Some(ep.name().to_string());
        let sreq = server_request(req, bytes, pp);
        let mut ext = Extensions::new();
        let result = Endpoint::handle(&*ep, sreq, &mut ext);
        cap.safe_params = safe_params_of(&mut ext);
        let out = match result {
            Ok(resp) => {
                let (parts, body) = resp.into_parts();
                cap.status = Some(parts.status.as_u16());
                cap.response_ct = parts.headers.get(http::header::CONTENT_TYPE).map(|v| v.as_bytes().to_vec());
                let (kind, bytes) = match body {
                    ResponseBody::Empty => ("empty", vec![]),
                    ResponseBody::Fixed(b) => ("fixed", b.to_vec()),
                    ResponseBody::Streaming(w) => {
                        let mut buf = vec![];
                        w.write_body(&mut buf)?;
                        ("streaming", buf)
                    }
                };
                cap.response_body_kind = kind.to_string();
                let mut r = Response::new(RemoteBody(chunks(&bytes, self.chunk)));
                *r.status_mut() = if parts.status == StatusCode::OK || parts.status == StatusCode::NO_CONTENT { parts.status } else { parts.status };
                *r.headers_mut() = parts.headers;
                Ok(r)
            }
            Err(e) => Err(e),
        };
        self.captured.lock().unwrap().push(cap);
        out
    }
}

impl AsyncClient for LoopClient {
    type BodyWriter = Vec<u8>;
    type ResponseBody = RemoteBody;

    async fn send(&self, req: Request<AsyncRequestBody<'_, Vec<u8>>>) -> Result<Response<RemoteBody>, Error> {
        let mut cap = capture(&req);
        let (parts, body) = req.into_parts();
        let (kind, bytes) = match body {
            AsyncRequestBody::Empty => ("empty", vec![]),
            AsyncRequestBody::Fixed(b) => ("fixed", b.to_vec()),
            AsyncRequestBody::Streaming(mut w) => {
                let mut buf = vec![];
                ClientAsyncWriteBody::write_body(Pin::new(&mut w), Pin::new(&mut buf)).await?;
                ("streaming", buf)
            }
        };
        cap.body_kind = kind.to_string();
        cap.body = bytes.clone();
        let req = Request::from_parts(parts, ());
        let svc = AsyncVerifServiceEndpoints::new(self.handler.clone());
        // (the runtime as its `Default` impl makes it: the same runtime as `new()`)
        let rt = Arc::<ConjureRuntime>::default();
        let path = req.uri().path().to_string();
        let segs = raw_segments(&path);
        let mut found = None;
        for ep in AsyncService::<RemoteBody, Vec<u8>>::endpoints(&svc, &rt) {
            if ep.method() == *req.method() {
                if let Some(pp) = matches(ep.path(), &segs) {
                    found = Some((ep, pp));
                    break;
                }
            }
        }
        let Some((ep, pp)) = found else {
            self.captured.lock().unwrap().push(cap);
            return Err(Error::internal_safe("loopback: no endpoint matches the request"));
        };
        cap.routed_to = Some(ep.name().to_string());
        let sreq = server_request(req, bytes, pp);
        let mut ext = Extensions::new();
        let result = AsyncEndpoint::handle(&ep, sreq, &mut ext).await;
        cap.safe_params = safe_params_of(&mut ext);
        let out = match result {
            Ok(resp) => {
                let (parts, body) = resp.into_parts();
                cap.status = Some(parts.status.as_u16());
                cap.response_ct = parts.headers.get(http::header::CONTENT_TYPE).map(|v| v.as_bytes().to_vec());
                let (kind, bytes) = match body {
                    AsyncResponseBody::Empty => ("empty", vec![]),
                    AsyncResponseBody::Fixed(b) => ("fixed", b.to_vec()),
                    AsyncResponseBody::Streaming(w) => {
                        let mut buf = vec![];
                        conjure_http::server::AsyncWriteBody::write_body(w, Pin::new(&mut buf)).await?;
                        ("streaming", buf)
                    }
                };
                cap.response_body_kind = kind.to_string();
                let mut r = Response::new(RemoteBody(chunks(&bytes, self.chunk)));
                *r.status_mut() = parts.status;
                *r.headers_mut() = parts.headers;
                Ok(r)
            }
            Err(e) => Err(e),
        };
        self.captured.lock().unwrap().push(cap);
        out
    }
}

/// a client-side streaming request body over a byte slice
pub struct SliceBody(pub Vec<u8>);

impl ClientWriteBody<Vec<u8>> for SliceBody {
    fn write_body(&mut self, w: &mut Vec<u8>) -> Result<(), Error> {
        w.extend_from_slice(&self.0);
        Ok(())
    }
    fn reset(&mut self) -> bool {
        true
    }
}

impl ClientAsyncWriteBody<Vec<u8>> for SliceBody {
    async fn write_body(self: Pin<&mut Self>, mut w: Pin<&mut Vec<u8>>) -> Result<(), Error> {
        w.extend_from_slice(&self.0);
        Ok(())
    }
    async fn reset(self: Pin<&mut Self>) -> bool {
        true
    }
}

/// a transport's writer that takes a few bytes per `write` call, as a socket may
pub struct Dribble {
    pub buf: Vec<u8>,
    pub max: usize,
}

impl std::io::Write for Dribble {
    fn write(&mut self, b: &[u8]) -> std::io::Result<usize> {
        let n = b.len().min(self.max);
        self.buf.extend_from_slice(&b[..n]);
        Ok(n)
    }
    fn flush(&mut self) -> std::io::Result<()> {
        Ok(())
    }
}

/// the loopback client behind such a writer
#[derive(Clone)]
pub struct DribbleClient(pub LoopClient, pub usize);

impl Client for DribbleClient {
    type BodyWriter = Dribble;
    type ResponseBody = RemoteBody;

    fn send(&self, req: Request<RequestBody<'_, Dribble>>) -> Result<Response<RemoteBody>, Error> {
        let (parts, body) = req.into_parts();
        let body: RequestBody<'_, Vec<u8>> = match body {
            RequestBody::Empty => RequestBody::Empty,
            RequestBody::Fixed(b) => RequestBody::Fixed(b),
            RequestBody::Streaming(mut w) => {
                // a first attempt that is abandoned, then — the body says it can be written again — the real one
                let mut first = Dribble { buf: vec![], max: self.1 };
                ClientWriteBody::write_body(&mut *w, &mut first)?;
                let mut d = Dribble { buf: vec![], max: self.1 };
                if ClientWriteBody::reset(&mut *w) {
                    ClientWriteBody::write_body(&mut *w, &mut d)?;
                } else {
                    d.buf = first.buf;
                }
                RequestBody::Streaming(Box::new(SliceBody(d.buf)))
            }
        };
        Client::send(&self.0, Request::from_parts(parts, body))
    }
}

pub fn drain(b: RemoteBody) -> Vec<u8> {
    b.drain()
}

#[allow(dead_code)]
pub fn unused(_: Bytes) {}
