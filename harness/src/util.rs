//! Seeded PRNG (every random choice of a run derives from VERIF_SEED) and small text helpers.
#[derive(Clone)]
pub struct Rng(pub u64);

impl Rng {
    pub fn new(seed: u64) -> Rng {
        Rng(seed ^ 0x9E37_79B9_7F4A_7C15)
    }
    pub fn fork(&mut self, tag: u64) -> Rng {
        let s = self.next();
        Rng(s ^ tag.wrapping_mul(0xD6E8_FEB8_6659_FD93))
    }
    pub fn next(&mut self) -> u64 {
        // splitmix64
        self.0 = self.0.wrapping_add(0x9E37_79B9_7F4A_7C15);
        let mut z = self.0;
        z = (z ^ (z >> 30)).wrapping_mul(0xBF58_476D_1CE4_E5B9);
        z = (z ^ (z >> 27)).wrapping_mul(0x94D0_49BB_1331_11EB);
        z ^ (z >> 31)
    }
    pub fn below(&mut self, n: usize) -> usize {
        if n == 0 {
            0
        } else {
            (self.next() % n as u64) as usize
        }
    }
    pub fn range(&mut self, lo: i64, hi: i64) -> i64 {
        lo + (self.next() % ((hi - lo + 1) as u64)) as i64
    }
    pub fn chance(&mut self, num: u32, den: u32) -> bool {
        (self.next() % den as u64) < num as u64
    }
    pub fn pick<'a, T>(&mut self, xs: &'a [T]) -> &'a T {
        &xs[self.below(xs.len())]
    }
}

pub fn hex(bytes: &[u8]) -> String {
    if bytes.is_empty() {
        return "_".to_string();
    }
    let mut s = String::with_capacity(bytes.len() * 2);
    for b in bytes {
        s.push_str(&format!("{:02x}", b));
    }
    s
}

pub fn unhex(s: &str) -> Option<Vec<u8>> {
    if s.len() % 2 != 0 {
        return None;
    }
    (0..s.len() / 2)
        .map(|i| u8::from_str_radix(&s[2 * i..2 * i + 2], 16).ok())
        .collect()
}

pub fn fnv(s: &str) -> u64 {
    let mut h: u64 = 0xcbf29ce484222325;
    for b in s.bytes() {
        h ^= b as u64;
        h = h.wrapping_mul(0x100000001b3);
    }
    h
}
