//! Dynamic typed values that drive every serde entry point of the wrappers under test.
//! `Typed` is `Serialize` (calls exactly the `Serializer` method its type names); `Seed` is
//! `DeserializeSeed` (calls exactly the `Deserializer` method its type names, with visitors that
//! mimic serde's derive); `Tree` is the plain document tree read/written with *stock* serde_json /
//! serde_smile, used to canonicalise what the wrappers produce and to feed them documents.
use crate::util::{hex, unhex, Rng};
use serde::de::{self, DeserializeSeed, EnumAccess, MapAccess, SeqAccess, VariantAccess, Visitor};
use serde::ser::{SerializeMap, SerializeSeq, SerializeStruct, SerializeStructVariant, SerializeTuple, SerializeTupleStruct, SerializeTupleVariant};
use serde::{Deserializer, Serialize, Serializer};
use std::collections::HashMap;
use std::fmt;
use std::sync::Mutex;

#[derive(Clone, Copy, Debug, PartialEq)]
pub enum Dbl {
    Nan,
    Inf,
    NInf,
    Fin(u64), // bits of the (f64) value; f32 values are carried widened
}

impl Dbl {
    pub fn of(d: f64) -> Dbl {
        if d.is_nan() {
            Dbl::Nan
        } else if d == f64::INFINITY {
            Dbl::Inf
        } else if d == f64::NEG_INFINITY {
            Dbl::NInf
        } else {
            Dbl::Fin(d.to_bits())
        }
    }
    pub fn f64(self) -> f64 {
        match self {
            Dbl::Nan => f64::NAN,
            Dbl::Inf => f64::INFINITY,
            Dbl::NInf => f64::NEG_INFINITY,
            Dbl::Fin(b) => f64::from_bits(b),
        }
    }
    pub fn txt(self) -> String {
        match self {
            Dbl::Nan => "nan".into(),
            Dbl::Inf => "inf".into(),
            Dbl::NInf => "ninf".into(),
            Dbl::Fin(b) => format!("x{:x}", b),
        }
    }
}

#[derive(Clone, Copy, Debug, PartialEq)]
pub enum VKind {
    Unit,
    Newtype,
    Tuple,
    Struct,
}

#[derive(Clone, Debug, PartialEq)]
pub enum DynTy {
    Bool,
    Int(bool, u32),
    F64,
    F32,
    Str,
    Bytes,
    Unit,
    Uuid,
    Opt(Box<DynTy>),
    Seq(Box<DynTy>),
    Tuple(Vec<DynTy>),
    Map(Box<DynTy>, Box<DynTy>),
    UnitStruct,
    Newtype(Box<DynTy>),
    TupleStruct(Vec<DynTy>),
    Struct(Vec<(String, DynTy)>),
    Enum(Vec<(String, VKind, DynTy)>),
}

#[derive(Clone, Debug, PartialEq)]
pub enum DynVal {
    Bool(bool),
    Int(i128),
    F64(Dbl),
    F32(Dbl),
    Str(String),
    Bytes(Vec<u8>),
    Unit,
    Uuid([u8; 16]),
    None,
    Some(Box<DynVal>),
    Seq(Vec<DynVal>),
    Tuple(Vec<DynVal>),
    Map(Vec<(DynVal, DynVal)>),
    UnitStruct,
    Newtype(Box<DynVal>),
    TupleStruct(Vec<DynVal>),
    Struct(Vec<DynVal>),
    Variant(usize, Box<DynVal>),
}

/// serde wants `&'static str` names
pub fn leak(s: &str) -> &'static str {
    static POOL: Mutex<Option<HashMap<String, &'static str>>> = Mutex::new(None);
    let mut g = POOL.lock().unwrap();
    let m = g.get_or_insert_with(HashMap::new);
    if let Some(r) = m.get(s) {
        return r;
    }
    let r: &'static str = Box::leak(s.to_string().into_boxed_str());
    m.insert(s.to_string(), r);
    r
}

pub fn leak_list(v: Vec<&str>) -> &'static [&'static str] {
    static POOL: Mutex<Option<HashMap<String, &'static [&'static str]>>> = Mutex::new(None);
    let key = v.join("\u{1}");
    let mut g = POOL.lock().unwrap();
    let m = g.get_or_insert_with(HashMap::new);
    if let Some(r) = m.get(&key) {
        return r;
    }
    let items: Vec<&'static str> = v.iter().map(|s| leak(s)).collect();
    let r: &'static [&'static str] = Box::leak(items.into_boxed_slice());
    m.insert(key, r);
    r
}

// ------------------------------------------------------------------ text (matches Model/WrapIO.lean)

impl DynTy {
    pub fn txt(&self) -> String {
        match self {
            DynTy::Bool => "(b)".into(),
            DynTy::Int(s, b) => format!("(i,{},{})", if *s { "s" } else { "u" }, b),
            DynTy::F64 => "(d)".into(),
            DynTy::F32 => "(f)".into(),
            DynTy::Str => "(s)".into(),
            DynTy::Bytes => "(y)".into(),
            DynTy::Unit => "(u)".into(),
            DynTy::Uuid => "(uuid)".into(),
            DynTy::Opt(t) => format!("(opt,{})", t.txt()),
            DynTy::Seq(t) => format!("(seq,{})", t.txt()),
            DynTy::Tuple(ts) => format!("(tup{})", ts.iter().map(|t| format!(",{}", t.txt())).collect::<String>()),
            DynTy::Map(k, v) => format!("(map,{},{})", k.txt(), v.txt()),
            DynTy::UnitStruct => "(us)".into(),
            DynTy::Newtype(t) => format!("(nt,{})", t.txt()),
            DynTy::TupleStruct(ts) => format!("(ts{})", ts.iter().map(|t| format!(",{}", t.txt())).collect::<String>()),
            DynTy::Struct(fs) => format!("(st{})", fs.iter().map(|(n, t)| format!(",(f,{},{})", hex(n.as_bytes()), t.txt())).collect::<String>()),
            DynTy::Enum(vs) => format!(
                "(en{})",
                vs.iter()
                    .map(|(n, k, t)| format!(",(v,{},{},{})", hex(n.as_bytes()), match k { VKind::Unit => "u", VKind::Newtype => "n", VKind::Tuple => "t", VKind::Struct => "s" }, t.txt()))
                    .collect::<String>()
            ),
        }
    }
}

impl DynVal {
    pub fn txt(&self) -> String {
        let list = |vs: &[DynVal]| vs.iter().map(|v| format!(",{}", v.txt())).collect::<String>();
        match self {
            DynVal::Bool(b) => format!("(b,{})", *b as u8),
            DynVal::Int(n) => format!("(i,{})", n),
            DynVal::F64(d) => format!("(d,{})", d.txt()),
            DynVal::F32(d) => format!("(f,{})", d.txt()),
            DynVal::Str(s) => format!("(s,{})", hex(s.as_bytes())),
            DynVal::Bytes(b) => format!("(y,{})", hex(b)),
            DynVal::Unit => "(u)".into(),
            DynVal::Uuid(b) => format!("(uuid,{})", hex(b)),
            DynVal::None => "(none)".into(),
            DynVal::Some(v) => format!("(some,{})", v.txt()),
            DynVal::Seq(vs) => format!("(seq{})", list(vs)),
            DynVal::Tuple(vs) => format!("(tup{})", list(vs)),
            DynVal::Map(es) => format!("(map{})", es.iter().map(|(k, v)| format!(",(e,{},{})", k.txt(), v.txt())).collect::<String>()),
            DynVal::UnitStruct => "(us)".into(),
            DynVal::Newtype(v) => format!("(nt,{})", v.txt()),
            DynVal::TupleStruct(vs) => format!("(ts{})", list(vs)),
            DynVal::Struct(vs) => format!("(st{})", list(vs)),
            DynVal::Variant(i, p) => format!("(var,{},{})", i, p.txt()),
        }
    }
}

// ------------------------------------------------------------------ Serialize

pub struct Typed<'a>(pub &'a DynTy, pub &'a DynVal);

fn mismatch<E: serde::ser::Error>(t: &DynTy, v: &DynVal) -> E {
    E::custom(format!("harness: value {:?} does not have type {:?}", v, t))
}

impl<'a> Serialize for Typed<'a> {
    fn serialize<S: Serializer>(&self, s: S) -> Result<S::Ok, S::Error> {
        match (self.0, self.1) {
            (DynTy::Bool, DynVal::Bool(b)) => s.serialize_bool(*b),
            (DynTy::Int(signed, bits), DynVal::Int(n)) => match (signed, bits) {
                (true, 8) => s.serialize_i8(*n as i8),
                (true, 16) => s.serialize_i16(*n as i16),
                (true, 32) => s.serialize_i32(*n as i32),
                (true, 64) => s.serialize_i64(*n as i64),
                (true, 128) => s.serialize_i128(*n),
                (false, 8) => s.serialize_u8(*n as u8),
                (false, 16) => s.serialize_u16(*n as u16),
                (false, 32) => s.serialize_u32(*n as u32),
                (false, 64) => s.serialize_u64(*n as u64),
                (false, 128) => s.serialize_u128(*n as u128),
                _ => Err(mismatch(self.0, self.1)),
            },
            (DynTy::F64, DynVal::F64(d)) => s.serialize_f64(d.f64()),
            (DynTy::F32, DynVal::F32(d)) => s.serialize_f32(d.f64() as f32),
            (DynTy::Str, DynVal::Str(x)) => s.serialize_str(x),
            (DynTy::Bytes, DynVal::Bytes(b)) => s.serialize_bytes(b),
            (DynTy::Unit, DynVal::Unit) => s.serialize_unit(),
            (DynTy::Uuid, DynVal::Uuid(b)) => uuid::Uuid::from_bytes(*b).serialize(s),
            (DynTy::Opt(_), DynVal::None) => s.serialize_none(),
            (DynTy::Opt(t), DynVal::Some(v)) => s.serialize_some(&Typed(t, v)),
            (DynTy::Seq(t), DynVal::Seq(vs)) => {
                let mut q = s.serialize_seq(Some(vs.len()))?;
                for v in vs {
                    q.serialize_element(&Typed(t, v))?;
                }
                q.end()
            }
            (DynTy::Tuple(ts), DynVal::Tuple(vs)) if ts.len() == vs.len() => {
                let mut q = s.serialize_tuple(vs.len())?;
                for (t, v) in ts.iter().zip(vs) {
                    q.serialize_element(&Typed(t, v))?;
                }
                q.end()
            }
            (DynTy::Map(kt, vt), DynVal::Map(es)) => {
                let mut q = s.serialize_map(Some(es.len()))?;
                for (i, (k, v)) in es.iter().enumerate() {
                    // alternate between the two ways serde code writes entries
                    if i % 2 == 0 {
                        q.serialize_key(&Typed(kt, k))?;
                        q.serialize_value(&Typed(vt, v))?;
                    } else {
                        q.serialize_entry(&Typed(kt, k), &Typed(vt, v))?;
                    }
                }
                q.end()
            }
            (DynTy::UnitStruct, DynVal::UnitStruct) => s.serialize_unit_struct("US"),
            (DynTy::Newtype(t), DynVal::Newtype(v)) => s.serialize_newtype_struct("NT", &Typed(t, v)),
            (DynTy::TupleStruct(ts), DynVal::TupleStruct(vs)) if ts.len() == vs.len() => {
                let mut q = s.serialize_tuple_struct("TS", vs.len())?;
                for (t, v) in ts.iter().zip(vs) {
                    q.serialize_field(&Typed(t, v))?;
                }
                q.end()
            }
            (DynTy::Struct(fs), DynVal::Struct(vs)) if fs.len() == vs.len() => {
                let mut q = s.serialize_struct("ST", vs.len())?;
                for ((n, t), v) in fs.iter().zip(vs) {
                    q.serialize_field(leak(n), &Typed(t, v))?;
                }
                q.end()
            }
            (DynTy::Enum(vars), DynVal::Variant(i, p)) if *i < vars.len() => {
                let (name, kind, pty) = &vars[*i];
                let name = leak(name);
                match (kind, pty, &**p) {
                    (VKind::Unit, _, DynVal::Unit) => s.serialize_unit_variant("EN", *i as u32, name),
                    (VKind::Newtype, t, v) => s.serialize_newtype_variant("EN", *i as u32, name, &Typed(t, v)),
                    (VKind::Tuple, DynTy::Tuple(ts), DynVal::Tuple(vs)) if ts.len() == vs.len() => {
                        let mut q = s.serialize_tuple_variant("EN", *i as u32, name, vs.len())?;
                        for (t, v) in ts.iter().zip(vs) {
                            q.serialize_field(&Typed(t, v))?;
                        }
                        q.end()
                    }
                    (VKind::Struct, DynTy::Struct(fs), DynVal::Struct(vs)) if fs.len() == vs.len() => {
                        let mut q = s.serialize_struct_variant("EN", *i as u32, name, vs.len())?;
                        for ((n, t), v) in fs.iter().zip(vs) {
                            q.serialize_field(leak(n), &Typed(t, v))?;
                        }
                        q.end()
                    }
                    _ => Err(mismatch(self.0, self.1)),
                }
            }
            _ => Err(mismatch(self.0, self.1)),
        }
    }
}

// ------------------------------------------------------------------ DeserializeSeed

#[derive(Clone, Copy)]
pub struct Seed<'a>(pub &'a DynTy);

struct V<'a>(&'a DynTy);

fn int_in(signed: bool, bits: u32, n: i128) -> bool {
    if signed {
        if bits >= 128 {
            true
        } else {
            n >= -(1i128 << (bits - 1)) && n < (1i128 << (bits - 1))
        }
    } else if bits >= 127 {
        n >= 0
    } else {
        n >= 0 && n < (1i128 << bits)
    }
}

impl<'de, 'a> Visitor<'de> for V<'a> {
    type Value = DynVal;

    fn expecting(&self, f: &mut fmt::Formatter) -> fmt::Result {
        write!(f, "a value of dynamic type {:?}", self.0)
    }

    fn visit_bool<E: de::Error>(self, b: bool) -> Result<DynVal, E> {
        match self.0 {
            DynTy::Bool => Ok(DynVal::Bool(b)),
            _ => Err(E::invalid_type(de::Unexpected::Bool(b), &self)),
        }
    }
    fn visit_i64<E: de::Error>(self, n: i64) -> Result<DynVal, E> {
        self.visit_i128(n as i128)
    }
    fn visit_u64<E: de::Error>(self, n: u64) -> Result<DynVal, E> {
        self.visit_i128(n as i128)
    }
    fn visit_u128<E: de::Error>(self, n: u128) -> Result<DynVal, E> {
        match i128::try_from(n) {
            Ok(n) => self.visit_i128(n),
            Err(_) => Err(E::custom("integer out of range")),
        }
    }
    fn visit_i128<E: de::Error>(self, n: i128) -> Result<DynVal, E> {
        match self.0 {
            DynTy::Int(s, b) if int_in(*s, *b, n) => Ok(DynVal::Int(n)),
            DynTy::Int(..) => Err(E::custom("integer out of range")),
            DynTy::F64 => Ok(DynVal::F64(Dbl::of(n as f64))),
            DynTy::F32 => Ok(DynVal::F32(Dbl::of(n as f32 as f64))),
            _ => Err(E::invalid_type(de::Unexpected::Other("integer"), &self)),
        }
    }
    fn visit_f32<E: de::Error>(self, d: f32) -> Result<DynVal, E> {
        self.visit_f64(d as f64)
    }
    fn visit_f64<E: de::Error>(self, d: f64) -> Result<DynVal, E> {
        match self.0 {
            DynTy::F64 => Ok(DynVal::F64(Dbl::of(d))),
            DynTy::F32 => Ok(DynVal::F32(Dbl::of(d as f32 as f64))),
            _ => Err(E::invalid_type(de::Unexpected::Float(d), &self)),
        }
    }
    fn visit_str<E: de::Error>(self, s: &str) -> Result<DynVal, E> {
        match self.0 {
            DynTy::Str => Ok(DynVal::Str(s.to_string())),
            _ => Err(E::invalid_type(de::Unexpected::Str(s), &self)),
        }
    }
    fn visit_bytes<E: de::Error>(self, b: &[u8]) -> Result<DynVal, E> {
        match self.0 {
            DynTy::Bytes => Ok(DynVal::Bytes(b.to_vec())),
            _ => Err(E::invalid_type(de::Unexpected::Bytes(b), &self)),
        }
    }
    fn visit_byte_buf<E: de::Error>(self, b: Vec<u8>) -> Result<DynVal, E> {
        self.visit_bytes(&b)
    }
    fn visit_unit<E: de::Error>(self) -> Result<DynVal, E> {
        match self.0 {
            DynTy::Unit => Ok(DynVal::Unit),
            DynTy::UnitStruct => Ok(DynVal::UnitStruct),
            DynTy::Opt(_) => Ok(DynVal::None),
            _ => Err(E::invalid_type(de::Unexpected::Unit, &self)),
        }
    }
    fn visit_none<E: de::Error>(self) -> Result<DynVal, E> {
        match self.0 {
            DynTy::Opt(_) => Ok(DynVal::None),
            _ => Err(E::invalid_type(de::Unexpected::Option, &self)),
        }
    }
    fn visit_some<D: Deserializer<'de>>(self, d: D) -> Result<DynVal, D::Error> {
        match self.0 {
            DynTy::Opt(t) => Ok(DynVal::Some(Box::new(Seed(t).deserialize(d)?))),
            _ => Err(de::Error::invalid_type(de::Unexpected::Option, &self)),
        }
    }
    fn visit_newtype_struct<D: Deserializer<'de>>(self, d: D) -> Result<DynVal, D::Error> {
        match self.0 {
            DynTy::Newtype(t) => Ok(DynVal::Newtype(Box::new(Seed(t).deserialize(d)?))),
            _ => Err(de::Error::invalid_type(de::Unexpected::NewtypeStruct, &self)),
        }
    }
    fn visit_seq<A: SeqAccess<'de>>(self, mut a: A) -> Result<DynVal, A::Error> {
        match self.0 {
            DynTy::Seq(t) => {
                let mut out = vec![];
                while let Some(v) = a.next_element_seed(Seed(t))? {
                    out.push(v);
                }
                Ok(DynVal::Seq(out))
            }
            DynTy::Tuple(ts) | DynTy::TupleStruct(ts) => {
                let mut out = vec![];
                for (i, t) in ts.iter().enumerate() {
                    match a.next_element_seed(Seed(t))? {
                        Some(v) => out.push(v),
                        None => return Err(de::Error::invalid_length(i, &self)),
                    }
                }
                Ok(if matches!(self.0, DynTy::Tuple(_)) { DynVal::Tuple(out) } else { DynVal::TupleStruct(out) })
            }
            DynTy::Struct(fs) => {
                let mut out = vec![];
                for (i, (_, t)) in fs.iter().enumerate() {
                    match a.next_element_seed(Seed(t))? {
                        Some(v) => out.push(v),
                        None => return Err(de::Error::invalid_length(i, &self)),
                    }
                }
                Ok(DynVal::Struct(out))
            }
            _ => Err(de::Error::invalid_type(de::Unexpected::Seq, &self)),
        }
    }
    fn visit_map<A: MapAccess<'de>>(self, mut a: A) -> Result<DynVal, A::Error> {
        match self.0 {
            DynTy::Map(kt, vt) => {
                let mut out = vec![];
                while let Some(k) = a.next_key_seed(Seed(kt))? {
                    let v = a.next_value_seed(Seed(vt))?;
                    out.push((k, v));
                }
                Ok(DynVal::Map(out))
            }
            DynTy::Struct(fs) => {
                // what #[derive(Deserialize)] generates: identify the field, reject duplicates, skip
                // unknown ones through IgnoredAny, default absent Options to None
                let mut slots: Vec<Option<DynVal>> = vec![None; fs.len()];
                while let Some(idx) = a.next_key_seed(FieldSeed(fs))? {
                    match idx {
                        Some(i) => {
                            if slots[i].is_some() {
                                return Err(de::Error::duplicate_field(leak(&fs[i].0)));
                            }
                            slots[i] = Some(a.next_value_seed(Seed(&fs[i].1))?);
                        }
                        None => {
                            a.next_value::<de::IgnoredAny>()?;
                        }
                    }
                }
                let mut out = vec![];
                for (i, s) in slots.into_iter().enumerate() {
                    match s {
                        Some(v) => out.push(v),
                        None => match &fs[i].1 {
                            DynTy::Opt(_) => out.push(DynVal::None),
                            _ => return Err(de::Error::missing_field(leak(&fs[i].0))),
                        },
                    }
                }
                Ok(DynVal::Struct(out))
            }
            _ => Err(de::Error::invalid_type(de::Unexpected::Map, &self)),
        }
    }
    fn visit_enum<A: EnumAccess<'de>>(self, a: A) -> Result<DynVal, A::Error> {
        match self.0 {
            DynTy::Enum(vars) => {
                let (idx, acc) = a.variant_seed(VariantSeed(vars))?;
                let (_, kind, pty) = &vars[idx];
                let payload = match kind {
                    VKind::Unit => {
                        acc.unit_variant()?;
                        DynVal::Unit
                    }
                    VKind::Newtype => acc.newtype_variant_seed(Seed(pty))?,
                    VKind::Tuple => match pty {
                        DynTy::Tuple(ts) => acc.tuple_variant(ts.len(), V(pty))?,
                        _ => return Err(de::Error::custom("harness: bad tuple variant type")),
                    },
                    VKind::Struct => match pty {
                        DynTy::Struct(fs) => acc.struct_variant(leak_list(fs.iter().map(|f| f.0.as_str()).collect()), V(pty))?,
                        _ => return Err(de::Error::custom("harness: bad struct variant type")),
                    },
                };
                Ok(DynVal::Variant(idx, Box::new(payload)))
            }
            _ => Err(de::Error::invalid_type(de::Unexpected::Enum, &self)),
        }
    }
}

struct FieldSeed<'a>(&'a [(String, DynTy)]);
impl<'de, 'a> DeserializeSeed<'de> for FieldSeed<'a> {
    type Value = Option<usize>;
    fn deserialize<D: Deserializer<'de>>(self, d: D) -> Result<Option<usize>, D::Error> {
        struct FV<'a>(&'a [(String, DynTy)]);
        impl<'de, 'a> Visitor<'de> for FV<'a> {
            type Value = Option<usize>;
            fn expecting(&self, f: &mut fmt::Formatter) -> fmt::Result {
                f.write_str("field identifier")
            }
            fn visit_str<E: de::Error>(self, s: &str) -> Result<Option<usize>, E> {
                Ok(self.0.iter().position(|f| f.0 == s))
            }
            fn visit_bytes<E: de::Error>(self, s: &[u8]) -> Result<Option<usize>, E> {
                Ok(self.0.iter().position(|f| f.0.as_bytes() == s))
            }
            fn visit_u64<E: de::Error>(self, n: u64) -> Result<Option<usize>, E> {
                Ok(if (n as usize) < self.0.len() { Some(n as usize) } else { None })
            }
        }
        d.deserialize_identifier(FV(self.0))
    }
}

struct VariantSeed<'a>(&'a [(String, VKind, DynTy)]);
impl<'de, 'a> DeserializeSeed<'de> for VariantSeed<'a> {
    type Value = usize;
    fn deserialize<D: Deserializer<'de>>(self, d: D) -> Result<usize, D::Error> {
        struct VV<'a>(&'a [(String, VKind, DynTy)]);
        impl<'de, 'a> Visitor<'de> for VV<'a> {
            type Value = usize;
            fn expecting(&self, f: &mut fmt::Formatter) -> fmt::Result {
                f.write_str("variant identifier")
            }
            fn visit_str<E: de::Error>(self, s: &str) -> Result<usize, E> {
                self.0.iter().position(|v| v.0 == s).ok_or_else(|| E::unknown_variant(s, &[]))
            }
            fn visit_bytes<E: de::Error>(self, s: &[u8]) -> Result<usize, E> {
                self.0.iter().position(|v| v.0.as_bytes() == s).ok_or_else(|| E::custom("unknown variant"))
            }
            fn visit_u64<E: de::Error>(self, n: u64) -> Result<usize, E> {
                if (n as usize) < self.0.len() {
                    Ok(n as usize)
                } else {
                    Err(E::custom("variant index out of range"))
                }
            }
        }
        d.deserialize_identifier(VV(self.0))
    }
}

impl<'de, 'a> DeserializeSeed<'de> for Seed<'a> {
    type Value = DynVal;
    fn deserialize<D: Deserializer<'de>>(self, d: D) -> Result<DynVal, D::Error> {
        let v = V(self.0);
        match self.0 {
            DynTy::Bool => d.deserialize_bool(v),
            DynTy::Int(s, b) => match (s, b) {
                (true, 8) => d.deserialize_i8(v),
                (true, 16) => d.deserialize_i16(v),
                (true, 32) => d.deserialize_i32(v),
                (true, 64) => d.deserialize_i64(v),
                (true, _) => d.deserialize_i128(v),
                (false, 8) => d.deserialize_u8(v),
                (false, 16) => d.deserialize_u16(v),
                (false, 32) => d.deserialize_u32(v),
                (false, 64) => d.deserialize_u64(v),
                (false, _) => d.deserialize_u128(v),
            },
            DynTy::F64 => d.deserialize_f64(v),
            DynTy::F32 => d.deserialize_f32(v),
            DynTy::Str => d.deserialize_string(v),
            DynTy::Bytes => d.deserialize_byte_buf(v),
            DynTy::Unit => d.deserialize_unit(v),
            DynTy::Uuid => <uuid::Uuid as de::Deserialize>::deserialize(d).map(|u| DynVal::Uuid(*u.as_bytes())),
            DynTy::Opt(_) => d.deserialize_option(v),
            DynTy::Seq(_) => d.deserialize_seq(v),
            DynTy::Tuple(ts) => d.deserialize_tuple(ts.len(), v),
            DynTy::Map(..) => d.deserialize_map(v),
            DynTy::UnitStruct => d.deserialize_unit_struct("US", v),
            DynTy::Newtype(_) => d.deserialize_newtype_struct("NT", v),
            DynTy::TupleStruct(ts) => d.deserialize_tuple_struct("TS", ts.len(), v),
            DynTy::Struct(fs) => d.deserialize_struct("ST", leak_list(fs.iter().map(|f| f.0.as_str()).collect()), v),
            DynTy::Enum(vs) => d.deserialize_enum("EN", leak_list(vs.iter().map(|f| f.0.as_str()).collect()), v),
        }
    }
}

// ------------------------------------------------------------------ plain document tree

#[derive(Clone, Debug, PartialEq)]
pub enum Tree {
    Null,
    Bool(bool),
    Int(i128),
    Dbl(Dbl),
    Str(String),
    Bin(Vec<u8>),
    Arr(Vec<Tree>),
    Obj(Vec<(String, Tree)>),
}

impl Serialize for Tree {
    fn serialize<S: Serializer>(&self, s: S) -> Result<S::Ok, S::Error> {
        match self {
            Tree::Null => s.serialize_unit(),
            Tree::Bool(b) => s.serialize_bool(*b),
            Tree::Int(n) => {
                if let Ok(x) = i64::try_from(*n) {
                    s.serialize_i64(x)
                } else if let Ok(x) = u64::try_from(*n) {
                    s.serialize_u64(x)
                } else {
                    s.serialize_i128(*n)
                }
            }
            Tree::Dbl(d) => s.serialize_f64(d.f64()),
            Tree::Str(x) => s.serialize_str(x),
            Tree::Bin(b) => s.serialize_bytes(b),
            Tree::Arr(xs) => {
                let mut q = s.serialize_seq(Some(xs.len()))?;
                for x in xs {
                    q.serialize_element(x)?;
                }
                q.end()
            }
            Tree::Obj(ms) => {
                let mut q = s.serialize_map(Some(ms.len()))?;
                for (k, v) in ms {
                    q.serialize_entry(k, v)?;
                }
                q.end()
            }
        }
    }
}

impl<'de> de::Deserialize<'de> for Tree {
    fn deserialize<D: Deserializer<'de>>(d: D) -> Result<Tree, D::Error> {
        struct TV;
        impl<'de> Visitor<'de> for TV {
            type Value = Tree;
            fn expecting(&self, f: &mut fmt::Formatter) -> fmt::Result {
                f.write_str("any document")
            }
            fn visit_bool<E>(self, b: bool) -> Result<Tree, E> {
                Ok(Tree::Bool(b))
            }
            fn visit_i64<E>(self, n: i64) -> Result<Tree, E> {
                Ok(Tree::Int(n as i128))
            }
            fn visit_u64<E>(self, n: u64) -> Result<Tree, E> {
                Ok(Tree::Int(n as i128))
            }
            fn visit_i128<E>(self, n: i128) -> Result<Tree, E> {
                Ok(Tree::Int(n))
            }
            fn visit_f32<E>(self, d: f32) -> Result<Tree, E> {
                Ok(Tree::Dbl(Dbl::of(d as f64)))
            }
            fn visit_f64<E>(self, d: f64) -> Result<Tree, E> {
                Ok(Tree::Dbl(Dbl::of(d)))
            }
            fn visit_str<E>(self, s: &str) -> Result<Tree, E> {
                Ok(Tree::Str(s.to_string()))
            }
            fn visit_bytes<E>(self, b: &[u8]) -> Result<Tree, E> {
                Ok(Tree::Bin(b.to_vec()))
            }
            fn visit_byte_buf<E>(self, b: Vec<u8>) -> Result<Tree, E> {
                Ok(Tree::Bin(b))
            }
            fn visit_unit<E>(self) -> Result<Tree, E> {
                Ok(Tree::Null)
            }
            fn visit_none<E>(self) -> Result<Tree, E> {
                Ok(Tree::Null)
            }
            fn visit_some<D: Deserializer<'de>>(self, d: D) -> Result<Tree, D::Error> {
                de::Deserialize::deserialize(d)
            }
            fn visit_seq<A: SeqAccess<'de>>(self, mut a: A) -> Result<Tree, A::Error> {
                let mut out = vec![];
                while let Some(x) = a.next_element::<Tree>()? {
                    out.push(x);
                }
                Ok(Tree::Arr(out))
            }
            fn visit_map<A: MapAccess<'de>>(self, mut a: A) -> Result<Tree, A::Error> {
                let mut out = vec![];
                while let Some(k) = a.next_key::<String>()? {
                    out.push((k, a.next_value::<Tree>()?));
                }
                Ok(Tree::Obj(out))
            }
        }
        d.deserialize_any(TV)
    }
}

/// strips newtypes: the type that decides how a map key is spelled
fn key_core(t: &DynTy) -> &DynTy {
    match t {
        DynTy::Newtype(t) => key_core(t),
        t => t,
    }
}

fn key_txt(kt: Option<&DynTy>, k: &str) -> String {
    if let Some(DynTy::F64 | DynTy::F32) = kt.map(key_core) {
        if !matches!(k, "NaN" | "Infinity" | "-Infinity") {
            if let Ok(d) = k.parse::<f64>() {
                if d.is_finite() && d.to_string() == k {
                    return format!("f{:x}", d.to_bits());
                }
            }
        }
    }
    format!("t{}", hex(k.as_bytes()))
}

impl Tree {
    /// text form of Model/WrapIO.lean; `ty` (when the shapes agree) decides which keys are the
    /// `Display` text of a finite double
    pub fn txt(&self, ty: Option<&DynTy>) -> String {
        match self {
            Tree::Null => "(null)".into(),
            Tree::Bool(b) => format!("(b,{})", *b as u8),
            Tree::Int(n) => format!("(i,{})", n),
            Tree::Dbl(d) => format!("(d,{})", d.txt()),
            Tree::Str(s) => format!("(s,{})", hex(s.as_bytes())),
            Tree::Bin(b) => format!("(y,{})", hex(b)),
            Tree::Arr(xs) => {
                let core = ty.map(strip);
                let item = |i: usize| -> Option<&DynTy> {
                    match core? {
                        DynTy::Seq(t) => Some(t),
                        DynTy::Tuple(ts) | DynTy::TupleStruct(ts) => ts.get(i),
                        DynTy::Struct(fs) => fs.get(i).map(|f| &f.1),
                        _ => None,
                    }
                };
                format!("(arr{})", xs.iter().enumerate().map(|(i, x)| format!(",{}", x.txt(item(i)))).collect::<String>())
            }
            Tree::Obj(ms) => {
                let core = ty.map(strip);
                let body = ms
                    .iter()
                    .map(|(k, v)| {
                        let (kt, vt): (Option<&DynTy>, Option<&DynTy>) = match core {
                            Some(DynTy::Map(kt, vt)) => (Some(kt), Some(vt)),
                            Some(DynTy::Struct(fs)) => (None, fs.iter().find(|f| &f.0 == k).map(|f| &f.1)),
                            Some(DynTy::Enum(vs)) => (None, vs.iter().find(|f| &f.0 == k).map(|f| &f.2)),
                            _ => (None, None),
                        };
                        format!(",(m,{},{})", key_txt(kt, k), v.txt(vt))
                    })
                    .collect::<String>();
                format!("(obj{})", body)
            }
        }
    }
}

/// strips option / newtype layers (they do not show in the document)
fn strip(t: &DynTy) -> &DynTy {
    match t {
        DynTy::Opt(t) | DynTy::Newtype(t) => strip(t),
        t => t,
    }
}

// ------------------------------------------------------------------ sexp reader (for documents the model produced)

#[derive(Debug, Clone)]
pub enum Sx {
    Atom(String),
    List(Vec<Sx>),
}

pub fn parse_sx(s: &str) -> Option<Sx> {
    fn go(cs: &[u8], i: &mut usize) -> Option<Sx> {
        if *i >= cs.len() {
            return None;
        }
        if cs[*i] == b'(' {
            *i += 1;
            let mut items = vec![];
            loop {
                if *i >= cs.len() {
                    return None;
                }
                match cs[*i] {
                    b')' => {
                        *i += 1;
                        return Some(Sx::List(items));
                    }
                    b',' => *i += 1,
                    _ => items.push(go(cs, i)?),
                }
            }
        } else {
            let st = *i;
            while *i < cs.len() && !matches!(cs[*i], b'(' | b')' | b',') {
                *i += 1;
            }
            Some(Sx::Atom(String::from_utf8_lossy(&cs[st..*i]).to_string()))
        }
    }
    let mut i = 0;
    let r = go(s.as_bytes(), &mut i)?;
    if i == s.len() {
        Some(r)
    } else {
        None
    }
}

fn dbl_of_txt(s: &str) -> Option<Dbl> {
    match s {
        "nan" => Some(Dbl::Nan),
        "inf" => Some(Dbl::Inf),
        "ninf" => Some(Dbl::NInf),
        s => u64::from_str_radix(s.strip_prefix('x')?, 16).ok().map(Dbl::Fin),
    }
}

pub fn tree_of_sx(x: &Sx) -> Option<Tree> {
    let l = match x {
        Sx::List(l) => l,
        _ => return None,
    };
    let head = match l.first()? {
        Sx::Atom(a) => a.as_str(),
        _ => return None,
    };
    let atom = |i: usize| match l.get(i) {
        Some(Sx::Atom(a)) => Some(a.as_str()),
        _ => None,
    };
    Some(match head {
        "null" => Tree::Null,
        "b" => Tree::Bool(atom(1)? == "1"),
        "i" => Tree::Int(atom(1)?.parse().ok()?),
        "d" => Tree::Dbl(dbl_of_txt(atom(1)?)?),
        "s" => Tree::Str(String::from_utf8(unhex(atom(1)?)?).ok()?),
        "y" => Tree::Bin(unhex(atom(1)?)?),
        "arr" => Tree::Arr(l[1..].iter().map(tree_of_sx).collect::<Option<Vec<_>>>()?),
        "obj" => {
            let mut ms = vec![];
            for m in &l[1..] {
                if let Sx::List(p) = m {
                    if let (Some(Sx::Atom(k)), Some(v)) = (p.get(1), p.get(2)) {
                        let key = if let Some(h) = k.strip_prefix('t') {
                            String::from_utf8(unhex(h)?).ok()?
                        } else {
                            f64::from_bits(u64::from_str_radix(k.strip_prefix('f')?, 16).ok()?).to_string()
                        };
                        ms.push((key, tree_of_sx(v)?));
                        continue;
                    }
                }
                return None;
            }
            Tree::Obj(ms)
        }
        _ => return None,
    })
}

// ------------------------------------------------------------------ generators

pub struct Gen<'a> {
    pub rng: &'a mut Rng,
    pub key_able_only: bool,
}

const NAMES: [&str; 8] = ["a", "b", "fieldName", "type", "x-y", "é", "", "f_3"];

pub fn dbl_pool() -> Vec<Dbl> {
    [f64::NAN, f64::INFINITY, f64::NEG_INFINITY, 0.0, -0.0, 1.5, -2.25, 1e300, 5e-324, 0.1, 1e21, 123456789.0]
        .iter()
        .map(|d| Dbl::of(*d))
        .collect()
}

pub fn f32_pool() -> Vec<Dbl> {
    // values whose shortest f32 text parses back (as f64) to the same number
    [f64::NAN, f64::INFINITY, f64::NEG_INFINITY, 0.0, -0.0, 1.5, -2.25, 1024.0, 0.5].iter().map(|d| Dbl::of(*d)).collect()
}

pub fn random_key_ty(rng: &mut Rng, depth: u32) -> DynTy {
    match rng.below(if depth == 0 { 7 } else { 9 }) {
        0 => DynTy::Str,
        1 => DynTy::Bool,
        2 => DynTy::Int(true, 32),
        3 => DynTy::Int(true, 64),
        4 => DynTy::F64,
        5 => DynTy::Bytes,
        6 => DynTy::Enum(vec![("A".into(), VKind::Unit, DynTy::Unit), ("B_2".into(), VKind::Unit, DynTy::Unit)]),
        7 => if rng.chance(1, 2) { DynTy::Int(false, 8) } else { DynTy::Uuid },
        _ => DynTy::Newtype(Box::new(random_key_ty(rng, depth - 1))),
    }
}

pub fn random_ty(rng: &mut Rng, depth: u32, width: usize) -> DynTy {
    let leaf = |rng: &mut Rng| match rng.below(12) {
        0 => DynTy::Bool,
        1 => DynTy::Int(true, 32),
        2 => DynTy::Int(true, 64),
        3 | 4 => DynTy::F64,
        5 => DynTy::Str,
        6 | 7 => DynTy::Bytes,
        8 => DynTy::F32,
        9 => DynTy::Int(false, *rng.pick(&[8u32, 16, 32, 64])),
        10 => DynTy::Int(true, *rng.pick(&[8u32, 16])),
        _ => if rng.chance(1, 2) { DynTy::Unit } else { DynTy::Uuid },
    };
    if depth == 0 {
        return leaf(rng);
    }
    let mut sub = |rng: &mut Rng| random_ty(rng, depth - 1, width);
    let n = |rng: &mut Rng| rng.below(width + 1);
    let fields = |rng: &mut Rng, sub: &mut dyn FnMut(&mut Rng) -> DynTy| -> Vec<(String, DynTy)> {
        let k = rng.below(width + 1);
        let mut names: Vec<&str> = NAMES.to_vec();
        (0..k)
            .map(|_| {
                let i = rng.below(names.len());
                (names.remove(i).to_string(), sub(rng))
            })
            .collect()
    };
    match rng.below(14) {
        0 => leaf(rng),
        1 => DynTy::Opt(Box::new(non_null(sub(rng)))),
        2 | 3 => DynTy::Seq(Box::new(sub(rng))),
        4 => {
            let k = n(rng);
            DynTy::Tuple((0..k).map(|_| sub(rng)).collect())
        }
        5 | 6 => DynTy::Map(Box::new(random_key_ty(rng, 2)), Box::new(sub(rng))),
        7 => DynTy::Newtype(Box::new(sub(rng))),
        8 => {
            let k = n(rng);
            DynTy::TupleStruct((0..k).map(|_| sub(rng)).collect())
        }
        9 | 10 => DynTy::Struct(fields(rng, &mut sub)),
        11 => DynTy::UnitStruct,
        _ => {
            let mut vs = vec![("U".to_string(), VKind::Unit, DynTy::Unit)];
            if rng.chance(2, 3) {
                vs.push(("N".into(), VKind::Newtype, sub(rng)));
            }
            if rng.chance(2, 3) {
                let k = 1 + rng.below(width.max(1));
                vs.push(("T".into(), VKind::Tuple, DynTy::Tuple((0..k).map(|_| sub(rng)).collect())));
            }
            if rng.chance(2, 3) {
                vs.push(("S".into(), VKind::Struct, DynTy::Struct(fields(rng, &mut sub))));
            }
            DynTy::Enum(vs)
        }
    }
}

/// Conjure forbids optional<optional<T>>: an optional's payload never serializes to `null`
pub fn non_null(t: DynTy) -> DynTy {
    fn nullable(t: &DynTy) -> bool {
        match t {
            DynTy::Unit | DynTy::UnitStruct | DynTy::Opt(_) => true,
            DynTy::Newtype(t) => nullable(t),
            _ => false,
        }
    }
    if nullable(&t) {
        DynTy::Str
    } else {
        t
    }
}

pub fn random_val(rng: &mut Rng, t: &DynTy, width: usize) -> DynVal {
    match t {
        DynTy::Bool => DynVal::Bool(rng.chance(1, 2)),
        DynTy::Int(s, b) => {
            let (lo, hi): (i128, i128) = if *s { (-(1i128 << (b - 1)), (1i128 << (b - 1)) - 1) } else { (0, (1i128 << b) - 1) };
            DynVal::Int(match rng.below(6) {
                0 => lo,
                1 => hi,
                2 => 0,
                3 => hi.min(1),
                _ => {
                    let span = (hi - lo) as u128 + 1;
                    lo + ((rng.next() as u128 | ((rng.next() as u128) << 64)) % span) as i128
                }
            })
        }
        DynTy::F64 => DynVal::F64(if rng.chance(3, 4) { *rng.pick(&dbl_pool()) } else { Dbl::of(f64::from_bits(rng.next())) }),
        DynTy::F32 => DynVal::F32(*rng.pick(&f32_pool())),
        DynTy::Str => DynVal::Str(rng.pick(&["", "a", "NaN", "Infinity", "true", "null", "é€😀", "a\"b\\c\n", "QUJD", "1", "type"]).to_string()),
        DynTy::Bytes => DynVal::Bytes(match rng.below(6) {
            0 => vec![],
            1 => vec![0],
            2 => vec![255, 254],
            3 => vec![1, 2, 3],
            _ => (0..rng.below(9)).map(|_| rng.next() as u8).collect(),
        }),
        DynTy::Unit => DynVal::Unit,
        DynTy::Uuid => {
            let mut b = [0u8; 16];
            if rng.chance(3, 4) {
                for x in b.iter_mut() {
                    *x = rng.next() as u8;
                }
            }
            DynVal::Uuid(b)
        }
        DynTy::Opt(t) => {
            if rng.chance(1, 3) {
                DynVal::None
            } else {
                DynVal::Some(Box::new(random_val(rng, t, width)))
            }
        }
        DynTy::Seq(t) => DynVal::Seq((0..rng.below(width + 1)).map(|_| random_val(rng, t, width)).collect()),
        DynTy::Tuple(ts) => DynVal::Tuple(ts.iter().map(|t| random_val(rng, t, width)).collect()),
        DynTy::Map(k, v) => {
            // distinct keys (documents with duplicate member names are outside the domain)
            let mut es: Vec<(DynVal, DynVal)> = vec![];
            for _ in 0..rng.below(width + 1) {
                let key = random_val(rng, k, width);
                if !es.iter().any(|e| same_key(&e.0, &key)) {
                    es.push((key, random_val(rng, v, width)));
                }
            }
            DynVal::Map(es)
        }
        DynTy::UnitStruct => DynVal::UnitStruct,
        DynTy::Newtype(t) => DynVal::Newtype(Box::new(random_val(rng, t, width))),
        DynTy::TupleStruct(ts) => DynVal::TupleStruct(ts.iter().map(|t| random_val(rng, t, width)).collect()),
        DynTy::Struct(fs) => DynVal::Struct(fs.iter().map(|(_, t)| random_val(rng, t, width)).collect()),
        DynTy::Enum(vs) => {
            let i = rng.below(vs.len());
            let p = match vs[i].1 {
                VKind::Unit => DynVal::Unit,
                _ => random_val(rng, &vs[i].2, width),
            };
            DynVal::Variant(i, Box::new(p))
        }
    }
}

fn same_key(a: &DynVal, b: &DynVal) -> bool {
    match (a, b) {
        (DynVal::F64(x), DynVal::F64(y)) | (DynVal::F32(x), DynVal::F32(y)) => x.f64() == y.f64() || (x.f64().is_nan() && y.f64().is_nan()),
        (DynVal::Newtype(x), DynVal::Newtype(y)) => same_key(x, y),
        (a, b) => a == b,
    }
}

/// the serde entry points a value of this type passes through (for the coverage histogram)
pub fn entry_points(t: &DynTy, v: &DynVal, key: bool, out: &mut std::collections::BTreeMap<String, u64>) {
    let pos = if key { "key" } else { "value" };
    let mut hit = |s: &str| *out.entry(format!("{}:{}", pos, s)).or_insert(0) += 1;
    match (t, v) {
        (DynTy::Bool, _) => hit("bool"),
        (DynTy::Int(s, b), _) => hit(&format!("{}{}", if *s { "i" } else { "u" }, b)),
        (DynTy::F64, DynVal::F64(d)) => hit(if matches!(d, Dbl::Fin(_)) { "f64:finite" } else { "f64:nonfinite" }),
        (DynTy::F32, DynVal::F32(d)) => hit(if matches!(d, Dbl::Fin(_)) { "f32:finite" } else { "f32:nonfinite" }),
        (DynTy::Str, _) => hit("str"),
        (DynTy::Bytes, _) => hit("bytes"),
        (DynTy::Unit, _) => hit("unit"),
        (DynTy::Uuid, _) => hit("uuid(is_human_readable)"),
        (DynTy::Opt(_), DynVal::None) => hit("none"),
        (DynTy::Opt(t), DynVal::Some(v)) => {
            hit("some");
            entry_points(t, v, key, out)
        }
        (DynTy::Seq(t), DynVal::Seq(vs)) => {
            hit("seq");
            for v in vs {
                entry_points(t, v, key, out)
            }
        }
        (DynTy::Tuple(ts), DynVal::Tuple(vs)) => {
            hit("tuple");
            for (t, v) in ts.iter().zip(vs) {
                entry_points(t, v, key, out)
            }
        }
        (DynTy::Map(kt, vt), DynVal::Map(es)) => {
            hit("map");
            for (k, v) in es {
                entry_points(kt, k, true, out);
                entry_points(vt, v, key, out);
            }
        }
        (DynTy::UnitStruct, _) => hit("unit_struct"),
        (DynTy::Newtype(t), DynVal::Newtype(v)) => {
            hit("newtype_struct");
            entry_points(t, v, key, out)
        }
        (DynTy::TupleStruct(ts), DynVal::TupleStruct(vs)) => {
            hit("tuple_struct");
            for (t, v) in ts.iter().zip(vs) {
                entry_points(t, v, key, out)
            }
        }
        (DynTy::Struct(fs), DynVal::Struct(vs)) => {
            hit("struct");
            for ((_, t), v) in fs.iter().zip(vs) {
                entry_points(t, v, key, out)
            }
        }
        (DynTy::Enum(vars), DynVal::Variant(i, p)) => {
            let (_, k, pty) = &vars[*i];
            match k {
                VKind::Unit => hit("unit_variant"),
                VKind::Newtype => {
                    hit("newtype_variant");
                    entry_points(pty, p, key, out)
                }
                VKind::Tuple => {
                    hit("tuple_variant");
                    if let (DynTy::Tuple(ts), DynVal::Tuple(vs)) = (pty, &**p) {
                        for (t, v) in ts.iter().zip(vs) {
                            entry_points(t, v, key, out)
                        }
                    }
                }
                VKind::Struct => {
                    hit("struct_variant");
                    if let (DynTy::Struct(fs), DynVal::Struct(vs)) = (pty, &**p) {
                        for ((_, t), v) in fs.iter().zip(vs) {
                            entry_points(t, v, key, out)
                        }
                    }
                }
            }
        }
        _ => {}
    }
}
