//! Every `HashMap`-typed binding of conjure-codegen (outside the generated `types` module) and every use of one,
//! classified by the operation; and the sequence of `Config` calls the command-line tool makes.
use super::*;
use syn::visit::Visit;
use std::collections::BTreeSet;

fn norm(s: String) -> String {
    s.chars().filter(|c| !c.is_whitespace()).collect()
}

/// pass 1: names of struct fields and locals whose type / initializer mentions `HashMap`
struct Decls {
    fields: BTreeSet<String>,
    locals: BTreeSet<String>,
}

impl<'ast> Visit<'ast> for Decls {
    fn visit_item_struct(&mut self, s: &'ast syn::ItemStruct) {
        for f in &s.fields {
            let ty = &f.ty;
            if norm(quote::quote!(#ty).to_string()).contains("HashMap") {
                if let Some(id) = &f.ident {
                    self.fields.insert(id.to_string());
                }
            }
        }
    }
    fn visit_local(&mut self, l: &'ast syn::Local) {
        let pat = &l.pat;
        // the binding is a hash map when its annotation says so or its initializer *is* a constructor call /
        // ends in `.collect::<HashMap<…>>()` (a struct literal that merely contains one is not)
        let annotated = match pat {
            syn::Pat::Type(t) => {
                let ty = &t.ty;
                norm(quote::quote!(#ty).to_string()).contains("HashMap<")
            }
            _ => false,
        };
        let init_is_map = match &l.init {
            Some(init) => {
                let e = &init.expr;
                let text = norm(quote::quote!(#e).to_string());
                text == "HashMap::new()" || text.starts_with("HashMap::with_capacity(") || text.ends_with(".collect::<HashMap<_,_>>()") || (text.contains(".collect::<HashMap<") && text.ends_with(">>()"))
            }
            None => false,
        };
        let is_map = annotated || init_is_map;
        if is_map {
            if let syn::Pat::Ident(id) = pat {
                self.locals.insert(id.ident.to_string());
            } else if let syn::Pat::Type(t) = pat {
                if let syn::Pat::Ident(id) = &*t.pat {
                    self.locals.insert(id.ident.to_string());
                }
            }
        }
        syn::visit::visit_local(self, l);
    }
}

struct Uses<'a> {
    file: String,
    decls: &'a Decls,
    stack: Vec<String>,
    rows: Vec<(String, String, String, String)>,
}

impl<'a> Uses<'a> {
    /// the binding an expression denotes, if it denotes one of the hash maps (through `&`, `&mut`, parentheses)
    fn map_of(&self, e: &syn::Expr) -> Option<String> {
        match e {
            syn::Expr::Reference(r) => self.map_of(&r.expr),
            syn::Expr::Paren(p) => self.map_of(&p.expr),
            syn::Expr::Field(f) => {
                // `<anything>.types`: the field name decides (through `self` or a local of the struct type)
                if let syn::Member::Named(m) = &f.member {
                    if self.decls.fields.contains(&m.to_string()) {
                        return Some(m.to_string());
                    }
                }
                None
            }
            syn::Expr::Path(p) => p.path.get_ident().map(|i| i.to_string()).filter(|n| self.decls.locals.contains(n)),
            _ => None,
        }
    }
    fn push(&mut self, binding: String, kind: &str) {
        self.rows.push((self.file.clone(), self.stack.last().cloned().unwrap_or_default(), binding, kind.to_string()));
    }
}

impl<'a, 'ast> Visit<'ast> for Uses<'a> {
    fn visit_item_fn(&mut self, f: &'ast syn::ItemFn) {
        self.stack.push(f.sig.ident.to_string());
        syn::visit::visit_item_fn(self, f);
        self.stack.pop();
    }
    fn visit_impl_item_fn(&mut self, f: &'ast syn::ImplItemFn) {
        self.stack.push(f.sig.ident.to_string());
        syn::visit::visit_impl_item_fn(self, f);
        self.stack.pop();
    }
    fn visit_local(&mut self, l: &'ast syn::Local) {
        if let syn::Pat::Ident(id) = &l.pat {
            if self.decls.locals.contains(&id.ident.to_string()) {
                let text = norm(quote::quote!(#l).to_string());
                let kind = if text.contains("collect::<HashMap") { "collect" } else { "new" };
                self.push(id.ident.to_string(), kind);
            }
        }
        syn::visit::visit_local(self, l);
    }
    fn visit_field_value(&mut self, f: &'ast syn::FieldValue) {
        if let syn::Member::Named(m) = &f.member {
            if self.decls.fields.contains(&m.to_string()) {
                let e = &f.expr;
                let text = norm(quote::quote!(#e).to_string());
                self.push(m.to_string(), if text == "HashMap::new()" { "new" } else { "init-other" });
            }
        }
        syn::visit::visit_field_value(self, f);
    }
    fn visit_expr(&mut self, e: &'ast syn::Expr) {
        match e {
            syn::Expr::MethodCall(m) => {
                if let Some(b) = self.map_of(&m.receiver) {
                    self.push(b, &m.method.to_string());
                    for a in &m.args {
                        self.visit_expr(a);
                    }
                    return;
                }
            }
            syn::Expr::Index(i) => {
                if let Some(b) = self.map_of(&i.expr) {
                    self.push(b, "index");
                    self.visit_expr(&i.index);
                    return;
                }
            }
            syn::Expr::ForLoop(f) => {
                if let Some(b) = self.map_of(&f.expr) {
                    self.push(b, "for");
                    self.visit_block(&f.body);
                    return;
                }
            }
            other => {
                if let Some(b) = self.map_of(other) {
                    // the map itself used as a value: handed to other code
                    self.push(b, "escape");
                    return;
                }
            }
        }
        syn::visit::visit_expr(self, e);
    }
}

struct Cli {
    rows: Vec<((usize, usize), String, String)>,
}

fn root_is_config(e: &syn::Expr) -> bool {
    match e {
        syn::Expr::Path(p) => p.path.is_ident("config"),
        syn::Expr::MethodCall(m) => root_is_config(&m.receiver),
        syn::Expr::Reference(r) => root_is_config(&r.expr),
        syn::Expr::Paren(p) => root_is_config(&p.expr),
        _ => false,
    }
}

impl<'ast> Visit<'ast> for Cli {
    fn visit_expr_method_call(&mut self, m: &'ast syn::ExprMethodCall) {
        if root_is_config(&m.receiver) {
            let args = m.args.iter().map(|a| norm(quote::quote!(#a).to_string())).collect::<Vec<_>>().join(",");
            let lc = m.method.span().start();
            self.rows.push(((lc.line, lc.column), m.method.to_string(), args));
        }
        syn::visit::visit_expr_method_call(self, m);
    }
}

pub fn emit() -> GenFile {
    let mut ok = true;
    let mut maps: Vec<(String, String)> = vec![];
    let mut uses: Vec<(String, String, String, String)> = vec![];
    let dir = repo_root().join("conjure-codegen/src");
    let mut files: Vec<String> = match std::fs::read_dir(&dir) {
        Ok(rd) => rd.filter_map(|e| e.ok()).filter(|e| e.path().is_file()).filter_map(|e| e.file_name().into_string().ok()).filter(|n| n.ends_with(".rs")).collect(),
        Err(_) => {
            ok = false;
            vec![]
        }
    };
    files.sort();
    for f in &files {
        match load(&format!("conjure-codegen/src/{}", f)) {
            Ok(src) => {
                let mut d = Decls { fields: BTreeSet::new(), locals: BTreeSet::new() };
                d.visit_file(&src.file);
                for n in d.fields.iter().chain(d.locals.iter()) {
                    maps.push((f.clone(), n.clone()));
                }
                let mut u = Uses { file: f.clone(), decls: &d, stack: vec![], rows: vec![] };
                u.visit_file(&src.file);
                uses.extend(u.rows);
                // a file that mentions HashMap in any other way (type alias, function signature, static) is not understood
                let mentions = src.text.matches("HashMap").count();
                let understood = src.text.matches("use std::collections::HashMap").count() + src.text.matches("HashMap::new()").count() + src.text.matches("collect::<HashMap").count() + src.text.matches(": HashMap<").count();
                if mentions != understood {
                    ok = false;
                }
            }
            Err(_) => ok = false,
        }
    }
    let mut cli = Cli { rows: vec![] };
    match load("conjure-rust/src/main.rs") {
        Ok(src) => cli.visit_file(&src.file),
        Err(_) => ok = false,
    }
    cli.rows.sort();
    let mut t = String::new();
    t.push_str("-- GENERATED by `harness extract` from conjure-codegen/src/*.rs and conjure-rust/src/main.rs; do not edit.\n");
    t.push_str("namespace ConjureVerif.Gen.HashMapUses\n\n");
    t.push_str(&format!("def extractOk : Bool := {}\n", ok));
    t.push_str("/-- (file, binding) of every struct field or local whose type is a `HashMap` -/\n");
    t.push_str(&format!("def maps : List (String × String) := [{}]\n", maps.iter().map(|(f, n)| format!("({}, {})", lean_str(f), lean_str(n))).collect::<Vec<_>>().join(", ")));
    t.push_str("/-- (file, enclosing fn, binding, operation) for every occurrence of such a binding -/\n");
    t.push_str("def uses : List (String × String × String × String) := [\n");
    for (i, (f, func, b, k)) in uses.iter().enumerate() {
        t.push_str(&format!("  ({}, {}, {}, {}){}\n", lean_str(f), lean_str(func), lean_str(b), lean_str(k), if i + 1 < uses.len() { "," } else { "" }));
    }
    t.push_str("]\n");
    t.push_str("/-- the `Config` methods `main` calls, in source order, with their argument text -/\n");
    t.push_str(&format!("def cliCalls : List (String × String) := [{}]\n", cli.rows.iter().map(|(_, m, a)| format!("({}, {})", lean_str(m), lean_str(a))).collect::<Vec<_>>().join(", ")));
    t.push_str("\nend ConjureVerif.Gen.HashMapUses\n");
    GenFile { name: "HashMapUses", text: t }
}
