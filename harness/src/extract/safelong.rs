//! conjure-object/src/safe_long.rs -> Gen/SafeLong.lean
use super::*;
use proc_macro2::{TokenStream, TokenTree};
use syn::visit::Visit;

const FILE: &str = "conjure-object/src/safe_long.rs";

/// Body of `fn f() -> SafeLong { SafeLong(<const expr>) }`.
fn bound_value(file: &syn::File, name: &str) -> Option<i128> {
    let f = find_impl_fn(file, "SafeLong", None, name)?;
    if f.block.stmts.len() != 1 {
        return None;
    }
    let e = match &f.block.stmts[0] {
        syn::Stmt::Expr(e, None) => e,
        _ => return None,
    };
    if let syn::Expr::Call(c) = e {
        if let syn::Expr::Path(p) = &*c.func {
            if p.path.is_ident("SafeLong") && c.args.len() == 1 {
                return const_int(&c.args[0]);
            }
        }
    }
    None
}

/// Translates the boolean condition of `SafeLong::new` into a Lean `Bool` expression over `value`.
fn cond_to_lean(e: &syn::Expr) -> Option<String> {
    use syn::{BinOp, Expr, UnOp};
    match e {
        Expr::Paren(p) => cond_to_lean(&p.expr),
        Expr::Binary(b) => {
            let bool_op = match b.op {
                BinOp::And(_) => Some("&&"),
                BinOp::Or(_) => Some("||"),
                _ => None,
            };
            if let Some(op) = bool_op {
                return Some(format!(
                    "({} {} {})",
                    cond_to_lean(&b.left)?,
                    op,
                    cond_to_lean(&b.right)?
                ));
            }
            let cmp = match b.op {
                BinOp::Ge(_) => "≥",
                BinOp::Le(_) => "≤",
                BinOp::Gt(_) => ">",
                BinOp::Lt(_) => "<",
                BinOp::Eq(_) => "=",
                BinOp::Ne(_) => "≠",
                _ => return None,
            };
            Some(format!(
                "(decide ({} {} {}))",
                int_to_lean(&b.left)?,
                cmp,
                int_to_lean(&b.right)?
            ))
        }
        Expr::Unary(u) => match u.op {
            UnOp::Not(_) => Some(format!("(!{})", cond_to_lean(&u.expr)?)),
            _ => None,
        },
        _ => None,
    }
}

fn int_to_lean(e: &syn::Expr) -> Option<String> {
    use syn::{Expr, UnOp};
    if let Some(v) = const_int(e) {
        return Some(lean_int(v));
    }
    match e {
        Expr::Paren(p) => int_to_lean(&p.expr),
        Expr::Path(p) if p.path.is_ident("value") => Some("value".to_string()),
        Expr::Unary(u) => match u.op {
            UnOp::Deref(_) => int_to_lean(&u.expr),
            _ => None,
        },
        Expr::Call(c) if c.args.is_empty() => {
            if let Expr::Path(p) = &*c.func {
                match path_to_string(&p.path).as_str() {
                    "SafeLong::min_value" => Some("minValue".to_string()),
                    "SafeLong::max_value" => Some("maxValue".to_string()),
                    _ => None,
                }
            } else {
                None
            }
        }
        _ => None,
    }
}

/// `if <cond> { Ok(SafeLong(value)) } else { Err(..) }`
fn new_cond(file: &syn::File) -> Option<String> {
    let f = find_impl_fn(file, "SafeLong", None, "new")?;
    if f.block.stmts.len() != 1 {
        return None;
    }
    let e = match &f.block.stmts[0] {
        syn::Stmt::Expr(e, None) => e,
        _ => return None,
    };
    let i = match e {
        syn::Expr::If(i) => i,
        _ => return None,
    };
    let then_ok = {
        let s = quote::quote!(#i).to_string();
        let then_s = {
            let b = &i.then_branch;
            quote::quote!(#b).to_string()
        };
        let _ = s;
        then_s.replace(' ', "") == "{Ok(SafeLong(value))}"
    };
    let else_err = match &i.else_branch {
        Some((_, e)) => quote::quote!(#e).to_string().replace(' ', "").starts_with("{Err("),
        None => false,
    };
    if !then_ok || !else_err {
        return None;
    }
    cond_to_lean(&i.cond)
}

fn width_of(t: &str) -> Option<(bool, u32)> {
    Some(match t {
        "u8" => (false, 8),
        "i8" => (true, 8),
        "u16" => (false, 16),
        "i16" => (true, 16),
        "u32" => (false, 32),
        "i32" => (true, 32),
        "u64" => (false, 64),
        "i64" => (true, 64),
        "u128" => (false, 128),
        "i128" => (true, 128),
        "usize" => (false, 64),
        "isize" => (true, 64),
        _ => return None,
    })
}

fn widths(file: &syn::File, mac: &str, ok: &mut bool) -> Vec<(bool, u32)> {
    let mut out = vec![];
    for inv in macro_invocations(file, mac) {
        for t in comma_list(inv) {
            match width_of(&t) {
                Some(w) => out.push(w),
                None => *ok = false,
            }
        }
    }
    out
}

/// Every place where the tuple constructor `SafeLong(..)` is applied, named by enclosing fn or macro.
struct RawSites {
    cur: Vec<String>,
    sites: Vec<String>,
}

impl<'ast> Visit<'ast> for RawSites {
    fn visit_impl_item_fn(&mut self, f: &'ast syn::ImplItemFn) {
        self.cur.push(f.sig.ident.to_string());
        syn::visit::visit_impl_item_fn(self, f);
        self.cur.pop();
    }
    fn visit_item_impl(&mut self, i: &'ast syn::ItemImpl) {
        let tn = i
            .trait_
            .as_ref()
            .and_then(|(_, p, _)| p.segments.last().map(|s| s.ident.to_string()))
            .unwrap_or_default();
        let ty = type_last_ident(&i.self_ty).unwrap_or_default();
        self.cur.push(format!("{}<{}>", tn, ty));
        syn::visit::visit_item_impl(self, i);
        self.cur.pop();
    }
    fn visit_expr_call(&mut self, c: &'ast syn::ExprCall) {
        if let syn::Expr::Path(p) = &*c.func {
            if p.path.is_ident("SafeLong") {
                self.sites.push(self.cur.join("."));
            }
        }
        syn::visit::visit_expr_call(self, c);
    }
    fn visit_item_macro(&mut self, m: &'ast syn::ItemMacro) {
        if m.mac.path.is_ident("macro_rules") {
            let name = m.ident.as_ref().map(|i| i.to_string()).unwrap_or_default();
            let n = count_ctor(m.mac.tokens.clone());
            for _ in 0..n {
                self.sites.push(format!("macro:{}", name));
            }
        }
    }
}

fn count_ctor(ts: TokenStream) -> usize {
    let toks: Vec<TokenTree> = ts.into_iter().collect();
    let mut n = 0;
    for (i, t) in toks.iter().enumerate() {
        match t {
            TokenTree::Ident(id) if id == "SafeLong" => {
                if let Some(TokenTree::Group(g)) = toks.get(i + 1) {
                    if g.delimiter() == proc_macro2::Delimiter::Parenthesis {
                        // `-> SafeLong (` cannot occur; `for SafeLong {` uses braces
                        n += 1;
                    }
                }
            }
            TokenTree::Group(g) => n += count_ctor(g.stream()),
            _ => {}
        }
    }
    n
}

/// Does the body of `f` reach its result only through `SafeLong::new(..)`?
/// Recognised: the tail expression's method-call chain is rooted at a call to `SafeLong::new`,
/// or (`impl_try_from!`) contains `.and_then(SafeLong::new)`.
fn tail_via_new(tokens: &str) -> bool {
    let t = tokens.replace(' ', "");
    t.contains("SafeLong::new(") || t.contains(".and_then(SafeLong::new)")
}

pub fn emit() -> GenFile {
    let mut ok = true;
    let mut notes: Vec<String> = vec![];
    let (min_v, max_v, cond, from_w, try_w, sites, from_str_new, deser_new, try_from_new, from_body) =
        match load(FILE) {
            Ok(src) => {
                let min_v = bound_value(&src.file, "min_value");
                let max_v = bound_value(&src.file, "max_value");
                let cond = new_cond(&src.file);
                let from_w = widths(&src.file, "impl_from", &mut ok);
                let try_w = widths(&src.file, "impl_try_from", &mut ok);
                let mut rs = RawSites { cur: vec![], sites: vec![] };
                rs.visit_file(&src.file);
                let fs = find_impl_fn(&src.file, "SafeLong", Some("FromStr"), "from_str")
                    .map(|f| {
                        let b = &f.block;
                        tail_via_new(&quote::quote!(#b).to_string())
                    })
                    .unwrap_or(false);
                let ds = find_impl_fn(&src.file, "SafeLong", Some("Deserialize"), "deserialize")
                    .map(|f| {
                        let b = &f.block;
                        let s = quote::quote!(#b).to_string();
                        tail_via_new(&s) && s.replace(' ', "").contains("i64::deserialize(d)?")
                    })
                    .unwrap_or(false);
                let tf = macro_rules_body(&src.file, "impl_try_from")
                    .map(|b| {
                        let s = b.to_string().replace(' ', "");
                        s.contains("i64::try_from(n)") && s.contains(".and_then(SafeLong::new)")
                    })
                    .unwrap_or(false);
                let fb = macro_rules_body(&src.file, "impl_from")
                    .map(|b| b.to_string().replace(' ', "").contains("SafeLong(i64::from(n))"))
                    .unwrap_or(false);
                (min_v, max_v, cond, from_w, try_w, rs.sites, fs, ds, tf, fb)
            }
            Err(e) => {
                ok = false;
                notes.push(e);
                (None, None, None, vec![], vec![], vec![], false, false, false, false)
            }
        };
    if min_v.is_none() || max_v.is_none() || cond.is_none() {
        ok = false;
        notes.push("bounds or condition of SafeLong::new not recognised".into());
    }
    let wl = |v: &[(bool, u32)]| {
        format!(
            "[{}]",
            v.iter()
                .map(|(s, b)| format!("({}, {})", s, b))
                .collect::<Vec<_>>()
                .join(", ")
        )
    };
    let mut t = String::new();
    t.push_str("-- GENERATED by `harness extract` from conjure-object/src/safe_long.rs; do not edit.\n");
    t.push_str("namespace ConjureVerif.Gen.SafeLong\n\n");
    t.push_str(&format!("def extractOk : Bool := {}\n", ok));
    t.push_str(&format!("def notes : List String := {}\n", lean_str_list(&notes)));
    t.push_str(&format!("def minValue : Int := {}\n", lean_int(min_v.unwrap_or(0))));
    t.push_str(&format!("def maxValue : Int := {}\n", lean_int(max_v.unwrap_or(0))));
    t.push_str("/-- the condition under which `SafeLong::new(value)` returns `Ok(SafeLong(value))` -/\n");
    t.push_str(&format!(
        "def newCond (value : Int) : Bool := {}\n",
        cond.unwrap_or_else(|| "(decide (value ≠ value))".into())
    ));
    t.push_str("/-- (signed, bits) of every `impl_from!` type: unchecked `SafeLong(i64::from(n))` -/\n");
    t.push_str(&format!("def fromWidths : List (Bool × Nat) := {}\n", wl(&from_w)));
    t.push_str(&format!("def tryFromWidths : List (Bool × Nat) := {}\n", wl(&try_w)));
    t.push_str("/-- where the raw tuple constructor `SafeLong(..)` is applied -/\n");
    t.push_str(&format!("def rawConstructionSites : List String := {}\n", lean_str_list(&sites)));
    t.push_str(&format!("def fromStrViaNew : Bool := {}\n", from_str_new));
    t.push_str(&format!("def deserializeViaI64ThenNew : Bool := {}\n", deser_new));
    t.push_str(&format!("def tryFromViaI64ThenNew : Bool := {}\n", try_from_new));
    t.push_str(&format!("def fromBodyIsI64From : Bool := {}\n", from_body));
    t.push_str("\nend ConjureVerif.Gen.SafeLong\n");
    GenFile { name: "SafeLong", text: t }
}
