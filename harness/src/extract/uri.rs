//! AsciiSet constants of uri_builder.rs and conjure-macros/src/client.rs -> Gen/Uri.lean
use super::*;
use std::collections::{BTreeMap, BTreeSet};
use syn::visit::Visit;

fn byte_lit(e: &syn::Expr) -> Option<u8> {
    match e {
        syn::Expr::Lit(l) => match &l.lit {
            syn::Lit::Byte(b) => Some(b.value()),
            syn::Lit::Int(i) => i.base10_parse::<u8>().ok(),
            _ => None,
        },
        _ => None,
    }
}

fn base_set(name: &str) -> Option<BTreeSet<u8>> {
    match name {
        // percent_encoding::CONTROLS: C0 controls and DEL (non-ASCII bytes are always encoded)
        "percent_encoding::CONTROLS" | "CONTROLS" => Some((0u8..32).chain(std::iter::once(127)).collect()),
        "percent_encoding::NON_ALPHANUMERIC" | "NON_ALPHANUMERIC" => {
            Some((0u8..128).filter(|b| !b.is_ascii_alphanumeric()).collect())
        }
        _ => None,
    }
}

fn eval_set(e: &syn::Expr, env: &BTreeMap<String, BTreeSet<u8>>) -> Option<BTreeSet<u8>> {
    match e {
        syn::Expr::Reference(r) => eval_set(&r.expr, env),
        syn::Expr::Paren(p) => eval_set(&p.expr, env),
        syn::Expr::Path(p) => {
            let n = path_to_string(&p.path);
            env.get(&n).cloned().or_else(|| base_set(&n))
        }
        syn::Expr::MethodCall(m) => {
            let mut s = eval_set(&m.receiver, env)?;
            if m.args.len() != 1 {
                return None;
            }
            let b = byte_lit(&m.args[0])?;
            match m.method.to_string().as_str() {
                "add" => {
                    s.insert(b);
                }
                "remove" => {
                    s.remove(&b);
                }
                _ => return None,
            }
            Some(s)
        }
        _ => None,
    }
}

fn ascii_sets(file: &syn::File, ok: &mut bool) -> BTreeMap<String, BTreeSet<u8>> {
    let mut env = BTreeMap::new();
    for item in &file.items {
        if let syn::Item::Const(c) = item {
            let is_set = quote::quote!(#c).to_string().contains("AsciiSet");
            if !is_set {
                continue;
            }
            match eval_set(&c.expr, &env) {
                Some(s) => {
                    env.insert(c.ident.to_string(), s);
                }
                None => *ok = false,
            }
        }
    }
    env
}

/// second argument (a set name) of every call to one of `fns`
struct EncodeCalls<'a> {
    fns: &'a [&'a str],
    sets: Vec<String>,
}

impl<'a, 'ast> Visit<'ast> for EncodeCalls<'a> {
    fn visit_expr_call(&mut self, c: &'ast syn::ExprCall) {
        if let syn::Expr::Path(p) = &*c.func {
            let last = p.path.segments.last().map(|s| s.ident.to_string()).unwrap_or_default();
            if self.fns.contains(&last.as_str()) {
                match c.args.iter().nth(1) {
                    Some(syn::Expr::Path(a)) => self.sets.push(path_to_string(&a.path)),
                    Some(other) => self.sets.push(quote::quote!(#other).to_string()),
                    None => self.sets.push("?".into()),
                }
            }
        }
        syn::visit::visit_expr_call(self, c);
    }
}

fn nat_list(s: Option<&BTreeSet<u8>>) -> String {
    match s {
        Some(s) => format!("[{}]", s.iter().map(|b| b.to_string()).collect::<Vec<_>>().join(", ")),
        None => "[]".into(),
    }
}

pub fn emit() -> GenFile {
    let mut ok = true;
    let mut notes = vec![];
    let mut comp = None;
    let mut comp_m = None;
    let mut push_sets = vec![];
    let mut macro_sets = vec![];
    let mut build_unwraps = false;
    match load("conjure-http/src/private/client/uri_builder.rs") {
        Ok(src) => {
            let env = ascii_sets(&src.file, &mut ok);
            comp = env.get("COMPONENT").cloned();
            let mut v = EncodeCalls { fns: &["utf8_percent_encode", "percent_encode"], sets: vec![] };
            v.visit_file(&src.file);
            push_sets = v.sets;
            if let Some(f) = find_impl_fn(&src.file, "UriBuilder", None, "build") {
                let b = &f.block;
                let s = quote::quote!(#b).to_string().replace(' ', "");
                build_unwraps = s.contains("Uri::from_maybe_shared(") && s.contains(".unwrap()");
            }
        }
        Err(e) => {
            ok = false;
            notes.push(e);
        }
    }
    match load("conjure-macros/src/client.rs") {
        Ok(src) => {
            let env = ascii_sets(&src.file, &mut ok);
            comp_m = env.get("COMPONENT").cloned();
            let mut v = EncodeCalls { fns: &["utf8_percent_encode", "percent_encode"], sets: vec![] };
            v.visit_file(&src.file);
            macro_sets = v.sets;
        }
        Err(e) => {
            ok = false;
            notes.push(e);
        }
    }
    if comp.is_none() || comp_m.is_none() {
        ok = false;
        notes.push("COMPONENT set not recognised".into());
    }
    let mut t = String::new();
    t.push_str("-- GENERATED by `harness extract` from conjure-http/src/private/client/uri_builder.rs and\n-- conjure-macros/src/client.rs; do not edit.\n");
    t.push_str("namespace ConjureVerif.Gen.Uri\n\n");
    t.push_str(&format!("def extractOk : Bool := {}\n", ok));
    t.push_str(&format!("def notes : List String := {}\n", lean_str_list(&notes)));
    t.push_str("/-- ASCII bytes of `COMPONENT` in uri_builder.rs (evaluated `.add` chain) -/\n");
    t.push_str(&format!("def component : List Nat := {}\n", nat_list(comp.as_ref())));
    t.push_str("/-- set named in each percent-encode call of uri_builder.rs -/\n");
    t.push_str(&format!("def pushEscapedSets : List String := {}\n", lean_str_list(&push_sets)));
    t.push_str("/-- ASCII bytes of the duplicated `COMPONENT` in conjure-macros/src/client.rs -/\n");
    t.push_str(&format!("def componentMacros : List Nat := {}\n", nat_list(comp_m.as_ref())));
    t.push_str(&format!("def macroEncodeSets : List String := {}\n", lean_str_list(&macro_sets)));
    t.push_str("/-- `build` is `Uri::from_maybe_shared(..).unwrap()` -/\n");
    t.push_str(&format!("def buildUnwraps : Bool := {}\n", build_unwraps));
    t.push_str("\nend ConjureVerif.Gen.Uri\n");
    GenFile { name: "Uri", text: t }
}
