//! T: re-extracts tables and small expressions from /repo's Rust source and emits Lean definitions
//! under lean/ConjureVerif/Gen/.  Every emitter returns the text of one Lean module; `run` writes a
//! file only when its content changed so that `lake build` stays incremental.
use std::fs;
use std::path::{Path, PathBuf};

pub mod safelong;
pub mod uri;
pub mod token;
pub mod bodies;
pub mod wrap;
pub mod anyde;
pub mod status;
pub mod paramnames;
pub mod errorsites;
pub mod hashmapuses;
pub mod keywords;

pub struct Src {
    pub path: PathBuf,
    pub text: String,
    pub file: syn::File,
}

pub fn repo_root() -> PathBuf {
    PathBuf::from(std::env::var("VERIF_REPO").unwrap_or_else(|_| "/repo".to_string()))
}

pub fn load(rel: &str) -> Result<Src, String> {
    let path = repo_root().join(rel);
    let text = fs::read_to_string(&path).map_err(|e| format!("{}: {}", path.display(), e))?;
    let file = syn::parse_file(&text).map_err(|e| format!("{}: {}", path.display(), e))?;
    Ok(Src { path, text, file })
}

/// Evaluates a constant integer expression made of literals, unary minus, `+ - * <<` and parentheses.
pub fn const_int(e: &syn::Expr) -> Option<i128> {
    use syn::{BinOp, Expr, Lit, UnOp};
    match e {
        Expr::Lit(l) => match &l.lit {
            Lit::Int(i) => i.base10_parse::<i128>().ok(),
            _ => None,
        },
        Expr::Paren(p) => const_int(&p.expr),
        Expr::Group(g) => const_int(&g.expr),
        Expr::Unary(u) => match u.op {
            UnOp::Neg(_) => const_int(&u.expr).map(|v| -v),
            _ => None,
        },
        Expr::Binary(b) => {
            let l = const_int(&b.left)?;
            let r = const_int(&b.right)?;
            match b.op {
                BinOp::Add(_) => l.checked_add(r),
                BinOp::Sub(_) => l.checked_sub(r),
                BinOp::Mul(_) => l.checked_mul(r),
                BinOp::Shl(_) => {
                    if (0..100).contains(&r) {
                        l.checked_mul(1i128 << r)
                    } else {
                        None
                    }
                }
                _ => None,
            }
        }
        _ => None,
    }
}

pub fn lean_str(s: &str) -> String {
    let mut out = String::from("\"");
    for c in s.chars() {
        match c {
            '"' => out.push_str("\\\""),
            '\\' => out.push_str("\\\\"),
            '\n' => out.push_str("\\n"),
            '\t' => out.push_str("\\t"),
            '\r' => out.push_str("\\r"),
            c if (c as u32) < 32 => out.push_str(&format!("\\x{:02x}", c as u32)),
            c => out.push(c),
        }
    }
    out.push('"');
    out
}

pub fn lean_str_list(v: &[String]) -> String {
    format!(
        "[{}]",
        v.iter().map(|s| lean_str(s)).collect::<Vec<_>>().join(", ")
    )
}

pub fn lean_int(v: i128) -> String {
    if v < 0 {
        format!("({})", v)
    } else {
        format!("{}", v)
    }
}

/// Finds an inherent or trait method named `name` inside `impl ... for? <self_ty>` blocks.
pub fn find_impl_fn<'a>(
    file: &'a syn::File,
    self_ty: &str,
    trait_name: Option<&str>,
    name: &str,
) -> Option<&'a syn::ImplItemFn> {
    for item in &file.items {
        if let syn::Item::Impl(imp) = item {
            let ty = type_last_ident(&imp.self_ty);
            if ty.as_deref() != Some(self_ty) {
                continue;
            }
            let tn = imp
                .trait_
                .as_ref()
                .and_then(|(_, p, _)| p.segments.last().map(|s| s.ident.to_string()));
            if tn.as_deref() != trait_name {
                continue;
            }
            for it in &imp.items {
                if let syn::ImplItem::Fn(f) = it {
                    if f.sig.ident == name {
                        return Some(f);
                    }
                }
            }
        }
    }
    None
}

pub fn type_last_ident(t: &syn::Type) -> Option<String> {
    match t {
        syn::Type::Path(p) => p.path.segments.last().map(|s| s.ident.to_string()),
        syn::Type::Reference(r) => type_last_ident(&r.elem),
        _ => None,
    }
}

pub fn path_to_string(p: &syn::Path) -> String {
    p.segments
        .iter()
        .map(|s| s.ident.to_string())
        .collect::<Vec<_>>()
        .join("::")
}

/// Top-level `macro_rules! name { ... }` body tokens and all `name!(...)` invocations' tokens.
pub fn macro_rules_body(file: &syn::File, name: &str) -> Option<proc_macro2::TokenStream> {
    for item in &file.items {
        if let syn::Item::Macro(m) = item {
            if m.mac.path.is_ident("macro_rules") && m.ident.as_ref().map(|i| i == name) == Some(true)
            {
                return Some(m.mac.tokens.clone());
            }
        }
    }
    None
}

pub fn macro_invocations(file: &syn::File, name: &str) -> Vec<proc_macro2::TokenStream> {
    let mut out = vec![];
    for item in &file.items {
        if let syn::Item::Macro(m) = item {
            if m.mac.path.is_ident(name) {
                out.push(m.mac.tokens.clone());
            }
        }
    }
    out
}

/// Splits a token stream on top-level commas and renders each piece without whitespace.
pub fn comma_list(ts: proc_macro2::TokenStream) -> Vec<String> {
    let mut out = vec![];
    let mut cur = String::new();
    for t in ts {
        match &t {
            proc_macro2::TokenTree::Punct(p) if p.as_char() == ',' => {
                out.push(std::mem::take(&mut cur));
            }
            other => cur.push_str(&other.to_string()),
        }
    }
    if !cur.is_empty() {
        out.push(cur);
    }
    out
}

pub struct GenFile {
    pub name: &'static str,
    pub text: String,
}

pub fn write_if_changed(path: &Path, text: &str) -> std::io::Result<bool> {
    if let Ok(old) = fs::read_to_string(path) {
        if old == text {
            return Ok(false);
        }
    }
    if let Some(p) = path.parent() {
        fs::create_dir_all(p)?;
    }
    fs::write(path, text)?;
    Ok(true)
}

pub fn all() -> Vec<GenFile> {
    vec![safelong::emit(), uri::emit(), token::emit_token(), token::emit_rid(), bodies::emit("conjure-object/src/plain.rs", "PlainSrc"), wrap::emit(), bodies::emit("conjure-serde/src/json/ser.rs", "JsonSerSrc"), bodies::emit("conjure-serde/src/json/de/client.rs", "JsonDeSrc"), bodies::emit("conjure-serde/src/smile/ser.rs", "SmileSerSrc"), bodies::emit("conjure-serde/src/smile/de/client.rs", "SmileDeClientSrc"), bodies::emit("conjure-serde/src/smile/de/server.rs", "SmileDeServerSrc"), bodies::emit("conjure-serde/src/json/de/server.rs", "JsonDeServerSrc"), bodies::emit("conjure-serde/src/de/unknown_fields_behavior.rs", "UnknownFieldsSrc"), anyde::emit(), bodies::emit("conjure-object/src/any/de.rs", "AnyDeSrc"), bodies::emit("conjure-object/src/any/ser.rs", "AnySerSrc"), status::emit(), bodies::emit("conjure-error/src/ser.rs", "ErrorSerSrc"), bodies::emit("conjure-error/src/error.rs", "ErrorSrc"), bodies::emit("conjure-error/src/lib.rs", "ErrorLibSrc"), bodies::emit("conjure-object/src/private.rs", "ObjPrivateSrc"), bodies::emit("conjure-object/src/double_key.rs", "DoubleKeySrc"), paramnames::emit(), errorsites::emit(), hashmapuses::emit(), keywords::emit(), bodies::emit("conjure-codegen/src/objects.rs", "CodegenObjectsSrc"), bodies::emit("conjure-codegen/src/unions.rs", "CodegenUnionsSrc"), bodies::emit("conjure-codegen/src/aliases.rs", "CodegenAliasesSrc"), bodies::emit("conjure-codegen/src/enums.rs", "CodegenEnumsSrc"), bodies::emit("conjure-codegen/src/context.rs", "CodegenContextSrc"), bodies::emit("conjure-codegen/src/clients.rs", "CodegenClientsSrc"), bodies::emit("conjure-codegen/src/servers.rs", "CodegenServersSrc"), bodies::emit("conjure-codegen/src/http_paths.rs", "CodegenHttpPathsSrc"), bodies::emit("conjure-codegen/src/lib.rs", "CodegenLibSrc"), bodies::emit("conjure-rust/src/main.rs", "CliMainSrc"), bodies::emit("conjure-object/src/bearer_token/mod.rs", "BearerTokenSrc"), bodies::emit("conjure-macros/src/endpoints.rs", "MacroEndpointsSrc"), bodies::emit("conjure-macros/src/client.rs", "MacroClientSrc"), bodies::emit("conjure-macros/src/path.rs", "MacroPathSrc"), bodies::emit("conjure-http/src/private/server.rs", "PrivateServerSrc"), bodies::emit("conjure-http/src/server/mod.rs", "ServerModSrc"), bodies::emit("conjure-http/src/server/conjure.rs", "ServerConjureSrc")]
}

pub fn run(out_dir: &Path) -> Result<(), String> {
    for g in all() {
        let p = out_dir.join(format!("{}.lean", g.name));
        let changed = write_if_changed(&p, &g.text).map_err(|e| e.to_string())?;
        eprintln!("extract: {} {}", p.display(), if changed { "written" } else { "unchanged" });
    }
    Ok(())
}
