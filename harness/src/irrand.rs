//! Seeded random *valid* Conjure IR documents: any mix of aliases (of aliases), enums, objects, unions, errors and
//! services; optionals / collections nested to a bounded depth; recursion through optionals and collections;
//! doubles, binary and any at every legal position; several packages; Rust keywords and awkward spellings as field,
//! argument, endpoint and variant names.  Everything derives from one `Rng`.
use crate::util::Rng;
use serde_json::{json, Value};

pub const PACKAGES: [&str; 7] = ["com.palantir.verif", "com.palantir.verif.sub", "com.palantir.verif.sub.deep", "org.other.api", "com.palantir.verif.billing.common", "com.palantir.verif.orders.common", "com.palantir.other.sub"];

/// names that are Rust keywords or otherwise awkward once converted to snake_case / CamelCase
pub const FIELD_NAMES: [&str; 41] = [
    "type", "match", "async", "self", "loop", "ref", "box", "fn", "mod", "move", "use", "in", "as", "dyn", "impl", "trait", "struct", "enum", "union", "where", "while", "yield", "abstract", "become", "final", "macro", "override", "priv", "typeof", "unsized", "virtual", "static", "super", "crate", "const", "fieldName", "field2Name", "x", "valueWithACRONYMInside", "new", "gen",
];

#[derive(Clone, Debug, PartialEq)]
pub enum Kind {
    Alias,
    Enum,
    Object,
    Union,
}

pub struct Opts {
    pub max_types: usize,
    pub services: bool,
    pub errors: bool,
    pub keywords: bool,
    /// set items beyond the key-like ones: lists, maps and optionals (doubles among their leaves)
    pub rich_set_items: bool,
}

impl Default for Opts {
    fn default() -> Self {
        Opts { max_types: 8, services: true, errors: true, keywords: true, rich_set_items: false }
    }
}

struct G<'a> {
    rng: &'a mut Rng,
    kinds: Vec<Kind>,
    pkgs: Vec<usize>,
    /// alias targets that are known to be usable as map keys / plain parameters (index -> bool), filled lazily
    plain_alias: Vec<bool>,
    opt_alias: Vec<bool>,
    coll_alias: Vec<bool>,
    rich_set_items: bool,
}

fn tname(i: usize, pkg: &str) -> Value {
    json!({"name": format!("T{}Def", i), "package": pkg})
}

const PRIMS: [&str; 11] = ["STRING", "INTEGER", "SAFELONG", "DOUBLE", "BOOLEAN", "UUID", "RID", "BEARERTOKEN", "DATETIME", "BINARY", "ANY"];
const KEY_PRIMS: [&str; 9] = ["STRING", "INTEGER", "SAFELONG", "DOUBLE", "BOOLEAN", "UUID", "RID", "BEARERTOKEN", "DATETIME"];

impl<'a> G<'a> {
    fn prim(&mut self) -> Value {
        let p = json!({"type": "primitive", "primitive": PRIMS[self.rng.below(PRIMS.len())]});
        if self.rng.chance(1, 8) {
            // an imported (external) type: generated code uses its fallback
            let n = self.rng.below(3);
            json!({"type": "external", "external": {"externalReference": {"name": format!("Ext{}", n), "package": "java.lang"}, "fallback": p}})
        } else {
            p
        }
    }
    fn reference(&self, i: usize) -> Value {
        json!({"type": "reference", "reference": tname(i, PACKAGES[self.pkgs[i]])})
    }
    /// a type usable as a map key / set item with a total order, and as a PLAIN parameter
    fn key_ty(&mut self) -> Value {
        let enums: Vec<usize> = (0..self.kinds.len()).filter(|i| self.kinds[*i] == Kind::Enum || self.plain_alias[*i]).collect();
        if !enums.is_empty() && self.rng.chance(1, 4) {
            let i = enums[self.rng.below(enums.len())];
            self.reference(i)
        } else {
            let p = json!({"type": "primitive", "primitive": KEY_PRIMS[self.rng.below(KEY_PRIMS.len())]});
            if self.rng.chance(1, 6) {
                // an imported type as a key / set item / PLAIN parameter: the fallback's key form is what is generated
                let n = self.rng.below(3);
                json!({"type": "external", "external": {"externalReference": {"name": format!("ExtKey{}", n), "package": "java.lang"}, "fallback": p}})
            } else {
                p
            }
        }
    }
    /// any type; `no_opt`: not directly an optional (Conjure forbids optional<optional<T>>)
    fn ty(&mut self, depth: usize, no_opt: bool) -> Value {
        let n = self.kinds.len();
        let c = self.rng.below(if depth == 0 { 5 } else { 10 });
        match c {
            0..=2 => self.prim(),
            3 | 4 => {
                if n == 0 {
                    self.prim()
                } else {
                    let i = self.rng.below(n);
                    if no_opt && self.opt_alias[i] {
                        self.prim()
                    } else {
                        self.reference(i)
                    }
                }
            }
            5 if !no_opt => json!({"type": "optional", "optional": {"itemType": self.ty(depth - 1, true)}}),
            6 => json!({"type": "list", "list": {"itemType": self.ty(depth - 1, false)}}),
            7 if self.rich_set_items && self.rng.chance(1, 3) => {
                // any type may be a set item: a list, a map (its values are not keys), an optional
                let leaf = |g: &mut G| if g.rng.chance(1, 2) { json!({"type": "primitive", "primitive": "DOUBLE"}) } else { g.key_ty() };
                let item = match self.rng.below(5) {
                    0 => json!({"type": "list", "list": {"itemType": leaf(self)}}),
                    1 => { let k = self.key_ty(); let v = leaf(self); json!({"type": "map", "map": {"keyType": k, "valueType": v}}) }
                    2 => json!({"type": "optional", "optional": {"itemType": leaf(self)}}),
                    3 => { let k = self.key_ty(); let v = leaf(self); json!({"type": "map", "map": {"keyType": k, "valueType": {"type": "optional", "optional": {"itemType": v}}}}) }
                    _ => { let k = self.key_ty(); let v = leaf(self); json!({"type": "list", "list": {"itemType": {"type": "map", "map": {"keyType": k, "valueType": v}}}}) }
                };
                json!({"type": "set", "set": {"itemType": item}})
            }
            7 => json!({"type": "set", "set": {"itemType": self.key_ty()}}),
            8 => {
                let k = self.key_ty();
                let v = self.ty(depth - 1, false);
                json!({"type": "map", "map": {"keyType": k, "valueType": v}})
            }
            _ => self.prim(),
        }
    }
    /// a field type that cannot make the enclosing type infinitely large: a reference to a *later or same* object
    /// or union only under optional / list / set / map
    fn field_ty(&mut self, owner: usize, depth: usize) -> Value {
        let t = self.ty(depth, false);
        let t = self.guard(owner, t);
        if self.rng.chance(1, 6) && t["type"] != "external" {
            // an imported type whose fallback is an optional / a collection / anything: generated code uses the fallback
            let n = self.rng.below(3);
            json!({"type": "external", "external": {"externalReference": {"name": format!("ExtWrap{}", n), "package": "java.util"}, "fallback": t}})
        } else {
            t
        }
    }
    fn guard(&mut self, owner: usize, t: Value) -> Value {
        // direct (unboxed by the language) containment of types with index >= owner could close a cycle with
        // no indirection at the IR level; that is legal Conjure only when the cycle passes an optional or a
        // collection, so wrap such references in an optional
        if t["type"] == "reference" {
            let name = t["reference"]["name"].as_str().unwrap_or("");
            let idx: usize = name.trim_start_matches('T').trim_end_matches("Def").parse().unwrap_or(0);
            if idx >= owner && matches!(self.kinds[idx], Kind::Object | Kind::Union | Kind::Alias) && !self.opt_alias[idx] && !self.coll_alias[idx] {
                return json!({"type": "optional", "optional": {"itemType": t}});
            }
        }
        t
    }
    fn name(&mut self, i: usize, used: &mut Vec<String>, keywords: bool) -> String {
        for _ in 0..20 {
            let n = if keywords && self.rng.chance(1, 2) { FIELD_NAMES[self.rng.below(FIELD_NAMES.len())].to_string() } else { format!("f{}{}", i, ["", "Value", "Of2Things"][self.rng.below(3)]) };
            let norm: String = n.to_ascii_lowercase().chars().filter(|c| *c != '_').collect();
            if !used.contains(&norm) {
                used.push(norm);
                return n;
            }
        }
        let n = format!("uniq{}x{}", i, used.len());
        used.push(n.clone());
        n
    }
}

/// builds one document; the second component lists (type index, kind, package) for callers that need it
pub fn random_ir(rng: &mut Rng, opts: &Opts) -> Value {
    let n = 2 + rng.below(opts.max_types.max(3) - 1);
    let mut kinds = vec![];
    let mut pkgs = vec![];
    for _ in 0..n {
        kinds.push([Kind::Alias, Kind::Enum, Kind::Object, Kind::Object, Kind::Union][rng.below(5)].clone());
        pkgs.push(rng.below(PACKAGES.len()));
    }
    let mut g = G { rng, kinds: kinds.clone(), pkgs: pkgs.clone(), plain_alias: vec![false; n], opt_alias: vec![false; n], coll_alias: vec![false; n], rich_set_items: opts.rich_set_items };
    // decide alias targets first (aliases may point at aliases with a smaller index only, so chains terminate)
    let mut alias_ty: Vec<Option<Value>> = vec![None; n];
    for i in 0..n {
        if kinds[i] != Kind::Alias {
            continue;
        }
        let c = g.rng.below(8);
        let earlier_alias: Vec<usize> = (0..i).filter(|j| kinds[*j] == Kind::Alias).collect();
        let t = match c {
            0 | 1 => {
                let p = KEY_PRIMS[g.rng.below(KEY_PRIMS.len())];
                g.plain_alias[i] = true;
                json!({"type": "primitive", "primitive": p})
            }
            2 if !earlier_alias.is_empty() => {
                let j = earlier_alias[g.rng.below(earlier_alias.len())];
                g.plain_alias[i] = g.plain_alias[j];
                g.opt_alias[i] = g.opt_alias[j];
                g.coll_alias[i] = g.coll_alias[j];
                g.reference(j)
            }
            3 => {
                g.opt_alias[i] = true;
                let inner = g.ty(1, true);
                json!({"type": "optional", "optional": {"itemType": inner}})
            }
            4 => {
                g.coll_alias[i] = true;
                let inner = g.ty(1, false);
                json!({"type": "list", "list": {"itemType": inner}})
            }
            5 => {
                g.coll_alias[i] = true;
                let k = g.key_ty();
                let v = g.ty(1, false);
                json!({"type": "map", "map": {"keyType": k, "valueType": v}})
            }
            6 => {
                let p = ["BINARY", "ANY", "DOUBLE"][g.rng.below(3)];
                json!({"type": "primitive", "primitive": p})
            }
            _ => {
                // an object / enum / union declared earlier
                let earlier: Vec<usize> = (0..i).filter(|j| kinds[*j] != Kind::Alias).collect();
                if earlier.is_empty() {
                    g.plain_alias[i] = true;
                    json!({"type": "primitive", "primitive": "STRING"})
                } else {
                    let j = earlier[g.rng.below(earlier.len())];
                    g.plain_alias[i] = kinds[j] == Kind::Enum;
                    g.reference(j)
                }
            }
        };
        // an alias whose target mentions a later type could form an unguarded cycle: aliases only look backwards
        let t = strip_forward(&t, i);
        alias_ty[i] = Some(t);
    }
    let mut types = vec![];
    for i in 0..n {
        let tn = tname(i, PACKAGES[pkgs[i]]);
        let def = match kinds[i] {
            Kind::Alias => json!({"type": "alias", "alias": {"typeName": tn, "alias": alias_ty[i].clone().unwrap()}}),
            Kind::Enum => {
                let k = 1 + g.rng.below(4);
                let pool = ["ONE", "TWO_2", "HTTP_2", "A", "VALUE_WITH_UNDERSCORES", "X9"];
                let start = g.rng.below(pool.len());
                let values: Vec<Value> = (0..k).map(|j| json!({"value": pool[(start + j) % pool.len()]})).collect();
                json!({"type": "enum", "enum": {"typeName": tn, "values": values}})
            }
            Kind::Object => {
                let k = g.rng.below(6);
                let mut used = vec![];
                let fields: Vec<Value> = (0..k)
                    .map(|j| {
                        let name = g.name(j, &mut used, opts.keywords);
                        let t = g.field_ty(i, 2);
                        json!({"fieldName": name, "type": t})
                    })
                    .collect();
                json!({"type": "object", "object": {"typeName": tn, "fields": fields}})
            }
            Kind::Union => {
                let k = g.rng.below(5);
                let mut used = vec!["type".to_string()];
                let fields: Vec<Value> = (0..k)
                    .map(|j| {
                        let name = g.name(j, &mut used, opts.keywords);
                        let t = g.field_ty(i, 2);
                        json!({"fieldName": name, "type": t})
                    })
                    .collect();
                json!({"type": "union", "union": {"typeName": tn, "union": fields}})
            }
        };
        types.push(def);
    }
    let mut errors = vec![];
    if opts.errors {
        for e in 0..g.rng.below(3) {
            let mut used = vec![];
            let mk = |g: &mut G, used: &mut Vec<String>, j: usize| {
                let name = g.name(j, used, opts.keywords);
                let t = g.ty(1, false);
                json!({"fieldName": name, "type": t})
            };
            let sa: Vec<Value> = (0..g.rng.below(3)).map(|j| mk(&mut g, &mut used, j)).collect();
            let ua: Vec<Value> = (0..g.rng.below(3)).map(|j| mk(&mut g, &mut used, j + 10)).collect();
            let code = ["INVALID_ARGUMENT", "NOT_FOUND", "INTERNAL", "CONFLICT"][g.rng.below(4)];
            let pkg = PACKAGES[g.rng.below(PACKAGES.len())];
            errors.push(json!({"errorName": {"name": format!("Err{}Thing", e), "package": pkg}, "namespace": "Verif", "code": code, "safeArgs": sa, "unsafeArgs": ua}));
        }
    }
    let mut services = vec![];
    if opts.services {
        for s in 0..g.rng.below(3) {
            let mut eps = vec![];
            let mut used_ep = vec![];
            for e in 0..(1 + g.rng.below(4)) {
                let ename = g.name(e, &mut used_ep, opts.keywords);
                let mut used = vec![];
                let mut args = vec![];
                let mut path = format!("/s{}/e{}", s, e);
                let n_path = g.rng.below(3);
                for a in 0..n_path {
                    let an = g.name(a, &mut used, opts.keywords);
                    // a regular expression on the parameter (`{name:regex}`), mostly on the last one
                    let regex = if g.rng.chance(1, if a + 1 == n_path { 3 } else { 8 }) { [":.+", ":.*", ":[a-z0-9]+"][g.rng.below(3)] } else { "" };
                    path.push_str(&format!("/{{{}{}}}", an, regex));
                    let t = g.key_ty();
                    args.push(json!({"argName": an, "type": t, "paramType": {"type": "path", "path": {}}, "markers": [], "tags": []}));
                }
                for a in 0..g.rng.below(3) {
                    let an = g.name(a + 5, &mut used, opts.keywords);
                    let kt = g.key_ty();
                    let t = match g.rng.below(4) {
                        0 => kt,
                        1 => json!({"type": "optional", "optional": {"itemType": kt}}),
                        2 => json!({"type": "list", "list": {"itemType": kt}}),
                        _ => json!({"type": "set", "set": {"itemType": kt}}),
                    };
                    let mut arg = json!({"argName": an, "type": t, "paramType": {"type": "query", "query": {"paramId": format!("q{}", a)}}, "markers": [], "tags": []});
                    if g.rng.chance(1, 3) {
                        arg["safety"] = json!(["SAFE", "UNSAFE", "DO_NOT_LOG"][g.rng.below(3)]);
                    }
                    args.push(arg);
                }
                for a in 0..g.rng.below(2) {
                    let an = g.name(a + 10, &mut used, opts.keywords);
                    let kt = g.key_ty();
                    let t = if g.rng.chance(1, 2) { kt } else { json!({"type": "optional", "optional": {"itemType": kt}}) };
                    args.push(json!({"argName": an, "type": t, "paramType": {"type": "header", "header": {"paramId": format!("X-Header-{}", a)}}, "markers": [], "tags": []}));
                }
                let method = ["GET", "POST", "PUT", "DELETE"][g.rng.below(4)];
                if method != "GET" && g.rng.chance(2, 3) {
                    let an = g.name(20, &mut used, opts.keywords);
                    let t = match g.rng.below(4) {
                        0 => json!({"type": "primitive", "primitive": "BINARY"}),
                        _ => g.ty(2, false),
                    };
                    args.push(json!({"argName": an, "type": t, "paramType": {"type": "body", "body": {}}, "markers": [], "tags": []}));
                }
                let mut ep = json!({"endpointName": ename, "httpMethod": method, "httpPath": path, "args": args, "markers": [], "tags": if g.rng.chance(1, 5) { json!(["server-request-context"]) } else { json!([]) }});
                match g.rng.below(5) {
                    0 => {}
                    1 => ep["returns"] = json!({"type": "primitive", "primitive": "BINARY"}),
                    2 => ep["returns"] = json!({"type": "optional", "optional": {"itemType": {"type": "primitive", "primitive": "BINARY"}}}),
                    _ => ep["returns"] = g.ty(2, false),
                }
                match g.rng.below(3) {
                    0 => ep["auth"] = json!({"type": "header", "header": {}}),
                    1 => {
                        let cn = ["sess", "Sess_Tok", "SESSION-ID"][g.rng.below(3)];
                        ep["auth"] = json!({"type": "cookie", "cookie": {"cookieName": cn}})
                    }
                    _ => {}
                }
                eps.push(ep);
            }
            services.push(json!({"serviceName": {"name": format!("Svc{}Api", s), "package": PACKAGES[g.rng.below(PACKAGES.len())]}, "endpoints": eps}));
        }
    }
    json!({"version": 1, "errors": errors, "types": types, "services": services, "extensions": {}})
}

/// replaces references to types with index >= `i` by a string (aliases only look backwards)
fn strip_forward(t: &Value, i: usize) -> Value {
    match t["type"].as_str().unwrap_or("") {
        "reference" => {
            let name = t["reference"]["name"].as_str().unwrap_or("");
            let idx: usize = name.trim_start_matches('T').trim_end_matches("Def").parse().unwrap_or(0);
            if idx >= i {
                json!({"type": "primitive", "primitive": "STRING"})
            } else {
                t.clone()
            }
        }
        "optional" => json!({"type": "optional", "optional": {"itemType": strip_forward(&t["optional"]["itemType"], i)}}),
        "list" => json!({"type": "list", "list": {"itemType": strip_forward(&t["list"]["itemType"], i)}}),
        "set" => json!({"type": "set", "set": {"itemType": strip_forward(&t["set"]["itemType"], i)}}),
        "map" => json!({"type": "map", "map": {"keyType": strip_forward(&t["map"]["keyType"], i), "valueType": strip_forward(&t["map"]["valueType"], i)}}),
        _ => t.clone(),
    }
}
