//! C11 — content negotiation: real `ConjureRuntime::{response,request}_body_encoding` against the
//! model and against a declarative oracle written from the property statement.
use crate::run::{guarded, Cases, Tier};
use crate::util::{hex, Rng};
use conjure_http::server::{ConjureRuntime, DeserializerState, Encoding, JsonEncoding, SerializerState};
use http::header::{ACCEPT, CONTENT_TYPE};
use http::{HeaderMap, HeaderValue};
use mediatype::{names, MediaType, MediaTypeList, ReadParams};
use std::collections::BTreeMap;

struct Dummy(String);

impl Encoding for Dummy {
    fn content_type(&self) -> HeaderValue {
        HeaderValue::from_str(&self.0).unwrap()
    }
    fn serializer<'a>(&self, w: &'a mut Vec<u8>) -> Box<dyn SerializerState<'a> + 'a> {
        JsonEncoding.serializer(w)
    }
    fn deserializer<'a>(&self, buf: &'a [u8]) -> Box<dyn DeserializerState<'a> + 'a> {
        JsonEncoding.deserializer(buf)
    }
}

const ENC_POOL: [&str; 5] = ["application/json", "application/x-jackson-smile", "text/x", "text/plain", "application/vnd.foo+json"];

struct Names(BTreeMap<String, usize>);
impl Names {
    fn id(&mut self, s: &str) -> usize {
        if s == "*" {
            return 0;
        }
        let k = s.to_ascii_lowercase();
        let n = self.0.len() + 1;
        *self.0.entry(k).or_insert(n)
    }
    fn opt(&mut self, s: Option<&str>) -> usize {
        match s {
            Some(s) => 1000 + self.id(s),
            None => 0,
        }
    }
}

#[derive(Clone, Debug)]
struct R {
    ty: usize,
    sub: usize,
    suf: usize,
    np: usize,
    q: Option<String>,
    idx: usize,
}

fn tokenise(lines: &[String], names: &mut Names) -> Vec<R> {
    let mut out = vec![];
    for l in lines {
        let hv = match HeaderValue::from_str(l) {
            Ok(h) => h,
            Err(_) => continue,
        };
        let s = match hv.to_str() {
            Ok(s) => s.to_string(),
            Err(_) => continue,
        };
        for m in MediaTypeList::new(&s).filter_map(Result::ok) {
            let idx = out.len();
            out.push(R {
                ty: names.id(m.ty.as_str()),
                sub: names.id(m.subty.as_str()),
                suf: names.opt(m.suffix.as_ref().map(|s| s.as_str())),
                np: m.params.iter().filter(|(k, _)| *k != names::Q).count(),
                q: m.get_param(names::Q).map(|v| v.as_str().to_string()),
                idx,
            });
        }
    }
    out
}

fn enc_ids(ct: &str, names: &mut Names) -> (usize, usize, usize) {
    let m = MediaType::parse(ct).unwrap();
    (names.id(m.ty.as_str()), names.id(m.subty.as_str()), names.opt(m.suffix.as_ref().map(|s| s.as_str())))
}

/// RFC 9110 qvalue in thousandths; anything else counts as 1 (what the statement calls q-values
/// "with up to three decimals"; malformed weights are ignored)
fn spec_q(q: &Option<String>) -> u32 {
    let s = match q {
        Some(s) => s.as_str(),
        None => return 1000,
    };
    let b = s.as_bytes();
    let ok = !b.is_empty() && (b[0] == b'0' || b[0] == b'1') && (b.len() == 1 || (b[1] == b'.' && b.len() <= 5 && b[2..].iter().all(|c| c.is_ascii_digit())));
    if !ok {
        return 1000;
    }
    let mut v = if b[0] == b'1' { 1000 } else { 0 };
    let mut w = 100;
    for c in b.iter().skip(2) {
        v += (c - b'0') as u32 * w;
        w /= 10;
    }
    v
}

/// declarative oracle: which registered encodings are permitted, and which of them is optimal
fn oracle(rs: &[R], encs: &[(usize, usize, usize)]) -> Option<usize> {
    let rs: Vec<R> = if rs.is_empty() { vec![R { ty: 0, sub: 0, suf: 0, np: 0, q: None, idx: 0 }] } else { rs.to_vec() };
    let mut best: Option<(u32, usize, usize)> = None; // (q, idx, position)
    for (pos, e) in encs.iter().enumerate() {
        // most specific matching range; ties by quality then by position in the header
        let mut top: Option<(&R, (bool, bool, usize), u32)> = None;
        for r in &rs {
            let m = (r.ty == 0 && r.sub == 0 && r.suf == 0) || (r.ty == e.0 && r.sub == 0) || (r.ty == e.0 && r.sub == e.1 && r.suf == e.2);
            if !m {
                continue;
            }
            let spec = (r.ty != 0, r.sub != 0, r.np);
            let q = spec_q(&r.q);
            let better = match &top {
                None => true,
                Some((t, ts, tq)) => spec > *ts || (spec == *ts && (q > *tq || (q == *tq && r.idx < t.idx))),
            };
            if better {
                top = Some((r, spec, q));
            }
        }
        if let Some((r, _, q)) = top {
            if q != 0 {
                let cand = (q, r.idx, pos);
                let better = match best {
                    None => true,
                    Some((bq, bi, _)) => q > bq || (q == bq && r.idx < bi),
                };
                if better {
                    best = Some(cand);
                }
            }
        }
    }
    best.map(|b| b.2)
}

fn q_spelling(v: u32, style: usize) -> String {
    match (v, style % 4) {
        (1000, 0) => "1".into(),
        (1000, 1) => "1.0".into(),
        (1000, 2) => "1.00".into(),
        (1000, _) => "1.000".into(),
        (v, s) => {
            let full = format!("0.{:03}", v);
            let trimmed = full.trim_end_matches('0').to_string();
            match s {
                0 => full,
                1 => if trimmed == "0." { "0".into() } else { trimmed },
                2 => if v % 10 == 0 { format!("0.{:02}", v / 10) } else { full },
                _ => if trimmed == "0." { "0.".into() } else { trimmed },
            }
        }
    }
}

fn negotiate_case(cs: &mut Cases, class: &str, encs: &[&str], lines: &[String]) {
    let mut names = Names(BTreeMap::new());
    let eids: Vec<(usize, usize, usize)> = encs.iter().map(|e| enc_ids(e, &mut names)).collect();
    let rs = tokenise(lines, &mut names);
    let encs_owned: Vec<String> = encs.iter().map(|s| s.to_string()).collect();
    let lines_owned: Vec<String> = lines.to_vec();
    let real = guarded(move || {
        let mut b = ConjureRuntime::builder();
        for e in &encs_owned {
            b = b.encoding(Dummy(e.clone()));
        }
        let rt = b.build();
        let mut h = HeaderMap::new();
        for l in &lines_owned {
            if let Ok(v) = HeaderValue::from_str(l) {
                h.append(ACCEPT, v);
            }
        }
        match rt.response_body_encoding(&h) {
            Ok(e) => {
                let ct = e.content_type();
                encs_owned.iter().position(|x| x.as_bytes() == ct.as_bytes())
            }
            Err(_) => None,
        }
    });
    let enc_txt = if eids.is_empty() { "-".to_string() } else { eids.iter().map(|e| format!("{}.{}.{}", e.0, e.1, e.2)).collect::<Vec<_>>().join(",") };
    let rs_txt = if rs.is_empty() { "-".to_string() } else { rs.iter().map(|r| format!("{}.{}.{}.{}.{}", r.ty, r.sub, r.suf, r.np, r.q.as_ref().map(|q| hex(q.as_bytes())).unwrap_or_else(|| "none".into()))).collect::<Vec<_>>().join(",") };
    let op = format!("neg {} {}", enc_txt, rs_txt);
    let note = format!("encodings {:?}, Accept {:?}", encs, lines);
    match real {
        Err(p) => {
            cs.push(class, op, "panic".into(), true, note);
            cs.fail_last("negotiate:panic", p);
        }
        Ok(choice) => {
            let out = match choice {
                Some(i) => format!("ok {}", i),
                None => "none".into(),
            };
            cs.push(class, op, out, rs.len() > 1 || rs.iter().any(|r| r.q.is_some()), note);
            let want = oracle(&rs, &eids);
            if choice != want {
                let key = match (choice, want) {
                    (None, Some(_)) => "negotiate:none-chosen-though-permitted",
                    (Some(_), None) => "negotiate:chosen-though-none-permitted",
                    _ => "negotiate:not-optimal",
                };
                cs.fail_last(key, format!("chose {:?} ({:?}), the statement prescribes {:?} ({:?}); ranges {:?}", choice, choice.map(|i| encs[i]), want, want.map(|i| encs[i]), rs));
            }
        }
    }
}

fn request_case(cs: &mut Cases, encs: &[&str], ct: Option<&str>) {
    let mut names = Names(BTreeMap::new());
    let eids: Vec<(usize, usize, usize)> = encs.iter().map(|e| enc_ids(e, &mut names)).collect();
    let parsed = ct.and_then(|c| HeaderValue::from_str(c).ok()).and_then(|h| h.to_str().ok().map(|s| s.to_string())).and_then(|s| MediaType::parse(&s).ok().map(|m| (names.id(m.ty.as_str()), names.id(m.subty.as_str()), names.opt(m.suffix.as_ref().map(|s| s.as_str())))));
    let encs_owned: Vec<String> = encs.iter().map(|s| s.to_string()).collect();
    let ct_owned = ct.map(|s| s.to_string());
    let real = guarded(move || {
        let mut b = ConjureRuntime::builder();
        for e in &encs_owned {
            b = b.encoding(Dummy(e.clone()));
        }
        let rt = b.build();
        let mut h = HeaderMap::new();
        if let Some(c) = &ct_owned {
            if let Ok(v) = HeaderValue::from_str(c) {
                h.insert(CONTENT_TYPE, v);
            }
        }
        match rt.request_body_encoding(&h) {
            Ok(e) => {
                let ct = e.content_type();
                encs_owned.iter().position(|x| x.as_bytes() == ct.as_bytes())
            }
            Err(_) => None,
        }
    });
    let enc_txt = eids.iter().map(|e| format!("{}.{}.{}", e.0, e.1, e.2)).collect::<Vec<_>>().join(",");
    // an absent or untokenisable Content-Type is a type that equals no registered one
    let ct_txt = match parsed {
        Some(p) => format!("{}.{}.{}", p.0, p.1, p.2),
        None => "99999.99999.0".to_string(),
    };
    let note = format!("encodings {:?}, Content-Type {:?}", encs, ct);
    match real {
        Err(p) => {
            cs.push("request", format!("req {} {}", enc_txt, ct_txt), "panic".into(), true, note);
            cs.fail_last("request:panic", p);
        }
        Ok(choice) => {
            let out = match choice {
                Some(i) => format!("ok {}", i),
                None => "none".into(),
            };
            cs.push("request", format!("req {} {}", enc_txt, ct_txt), out, true, note);
            let want = parsed.and_then(|p| eids.iter().position(|e| *e == p));
            if choice != want {
                cs.fail_last("request:wrong-encoding", format!("Content-Type {:?} decoded with {:?}, the statement prescribes {:?}", ct, choice.map(|i| encs[i]), want.map(|i| encs[i])));
            }
        }
    }
}

/// the deserializers generated endpoints use for bodies, with runtimes registering JSON and / or Smile: a body is
/// decoded only with the registered encoding the Content-Type names, an optional body is absent only when there is no
/// Content-Type at all, and everything else is rejected
fn body_decoders_case(cs: &mut Cases, ct: Option<&str>) {
    use conjure_http::server::conjure::OptionalRequestDeserializer;
    use conjure_http::server::{DeserializeRequest, JsonEncoding, SmileEncoding, StdRequestDeserializer};
    let essence = ct.and_then(|c| HeaderValue::from_str(c).ok()).and_then(|h| h.to_str().ok().map(|s| s.to_string())).and_then(|s| MediaType::parse(&s).ok().map(|m| m.essence().to_string().to_ascii_lowercase()));
    let named: Option<u8> = match essence.as_deref() {
        Some("application/json") => Some(0),
        Some("application/x-jackson-smile") => Some(1),
        _ => None,
    };
    let bodies: [(u8, Vec<u8>); 2] = [(0, b"[1]".to_vec()), (1, serde_smile::to_vec(&vec![1]).unwrap())];
    for regs in [&[0u8, 1][..], &[0u8][..], &[1u8][..], &[1u8, 0][..]] {
        for (bk, body) in &bodies {
            let (ct2, regs2, body2) = (ct.map(|s| s.to_string()), regs.to_vec(), body.clone());
            let r = guarded(move || {
                let mut b = ConjureRuntime::builder();
                for e in &regs2 {
                    b = if *e == 0 { b.encoding(JsonEncoding) } else { b.encoding(SmileEncoding) };
                }
                let rt = b.build();
                let mut h = HeaderMap::new();
                if let Some(c) = &ct2 {
                    if let Ok(v) = HeaderValue::from_str(c) {
                        h.insert(CONTENT_TYPE, v);
                    }
                }
                let it = || vec![Ok::<_, conjure_error::Error>(bytes::Bytes::from(body2.clone()))].into_iter();
                let std: Result<Vec<i32>, String> = <StdRequestDeserializer as DeserializeRequest<Vec<i32>, _>>::deserialize(&rt, &h, it()).map_err(|e| e.cause().to_string());
                let opt: Result<Option<Vec<i32>>, String> = <OptionalRequestDeserializer as DeserializeRequest<Option<Vec<i32>>, _>>::deserialize(&rt, &h, it()).map_err(|e| e.cause().to_string());
                (std, opt)
            });
            cs.push("body-decoders", "noop".into(), "noop".into(), true, format!("runtime registering {:?} (0 = JSON, 1 = Smile), Content-Type {:?}, a {} body", regs, ct, if *bk == 0 { "JSON" } else { "Smile" }));
            match r {
                Err(p) => cs.fail_last("request:panic", p),
                Ok((std, opt)) => {
                    let decodes = named.map(|n| regs.contains(&n) && n == *bk).unwrap_or(false);
                    if decodes != (std == Ok(vec![1])) || (!decodes && std.is_ok()) {
                        cs.fail_last("request:std-deserializer", format!("StdRequestDeserializer with {:?} registered, Content-Type {:?} and a {} body gives {:?}", regs, ct, if *bk == 0 { "JSON" } else { "Smile" }, std));
                    } else if ct.is_none() {
                        if opt != Ok(None) {
                            cs.fail_last("request:optional-deserializer", format!("OptionalRequestDeserializer without a Content-Type gives {:?}, not an absent body", opt));
                        }
                    } else if decodes != (opt == Ok(Some(vec![1]))) || (!decodes && opt.is_ok()) {
                        cs.fail_last("request:optional-deserializer", format!("OptionalRequestDeserializer with {:?} registered, Content-Type {:?} and a {} body gives {:?} (a Content-Type that names no registered encoding is rejected, not read as an absent body)", regs, ct, if *bk == 0 { "JSON" } else { "Smile" }, opt));
                    }
                }
            }
        }
    }
}

fn enc_sets(rng: &mut Rng) -> Vec<&'static str> {
    let n = 1 + rng.below(3);
    let mut v: Vec<&'static str> = vec![];
    while v.len() < n {
        let e = *rng.pick(&ENC_POOL);
        if !v.contains(&e) {
            v.push(e);
        }
    }
    v
}

fn random_range(rng: &mut Rng) -> String {
    let types = ["application/json", "application/x-jackson-smile", "text/x", "text/plain", "application/vnd.foo+json", "image/png", "application/*", "text/*", "*/*", "*/json", "application/*+json", "APPLICATION/JSON", "Text/X", "application/vnd.foo", "application/foo+json"];
    let mut s = rng.pick(&types).to_string();
    for _ in 0..rng.below(3) {
        s.push_str(*rng.pick(&[";a=1", ";charset=utf-8", "; b=\"x y\"", ";level=2", " ;c=d"]));
    }
    match rng.below(10) {
        0..=3 => {}
        4..=7 => {
            let v = match rng.below(6) {
                0 => 0,
                1 => 1000,
                2 => 500,
                3 => 1,
                _ => rng.below(1001) as u32,
            };
            let sep = *rng.pick(&[";q=", "; q=", ";Q=", " ; q="]);
            s.push_str(&format!("{}{}", sep, q_spelling(v, rng.below(4))));
        }
        _ => s.push_str(*rng.pick(&[";q=1.5", ";q=0.0001", ";q=2", ";q=abc", ";q=", ";q=.5", ";q=0.5x", ";q=-1", ";q=1.001", ";q=0,5", ";q=00.5", ";q=1.", ";q=0.٣"])),
    }
    if rng.chance(1, 4) {
        s.push_str(*rng.pick(&[";z=9", ";charset=x"]));
    }
    s
}

pub fn cases(seed: u64, tier: Tier) -> Cases {
    let mut rng = Rng::new(seed);
    let mut cs = Cases::new("C11");
    // the two table tests' shapes, all registration orders
    let fixed = ["application/json", "application/x-jackson-smile", "*/*", "application/*", "application/json;q=0", "*/*;q=0", "application/json;q=0.5, application/x-jackson-smile", "application/*;q=0.9, application/json;q=0.1", "*/*;q=0.1, application/x-jackson-smile;q=0", "text/plain", "", "garbage", "application/json;a=1;q=0, application/json", "application/*;q=0, */*", "text/*, application/json;q=0.001"];
    let orders: [&[&str]; 6] = [&["application/json", "application/x-jackson-smile"], &["application/x-jackson-smile", "application/json"], &["application/json"], &["text/x", "application/json", "application/x-jackson-smile"], &["application/vnd.foo+json", "application/json"], &["text/plain", "text/x"]];
    for f in fixed {
        for o in orders {
            negotiate_case(&mut cs, "fixed", o, &[f.to_string()]);
        }
    }
    // every way of making a runtime without naming encodings registers JSON (the default) and Smile
    for (how, make) in [("ConjureRuntime::new()", (|| ConjureRuntime::new()) as fn() -> ConjureRuntime), ("ConjureRuntime::default()", || ConjureRuntime::default()), ("ConjureRuntime::builder().build()", || ConjureRuntime::builder().build())] {
        let r = guarded(move || {
            let rt = make();
            let mut out = vec![];
            for accept in [None, Some("application/json"), Some("application/x-jackson-smile"), Some("*/*"), Some("text/plain")] {
                let mut h = HeaderMap::new();
                if let Some(a) = accept {
                    h.insert(ACCEPT, HeaderValue::from_static(a));
                }
                out.push(format!("Accept {:?} -> {:?}", accept, rt.response_body_encoding(&h).ok().map(|e| String::from_utf8_lossy(e.content_type().as_bytes()).to_string())));
            }
            for ct in ["application/json", "application/x-jackson-smile", "text/plain"] {
                let mut h = HeaderMap::new();
                h.insert(CONTENT_TYPE, HeaderValue::from_static(ct));
                out.push(format!("Content-Type {:?} -> {:?}", ct, rt.request_body_encoding(&h).ok().map(|e| String::from_utf8_lossy(e.content_type().as_bytes()).to_string())));
            }
            out.join("; ")
        });
        let want = "Accept None -> Some(\"application/json\"); Accept Some(\"application/json\") -> Some(\"application/json\"); Accept Some(\"application/x-jackson-smile\") -> Some(\"application/x-jackson-smile\"); Accept Some(\"*/*\") -> Some(\"application/json\"); Accept Some(\"text/plain\") -> None; Content-Type \"application/json\" -> Some(\"application/json\"); Content-Type \"application/x-jackson-smile\" -> Some(\"application/x-jackson-smile\"); Content-Type \"text/plain\" -> None";
        cs.push("default-runtime", "noop".into(), "noop".into(), true, format!("the encodings of {}", how));
        match r {
            Ok(got) if got == want => {}
            Ok(got) => cs.fail_last("default-runtime:encodings", format!("{} negotiates {}", how, got)),
            Err(p) => cs.fail_last("default-runtime:panic", p),
        }
    }
    for o in orders {
        negotiate_case(&mut cs, "no-accept", o, &[]);
    }
    // every q-value, three spellings, against its neighbours: pins the quality parser exactly
    let step = if tier == Tier::Quick { 1 } else { 1 };
    for v in (0u32..=1000).step_by(step) {
        for w in [v.saturating_sub(1), v, (v + 1).min(1000)] {
            let style = (v as usize + w as usize) % 4;
            let h = format!("text/x;q={}, application/json;q={}", q_spelling(v, style), q_spelling(w, style + 1));
            negotiate_case(&mut cs, "q-sweep", &["application/json", "text/x"], &[h]);
        }
    }
    // seeded headers from the grammar
    let n = if tier == Tier::Quick { 5000 } else { 100000 };
    for _ in 0..n {
        let encs = enc_sets(&mut rng);
        let nlines = if rng.chance(1, 5) { 2 } else { 1 };
        let mut lines = vec![];
        for _ in 0..nlines {
            let k = 1 + rng.below(6);
            let mut parts: Vec<String> = (0..k).map(|_| random_range(&mut rng)).collect();
            if rng.chance(1, 8) {
                parts.insert(rng.below(parts.len() + 1), rng.pick(&["", "foo", "a/b/c", "/", "text/", ";q=1"]).to_string());
            }
            lines.push(parts.join(*rng.pick(&[", ", ",", " , "])));
        }
        negotiate_case(&mut cs, "seeded", &encs, &lines);
    }
    // request side
    let cts = [Some("application/json+xml"), Some("application/x-jackson-smile+json"), Some("application/json+cbor; charset=utf-8"), Some("application/json+json"), Some("application/json"), Some("application/x-jackson-smile"), Some("application/json; charset=utf-8"), Some("APPLICATION/JSON"), Some("application/json;q=0"), Some("text/x"), Some("text/plain"), Some("application/*"), Some("*/*"), Some("application/vnd.foo+json"), Some("application/vnd.foo"), Some("application/foo+json"), Some("garbage"), Some(""), Some("application/json, text/x"), None, Some("application/jsonx"), Some(" application/json")];
    for ct in cts {
        body_decoders_case(&mut cs, ct);
        for o in orders {
            request_case(&mut cs, o, ct);
        }
        for _ in 0..3 {
            let encs = enc_sets(&mut rng);
            request_case(&mut cs, &encs, ct);
        }
    }
    cs
}

pub const RULE: &str = "15 fixed headers x 6 registration orders; absent Accept x 6 orders; every q-value 0..1000 in rotating spellings against its two neighbours and itself (3003 headers: pins the quality parser to the thousandth and the tie-break by position); seeded headers from a grammar (1-6 ranges from 15 range shapes incl. type/*, */*, */sub, suffixes, mixed case; 0-3 extra parameters; well-formed, boundary and 13 malformed q spellings; unparsable entries; 1-2 header lines) x seeded ordered subsets of 5 encodings; 22 Content-Type values (incl. registered types carrying a structured-syntax suffix) x 9 registrations. The harness tokenises with the same `mediatype` crate and numbers names; real = ConjureRuntime::{response,request}_body_encoding with dummy encodings; oracle = permitted/optimal computed from the statement. Non-trivial = more than one range or an explicit q; distinct = distinct operation lines.";
