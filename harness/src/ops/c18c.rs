//! C18, through the clients themselves: the generated `VerifServiceClient` / `VerifServiceAsyncClient` methods (one per
//! return-type class — the generator picks the decode function) and `#[conjure_client]` methods that use
//! `ConjureResponseDeserializer`, over a scripted `Client` that answers with a chosen status, Content-Type and chunked
//! body (optionally failing mid-stream).  Compared with the same model operation and the same oracle as the decode
//! functions: what the method returns must be what the return type's class prescribes.
use crate::ops::c06::{chunk_txt, classify, client_judge, joined, random_chunking, stream_err, verdict, vid, Chunk, Kind};
use crate::run::{guarded, Cases, Tier};
use crate::util::Rng;
use bytes::Bytes;
use conjure_error::Error;
use conjure_http::client::{AsyncClient, AsyncRequestBody, AsyncService, Client, ConjureResponseDeserializer, RequestBody, Service};
use conjure_http::endpoint;
use futures::executor::block_on;
use http::{HeaderValue, Request, Response, StatusCode};
use serde::de::DeserializeOwned;
use std::collections::{BTreeMap, BTreeSet};
use std::pin::Pin;
use std::task::{Context, Poll};
use verifgen::plain::*;

#[derive(Clone)]
struct Scripted {
    status: u16,
    ct: Option<String>,
    chunks: Vec<Chunk>,
}

pub struct ScriptBody(Vec<Chunk>);

impl Iterator for ScriptBody {
    type Item = Result<Bytes, Error>;
    fn next(&mut self) -> Option<Self::Item> {
        if self.0.is_empty() {
            return None;
        }
        Some(match self.0.remove(0) {
            Chunk::Ok(b) => Ok(Bytes::from(b)),
            Chunk::Err(e) => Err(stream_err(e)),
        })
    }
}

impl futures::Stream for ScriptBody {
    type Item = Result<Bytes, Error>;
    fn poll_next(mut self: Pin<&mut Self>, _: &mut Context<'_>) -> Poll<Option<Self::Item>> {
        Poll::Ready(self.next())
    }
}

impl Scripted {
    fn response(&self) -> Response<ScriptBody> {
        let mut r = Response::new(ScriptBody(self.chunks.clone()));
        *r.status_mut() = StatusCode::from_u16(self.status).unwrap();
        if let Some(c) = &self.ct {
            if let Ok(v) = HeaderValue::from_str(c) {
                r.headers_mut().insert(http::header::CONTENT_TYPE, v);
            }
        }
        r
    }
}

impl Client for Scripted {
    type BodyWriter = Vec<u8>;
    type ResponseBody = ScriptBody;
    fn send(&self, _: Request<RequestBody<'_, Vec<u8>>>) -> Result<Response<ScriptBody>, Error> {
        Ok(self.response())
    }
}

impl AsyncClient for Scripted {
    type BodyWriter = Vec<u8>;
    type ResponseBody = ScriptBody;
    async fn send(&self, _: Request<AsyncRequestBody<'_, Vec<u8>>>) -> Result<Response<ScriptBody>, Error> {
        Ok(self.response())
    }
}

#[conjure_http::conjure_client]
trait MacroJson {
    #[endpoint(method = GET, path = "/m/int", accept = ConjureResponseDeserializer)]
    fn int(&self) -> Result<i32, Error>;
    #[endpoint(method = GET, path = "/m/simple", accept = ConjureResponseDeserializer)]
    fn simple(&self) -> Result<Simple, Error>;
    #[endpoint(method = GET, path = "/m/list", accept = ConjureResponseDeserializer)]
    fn list(&self) -> Result<Vec<Simple>, Error>;
    #[endpoint(method = GET, path = "/m/map", accept = ConjureResponseDeserializer)]
    fn map(&self) -> Result<BTreeMap<String, Simple>, Error>;
    #[endpoint(method = GET, path = "/m/shape", accept = ConjureResponseDeserializer)]
    fn shape(&self) -> Result<Shape, Error>;
    #[endpoint(method = GET, path = "/m/shapes", accept = ConjureResponseDeserializer)]
    fn shapes(&self) -> Result<Vec<Shape>, Error>;
    #[endpoint(method = GET, path = "/m/token", accept = ConjureResponseDeserializer)]
    fn token(&self) -> Result<conjure_object::BearerToken, Error>;
}

#[conjure_http::conjure_client]
trait AsyncMacroJson {
    #[endpoint(method = GET, path = "/m/int", accept = ConjureResponseDeserializer)]
    async fn int(&self) -> Result<i32, Error>;
    #[endpoint(method = GET, path = "/m/simple", accept = ConjureResponseDeserializer)]
    async fn simple(&self) -> Result<Simple, Error>;
    #[endpoint(method = GET, path = "/m/list", accept = ConjureResponseDeserializer)]
    async fn list(&self) -> Result<Vec<Simple>, Error>;
    #[endpoint(method = GET, path = "/m/map", accept = ConjureResponseDeserializer)]
    async fn map(&self) -> Result<BTreeMap<String, Simple>, Error>;
    #[endpoint(method = GET, path = "/m/shape", accept = ConjureResponseDeserializer)]
    async fn shape(&self) -> Result<Shape, Error>;
    #[endpoint(method = GET, path = "/m/shapes", accept = ConjureResponseDeserializer)]
    async fn shapes(&self) -> Result<Vec<Shape>, Error>;
    #[endpoint(method = GET, path = "/m/token", accept = ConjureResponseDeserializer)]
    async fn token(&self) -> Result<conjure_object::BearerToken, Error>;
}

fn show(r: Result<String, Error>) -> String {
    match r {
        Ok(s) => s,
        Err(e) => {
            let c = classify(&e);
            if c.starts_with("stream") {
                c
            } else {
                "error".into()
            }
        }
    }
}

/// rendering of a returned serializable value: `default` for the empty value of a 204, else its id
fn val<T: std::fmt::Debug + Default + PartialEq>(status: u16, v: T) -> String {
    if status == 204 && v == T::default() {
        "default".into()
    } else {
        format!("value {}", vid(&v))
    }
}
fn val_nd<T: std::fmt::Debug>(v: T) -> String {
    format!("value {}", vid(&v))
}

struct Doc {
    text: &'static str,
    /// which return types it is (meant to be) a value of: i = integer, s = Simple, l = list of Simple, m = map to Simple,
    /// o = optional string, z = set of integers, u = the union `Shape`
    of: &'static str,
    /// return types for which the document is, by construction, NOT a value (whatever the type's own `Deserialize` says)
    not_of: &'static str,
}

const DOCS: [Doc; 28] = [
    // bearer tokens: padding (`=`) only at the end
    Doc { text: "\"abc\"", of: "t", not_of: "" },
    Doc { text: "\"a.b-c_d~e+f/g==\"", of: "t", not_of: "" },
    Doc { text: "\"=abc\"", of: "t", not_of: "t" },
    Doc { text: "\"==abc==\"", of: "t", not_of: "t" },
    Doc { text: "\"a=bc\"", of: "t", not_of: "t" },
    Doc { text: "\"=\"", of: "t", not_of: "t" },
    Doc { text: "7", of: "i", not_of: "" },
    Doc { text: "-2147483648", of: "i", not_of: "" },
    Doc { text: "{\"a\":1,\"b\":\"x\"}", of: "s", not_of: "" },
    Doc { text: "{\"b\":\"y\",\"a\":-3,\"addedInV2\":{\"k\":[1,{\"z\":null}]}}", of: "s", not_of: "" },
    Doc { text: "[{\"a\":1,\"b\":\"x\"},{\"a\":2,\"b\":\"\",\"extra\":true}]", of: "l", not_of: "" },
    Doc { text: "[]", of: "lz", not_of: "" },
    Doc { text: "{\"k\":{\"a\":1,\"b\":\"x\",\"more\":[[]]}}", of: "m", not_of: "" },
    Doc { text: "{}", of: "m", not_of: "" },
    Doc { text: "\"text\"", of: "o", not_of: "" },
    Doc { text: "null", of: "o", not_of: "" },
    Doc { text: "[3,1,2]", of: "z", not_of: "" },
    Doc { text: "{\"a\":1}", of: "s", not_of: "" },
    Doc { text: "{\"a\":\"1\",\"b\":\"x\"}", of: "s", not_of: "" },
    Doc { text: "[1,", of: "z", not_of: "" },
    Doc { text: "7 8", of: "i", not_of: "" },
    Doc { text: "true", of: "ios", not_of: "" },
    Doc { text: "{\"type\":\"label\",\"label\":\"x\"}", of: "u", not_of: "" },
    Doc { text: "{\"label\":\"x\",\"type\":\"label\"}", of: "u", not_of: "" },
    Doc { text: "{\"type\":\"foobar\",\"foobar\":[1]}", of: "u", not_of: "" },
    // the two member names of a union document must agree, whichever comes first and whether or not they are known
    Doc { text: "{\"bazqux\":1,\"type\":\"foobar\"}", of: "u", not_of: "u" },
    Doc { text: "{\"type\":\"foobar\",\"bazqux\":1}", of: "u", not_of: "u" },
    Doc { text: "{\"circle\":1.5,\"type\":\"label\"}", of: "u", not_of: "u" },
];

#[allow(clippy::too_many_arguments)]
fn one<T: DeserializeOwned + std::fmt::Debug>(cs: &mut Cases, what: &str, kind: Kind, sc: &Scripted, not_a_value: bool, sync: impl FnOnce(&Scripted) -> Result<String, Error> + std::panic::UnwindSafe, asy: impl FnOnce(&Scripted) -> Result<String, Error> + std::panic::UnwindSafe) {
    let body = joined(&sc.chunks);
    let v = if kind == Kind::Empty {
        verdict::<serde::de::IgnoredAny>(false, &body)
    } else if not_a_value {
        "x".to_string()
    } else {
        verdict::<T>(false, &body)
    };
    let (s1, s2) = (sc.clone(), sc.clone());
    let b = guarded(move || show(sync(&s1)));
    let a = guarded(move || show(asy(&s2)));
    let _ = chunk_txt;
    client_judge(cs, "via-client", what, kind, sc.status, sc.ct.as_deref(), &sc.chunks, &v, b, a);
}

pub fn add(cs: &mut Cases, rng: &mut Rng, tier: Tier) {
    let cts: [Option<&str>; 6] = [Some("application/json"), Some("application/json"), Some("application/octet-stream"), Some("application/x-jackson-smile"), None, Some("application/json; charset=utf-8")];
    let reps = if tier == Tier::Quick { 2 } else { 12 };
    for d in DOCS.iter() {
        for rep in 0..reps {
            for status in [200u16, 204] {
                let ct = cts[(rep + status as usize) % cts.len()];
                let body = d.text.as_bytes().to_vec();
                let mut chunks = match rep % 3 {
                    0 => vec![Chunk::Ok(body.clone())],
                    _ => random_chunking(rng, &body),
                };
                if rep % 4 == 3 {
                    let k = rng.below(chunks.len() + 1);
                    chunks.insert(k, Chunk::Err(5));
                }
                if status == 204 && rep % 2 == 0 {
                    chunks.clear();
                }
                let sc = Scripted { status, ct: ct.map(|s| s.to_string()), chunks };
                let tok: conjure_object::BearerToken = "t".parse().unwrap();
                let simple = Simple::new(1, "x");
                let gs = |s: &Scripted| VerifServiceClient::new(s.clone());
                let ga = |s: &Scripted| VerifServiceAsyncClient::new(s.clone());
                // generated clients, one method per return-type class
                if d.of.contains('i') {
                    one::<i32>(cs, "generated safeBody -> integer", Kind::Ser, &sc, false, |s| gs(s).safe_body(1).map(val_nd), |s| block_on(ga(s).safe_body(1)).map(val_nd));
                    one::<i32>(cs, "generated noRet -> nothing", Kind::Empty, &sc, false, |s| gs(s).no_ret(None, "h").map(|_| "unit".to_string()), |s| block_on(ga(s).no_ret(None, "h")).map(|_| "unit".to_string()));
                    one::<i32>(cs, "macro int -> i32", Kind::Ser, &sc, false, |s| MacroJsonClient::new(s.clone()).int().map(val_nd), |s| block_on(AsyncMacroJsonClient::new(s.clone()).int()).map(val_nd));
                }
                if d.of.contains('s') {
                    let (t1, t2, b1, b2) = (tok.clone(), tok.clone(), simple.clone(), simple.clone());
                    one::<Simple>(cs, "generated body -> object", Kind::Ser, &sc, false, move |s| gs(s).body(&t1, &b1).map(val_nd), move |s| block_on(ga(s).body(&t2, &b2)).map(val_nd));
                    one::<Option<Simple>>(cs, "generated optBody -> optional<object>", Kind::DefSer, &sc, false, |s| gs(s).opt_body(None).map(|v| val(s.status, v)), |s| block_on(ga(s).opt_body(None)).map(|v| val(s.status, v)));
                    one::<Simple>(cs, "macro simple -> Simple", Kind::Ser, &sc, false, |s| MacroJsonClient::new(s.clone()).simple().map(val_nd), |s| block_on(AsyncMacroJsonClient::new(s.clone()).simple()).map(val_nd));
                    one::<Simple>(cs, "generated noRet -> nothing", Kind::Empty, &sc, false, |s| gs(s).no_ret(None, "h").map(|_| "unit".to_string()), |s| block_on(ga(s).no_ret(None, "h")).map(|_| "unit".to_string()));
                }
                if d.of.contains('l') {
                    one::<Vec<Simple>>(cs, "macro list -> Vec<Simple>", Kind::Ser, &sc, false, |s| MacroJsonClient::new(s.clone()).list().map(val_nd), |s| block_on(AsyncMacroJsonClient::new(s.clone()).list()).map(val_nd));
                    one::<ListAlias>(cs, "generated listAliasRet -> alias of list<integer>", Kind::DefSer, &sc, false, |s| gs(s).list_alias_ret(1).map(|v| val(s.status, v)), |s| block_on(ga(s).list_alias_ret(1)).map(|v| val(s.status, v)));
                }
                if d.of.contains('m') {
                    one::<BTreeMap<String, Simple>>(cs, "macro map -> BTreeMap<String, Simple>", Kind::Ser, &sc, false, |s| MacroJsonClient::new(s.clone()).map().map(val_nd), |s| block_on(AsyncMacroJsonClient::new(s.clone()).map()).map(val_nd));
                    one::<BTreeMap<String, i32>>(cs, "generated mapRet -> map<string, integer>", Kind::DefSer, &sc, false, |s| gs(s).map_ret(1, &[]).map(|v| val(s.status, v)), |s| block_on(ga(s).map_ret(1, &[])).map(|v| val(s.status, v)));
                    one::<MapAlias>(cs, "generated mapAliasRet -> alias of map<string, double>", Kind::DefSer, &sc, false, |s| gs(s).map_alias_ret(1).map(|v| val(s.status, v)), |s| block_on(ga(s).map_alias_ret(1)).map(|v| val(s.status, v)));
                }
                if d.of.contains('o') {
                    one::<Option<String>>(cs, "generated ctx -> optional<string>", Kind::DefSer, &sc, false, |s| gs(s).ctx("f", None).map(|v| val(s.status, v)), |s| block_on(ga(s).ctx("f", None)).map(|v| val(s.status, v)));
                    one::<OptStrAlias>(cs, "generated optAliasRet -> alias of optional<string>", Kind::DefSer, &sc, false, |s| gs(s).opt_alias_ret(1).map(|v| val(s.status, v)), |s| block_on(ga(s).opt_alias_ret(1)).map(|v| val(s.status, v)));
                    one::<String>(cs, "generated mixed -> string", Kind::Ser, &sc, false, {
                        let t = tok.clone();
                        move |s| gs(s).mixed(&t, "p", 1, &"ri.a.b.c.d".parse().unwrap(), "q", None, &[], &BTreeSet::new(), "h", None).map(val_nd)
                    }, {
                        let t = tok.clone();
                        move |s| block_on(ga(s).mixed(&t, "p", 1, &"ri.a.b.c.d".parse().unwrap(), "q", None, &[], &BTreeSet::new(), "h", None)).map(val_nd)
                    });
                }
                if d.of.contains('u') {
                    let bad = d.not_of.contains('u');
                    one::<Shape>(cs, "macro shape -> union", Kind::Ser, &sc, bad, |s| MacroJsonClient::new(s.clone()).shape().map(val_nd), |s| block_on(AsyncMacroJsonClient::new(s.clone()).shape()).map(val_nd));
                }
                if d.of.contains('t') {
                    let bad = d.not_of.contains('t');
                    one::<conjure_object::BearerToken>(cs, "macro token -> bearertoken", Kind::Ser, &sc, bad, |s| MacroJsonClient::new(s.clone()).token().map(val_nd), |s| block_on(AsyncMacroJsonClient::new(s.clone()).token()).map(val_nd));
                }
                if d.of.contains('z') {
                    one::<BTreeSet<i32>>(cs, "generated optAliasBody -> set<integer>", Kind::DefSer, &sc, false, |s| gs(s).opt_alias_body(&OptObjAlias(None)).map(|v| val(s.status, v)), |s| block_on(ga(s).opt_alias_body(&OptObjAlias(None))).map(|v| val(s.status, v)));
                }
                // binary classes: only the Content-Type and the status matter
                {
                    let t = tok.clone();
                    let t2 = tok.clone();
                    one::<i32>(cs, "generated optBinary -> optional<binary>", Kind::OptBin, &sc, false, move |s| gs(s).opt_binary(&t, true).map(|o| if o.is_some() { "stream".to_string() } else { "default".to_string() }), move |s| block_on(ga(s).opt_binary(&t2, true)).map(|o| if o.is_some() { "stream".to_string() } else { "default".to_string() }));
                    one::<i32>(cs, "generated binary -> binary", Kind::Bin, &sc, false, |s| gs(s).binary(1, crate::loopback::SliceBody(vec![1])).map(|_| "stream".to_string()), |s| block_on(ga(s).binary(1, crate::loopback::SliceBody(vec![1]))).map(|_| "stream".to_string()));
                }
            }
        }
    }
}
