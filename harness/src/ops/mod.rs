pub mod c15;
pub mod c07;
