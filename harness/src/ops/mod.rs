pub mod c15;
pub mod c07;
pub mod c16;
pub mod c12;
pub mod c11;
pub mod c06;
pub mod c08;
pub mod c01;
