pub mod c15;
