//! C05 — unknown members injected at every struct position of seeded typed documents; server must
//! reject naming the member, client must read the original value.  Also cross-checks the dynamic
//! struct visitor against real `#[derive(Deserialize)]` types.
use crate::dynval::*;
use crate::ops::c01::{real_de, real_ser, show_de};
use crate::run::{guarded, Cases, Tier};
use crate::util::Rng;
use serde::{Deserialize, Serialize};
use std::collections::BTreeMap;

#[derive(Clone, Debug)]
enum Step {
    Idx(usize),       // array element
    Member(usize),    // value of the i-th member of an object
}

/// paths to objects that are read through `deserialize_struct` (strict = server intercepts)
fn struct_positions(ty: &DynTy, tree: &Tree, path: &mut Vec<Step>, strict: bool, out: &mut Vec<(Vec<Step>, bool, Vec<String>)>) {
    match (ty, tree) {
        (DynTy::Opt(t), tr) | (DynTy::Newtype(t), tr) => {
            if *tr != Tree::Null {
                struct_positions(t, tr, path, strict, out)
            }
        }
        (DynTy::Seq(t), Tree::Arr(xs)) => {
            for (i, x) in xs.iter().enumerate() {
                path.push(Step::Idx(i));
                struct_positions(t, x, path, true, out);
                path.pop();
            }
        }
        (DynTy::Tuple(ts), Tree::Arr(xs)) | (DynTy::TupleStruct(ts), Tree::Arr(xs)) => {
            for (i, (t, x)) in ts.iter().zip(xs).enumerate() {
                path.push(Step::Idx(i));
                struct_positions(t, x, path, true, out);
                path.pop();
            }
        }
        (DynTy::Map(_, vt), Tree::Obj(ms)) => {
            for (i, (_, x)) in ms.iter().enumerate() {
                path.push(Step::Member(i));
                struct_positions(vt, x, path, true, out);
                path.pop();
            }
        }
        (DynTy::Struct(fs), Tree::Obj(ms)) => {
            out.push((path.clone(), strict, fs.iter().map(|f| f.0.clone()).collect()));
            for (i, (k, x)) in ms.iter().enumerate() {
                if let Some((_, t)) = fs.iter().find(|f| &f.0 == k) {
                    path.push(Step::Member(i));
                    struct_positions(t, x, path, true, out);
                    path.pop();
                }
            }
        }
        (DynTy::Enum(vs), Tree::Obj(ms)) if ms.len() == 1 => {
            if let Some((_, kind, pty)) = vs.iter().find(|v| v.0 == ms[0].0) {
                path.push(Step::Member(0));
                // a struct variant's own object is read by `struct_variant`, not `deserialize_struct`
                struct_positions(pty, &ms[0].1, path, *kind != VKind::Struct, out);
                path.pop();
            }
        }
        _ => {}
    }
}

fn inject(tree: &mut Tree, path: &[Step], at: usize, name: &str, value: Tree) {
    match path.split_first() {
        None => {
            if let Tree::Obj(ms) = tree {
                let at = at.min(ms.len());
                ms.insert(at, (name.to_string(), value));
            }
        }
        Some((Step::Idx(i), rest)) => {
            if let Tree::Arr(xs) = tree {
                inject(&mut xs[*i], rest, at, name, value)
            }
        }
        Some((Step::Member(i), rest)) => {
            if let Tree::Obj(ms) = tree {
                inject(&mut ms[*i].1, rest, at, name, value)
            }
        }
    }
}

fn random_tree(rng: &mut Rng, depth: u32) -> Tree {
    match rng.below(if depth == 0 { 6 } else { 8 }) {
        0 => Tree::Null,
        1 => Tree::Bool(true),
        // integers of every width a format can carry: 32, 64 and (Smile's BigInteger) up to 128 bits
        2 => match rng.below(4) {
            0 => Tree::Int(rng.range(-5, 1 << 40) as i128),
            1 => Tree::Int(*rng.pick(&[i64::MIN as i128, i64::MAX as i128, u64::MAX as i128])),
            2 => Tree::Int(*rng.pick(&[-(1i128 << 100), (1i128 << 100) + 12345, i128::MAX - 5, i128::MIN + 5, (u64::MAX as i128) + 1])),
            _ => Tree::Int(rng.range(-5, 200) as i128),
        },
        3 => Tree::Str(rng.pick(&["", "NaN", "x", "QUJD"]).to_string()),
        4 => Tree::Dbl(Dbl::of(1.5)),
        5 => Tree::Arr(vec![]),
        6 => Tree::Arr((0..rng.below(3)).map(|_| random_tree(rng, depth - 1)).collect()),
        _ => Tree::Obj((0..rng.below(3)).map(|i| (format!("k{}", i), random_tree(rng, depth - 1))).collect()),
    }
}

fn to_bytes(fmt: &str, t: &Tree) -> Vec<u8> {
    if fmt == "json" {
        serde_json::to_vec(t).unwrap()
    } else {
        serde_smile::to_vec(t).unwrap()
    }
}

// ---- real derive types, and the same types dynamically

#[derive(Debug, Clone, PartialEq, Serialize, Deserialize)]
struct Inner {
    b: bool,
    c: Option<String>,
}
#[derive(Debug, Clone, PartialEq, Serialize, Deserialize)]
struct Alias(Inner);
#[derive(Debug, Clone, PartialEq, Serialize, Deserialize)]
enum En {
    U,
    N(Inner),
    T(i32, Inner),
    S { x: Inner },
}
#[derive(Debug, Clone, PartialEq, Serialize, Deserialize)]
struct Outer {
    a: Vec<Inner>,
    m: BTreeMap<String, Inner>,
    o: Option<Inner>,
    n: Alias,
    e: Vec<En>,
    t: (Inner, i32),
}

fn inner_ty() -> DynTy {
    DynTy::Struct(vec![("b".into(), DynTy::Bool), ("c".into(), DynTy::Opt(Box::new(DynTy::Str)))])
}
fn outer_ty() -> DynTy {
    let en = DynTy::Enum(vec![
        ("U".into(), VKind::Unit, DynTy::Unit),
        ("N".into(), VKind::Newtype, inner_ty()),
        ("T".into(), VKind::Tuple, DynTy::Tuple(vec![DynTy::Int(true, 32), inner_ty()])),
        ("S".into(), VKind::Struct, DynTy::Struct(vec![("x".into(), inner_ty())])),
    ]);
    DynTy::Struct(vec![
        ("a".into(), DynTy::Seq(Box::new(inner_ty()))),
        ("m".into(), DynTy::Map(Box::new(DynTy::Str), Box::new(inner_ty()))),
        ("o".into(), DynTy::Opt(Box::new(inner_ty()))),
        ("n".into(), DynTy::Newtype(Box::new(inner_ty()))),
        ("e".into(), DynTy::Seq(Box::new(en))),
        ("t".into(), DynTy::Tuple(vec![inner_ty(), DynTy::Int(true, 32)])),
    ])
}
fn outer_value() -> Outer {
    let i = |b: bool, c: Option<&str>| Inner { b, c: c.map(String::from) };
    let mut m = BTreeMap::new();
    m.insert("k1".to_string(), i(true, None));
    m.insert("k2".to_string(), i(false, Some("z")));
    Outer { a: vec![i(true, Some("x")), i(false, None)], m, o: Some(i(true, None)), n: Alias(i(false, Some("n"))), e: vec![En::U, En::N(i(true, None)), En::T(3, i(false, None)), En::S { x: i(true, Some("s")) }], t: (i(true, None), 9) }
}

/// every public entry point of the side and format (slice, str / mut slice, reader); they must agree
fn static_all(fmt: &str, side: &str, bytes: &[u8]) -> Vec<(&'static str, Result<Outer, String>)> {
    let e = |e: serde_json::Error| e.to_string();
    let es = |e: serde_smile::Error| e.to_string();
    let mut copy = bytes.to_vec();
    match (fmt, side) {
        ("json", "client") => {
            let mut v = vec![("client_from_slice", conjure_serde::json::client_from_slice(bytes).map_err(e)), ("client_from_reader", conjure_serde::json::client_from_reader(bytes).map_err(e))];
            if let Ok(s) = std::str::from_utf8(bytes) {
                v.push(("client_from_str", conjure_serde::json::client_from_str(s).map_err(e)));
            }
            v
        }
        ("json", _) => {
            let mut v = vec![("server_from_slice", conjure_serde::json::server_from_slice(bytes).map_err(e)), ("server_from_reader", conjure_serde::json::server_from_reader(bytes).map_err(e))];
            if let Ok(s) = std::str::from_utf8(bytes) {
                v.push(("server_from_str", conjure_serde::json::server_from_str(s).map_err(e)));
            }
            v
        }
        (_, "client") => vec![
            ("client_from_slice", conjure_serde::smile::client_from_slice(bytes).map_err(es)),
            ("client_from_reader", conjure_serde::smile::client_from_reader(std::io::BufReader::new(bytes)).map_err(es)),
            ("client_from_mut_slice", conjure_serde::smile::client_from_mut_slice(&mut copy).map_err(es)),
        ],
        _ => vec![
            ("server_from_slice", conjure_serde::smile::server_from_slice(bytes).map_err(es)),
            ("server_from_reader", conjure_serde::smile::server_from_reader(std::io::BufReader::new(bytes)).map_err(es)),
            ("server_from_mut_slice", conjure_serde::smile::server_from_mut_slice(&mut copy).map_err(es)),
        ],
    }
}

fn static_view(r: &Result<Outer, String>) -> String {
    match r {
        Ok(v) => format!("ok {:?}", *v == outer_value()),
        Err(e) => {
            if let Some(i) = e.find("unknown field `") {
                let rest = &e[i + 15..];
                if let Some(j) = rest.find('`') {
                    return format!("err-unknown {}", &rest[..j]);
                }
            }
            "err".into()
        }
    }
}

/// the view through `*_from_slice`, and the first entry point (if any) that sees the document differently
fn static_de(fmt: &str, side: &str, bytes: &[u8]) -> (String, Option<String>) {
    let all = static_all(fmt, side, bytes);
    let first = static_view(&all[0].1);
    let odd = all.iter().skip(1).find(|(_, r)| static_view(r) != first).map(|(n, r)| format!("{} {} says `{}` where {} says `{}`", fmt, n, static_view(r), all[0].0, first));
    (first, odd)
}

fn one_injection(cs: &mut Cases, class: &str, rng: &mut Rng, fmt: &str, ty: &DynTy, val: &DynVal, base: &Tree, count: usize, static_check: bool) {
    let mut pos = vec![];
    struct_positions(ty, base, &mut vec![], true, &mut pos);
    if pos.is_empty() {
        return;
    }
    let mut doc = base.clone();
    let mut injected: Vec<(String, bool)> = vec![];
    // short and long names (a key longer than any inline buffer), one that a JSON reader cannot borrow from its input
    // because it holds escapes; the first candidate varies
    let mut names: Vec<String> = ["zz", "unknown-1", "ö", "type", "Bb", "__ignore"].iter().map(|s| s.to_string()).collect();
    names.push("k".repeat(129));
    names.push(format!("{}é", "long-".repeat(60)));
    names.push("es\"c\\ape\n\u{1}".to_string());
    let k = rng.below(names.len());
    names.rotate_left(k);
    // several injections: deepest paths first so that recorded member indices stay valid
    let mut picks: Vec<usize> = (0..count).map(|_| rng.below(pos.len())).collect();
    picks.sort_by_key(|&i| std::cmp::Reverse(pos[i].0.len()));
    picks.dedup();
    for pi in picks {
        let (path, strict, declared) = &pos[pi];
        let name = names.iter().find(|n| !declared.iter().any(|d| d == *n) && !injected.iter().any(|(i, _)| i == *n)).map(|s| s.to_string());
        let name = match name {
            Some(n) => n,
            None => continue,
        };
        let at = rng.below(declared.len() + 2);
        inject(&mut doc, path, at, &name, random_tree(rng, 2));
        injected.push((name, *strict));
    }
    if injected.is_empty() {
        return;
    }
    let bytes = to_bytes(fmt, &doc);
    let any_strict = injected.iter().any(|i| i.1);
    for side in ["client", "server"] {
        let op = format!("de {} {} {} {}", fmt, side, ty.txt(), doc.txt(Some(ty)));
        let note = format!("{} {} deserialize with injected {:?}: {}", fmt, side, injected, if fmt == "json" { String::from_utf8_lossy(&bytes).chars().take(240).collect::<String>() } else { format!("{} smile bytes", bytes.len()) });
        match real_de(fmt, side, ty, &bytes) {
            Err(p) => {
                cs.push(class, op, "panic".into(), true, note);
                cs.fail_last(&format!("{}:{}:inconsistent", fmt, side), p);
            }
            Ok(r) => {
                let shown = show_de(&r);
                cs.push(class, op, shown.clone(), true, note);
                if side == "client" {
                    match &r {
                        Ok(v) if v == val => {}
                        Ok(v) => cs.fail_last("client:value-changed", format!("client read {} instead of {}", v.txt(), val.txt())),
                        Err(e) => cs.fail_last("client:unknown-field-rejected", format!("client rejected a document with unknown fields: {}", e)),
                    }
                } else if any_strict {
                    match &r {
                        Ok(_) => cs.fail_last("server:unknown-field-accepted", format!("server accepted unknown field(s) {:?}", injected)),
                        Err(e) => {
                            let named = injected.iter().any(|(n, s)| *s && e.contains(&format!("unknown field `{}`", n)));
                            if !named {
                                cs.fail_last("server:error-does-not-name-field", format!("server error does not name an injected field {:?}: {}", injected, e));
                            }
                        }
                    }
                }
                if static_check {
                    let b2 = bytes.clone();
                    let (f2, s2) = (fmt.to_string(), side.to_string());
                    let (st, odd) = guarded(move || static_de(&f2, &s2, &b2)).unwrap_or_else(|p| (format!("panic {}", p), None));
                    if let Some(odd) = odd {
                        cs.fail_last(if side == "client" { "client:entry-points-disagree" } else { "server:entry-points-disagree" }, odd);
                    }
                    let dynamic = match &r {
                        Ok(v) => format!("ok {:?}", v == val),
                        Err(_) => shown.replace("err-unknown ", "err-unknown:"),
                    };
                    let st_norm = st.replace("err-unknown ", "err-unknown:");
                    let dyn_norm = if dynamic.starts_with("err-unknown:") {
                        // hex -> text
                        let h = &dynamic["err-unknown:".len()..];
                        format!("err-unknown:{}", String::from_utf8_lossy(&crate::util::unhex(h).unwrap_or_default()))
                    } else {
                        dynamic
                    };
                    if st_norm != dyn_norm {
                        cs.fail_last("harness:derive-mismatch", format!("#[derive(Deserialize)] types give {:?} but the dynamic visitor gives {:?}", st_norm, dyn_norm));
                    }
                }
            }
        }
    }
}

pub fn cases(seed: u64, tier: Tier) -> Cases {
    let mut rng = Rng::new(seed);
    let mut cs = Cases::new("C05");
    // the derive'd type and its dynamic twin: every struct position, every insertion index
    let oty = outer_ty();
    let oval_tree = serde_json::from_slice::<Tree>(&conjure_serde::json::to_vec(&outer_value()).unwrap()).unwrap();
    let oval = {
        use serde::de::DeserializeSeed;
        let bytes = conjure_serde::json::to_vec(&outer_value()).unwrap();
        let mut d = conjure_serde::json::ClientDeserializer::from_slice(&bytes);
        Seed(&oty).deserialize(&mut d).unwrap()
    };
    for fmt in ["json", "smile"] {
        for _ in 0..(if tier == Tier::Quick { 150 } else { 2000 }) {
            let n = 1 + rng.below(3);
            one_injection(&mut cs, "derive-twin", &mut rng, fmt, &oty, &oval, &oval_tree_for(fmt, &oval_tree), n, true);
        }
    }
    // seeded types
    let (n, depth) = if tier == Tier::Quick { (1200, 4) } else { (20000, 6) };
    let mut made = 0;
    let mut tries = 0;
    while made < n && tries < n * 20 {
        tries += 1;
        let d = 1 + rng.below(depth) as u32;
        let ty = random_ty(&mut rng, d, 3);
        let val = random_val(&mut rng, &ty, 3);
        for fmt in ["json", "smile"] {
            if let Ok(Ok(out)) = real_ser(fmt, &ty, &val) {
                let mut pos = vec![];
                struct_positions(&ty, &out.tree, &mut vec![], true, &mut pos);
                if pos.is_empty() {
                    continue;
                }
                made += 1;
                let count = 1 + rng.below(3);
                one_injection(&mut cs, &format!("seeded:{}", fmt), &mut rng, fmt, &ty, &val, &out.tree, count, false);
            }
        }
    }
    crate::ops::c02::c05_generated(&mut cs, &mut rng, tier);
    cs
}

fn oval_tree_for(fmt: &str, json_tree: &Tree) -> Tree {
    // the Smile tree of the same value (no binary or doubles in it, so the trees coincide)
    let _ = fmt;
    json_tree.clone()
}

pub const RULE: &str = "a fixed nest of real #[derive(Deserialize)] types (struct in list, map value, optional, newtype, newtype/tuple/struct variants, tuple) and its dynamic twin, and seeded typed values of depth 1..4 (6) serialized by the real serializers; 1-3 unknown members (9 names, among them names of 129 and 302 bytes and one with escapes; never a declared one) holding seeded documents (null, numbers, strings such as NaN, nested arrays/objects) are inserted at seeded member positions of seeded struct objects at any depth; both formats; client and server deserializers from all input sources. Oracle: the client returns exactly the original value; the server rejects with a message naming an injected member (objects of struct *variants* are recorded as not intercepted and carry no oracle); the derive types and the dynamic visitor must agree. Compared with the model's de on the same document. All cases non-trivial; distinct = distinct operation lines.";
