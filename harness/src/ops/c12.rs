//! C12 — PLAIN text of every parameter type, both directions, against the model and the
//! round-trip oracle `from_plain(to_plain(x)) == x`.
use crate::run::{guarded, Cases, Tier};
use crate::util::{hex, Rng};
use bytes::Bytes;
use chrono::{DateTime, Datelike, NaiveDate, TimeZone, Timelike, Utc};
use conjure_object::{FromPlain, ToPlain, Uuid};

fn cls(d: f64) -> &'static str {
    if d.is_nan() {
        "nan"
    } else if d == f64::INFINITY {
        "inf"
    } else if d == f64::NEG_INFINITY {
        "ninf"
    } else {
        "fin"
    }
}

fn f64_pool(rng: &mut Rng, tier: Tier) -> Vec<f64> {
    let mut v = vec![0.0, -0.0, 1.0, -1.0, f64::INFINITY, f64::NEG_INFINITY, f64::NAN, -f64::NAN, f64::from_bits(0x7ff0000000000001), f64::from_bits(0xfff8000000000123), f64::MAX, f64::MIN, f64::MIN_POSITIVE, 5e-324, -5e-324, 1e300, 1e-300, 0.1, 1e21, 1e22, 123456789.125, 9007199254740993.0];
    // every exponent x 8 mantissa patterns x sign
    let mant: [u64; 8] = [0, 1, 0x8000000000000, 0xfffffffffffff, 0x5555555555555, 0xaaaaaaaaaaaaa, 0x10000, 0xfffffffffffe];
    let step = if tier == Tier::Quick { 16 } else { 1 };
    for e in (0u64..2048).step_by(step) {
        for m in mant {
            for s in [0u64, 1] {
                v.push(f64::from_bits((s << 63) | (e << 52) | m));
            }
        }
    }
    for _ in 0..(if tier == Tier::Quick { 500 } else { 20000 }) {
        v.push(f64::from_bits(rng.next()));
    }
    v
}

fn roundtrip<T: ToPlain + FromPlain + PartialEq + std::fmt::Debug + Clone + std::panic::UnwindSafe + 'static>(cs: &mut Cases, key: &str, x: &T, eq: impl Fn(&T, &T) -> bool)
where
    <T as FromPlain>::Err: std::fmt::Debug + Into<Box<dyn std::error::Error + Sync + Send>>,
{
    use conjure_http::server::conjure::{FromPlainDecoder, FromPlainOptionDecoder, FromPlainSeqDecoder};
    use conjure_http::server::{ConjureRuntime, DecodeHeader, DecodeParam};
    let y = x.clone();
    let r = guarded(move || {
        let t = y.to_plain();
        (t.clone(), T::from_plain(&t).map_err(|e| format!("{:?}", e)))
    });
    match r {
        Err(p) => cs.fail_last(&format!("{}:panic", key), p),
        Ok((t, Err(e))) => cs.fail_last(&format!("{}:own-text-rejected", key), format!("to_plain({:?}) = {:?} is rejected by from_plain: {}", x, t, e)),
        Ok((t, Ok(z))) => {
            if !eq(&z, x) {
                cs.fail_last(&format!("{}:roundtrip", key), format!("from_plain(to_plain({:?}) = {:?}) = {:?}", x, t, z));
                return;
            }
            // the same text through the server's parameter and header decoders (what generated endpoints use): the
            // value, `Some(value)`, and a two-element list of it — never an altered, absent or shortened result
            let t2 = t.clone();
            let via = guarded(move || {
                let rt = ConjureRuntime::new();
                let one: Result<T, String> = <FromPlainDecoder as DecodeParam<T>>::decode(&rt, [t2.as_str()]).map_err(|e| e.cause().to_string());
                let opt: Result<Option<T>, String> = <FromPlainOptionDecoder as DecodeParam<Option<T>>>::decode(&rt, [t2.as_str()]).map_err(|e| e.cause().to_string());
                let seq: Result<Vec<T>, String> = <FromPlainSeqDecoder<T> as DecodeParam<Vec<T>>>::decode(&rt, [t2.as_str(), t2.as_str()]).map_err(|e| e.cause().to_string());
                let hv = http::HeaderValue::from_str(&t2).ok();
                let hone: Option<Result<T, String>> = hv.as_ref().map(|h| <FromPlainDecoder as DecodeHeader<T>>::decode(&rt, [h]).map_err(|e| e.cause().to_string()));
                let hopt: Option<Result<Option<T>, String>> = hv.as_ref().map(|h| <FromPlainOptionDecoder as DecodeHeader<Option<T>>>::decode(&rt, [h]).map_err(|e| e.cause().to_string()));
                (one, opt, seq, hone, hopt)
            });
            match via {
                Err(p) => cs.fail_last(&format!("{}:decoder-panic", key), p),
                Ok((one, opt, seq, hone, hopt)) => {
                    let text_header = t.bytes().all(|b| (0x20..0x7f).contains(&b) || b == b'\t');
                    let bad = if !matches!(&one, Ok(v) if eq(v, x)) {
                        Some(format!("FromPlainDecoder (parameter) gives {:?}", one))
                    } else if !matches!(&opt, Ok(Some(v)) if eq(v, x)) {
                        Some(format!("FromPlainOptionDecoder (parameter) gives {:?}", opt))
                    } else if !matches!(&seq, Ok(v) if v.len() == 2 && eq(&v[0], x) && eq(&v[1], x)) {
                        Some(format!("FromPlainSeqDecoder gives {:?}", seq))
                    } else if (text_header && !matches!(&hone, None | Some(Ok(_)))) || matches!(&hone, Some(Ok(v)) if !eq(v, x)) {
                        // (a header value that is not visible ASCII may be refused, never delivered altered)
                        Some(format!("FromPlainDecoder (header) gives {:?}", hone))
                    } else if (text_header && !matches!(&hopt, None | Some(Ok(Some(_))))) || matches!(&hopt, Some(Ok(Some(v))) if !eq(v, x)) || matches!(&hopt, Some(Ok(None))) {
                        Some(format!("FromPlainOptionDecoder (header) gives {:?}", hopt))
                    } else {
                        None
                    };
                    if let Some(b) = bad {
                        cs.fail_last(&format!("{}:decoder", key), format!("the PLAIN text {:?} of {:?}: {}", t, x, b));
                    }
                }
            }
        }
    }
}

/// a generated alias must print exactly what the aliased type prints and parse it back to itself
fn alias_rt<A, I>(cs: &mut Cases, name: &str, inner: &I, wrap: impl Fn(I) -> A, model_op: Option<String>)
where
    A: ToPlain + FromPlain + PartialEq + std::fmt::Debug,
    I: ToPlain + Clone + std::fmt::Debug,
{
    let r = guarded(|| {
        let a = wrap(inner.clone());
        let t = a.to_plain();
        let back = A::from_plain(&t).ok().map(|b| b == a);
        (t, back)
    });
    let inner_text = inner.to_plain();
    let class = format!("gen:{}", name);
    match r {
        Err(p) => {
            cs.push(&class, "noop".into(), "noop".into(), true, format!("{}({:?})", name, inner));
            cs.fail_last(&format!("gen:{}:panic", name), p);
        }
        Ok((t, back)) => {
            match model_op {
                Some(op) => cs.push(&class, op, hex(t.as_bytes()), true, format!("{}({:?}).to_plain()", name, inner)),
                None => cs.push(&class, "noop".into(), "noop".into(), true, format!("{}({:?}).to_plain() = {:?}", name, inner, t)),
            }
            if t != inner_text {
                cs.fail_last(&format!("gen:{}:text", name), format!("{}({:?}).to_plain() = {:?} but the aliased value's PLAIN text is {:?}", name, inner, t, inner_text));
            } else if back != Some(true) {
                cs.fail_last(&format!("gen:{}:roundtrip", name), format!("{}::from_plain({:?}) does not return the original {}({:?}): {:?}", name, t, name, inner, back));
            }
        }
    }
}

fn parse_op<T: FromPlain>(s: &str, show: impl Fn(T) -> String) -> String {
    match T::from_plain(s) {
        Ok(v) => format!("ok {}", show(v)),
        Err(_) => "err".into(),
    }
}

pub fn cases(seed: u64, tier: Tier) -> Cases {
    let mut rng = Rng::new(seed);
    let mut cs = Cases::new("C12");

    // ---- bool
    for b in [true, false] {
        cs.push("bool", format!("bool {}", b as u8), hex(b.to_plain().as_bytes()), true, format!("{}.to_plain()", b));
        roundtrip(&mut cs, "bool", &b, |a, b| a == b);
    }
    for s in ["true", "false", "TRUE", "True", "1", "0", "", " true", "true ", "yes", "tru", "falsee"] {
        cs.push("boolparse", format!("boolparse {}", hex(s.as_bytes())), parse_op::<bool>(s, |b| (b as u8).to_string()), true, format!("bool::from_plain({:?})", s));
    }

    // ---- i32
    let mut ints: Vec<i64> = vec![0, 1, -1, 9, 10, -10, 99, 100, i32::MAX as i64, i32::MIN as i64, i32::MAX as i64 - 1, i32::MIN as i64 + 1, 1000000007];
    for _ in 0..(if tier == Tier::Quick { 1000 } else { 10000 }) {
        ints.push(rng.range(i32::MIN as i64, i32::MAX as i64));
    }
    for &v in &ints {
        let x = v as i32;
        cs.push("i32", format!("i32 {}", v), hex(x.to_plain().as_bytes()), v.abs() > 9, format!("{}i32.to_plain()", v));
        roundtrip(&mut cs, "i32", &x, |a, b| a == b);
    }
    let mut texts: Vec<String> = vec!["+5", "005", "-0", "+0", "2147483648", "-2147483649", "2147483647", "-2147483648", " 1", "1 ", "", "-", "+", "1_0", "0x1", "1e1", "1.0", "٣", "99999999999999999999", "+-1", "--1"].into_iter().map(String::from).collect();
    for &v in ints.iter().take(200) {
        texts.push(format!("{}", v));
        texts.push(format!("+{}", v.abs()));
        texts.push(format!("{}", v as i128 + (1i128 << 32)));
    }
    for s in &texts {
        cs.push("i32parse", format!("i32parse {}", hex(s.as_bytes())), parse_op::<i32>(s, |v| v.to_string()), true, format!("i32::from_plain({:?})", s));
    }

    // ---- f64
    for d in f64_pool(&mut rng, tier) {
        let disp = format!("{}", d);
        cs.push(&format!("f64:{}", cls(d)), format!("f64 {} {}", cls(d), hex(disp.as_bytes())), hex(d.to_plain().as_bytes()), cls(d) != "fin" || d.fract() != 0.0, format!("f64::from_bits({:#x}).to_plain()", d.to_bits()));
        // equality modulo NaN payload (all NaNs equal), otherwise bit-exact (so -0.0 stays -0.0)
        roundtrip(&mut cs, "f64", &d, |a, b| (a.is_nan() && b.is_nan()) || a.to_bits() == b.to_bits());
        let t = d.to_plain();
        let spelled = match cls(d) {
            "nan" => t == "NaN",
            "inf" => t == "Infinity",
            "ninf" => t == "-Infinity",
            _ => true,
        };
        if !spelled {
            cs.fail_last("f64:spelling", format!("{:?} is written {:?}", d, t));
        }
        alias_rt(&mut cs, "DblAlias", &d, verifgen::plain::DblAlias, Some(format!("f64 {} {}", cls(d), hex(disp.as_bytes()))));
        // the collection-key wrapper for doubles (set<double> / map<double,_> parameters travel as PLAIN text)
        alias_rt(&mut cs, "DoubleKey", &d, conjure_object::DoubleKey, Some(format!("f64 {} {}", cls(d), hex(disp.as_bytes()))));
    }
    for s in ["Infinity", "-Infinity", "NaN", "inf", "-inf", "+inf", "infinity", "INFINITY", "+Infinity", "nan", "-NaN", "NAN", "1e400", "-1e400", "1", "1.5", "-0", "0x1p3", "", " 1", "1,5", "Infinit", "Infinityy", "-infinity", "1e-400", ".5", "5.", "+.5e1", "1e", "e1"] {
        let rust = match s.parse::<f64>() {
            Ok(d) => cls(d),
            Err(_) => "err",
        };
        cs.push("f64parse", format!("f64parse {} {}", hex(s.as_bytes()), rust), parse_op::<f64>(s, |d| cls(d).to_string()), true, format!("f64::from_plain({:?})", s));
    }

    // ---- uuid
    let mut uuids: Vec<[u8; 16]> = vec![[0; 16], [255; 16], [0x12, 0x34, 0x56, 0x78, 0x9a, 0xbc, 0xde, 0xf0, 0x0f, 0xed, 0xcb, 0xa9, 0x87, 0x65, 0x43, 0x21]];
    for _ in 0..(if tier == Tier::Quick { 300 } else { 5000 }) {
        let mut b = [0u8; 16];
        for x in b.iter_mut() {
            *x = rng.next() as u8;
        }
        uuids.push(b);
    }
    let mut utexts: Vec<String> = vec!["".into(), "not-a-uuid".into()];
    for b in &uuids {
        let u = Uuid::from_bytes(*b);
        cs.push("uuid", format!("uuid {}", hex(b)), hex(u.to_plain().as_bytes()), true, format!("Uuid({}).to_plain()", u));
        roundtrip(&mut cs, "uuid", &u, |a, b| a == b);
        if utexts.len() < 400 {
            let h = u.hyphenated().to_string();
            utexts.push(h.clone());
            utexts.push(h.to_uppercase());
            utexts.push(u.simple().to_string());
            utexts.push(format!("{{{}}}", h));
            utexts.push(format!("urn:uuid:{}", h));
            utexts.push(format!("{{{}}}", u.simple()));
            utexts.push(h.replace('-', ""));
            utexts.push(h.replacen('-', "", 1));
            utexts.push(format!("{}-", &h[..35]));
            utexts.push(format!("-{}", &h[1..]));
            utexts.push(h[..35].to_string());
            utexts.push(format!("{}0", h));
            utexts.push(h.replacen(|c: char| c.is_ascii_hexdigit(), "g", 1));
            let mut moved: Vec<char> = h.chars().collect();
            moved.swap(8, 9);
            utexts.push(moved.iter().collect());
            utexts.push(format!("{}{}", &h[..13], &h[13..].replacen('-', "+", 1)));
            utexts.push(format!("urn:uuid:{}", u.simple()));
            utexts.push(format!("URN:UUID:{}", h));
            utexts.push(format!("{{{}", &h));
            utexts.push(format!(" {}", &h[1..]));
        }
    }
    for s in &utexts {
        cs.push("uuidparse", format!("uuidparse {}", hex(s.as_bytes())), parse_op::<Uuid>(s, |u| hex(u.as_bytes())), true, format!("Uuid::from_plain({:?})", s));
    }

    // ---- binary
    let mut bins: Vec<Vec<u8>> = vec![vec![], vec![0], vec![255], vec![0, 0], vec![255, 255], vec![1, 2, 3], vec![0xfb, 0xff], vec![0x3e, 0x3f, 0xff, 0xfe]];
    for len in 0..=(if tier == Tier::Quick { 20 } else { 64 }) {
        for _ in 0..(if tier == Tier::Quick { 8 } else { 60 }) {
            bins.push((0..len).map(|_| rng.next() as u8).collect());
        }
    }
    // longer than any buffer an encoder may work through in pieces
    for len in [511usize, 512, 513, 514, 1024, 1025, 1537, 4099] {
        bins.push((0..len).map(|_| rng.next() as u8).collect());
    }
    let mut btexts: Vec<String> = vec!["=", "==", "A", "AA", "AAA", "AA=", "AA==", "AB==", "AAA=", "AAB=", "AA=A", "A===", "AAAA=", "AAAA", "AA A", "AA\n==", "-_-_", "QQ==QQ==", "QUJD", " QUJD", "QUJD ", "QQ", "QUI"].into_iter().map(String::from).collect();
    for b in &bins {
        let x = Bytes::from(b.clone());
        cs.push("bin", format!("bin {}", hex(b)), hex(x.to_plain().as_bytes()), b.len() > 0, format!("Bytes({}).to_plain()", hex(b)));
        roundtrip(&mut cs, "bin", &x, |a, b| a == b);
        if btexts.len() < 300 && !b.is_empty() {
            let t = x.to_plain();
            btexts.push(t.clone());
            btexts.push(t.trim_end_matches('=').to_string());
            btexts.push(format!("{}=", t));
            let mut c: Vec<char> = t.chars().collect();
            let k = rng.below(c.len());
            c[k] = *rng.pick(&['-', '_', ' ', '=', 'B', '/']);
            btexts.push(c.iter().collect());
        }
    }
    for s in &btexts {
        cs.push("binparse", format!("binparse {}", hex(s.as_bytes())), parse_op::<Bytes>(s, |b| hex(&b)), true, format!("Bytes::from_plain({:?})", s));
    }

    // ---- datetime, years 0000..=9999
    let mut dts: Vec<DateTime<Utc>> = vec![];
    let mk = |y: i32, mo: u32, d: u32, h: u32, mi: u32, s: u32, ns: u32| -> Option<DateTime<Utc>> { NaiveDate::from_ymd_opt(y, mo, d)?.and_hms_nano_opt(h, mi, s, ns).map(|n| Utc.from_utc_datetime(&n)) };
    for y in [0, 1, 4, 99, 100, 400, 999, 1000, 1582, 1600, 1899, 1900, 1969, 1970, 1999, 2000, 2001, 2024, 2038, 2100, 9998, 9999] {
        for (mo, d) in [(1, 1), (1, 31), (2, 28), (2, 29), (3, 1), (4, 30), (6, 30), (9, 30), (11, 30), (12, 31), (7, 4)] {
            for (h, mi, s, ns) in [(0, 0, 0, 0), (23, 59, 59, 999_999_999), (12, 30, 15, 500_000_000), (1, 2, 3, 4_000), (1, 2, 3, 120_000_000), (6, 7, 8, 1), (6, 7, 8, 999_000), (6, 7, 8, 1_000_000)] {
                if let Some(t) = mk(y, mo, d, h, mi, s, ns) {
                    dts.push(t);
                }
            }
        }
    }
    for _ in 0..(if tier == Tier::Quick { 2000 } else { 100000 }) {
        let secs = rng.range(-62167219200, 253402300799);
        let ns = match rng.below(4) {
            0 => 0,
            1 => (rng.below(1000) as u32) * 1_000_000,
            2 => (rng.below(1_000_000) as u32) * 1000,
            _ => rng.below(1_000_000_000) as u32,
        };
        if let Some(t) = Utc.timestamp_opt(secs, ns).single() {
            dts.push(t);
        }
    }
    let mut dtexts: Vec<String> = vec![];
    for t in &dts {
        let op = format!("dt {} {} {} {} {} {} {}", t.year(), t.month(), t.day(), t.hour(), t.minute(), t.second(), t.nanosecond());
        cs.push("dt", op, hex(t.to_plain().as_bytes()), true, format!("{:?}.to_plain()", t));
        roundtrip(&mut cs, "datetime", t, |a, b| a == b);
        if dtexts.len() < 600 || t.nanosecond() % 1000 != 0 {
            alias_rt(&mut cs, "DtAlias", t, verifgen::plain::DtAlias, Some(format!("dt {} {} {} {} {} {} {}", t.year(), t.month(), t.day(), t.hour(), t.minute(), t.second(), t.nanosecond())));
        }
        if dtexts.len() < 600 {
            let s = t.to_plain();
            dtexts.push(s.clone());
            dtexts.push(s.replace("+00:00", "Z"));
            dtexts.push(s.replace("+00:00", "z"));
            dtexts.push(s.replace("+00:00", "-00:00"));
            dtexts.push(s.replace('T', "t"));
            dtexts.push(s.replace('T', " "));
            dtexts.push(s.replace("+00:00", ""));
            dtexts.push(s.replace("+00:00", "+0000"));
            dtexts.push(format!("{} ", s));
            dtexts.push(format!(" {}", s));
            dtexts.push(s.replacen('-', "/", 1));
            dtexts.push(s.replacen(':', ".", 1));
            dtexts.push(s[1..].to_string());
            dtexts.push(format!("0{}", s));
            dtexts.push(format!("+{}", s));
            let z = s.replace("+00:00", "");
            let base = z.split('.').next().unwrap().to_string();
            for frac in ["", ".", ".1", ".12", ".123", ".1234", ".12345678", ".123456789", ".000000001", ".5Z"] {
                dtexts.push(format!("{}{}Z", base, frac));
            }
            dtexts.push(base.replacen("-01-", "-13-", 1) + "Z");
            dtexts.push(base.replacen("-01-", "-00-", 1) + "Z");
            dtexts.push(format!("{}-02-30T00:00:00Z", &base[..4]));
            dtexts.push(format!("{}-02-29T00:00:00Z", &base[..4]));
            dtexts.push(format!("{}-04-31T00:00:00Z", &base[..4]));
            dtexts.push(format!("{}-12-31T24:00:00Z", &base[..4]));
            dtexts.push(format!("{}-12-31T23:60:00Z", &base[..4]));
            dtexts.push(format!("{}-12-31T23:59:61Z", &base[..4]));
            dtexts.push(format!("{}-1-31T23:59:59Z", &base[..4]));
        }
    }
    // rids made from components, valid and not: whatever is accepted prints a text that parses back to it
    for sv in ["a", "svc-1", "s9", "", "A"] {
        for inst in ["", "inst", "i-2", "1x", "a.b"] {
            for ty in ["t", "type-x", "", "9t"] {
                for loc in ["l", "L_1.x.y", "", "a.b", "-._"] {
                    let comps = [sv, inst, ty, loc];
                    if let Ok(rid) = conjure_object::ResourceIdentifier::from_components(sv, inst, ty, loc) {
                        let text = rid.to_plain();
                        let back = conjure_object::ResourceIdentifier::from_plain(&text);
                        cs.push("rid-text", "noop".into(), "noop".into(), true, format!("rid from components {:?}, printed and parsed back", comps));
                        if back.as_ref().ok() != Some(&rid) {
                            cs.fail_last("rid:roundtrip", format!("from_components{:?} is accepted and prints {:?}, which parses back to {:?}", comps, text, back.map(|b| b.to_plain())));
                        }
                    }
                }
            }
        }
    }
    for s in &dtexts {
        let real = parse_op::<DateTime<Utc>>(s, |t| format!("{} {} {} {} {} {} {}", t.year(), t.month(), t.day(), t.hour(), t.minute(), t.second(), t.nanosecond()));
        cs.push("dtparse", format!("dtparse {}", hex(s.as_bytes())), real, true, format!("DateTime::<Utc>::from_plain({:?})", s));
    }

    // ---- strings: the PLAIN text is the string itself, blanks and all
    {
        let fixed = ["", " ", "a", " lead", "trail ", "\ttab\t", "  two  ", "a b", "é", "漢字", "x\u{a0}", "\u{2003}em", "line\nbreak", "%20", "+", "a=b&c", "\"q\"", "\u{feff}bom"];
        let pool: Vec<char> = " \tab\u{a0}xyz09-_.~%+é漢".chars().collect();
        let n = if tier == Tier::Quick { 200 } else { 5000 };
        let seeded: Vec<String> = (0..n).map(|_| (0..rng.below(8)).map(|_| *rng.pick(&pool)).collect()).collect();
        for st in fixed.iter().map(|s| s.to_string()).chain(seeded) {
            cs.push("string", "noop".into(), "noop".into(), st.trim() != st || st.is_empty(), format!("the string {:?} printed, parsed back and through the server's decoders", st));
            if st.to_plain() != st {
                cs.fail_last("string:text-differs", format!("{:?}.to_plain() = {:?}", st, st.to_plain()));
            } else {
                roundtrip(&mut cs, "string", &st, |a, b| a == b);
            }
        }
    }

    // ---- bearer tokens and resource identifiers: the PLAIN text is the string itself, whichever way the value was made
    {
        let n = if tier == Tier::Quick { 80 } else { 2000 };
        let alpha: Vec<char> = "abzAZ09-._~+/".chars().collect();
        for i in 0..n {
            let body: String = (0..1 + rng.below(12)).map(|_| *rng.pick(&alpha)).collect();
            let s = format!("{}{}", body, "=".repeat(i % 4));
            let made: Vec<(&str, Option<conjure_object::BearerToken>)> = vec![
                ("from_str", s.parse().ok()),
                ("from_plain", conjure_object::BearerToken::from_plain(&s).ok()),
                ("deserialize", conjure_serde::json::client_from_str(&serde_json::to_string(&s).unwrap()).ok()),
            ];
            cs.push("token-text", "noop".into(), "noop".into(), true, format!("bearer token {:?} made three ways, printed and parsed back", s));
            for (how, t) in made {
                match t {
                    None => cs.fail_last("token:valid-rejected", format!("the valid token {:?} is rejected by {}", s, how)),
                    Some(t) => {
                        let text = t.to_plain();
                        let back = conjure_object::BearerToken::from_plain(&text);
                        if text != s || t.as_str() != s {
                            cs.fail_last("token:text-differs", format!("token {:?} made by {} prints {:?} (as_str {:?})", s, how, text, t.as_str()));
                        } else if back.as_ref().ok() != Some(&t) || back.as_ref().map(|b| b.to_plain()).ok() != Some(s.clone()) {
                            cs.fail_last("token:roundtrip", format!("from_plain(to_plain(token {:?} made by {})) = {:?}", s, how, back.map(|b| b.to_plain())));
                        } else {
                            roundtrip(&mut cs, "token", &t, |a, b| a == b && a.as_str() == b.as_str());
                        }
                    }
                }
            }
            let r = format!("ri.{}.{}.{}.{}", ["a", "svc-1", "s9"][i % 3], ["", "inst", "i-2"][i % 3], ["t", "type-x"][i % 2], ["l", "L_1.x.y", "a.b", "-._"][i % 4]);
            let made: Vec<(&str, Option<conjure_object::ResourceIdentifier>)> = vec![
                ("from_str", r.parse().ok()),
                ("from_plain", conjure_object::ResourceIdentifier::from_plain(&r).ok()),
                ("deserialize", conjure_serde::json::client_from_str(&serde_json::to_string(&r).unwrap()).ok()),
            ];
            cs.push("rid-text", "noop".into(), "noop".into(), true, format!("rid {:?} made three ways, printed and parsed back", r));
            for (how, t) in made {
                match t {
                    None => cs.fail_last("rid:valid-rejected", format!("the valid rid {:?} is rejected by {}", r, how)),
                    Some(t) => {
                        let text = t.to_plain();
                        let back = conjure_object::ResourceIdentifier::from_plain(&text);
                        if text != r {
                            cs.fail_last("rid:text-differs", format!("rid {:?} made by {} prints {:?}", r, how, text));
                        } else if back.as_ref().ok() != Some(&t) {
                            cs.fail_last("rid:roundtrip", format!("from_plain(to_plain(rid {:?} made by {})) = {:?}", r, how, back.map(|b| b.to_plain())));
                        } else {
                            roundtrip(&mut cs, "rid", &t, |a, b| a == b);
                        }
                    }
                }
            }
        }
    }

    // ---- generated aliases and enums (compiled from gen/ir/verif.json by /repo's generator)
    {
        use verifgen::plain as g;
        let n = if tier == Tier::Quick { 60 } else { 1500 };
        for i in 0..n {
            let st: String = ["", "a b", "é/%", "x"][i % 4].to_string() + &format!("{}", rng.below(1000));
            alias_rt(&mut cs, "StrAlias", &st, g::StrAlias, None);
            alias_rt(&mut cs, "AliasOfAlias", &g::StrAlias(st.clone()), g::AliasOfAlias, None);
            let iv = [0, -1, i32::MAX, i32::MIN, rng.range(-100000, 100000) as i32][i % 5];
            alias_rt(&mut cs, "IntAlias", &iv, g::IntAlias, Some(format!("i32 {}", iv)));
            let b = i % 2 == 0;
            alias_rt(&mut cs, "BoolAlias", &b, g::BoolAlias, Some(format!("bool {}", b as u8)));
            let slv = [0, 9007199254740991, -9007199254740991, rng.range(-9007199254740991, 9007199254740991)][i % 4];
            cs.push("safelong", "noop".into(), "noop".into(), slv.abs() > 1 << 52, format!("SafeLong {} constructed, printed and parsed back", slv));
            match guarded(|| (conjure_object::SafeLong::new(slv), conjure_object::SafeLong::from_plain(&slv.to_string()))) {
                Err(p) => cs.fail_last("safelong:panic", format!("SafeLong {}: {}", slv, p)),
                Ok((Ok(sl), Ok(parsed))) => {
                    if parsed != sl || sl.to_plain() != slv.to_string() || *sl != slv {
                        cs.fail_last("safelong:roundtrip", format!("SafeLong::new({}) prints {:?}; from_plain of the decimal text gives {:?}", slv, sl.to_plain(), parsed));
                    }
                    roundtrip(&mut cs, "safelong", &sl, |a, b| a == b);
                    alias_rt(&mut cs, "SafeAlias", &sl, g::SafeAlias, None);
                }
                Ok((a, b)) => cs.fail_last("safelong:valid-rejected", format!("{} lies within ±(2^53 - 1) but SafeLong::new gives {:?} and from_plain gives {:?}", slv, a.map(|x| *x), b.map(|x| *x))),
            }
            let mut ub = [0u8; 16];
            for x in ub.iter_mut() {
                *x = rng.next() as u8;
            }
            alias_rt(&mut cs, "UuidAlias", &Uuid::from_bytes(ub), g::UuidAlias, Some(format!("uuid {}", hex(&ub))));
            let bytes: Vec<u8> = (0..rng.below(9)).map(|_| rng.next() as u8).collect();
            alias_rt(&mut cs, "BinAlias", &Bytes::from(bytes.clone()), g::BinAlias, Some(format!("bin {}", hex(&bytes))));
            // aliases of the two types whose `Display` is not their PLAIN text
            let dv = [0.5, f64::INFINITY, f64::NEG_INFINITY, f64::NAN, -0.0, 1e300, 5e-324, rng.range(-1000, 1000) as f64 / 8.0][i % 8];
            alias_rt(&mut cs, "DblAlias", &dv, g::DblAlias, None);
            let dt = Utc.with_ymd_and_hms(1970 + (i as i32 * 7) % 200, 1 + (i as u32 % 12), 1 + (i as u32 % 28), i as u32 % 24, (i as u32 * 7) % 60, (i as u32 * 13) % 60).unwrap() + chrono::Duration::nanoseconds([0, 1, 1000, 123_456_789, 999_999_999, 500_000_000][i % 6]);
            alias_rt(&mut cs, "DateTimeAlias", &dt, g::DateTimeAlias, None);
            let rid: conjure_object::ResourceIdentifier = format!("ri.s{}.i-{}.t.L_{}.x", i % 7, i % 3, rng.below(100)).parse().unwrap();
            alias_rt(&mut cs, "RidAlias", &rid, g::RidAlias, None);
            let tok: conjure_object::BearerToken = format!("tok-{}+/~._=", rng.below(100000)).parse().unwrap();
            alias_rt(&mut cs, "BearerAlias", &tok, g::BearerAlias, None);
            // enums: listed and unknown values; the text is the wire name
            for name in ["RED", "GREEN", "BLUE_2", "PURPLE", "X_9", "A"] {
                let c = g::Color::from_plain(name);
                match c {
                    Ok(c) => {
                        let t = c.to_plain();
                        cs.push("gen:Color", "noop".into(), "noop".into(), true, format!("Color::from_plain({:?}).to_plain() = {:?}", name, t));
                        if t != name || g::Color::from_plain(&t).ok().as_ref() != Some(&c) {
                            cs.fail_last("gen:Color:roundtrip", format!("Color {:?} prints as {:?} / does not parse back", name, t));
                        }
                        alias_rt(&mut cs, "ColorAlias", &c, g::ColorAlias, None);
                    }
                    Err(e) => {
                        cs.push("gen:Color", "noop".into(), "noop".into(), true, format!("Color::from_plain({:?})", name));
                        cs.fail_last("gen:Color:rejected", format!("Color::from_plain({:?}) rejected a well-formed name: {}", name, e));
                    }
                }
                let x = verifgen::exhaustive::Color::from_plain(name);
                let listed = matches!(name, "RED" | "GREEN" | "BLUE_2");
                cs.push("gen:Color:exhaustive", "noop".into(), "noop".into(), true, format!("exhaustive Color::from_plain({:?}) ok={}", name, x.is_ok()));
                match x {
                    Ok(c) if listed => {
                        if c.to_plain() != name {
                            cs.fail_last("gen:Color:exhaustive-text", format!("exhaustive Color {:?} prints as {:?}", name, c.to_plain()));
                        }
                    }
                    Err(_) if !listed => {}
                    other => cs.fail_last("gen:Color:exhaustive", format!("exhaustive Color::from_plain({:?}) = {:?}", name, other.map(|c| c.to_plain()).map_err(|e| e.to_string()))),
                }
            }
            if i > 20 && tier == Tier::Quick {
                continue;
            }
        }
    }
    cs
}

pub const RULE: &str = "bool: both values and 12 texts; i32: edges and seeded values, plus parser-only texts (+5, 005, overflow, whitespace, non-ASCII digits); f64: every exponent (quick: every 16th) x 8 mantissa patterns x sign, subnormals, +-0, infinities, NaNs with 4 payloads, seeded bit patterns, plus 30 parser-only texts (the harness passes Rust's own Display text / FromStr verdict so the model adds only Conjure's special-casing); uuid: seeded 16-byte values and 19 mutations of their text (case, simple, braced, urn, moved/missing hyphens, wrong length); binary: byte strings of length 0..20 (64) and mutated Base64 texts (padding, alphabet, trailing bits, whitespace); datetime: 22 boundary years x month ends / leap days x 8 time-of-day patterns plus seeded instants in 0000..9999 at ns/us/ms/s precision, and mutated texts (Z, z, -00:00, t, space, fraction lengths 0..9, invalid month/day/hour/minute/second, padding). Oracle: from_plain(to_plain(x)) == x (NaN modulo payload, otherwise bit-exact) and the Conjure spellings. Non-trivial: everything except one-digit integers and integral finite doubles; distinct = distinct operation lines.";
