//! C02 — generated types read and write the Conjure wire format.
//!
//! Real side: every type of gen/ir/verif.json, compiled by /repo's generator in three configurations (default,
//! exhaustive, serialize-empty-collections), deserializes a document with the client and the server JSON
//! deserializer and re-serializes the value.  Model side: Model/Wire.lean, a transcription of the wire
//! specification, canonicalises or rejects the same document for the same definitions.  Documents are generated
//! from the *definitions* (valid ones, with optionals absent / null / present, collections empty / absent,
//! both union member orders, unknown enum values and variants) and then damaged by exactly one fault.
use crate::dynval::{Dbl, Tree};
use crate::ops::c10::sort_tree;
use crate::run::{guarded, Cases, Tier};
use crate::util::{hex, Rng};
use serde_json::Value;
use std::collections::HashMap;

pub const RULE: &str = "non-trivial: the document has a fault, an absent / null optional, an empty or absent collection, a union, an alias hop, or a non-default configuration";

#[derive(Clone, Debug)]
enum Ty {
    Prim(String),
    Opt(Box<Ty>),
    List(Box<Ty>),
    Set(Box<Ty>),
    Map(Box<Ty>, Box<Ty>),
    Ref(usize),
}

#[derive(Clone, Debug)]
enum Def {
    Alias(Ty),
    Enum(Vec<String>),
    Object(Vec<(String, Ty)>),
    Union(Vec<(String, Ty)>),
}

struct Ir {
    names: Vec<String>,
    defs: Vec<Def>,
}

fn parse_ty(v: &Value, idx: &HashMap<String, usize>) -> Ty {
    match v["type"].as_str().unwrap() {
        "primitive" => Ty::Prim(v["primitive"].as_str().unwrap().to_lowercase()),
        "optional" => Ty::Opt(Box::new(parse_ty(&v["optional"]["itemType"], idx))),
        "list" => Ty::List(Box::new(parse_ty(&v["list"]["itemType"], idx))),
        "set" => Ty::Set(Box::new(parse_ty(&v["set"]["itemType"], idx))),
        "map" => Ty::Map(Box::new(parse_ty(&v["map"]["keyType"], idx)), Box::new(parse_ty(&v["map"]["valueType"], idx))),
        "reference" => Ty::Ref(idx[v["reference"]["name"].as_str().unwrap()]),
        // an imported type is its fallback on the wire
        "external" => parse_ty(&v["external"]["fallback"], idx),
        other => panic!("type kind {}", other),
    }
}

fn load_ir() -> Ir {
    let ir: Value = serde_json::from_str(verifgen::IR_SRC).unwrap();
    ir_of(&ir)
}

fn ir_of(ir: &Value) -> Ir {
    let types = ir["types"].as_array().unwrap();
    let mut idx = HashMap::new();
    let mut names = vec![];
    for (i, t) in types.iter().enumerate() {
        let k = t["type"].as_str().unwrap();
        let n = t[k]["typeName"]["name"].as_str().unwrap().to_string();
        idx.insert(n.clone(), i);
        names.push(n);
    }
    let fields = |a: &Value| -> Vec<(String, Ty)> { a.as_array().unwrap().iter().map(|f| (f["fieldName"].as_str().unwrap().to_string(), parse_ty(&f["type"], &idx))).collect() };
    let defs = types
        .iter()
        .map(|t| match t["type"].as_str().unwrap() {
            "alias" => Def::Alias(parse_ty(&t["alias"]["alias"], &idx)),
            "enum" => Def::Enum(t["enum"]["values"].as_array().unwrap().iter().map(|v| v["value"].as_str().unwrap().to_string()).collect()),
            "object" => Def::Object(fields(&t["object"]["fields"])),
            _ => Def::Union(fields(&t["union"]["union"])),
        })
        .collect();
    Ir { names, defs }
}

fn ty_sexp(t: &Ty) -> String {
    match t {
        Ty::Prim(p) => format!("(p,{})", p),
        Ty::Opt(t) => format!("(opt,{})", ty_sexp(t)),
        Ty::List(t) => format!("(list,{})", ty_sexp(t)),
        Ty::Set(t) => format!("(set,{})", ty_sexp(t)),
        Ty::Map(k, v) => format!("(map,{},{})", ty_sexp(k), ty_sexp(v)),
        Ty::Ref(n) => format!("(ref,{})", n),
    }
}

fn defs_sexp(ir: &Ir) -> String {
    let fs = |v: &Vec<(String, Ty)>| v.iter().map(|(n, t)| format!(",(f,{},{})", hex(n.as_bytes()), ty_sexp(t))).collect::<String>();
    let mut s = String::from("(defs");
    for d in &ir.defs {
        match d {
            Def::Alias(t) => s.push_str(&format!(",(alias,{})", ty_sexp(t))),
            Def::Enum(vs) => s.push_str(&format!(",(enum{})", vs.iter().map(|v| format!(",{}", hex(v.as_bytes()))).collect::<String>())),
            Def::Object(f) => s.push_str(&format!(",(object{})", fs(f))),
            Def::Union(f) => s.push_str(&format!(",(union{})", fs(f))),
        }
    }
    s.push(')');
    s
}

struct Gen<'a> {
    ir: &'a Ir,
    rng: &'a mut Rng,
    /// paths at which a fault can be injected, discovered while generating: (description, the damaged subtree)
    exhaustive: bool,
}

fn dealias<'a>(ir: &'a Ir, t: &'a Ty) -> &'a Ty {
    match t {
        Ty::Ref(n) => match &ir.defs[*n] {
            Def::Alias(a) => dealias(ir, a),
            _ => t,
        },
        _ => t,
    }
}

const STRS: [&str; 6] = ["", "a", "hello world", "é\"\\", "type", "x/y"];

impl<'a> Gen<'a> {
    fn prim(&mut self, p: &str) -> Tree {
        let r = &mut *self.rng;
        match p {
            "string" => Tree::Str(STRS[r.below(STRS.len())].to_string()),
            "integer" => Tree::Int([0, 1, -1, 2147483647, -2147483648, 42][r.below(6)]),
            "safelong" => Tree::Int([0, 9007199254740991, -9007199254740991, 1234567890123][r.below(4)]),
            "double" => match r.below(10) {
                // any JSON number is a double: also one written as an integer, of either sign
                6 => Tree::Int([3, 0, 1, 9007199254740991][r.below(4)]),
                7 | 8 => Tree::Int([-3, -1, -2147483649, -9007199254740991][r.below(4)]),
                9 => Tree::Dbl(Dbl::of(1.5e-7)),
                0 => Tree::Str("NaN".into()),
                1 => Tree::Str("Infinity".into()),
                2 => Tree::Str("-Infinity".into()),
                3 => Tree::Dbl(Dbl::of(0.5)),
                4 => Tree::Dbl(Dbl::of(-1e300)),
                // doubles that need all 17 significant digits, of everyday and of arbitrary magnitude
                5 if r.chance(1, 2) => Tree::Dbl(Dbl::of(100.0 + (r.next() >> 11) as f64 / (1u64 << 53) as f64 * 100.0)),
                5 => {
                    let x = f64::from_bits(r.next());
                    Tree::Dbl(Dbl::of(if x.is_finite() { x } else { 1.5e-7 }))
                }
                _ => Tree::Dbl(Dbl::of(1.5e-7)),
            },
            "boolean" => Tree::Bool(r.chance(1, 2)),
            "uuid" => Tree::Str(["00000000-0000-0000-0000-000000000000", "12345678-9abc-def0-1234-56789abcdef0"][r.below(2)].to_string()),
            "rid" => Tree::Str(["ri.svc.inst.type.loc", "ri.a..b.C_d.e-1"][r.below(2)].to_string()),
            "bearertoken" => Tree::Str(["tok", "a.b-c_d~e+f/g=="][r.below(2)].to_string()),
            "datetime" => Tree::Str(["2017-01-02T03:04:05Z", "1999-12-31T23:59:59.123456789Z", "2020-02-29T00:00:00.500Z"][r.below(3)].to_string()),
            "binary" => Tree::Str(["", "aGVsbG8=", "+/8="][r.below(3)].to_string()),
            "any" => match r.below(6) {
                // integers beyond i64 (a JSON number is a JSON number; `any` holds what it was given)
                4 => Tree::Int([18446744073709551615i128, 9223372036854775808, -9223372036854775808][r.below(3)]),
                5 => Tree::Obj(vec![("max".into(), Tree::Arr(vec![Tree::Int(18446744073709551615), Tree::Int(9223372036854775807)]))]),
                0 => Tree::Str("anything".into()),
                1 => Tree::Int(7),
                2 => Tree::Arr(vec![Tree::Bool(true), Tree::Str("x".into())]),
                _ => Tree::Obj(vec![("k".into(), Tree::Int(1))]),
            },
            other => panic!("primitive {}", other),
        }
    }

    /// text of a map key of the type
    fn key(&mut self, t: &Ty, i: usize) -> String {
        match dealias(self.ir, t) {
            Ty::Prim(p) => match p.as_str() {
                "string" => format!("k{}", i),
                "integer" => format!("{}", i as i64 - 1),
                "safelong" => format!("{}", 9007199254740989i64 + i as i64),
                "double" => ["0.5", "NaN", "-Infinity", "1e300"][i % 4].to_string(),
                "boolean" => ["false", "true"][i % 2].to_string(),
                "uuid" => format!("00000000-0000-0000-0000-00000000000{}", i % 10),
                "rid" => format!("ri.svc.inst.type.loc{}", i),
                "bearertoken" => format!("tok{}", i),
                "datetime" => format!("2017-01-0{}T03:04:05Z", 1 + i % 9),
                "binary" => ["AA==", "AQ==", "Ag=="][i % 3].to_string(),
                _ => format!("k{}", i),
            },
            Ty::Ref(n) => match &self.ir.defs[*n] {
                Def::Enum(vs) => vs[i % vs.len()].clone(),
                _ => format!("k{}", i),
            },
            _ => format!("k{}", i),
        }
    }

    /// sets are generated sorted and without duplicates in the order the generated `BTreeSet` keeps them
    fn set_items(&mut self, t: &Ty) -> Vec<Tree> {
        let n = self.rng.below(3);
        match dealias(self.ir, t) {
            Ty::Prim(p) if p == "integer" || p == "safelong" => (0..n).map(|i| Tree::Int(i as i128 * 3 - 2)).collect(),
            Ty::Prim(p) if p == "string" => (0..n).map(|i| Tree::Str(format!("s{}", i))).collect(),
            Ty::Prim(p) if p == "double" => {
                let all = [Tree::Dbl(Dbl::of(-2.5)), Tree::Dbl(Dbl::of(0.25)), Tree::Str("Infinity".into()), Tree::Str("NaN".into())];
                let start = self.rng.below(3);
                all[start..(start + n).min(4)].to_vec()
            }
            Ty::Prim(p) if p == "boolean" => [Tree::Bool(false), Tree::Bool(true)][..n.min(2)].to_vec(),
            _ => {
                if n == 0 {
                    vec![]
                } else {
                    vec![self.value(t, 2)]
                }
            }
        }
    }

    /// a valid document for the type (how optionals / empties are *spelled* is chosen at the enclosing object)
    fn value(&mut self, t: &Ty, depth: usize) -> Tree {
        match t {
            Ty::Prim(p) => self.prim(p),
            Ty::Opt(i) => {
                if depth == 0 || self.rng.chance(1, 3) {
                    Tree::Null
                } else {
                    self.value(i, depth - 1)
                }
            }
            Ty::List(i) => {
                let n = if depth == 0 { 0 } else { self.rng.below(3) };
                Tree::Arr((0..n).map(|_| self.value(i, depth - 1)).collect())
            }
            Ty::Set(i) => {
                if depth == 0 {
                    Tree::Arr(vec![])
                } else {
                    Tree::Arr(self.set_items(i))
                }
            }
            Ty::Map(k, v) => {
                let n = if depth == 0 { 0 } else { self.rng.below(3) };
                Tree::Obj((0..n).map(|i| (self.key(k, i), self.value(v, depth - 1))).collect())
            }
            Ty::Ref(n) => match &self.ir.defs[*n] {
                Def::Alias(a) => self.value(&a.clone(), depth),
                Def::Enum(vs) => {
                    if !self.exhaustive && self.rng.chance(1, 4) {
                        Tree::Str(["UNKNOWN_VALUE", "X9"][self.rng.below(2)].to_string())
                    } else {
                        Tree::Str(vs[self.rng.below(vs.len())].clone())
                    }
                }
                Def::Object(fs) => {
                    let mut ms = vec![];
                    for (name, ft) in fs.clone() {
                        let d = dealias(self.ir, &ft).clone();
                        match d {
                            Ty::Opt(_) => match self.rng.below(3) {
                                0 => {}
                                1 => ms.push((name, Tree::Null)),
                                _ => {
                                    let v = self.value(&ft, depth.saturating_sub(1));
                                    ms.push((name, v));
                                }
                            },
                            Ty::List(_) | Ty::Set(_) | Ty::Map(_, _) => {
                                if depth > 0 && self.rng.chance(2, 3) {
                                    let v = self.value(&ft, depth - 1);
                                    ms.push((name, v));
                                } else if self.rng.chance(1, 2) {
                                    ms.push((name, if matches!(d, Ty::Map(_, _)) { Tree::Obj(vec![]) } else { Tree::Arr(vec![]) }));
                                }
                            }
                            _ => {
                                let v = self.required(&ft, depth.saturating_sub(1));
                                ms.push((name, v));
                            }
                        }
                    }
                    if self.rng.chance(1, 3) && ms.len() > 1 {
                        let k = self.rng.below(ms.len());
                        ms.rotate_left(k);
                    }
                    Tree::Obj(ms)
                }
                Def::Union(vs) => {
                    if vs.is_empty() || (!self.exhaustive && self.rng.chance(1, 5)) {
                        if self.exhaustive {
                            // an empty exhaustive union has no valid document: callers tolerate a rejection
                            return Tree::Obj(vec![("type".into(), Tree::Str("none".into())), ("none".into(), Tree::Int(1))]);
                        }
                        let name = ["futureVariant", "other"][self.rng.below(2)].to_string();
                        let payload = self.prim("any");
                        return self.union_doc(name, payload);
                    }
                    let (name, vt) = vs[self.rng.below(vs.len())].clone();
                    let payload = self.required(&vt, depth.saturating_sub(1));
                    self.union_doc(name, payload)
                }
            },
        }
    }

    /// a value that is not `null` unless the type is optional (recursive references bottom out through optionals)
    fn required(&mut self, t: &Ty, depth: usize) -> Tree {
        self.value(t, depth)
    }

    fn union_doc(&mut self, name: String, payload: Tree) -> Tree {
        if self.rng.chance(1, 2) {
            Tree::Obj(vec![("type".into(), Tree::Str(name.clone())), (name, payload)])
        } else {
            Tree::Obj(vec![(name.clone(), payload), ("type".into(), Tree::Str(name))])
        }
    }
}

/// every place where exactly one fault can be injected: returns the damaged documents with a label
fn faults(ir: &Ir, t: &Ty, doc: &Tree, rng: &mut Rng, depth: usize) -> Vec<(String, Tree)> {
    let mut out = vec![];
    if depth > 4 {
        return out;
    }
    let wrong_kind = |d: &Tree| -> Tree {
        match d {
            Tree::Obj(_) => Tree::Arr(vec![Tree::Int(1), Tree::Str("x".into()), Tree::Obj(vec![])]),
            Tree::Arr(_) => Tree::Obj(vec![("0".into(), Tree::Int(1))]),
            Tree::Str(_) => Tree::Int(12),
            Tree::Int(_) => Tree::Str("12".into()),
            Tree::Bool(_) => Tree::Str("true".into()),
            Tree::Dbl(_) => Tree::Bool(true),
            _ => Tree::Arr(vec![]),
        }
    };
    match (t, doc) {
        (Ty::Prim(p), d) if !matches!(d, Tree::Null) => {
            if p != "any" {
                // a string where a number is required etc.; doubles accept integers, so avoid Int for them
                let w = if p == "double" { Tree::Bool(true) } else { wrong_kind(d) };
                out.push((format!("wrong-kind:{}", p), w));
                if p == "double" {
                    // a string is a double only if it is one of the three non-finite spellings: not a numeral in quotes,
                    // not Rust's own spellings
                    for t in ["1.5", "2", "1e3", "inf", "nan", "-Infinity ", "+Infinity", "infinity"] {
                        out.push(("double-as-numeric-string".into(), Tree::Str(t.into())));
                    }
                }
            }
            match p.as_str() {
                "integer" => out.push(("integer-out-of-range".into(), Tree::Int([2147483648i128, -2147483649][rng.below(2)]))),
                "safelong" => out.push(("safelong-out-of-range".into(), Tree::Int([9007199254740992i128, -9007199254740992][rng.below(2)]))),
                "uuid" => out.push(("malformed-uuid".into(), Tree::Str("12345678-9abc-def0-1234-56789abcdefg".into()))),
                "rid" => out.push(("malformed-rid".into(), Tree::Str("ri.Svc.inst.type.loc".into()))),
                "datetime" => out.push(("malformed-datetime".into(), Tree::Str("2017-13-02T03:04:05Z".into()))),
                "bearertoken" => out.push(("malformed-token".into(), Tree::Str("to ken".into()))),
                "binary" => out.push(("malformed-base64".into(), Tree::Str("aGVsbG8".into()))),
                _ => {}
            }
        }
        (Ty::Opt(i), d) if !matches!(d, Tree::Null) => {
            for (l, f) in faults(ir, i, d, rng, depth + 1) {
                out.push((l, f));
            }
        }
        (Ty::List(i), Tree::Arr(xs)) | (Ty::Set(i), Tree::Arr(xs)) => {
            out.push(("wrong-kind:collection".into(), Tree::Str("notalist".into())));
            if let Some(k) = (!xs.is_empty()).then(|| rng.below(xs.len())) {
                for (l, f) in faults(ir, i, &xs[k], rng, depth + 1) {
                    let mut ys = xs.clone();
                    ys[k] = f;
                    out.push((l, Tree::Arr(ys)));
                }
            }
        }
        (Ty::Map(_, v), Tree::Obj(ms)) => {
            out.push(("wrong-kind:map".into(), Tree::Arr(vec![])));
            if let Some(k) = (!ms.is_empty()).then(|| rng.below(ms.len())) {
                for (l, f) in faults(ir, v, &ms[k].1, rng, depth + 1) {
                    let mut ys = ms.clone();
                    ys[k].1 = f;
                    out.push((l, Tree::Obj(ys)));
                }
            }
        }
        (Ty::Ref(n), d) => match (&ir.defs[*n], d) {
            (Def::Alias(a), d) => out.extend(faults(ir, a, d, rng, depth + 1)),
            (Def::Enum(_), Tree::Str(_)) => {
                out.push(("malformed-enum-name".into(), Tree::Str(["lowercase", "", "WITH SPACE", "É"][rng.below(4)].to_string())));
                out.push(("wrong-kind:enum".into(), Tree::Int(1)));
                if let Tree::Str(v) = d {
                    // serde's externally tagged spelling of a unit variant is not the wire format (a string)
                    out.push(("enum-as-object".into(), Tree::Obj(vec![(v.clone(), Tree::Null)])));
                }
            }
            (Def::Object(fs), Tree::Obj(ms)) => {
                out.push(("wrong-kind:object".into(), Tree::Str("notanobject".into())));
                for (name, ft) in fs {
                    let d = dealias(ir, ft);
                    let req = !matches!(d, Ty::Opt(_) | Ty::List(_) | Ty::Set(_) | Ty::Map(_, _));
                    let pos = ms.iter().position(|m| &m.0 == name);
                    if req {
                        if let Some(p) = pos {
                            let mut ys = ms.clone();
                            ys.remove(p);
                            out.push(("missing-required-field".into(), Tree::Obj(ys)));
                            if !matches!(d, Ty::Prim(x) if x == "any") {
                                let mut ys = ms.clone();
                                ys[p].1 = Tree::Null;
                                out.push(("null-required-field".into(), Tree::Obj(ys)));
                            }
                        }
                    }
                    if matches!(d, Ty::List(_) | Ty::Set(_) | Ty::Map(_, _)) {
                        if let Some(p) = pos {
                            let mut ys = ms.clone();
                            ys[p].1 = Tree::Null;
                            out.push(("null-collection-field".into(), Tree::Obj(ys)));
                        }
                    }
                    if let Some(p) = pos {
                        let mut ys = ms.clone();
                        ys.push(ms[p].clone());
                        out.push(("duplicate-field".into(), Tree::Obj(ys)));
                        for (l, f) in faults(ir, ft, &ms[p].1, rng, depth + 1) {
                            let mut ys = ms.clone();
                            ys[p].1 = f;
                            out.push((l, Tree::Obj(ys)));
                        }
                    }
                }
                let mut ys = ms.clone();
                ys.push(("notDeclaredAnywhere".into(), Tree::Int(1)));
                out.push(("unknown-field".into(), Tree::Obj(ys)));
            }
            (Def::Union(vs), Tree::Obj(ms)) if ms.len() == 2 => {
                out.push(("wrong-kind:union".into(), Tree::Str("notaunion".into())));
                let ti = ms.iter().position(|m| m.0 == "type").unwrap_or(0);
                let pi = 1 - ti;
                // type and member disagree
                let mut ys = ms.clone();
                ys[ti].1 = Tree::Str("someOtherName".into());
                out.push(("union-type-member-disagree".into(), Tree::Obj(ys)));
                // an extra member
                let mut ys = ms.clone();
                ys.push(("extra".into(), Tree::Int(1)));
                out.push(("union-extra-member".into(), Tree::Obj(ys)));
                // only the type / only the member
                out.push(("union-only-type".into(), Tree::Obj(vec![ms[ti].clone()])));
                out.push(("union-only-member".into(), Tree::Obj(vec![ms[pi].clone()])));
                // type is not a string
                let mut ys = ms.clone();
                ys[ti].1 = Tree::Int(3);
                out.push(("union-type-not-string".into(), Tree::Obj(ys)));
                // two different names, neither of them declared, in both member orders
                out.push(("union-unknown-names-disagree".into(), Tree::Obj(vec![("type".into(), Tree::Str("notDeclaredA".into())), ("notDeclaredB".into(), Tree::Int(1))])));
                out.push(("union-unknown-names-disagree".into(), Tree::Obj(vec![("notDeclaredB".into(), Tree::Int(1)), ("type".into(), Tree::Str("notDeclaredA".into()))])));
                if let Some((_, vt)) = vs.iter().find(|v| v.0 == ms[pi].0) {
                    for (l, f) in faults(ir, vt, &ms[pi].1, rng, depth + 1) {
                        let mut ys = ms.clone();
                        ys[pi].1 = f;
                        out.push((l, Tree::Obj(ys)));
                    }
                }
            }
            _ => {}
        },
        _ => {}
    }
    out
}

/// C01 on the generated types of verif.json, in all three configurations: a valid document's value, written with
/// the JSON and the Smile serializer, is read back equal through every entry point of both sides
pub fn c01_generated(cs: &mut Cases, rng: &mut Rng, tier: Tier) {
    let ir = load_ir();
    let reg: HashMap<&'static str, verifgen::Entry> = verifgen::registry().into_iter().map(|e| (e.name, e)).collect();
    let per_type = if tier == Tier::Quick { 3 } else { 25 };
    for (i, name) in ir.names.iter().enumerate() {
        let entry = match reg.get(name.as_str()) {
            Some(e) => e,
            None => continue,
        };
        for (cfg, exh) in [("plain", false), ("exhaustive", true), ("empties", false)] {
            for _ in 0..per_type {
                let doc = {
                    let mut g = Gen { ir: &ir, rng: &mut *rng, exhaustive: exh };
                    g.value(&Ty::Ref(i), 3)
                };
                let bytes = serde_json::to_vec(&doc).unwrap();
                let f = entry.round;
                let (c2, b2) = (cfg.to_string(), bytes.clone());
                let r = guarded(move || f(&c2, &b2));
                let txt = String::from_utf8_lossy(&bytes).to_string();
                cs.push(&format!("generated:{}", cfg), "noop".into(), "noop".into(), txt.contains("[]") || txt.contains("{}") || txt.contains("null") || txt.contains("NaN") || txt.contains("ri."), format!("{} ({}): {}", name, cfg, txt));
                match r {
                    Err(p) => cs.fail_last("generated:panic", format!("{} ({}) panicked on {}: {}", name, cfg, txt, p)),
                    Ok(Err(e)) if e.starts_with("the document itself is rejected") => {} // C02's business
                    Ok(Err(e)) => cs.fail_last("generated:roundtrip", format!("{} ({}) from {}: {}", name, cfg, txt, e)),
                    Ok(Ok(())) => {}
                }
            }
        }
    }
}

/// C05 on the generated types of verif.json, in all three configurations: a valid document with one undeclared field
/// added to an object at any depth (below optionals, lists, sets, map values, aliases, union members) is read by the
/// client exactly as the document without it, and rejected by the server with an error naming the field.  The
/// operation is the wire model's `canon` (its `server` flag is this property).
pub fn c05_generated(cs: &mut Cases, rng: &mut Rng, tier: Tier) {
    let ir = load_ir();
    let defs = defs_sexp(&ir);
    let reg: HashMap<&'static str, verifgen::Entry> = verifgen::registry().into_iter().map(|e| (e.name, e)).collect();
    let per_type = if tier == Tier::Quick { 2 } else { 10 };
    for (i, name) in ir.names.iter().enumerate() {
        let entry = match reg.get(name.as_str()) {
            Some(e) => e,
            None => continue,
        };
        for (cfg, exh, emp) in [("plain", false, false), ("exhaustive", true, false), ("empties", false, true)] {
            for _ in 0..per_type {
                let t = Ty::Ref(i);
                let doc = {
                    let mut g = Gen { ir: &ir, rng: &mut *rng, exhaustive: exh };
                    g.value(&t, 3)
                };
                let base_bytes = serde_json::to_vec(&doc).unwrap();
                for (label, d) in faults(&ir, &t, &doc, rng, 0) {
                    if label != "unknown-field" {
                        continue;
                    }
                    for server in [false, true] {
                        let bytes = serde_json::to_vec(&d).unwrap();
                        let f = entry.de_ser;
                        let (c2, b2, c3, b3) = (cfg.to_string(), bytes.clone(), cfg.to_string(), base_bytes.clone());
                        let r = guarded(move || (f(&c2, server, &b2), f(&c3, server, &b3)));
                        let show = |x: &Result<String, String>| match x {
                            Ok(s) => format!("ok {}", sort_tree(&serde_json::from_str::<Tree>(s).unwrap_or(Tree::Null))),
                            Err(_) => "err".to_string(),
                        };
                        let op = format!("canon {} {}{}{} (ref,{}) {}", defs, exh as u8, emp as u8, server as u8, i, d.txt(None));
                        let class = format!("generated:{}:{}", cfg, if server { "server" } else { "client" });
                        let note = format!("{} {} {}: {}", name, cfg, if server { "server" } else { "client" }, String::from_utf8_lossy(&bytes));
                        match r {
                            Err(p) => {
                                cs.push(&class, op, format!("panic {}", p), true, note);
                                cs.fail_last("generated:panic", format!("{} panicked on {}: {}", name, String::from_utf8_lossy(&bytes), p));
                            }
                            Ok((with, without)) => {
                                cs.push(&class, op, show(&with), true, note);
                                if without.is_err() {
                                    continue; // the base document is not accepted: nothing to compare (C02's business)
                                }
                                if server {
                                    match &with {
                                        Ok(_) => cs.fail_last("generated:server-accepts-unknown-field", format!("{} ({}, server) accepts an undeclared field: {}", name, cfg, String::from_utf8_lossy(&bytes))),
                                        Err(e) if !e.contains("notDeclaredAnywhere") => cs.fail_last("generated:server-error-does-not-name-field", format!("{} ({}, server) rejects {} without naming the field: {}", name, cfg, String::from_utf8_lossy(&bytes), e)),
                                        _ => {}
                                    }
                                } else if show(&with) != show(&without) {
                                    cs.fail_last("generated:client-does-not-ignore-unknown-field", format!("{} ({}, client) reads {} as {:?} but the same document without `notDeclaredAnywhere` as {:?}", name, cfg, String::from_utf8_lossy(&bytes), with, without));
                                }
                            }
                        }
                    }
                }
            }
        }
    }
}

pub fn cases(seed: u64, tier: Tier) -> Cases {
    let mut cs = Cases::new("C02");
    let mut rng = Rng::new(seed ^ 0xC02);
    let ir = load_ir();
    let defs = defs_sexp(&ir);
    let reg: HashMap<&'static str, verifgen::Entry> = verifgen::registry().into_iter().map(|e| (e.name, e)).collect();
    let per_type = if tier == Tier::Quick { 4 } else { 12 };
    for (i, name) in ir.names.iter().enumerate() {
        let entry = match reg.get(name.as_str()) {
            Some(e) => e,
            None => continue,
        };
        for (cfg, exh, emp) in [("plain", false, false), ("exhaustive", true, false), ("empties", false, true)] {
            for _ in 0..per_type {
                let t = Ty::Ref(i);
                let doc = {
                    let mut g = Gen { ir: &ir, rng: &mut rng, exhaustive: exh };
                    g.value(&t, 3)
                };
                let mut docs = vec![("valid".to_string(), doc.clone())];
                let fs = faults(&ir, &t, &doc, &mut rng, 0);
                // every fault class once per document (the first occurrence), plus a few random ones
                let mut seen = std::collections::HashSet::new();
                for (l, f) in fs {
                    if seen.insert(l.clone()) || rng.chance(1, 6) {
                        docs.push((l, f));
                    }
                }
                for (label, d) in docs {
                    for server in [false, true] {
                        let bytes = serde_json::to_vec(&d).unwrap();
                        let f = entry.de_ser;
                        let (c2, b2) = (cfg.to_string(), bytes.clone());
                        let r = guarded(move || f(&c2, server, &b2));
                        let real = match &r {
                            Ok(Ok(s)) => format!("ok {}", sort_tree(&serde_json::from_str::<Tree>(s).unwrap_or(Tree::Null))),
                            Ok(Err(_)) => "err".to_string(),
                            Err(p) => format!("panic {}", p),
                        };
                        let op = format!("canon {} {}{}{} (ref,{}) {}", defs, exh as u8, emp as u8, server as u8, i, d.txt(None));
                        let class = format!("{}:{}:{}", cfg, if server { "server" } else { "client" }, if label == "valid" { "valid" } else { "fault" });
                        let nontrivial = label != "valid" || exh || emp || String::from_utf8_lossy(&bytes).contains("null") || String::from_utf8_lossy(&bytes).contains("[]") || String::from_utf8_lossy(&bytes).contains("\"type\"");
                        cs.push(&class, op, real.clone(), nontrivial, format!("{} {} {} {}: {}", name, cfg, if server { "server" } else { "client" }, label, String::from_utf8_lossy(&bytes)));
                        // the statement itself: valid documents are accepted, single-fault documents rejected
                        // (unknown fields are C05's: ignored by clients), and a panic is never acceptable
                        let not_omitted: Option<String> = match (&ir.defs[i], &r) {
                            (Def::Object(fs), Ok(Ok(s))) if !emp => match serde_json::from_str::<Tree>(s) {
                                Ok(Tree::Obj(ms)) => fs.iter().find_map(|(fname, ft)| {
                                    let omittable = matches!(dealias(&ir, ft), Ty::Opt(_) | Ty::List(_) | Ty::Set(_) | Ty::Map(_, _));
                                    let v = ms.iter().find(|m| &m.0 == fname).map(|m| &m.1);
                                    match v {
                                        Some(Tree::Null) if omittable => Some(format!("`{}` is written as null", fname)),
                                        Some(Tree::Arr(xs)) if omittable && xs.is_empty() => Some(format!("`{}` is written as []", fname)),
                                        Some(Tree::Obj(xs)) if omittable && xs.is_empty() && !matches!(dealias(&ir, ft), Ty::Opt(_)) => Some(format!("`{}` is written as {{}}", fname)),
                                        _ => None,
                                    }
                                }),
                                _ => None,
                            },
                            _ => None,
                        };
                        // integers beyond i64 only occur inside `any` values, which hold what they were given
                        let altered_int = if label == "valid" && real.starts_with("ok") {
                            let txt = String::from_utf8_lossy(&bytes).to_string();
                            ["18446744073709551615", "9223372036854775808", "-9223372036854775808"].iter().find(|b| txt.contains(*b) && !real.contains(*b)).map(|b| b.to_string())
                        } else {
                            None
                        };
                        // a document that is one number, read as a double and written back, denotes the double nearest to
                        // the literal (judged by the standard library's parser, not by the one under test)
                        let not_nearest = match (&r, label == "valid") {
                            (Ok(Ok(out)), true) => {
                                let txt = String::from_utf8_lossy(&bytes).to_string();
                                match (txt.trim().parse::<f64>(), out.trim().parse::<f64>()) {
                                    (Ok(a), Ok(b)) if a.is_finite() && a.to_bits() != b.to_bits() && !(a == 0.0 && b == 0.0) => Some(format!("the literal {} denotes {:?} but is written back as {}", txt.trim(), a, out.trim())),
                                    _ => None,
                                }
                            }
                            _ => None,
                        };
                        if let Err(p) = &r {
                            cs.fail_last(&format!("panic:{}", name), format!("{} panicked on {}: {}", name, String::from_utf8_lossy(&bytes), p));
                        } else if let Some(w) = not_nearest {
                            cs.fail_last("double:not-nearest", format!("{} ({}, {}): {}", name, cfg, if server { "server" } else { "client" }, w));
                        } else if let Some(b) = altered_int {
                            cs.fail_last("any:integer-altered", format!("{} ({}, {}): the integer {} held in an `any` is not in the re-serialization of {}: {}", name, cfg, if server { "server" } else { "client" }, b, String::from_utf8_lossy(&bytes), real));
                        } else if let Some(w) = not_omitted {
                            cs.fail_last("absent-or-empty-not-omitted", format!("{} ({}, {}): {} in the re-serialization of {}: {}", name, cfg, if server { "server" } else { "client" }, w, String::from_utf8_lossy(&bytes), real));
                        } else if label == "valid" && real == "err" && !(exh && String::from_utf8_lossy(&bytes).contains("\"none\"")) {
                            cs.fail_last(&format!("valid-rejected:{}", name), format!("{} ({}, {}) rejects a document that is valid for its definition: {} ({:?})", name, cfg, if server { "server" } else { "client" }, String::from_utf8_lossy(&bytes), r));
                        } else if label != "valid" && label != "unknown-field" && real != "err" {
                            cs.fail_last(&format!("fault-accepted:{}", label), format!("{} ({}, {}) accepts a document with the fault `{}`: {} -> {}", name, cfg, if server { "server" } else { "client" }, label, String::from_utf8_lossy(&bytes), real));
                        } else if label == "unknown-field" && server && real != "err" {
                            cs.fail_last("fault-accepted:unknown-field", format!("{} ({}, server) accepts an undeclared field: {}", name, cfg, String::from_utf8_lossy(&bytes)));
                        }
                    }
                }
            }
        }
    }
    // ---- distinct values stay distinct as elements of a set: for every object type with a list-valued field, three
    // documents that differ only in that list (one a prefix of the next) are three elements, in every configuration
    // of the element type's own equality and order (lists of doubles compare through `DoubleOps`)
    for (i, name) in ir.names.iter().enumerate() {
        let (entry, fields) = match (reg.get(name.as_str()), &ir.defs[i]) {
            (Some(e), Def::Object(fs)) => (e, fs),
            _ => continue,
        };
        for (fname, ft) in fields {
            let item = match dealias(&ir, ft) {
                Ty::List(t) => (**t).clone(),
                _ => continue,
            };
            for _ in 0..(if tier == Tier::Quick { 2 } else { 10 }) {
                let (base, x, y) = {
                    let mut g = Gen { ir: &ir, rng: &mut rng, exhaustive: false };
                    (g.value(&Ty::Ref(i), 3), g.value(&item, 2), g.value(&item, 2))
                };
                let with = |items: Vec<Tree>| -> Vec<u8> {
                    let mut d = base.clone();
                    if let Tree::Obj(ms) = &mut d {
                        ms.retain(|m| &m.0 != fname);
                        ms.push((fname.clone(), Tree::Arr(items)));
                    }
                    serde_json::to_vec(&d).unwrap()
                };
                let docs = [with(vec![]), with(vec![x.clone()]), with(vec![x.clone(), y.clone()]), with(vec![x.clone(), y.clone(), x.clone()])];
                let refs: Vec<&[u8]> = docs.iter().map(|d| &d[..]).collect();
                let f = entry.set_probe;
                let r = guarded(|| f(&refs));
                cs.push("set-of-prefixes", "noop".into(), "noop".into(), true, format!("{}: four documents differing only in `{}` = [], [x], [x,y], [x,y,x] with x = {}, y = {}", name, fname, x.txt(None), y.txt(None)));
                match r {
                    Err(p) => cs.fail_last(&format!("panic:{}", name), p),
                    Ok(Err(_)) => {} // a document is rejected: not this oracle's business
                    Ok(Ok((bt, hs, found_b, found_h, twice))) => {
                        if bt != 4 || hs != 4 || !found_b || !found_h || !twice {
                            cs.fail_last("set:distinct-values-merged", format!("four distinct {} values (lists of length 0, 1, 2, 3 in `{}`) make a BTreeSet of {} and a HashSet of {} (all found again: {} / {}; equal when read twice: {}): {}", name, fname, bt, hs, found_b, found_h, twice, String::from_utf8_lossy(&docs[3])));
                        }
                    }
                }
            }
        }
    }
    // ---- the generator's per-field decisions (rename / default / skip_serializing_if) on seeded random definitions:
    // read back from the emitted structs with syn and compared with the specification's `shape` (through aliases
    // of aliases and external fallbacks), under all three configurations
    let n_ir = if tier == Tier::Quick { 40 } else { 400 };
    for k in 0..n_ir {
        let rir = crate::irrand::random_ir(&mut rng, &crate::irrand::Opts { max_types: 8, services: false, errors: false, keywords: true, rich_set_items: false });
        let rdefs = ir_of(&rir);
        let rsexp = defs_sexp(&rdefs);
        let (exh, emp) = (rng.chance(1, 2), rng.chance(1, 2));
        let cfg = crate::irgen::GenCfg { exhaustive: exh, serialize_empty_collections: emp, strip_prefix: None, build_crate: None };
        let tree = match crate::irgen::generate(&rir, &cfg) {
            Ok(t) => t,
            Err(e) => {
                cs.push("attrs", "noop".into(), "noop".into(), true, format!("seeded definitions #{}", k));
                cs.fail_last("attrs:generation-failed", format!("generation failed for seeded definitions #{}: {}", k, e.chars().take(300).collect::<String>()));
                continue;
            }
        };
        let mut structs: HashMap<String, Vec<(String, String)>> = HashMap::new();
        for (p, text) in &tree {
            if !p.ends_with(".rs") {
                continue;
            }
            if let Ok(file) = syn::parse_file(text) {
                for item in &file.items {
                    if let syn::Item::Struct(st) = item {
                        if let syn::Fields::Named(nf) = &st.fields {
                            let fields = nf
                                .named
                                .iter()
                                .map(|f| {
                                    let attr: String = f.attrs.iter().filter(|a| a.path().is_ident("serde")).map(|a| quote::quote!(#a).to_string().chars().filter(|c| !c.is_whitespace()).collect::<String>()).collect();
                                    (f.ident.as_ref().map(|i| i.to_string()).unwrap_or_default(), attr)
                                })
                                .collect();
                            structs.insert(st.ident.to_string(), fields);
                        }
                    }
                }
            }
        }
        for (i, d) in rdefs.defs.iter().enumerate() {
            if let Def::Object(fs) = d {
                let op = format!("attrs {} {}{}0 {}", rsexp, exh as u8, emp as u8, i);
                let real = match structs.get(&rdefs.names[i]) {
                    None => "struct-not-found".to_string(),
                    Some(sf) => {
                        if sf.len() != fs.len() {
                            format!("field-count {} != {}", sf.len(), fs.len())
                        } else {
                            fs.iter()
                                .zip(sf)
                                .map(|((name, _), (_, attr))| {
                                    let renamed = attr.contains(&format!("rename=\"{}\"", name));
                                    format!("{}:{}:{}", if renamed { hex(name.as_bytes()) } else { format!("not-renamed<{}>", attr) }, if attr.contains(",default") || attr.contains("(default") { "d" } else { "-" }, if attr.contains("skip_serializing_if") { "s" } else { "-" })
                                })
                                .collect::<Vec<_>>()
                                .join(",")
                        }
                    }
                };
                cs.push("attrs", op, real, !fs.is_empty(), format!("serde attributes of {} in seeded definitions #{} ({} fields, exhaustive={}, empties={})", rdefs.names[i], k, fs.len(), exh, emp));
            }
        }
    }
    // doubles in key position written the way any JSON number may be written (no fraction, an exponent), and an
    // optional at the root of a document holding what only this format spells its own way
    {
        use conjure_object::DoubleKey;
        use std::collections::{BTreeMap, BTreeSet};
        let docs: [(&str, &str); 4] = [("[1,2.5,-3]", "[-3.0,1.0,2.5]"), ("[1e2]", "[100.0]"), ("[0,\"NaN\",\"-Infinity\"]", "[\"-Infinity\",0.0,\"NaN\"]"), ("[]", "[]")];
        for (doc, want) in docs {
            for server in [false, true] {
                let d = doc.to_string();
                let r = guarded(move || {
                    let v: BTreeSet<DoubleKey> = if server { conjure_serde::json::server_from_str(&d) } else { conjure_serde::json::client_from_str(&d) }.map_err(|e| e.to_string())?;
                    conjure_serde::json::to_string(&v).map_err(|e| e.to_string())
                });
                cs.push("double-keys", "noop".into(), "noop".into(), true, format!("set<double> ({}) from {}", if server { "server" } else { "client" }, doc));
                if r.as_ref().ok().and_then(|x| x.as_ref().ok()).map(|s| s.as_str()) != Some(want) {
                    cs.fail_last("valid-rejected:set-of-double", format!("the valid set<double> document {} gives {:?} (expected {})", doc, r, want));
                }
            }
        }
        let d = "{\"1\":1,\"2.5\":2,\"-Infinity\":3,\"1e2\":4}".to_string();
        let r = guarded(move || conjure_serde::json::server_from_str::<BTreeMap<DoubleKey, i32>>(&d).map(|m| m.len()).map_err(|e| e.to_string()));
        cs.push("double-keys", "noop".into(), "noop".into(), true, "map<double, integer> from keys 1, 2.5, -Infinity, 1e2".to_string());
        if !matches!(r, Ok(Ok(4))) {
            cs.fail_last("valid-rejected:map-of-double", format!("the valid map<double, integer> document gives {:?}", r));
        }
        // root optionals
        let r = guarded(|| {
            let a = conjure_serde::json::to_string(&Some(f64::NAN)).map_err(|e| e.to_string())?;
            let b = conjure_serde::json::to_string(&Some(conjure_object::Bytes::from_static(b"foo"))).map_err(|e| e.to_string())?;
            let c = conjure_serde::json::to_string(&Some(vec![f64::INFINITY])).map_err(|e| e.to_string())?;
            let d = conjure_serde::json::to_string(&Option::<f64>::None).map_err(|e| e.to_string())?;
            Ok::<_, String>(format!("{} {} {} {}", a, b, c, d))
        });
        cs.push("root-optional", "noop".into(), "noop".into(), true, "Some(NaN), Some(binary foo), Some([Infinity]) and None as whole documents".to_string());
        if r.as_ref().ok().and_then(|x| x.as_ref().ok()).map(|s| s.as_str()) != Some("\"NaN\" \"Zm9v\" [\"Infinity\"] null") {
            cs.fail_last("root-optional:encoding", format!("a present optional at the root of a document is written {:?}; the specified encodings are \"NaN\" \"Zm9v\" [\"Infinity\"] null", r));
        }
    }
    cs
}
