//! C06 / C18 — body reassembly, framing and typed decoding on the server (StdRequestDeserializer,
//! OptionalRequestDeserializer) and on the client (decode_*_response), blocking and async, against
//! the model and an oracle built from stock serde_json / serde_smile.
use crate::run::{guarded, Cases, Tier};
use crate::util::{fnv, hex, Rng};
use bytes::Bytes;
use conjure_error::{Error, ErrorKind};
use conjure_http::private::{
    async_decode_default_serializable_response, async_decode_empty_response, async_decode_serializable_response,
    async_read_body, decode_binary_response, decode_default_serializable_response, decode_empty_response,
    decode_optional_binary_response, decode_serializable_response, read_body,
};
use conjure_http::server::conjure::OptionalRequestDeserializer;
use conjure_http::server::{AsyncDeserializeRequest, ConjureRuntime, DeserializeRequest, StdRequestDeserializer};
use http::header::CONTENT_TYPE;
use http::{HeaderMap, HeaderValue, Response, StatusCode};
use serde::de::DeserializeOwned;
use serde::{Deserialize, Serialize};

#[derive(Debug, Clone, PartialEq, Serialize, Deserialize)]
#[serde(deny_unknown_fields)]
pub struct Obj {
    a: i32,
    #[serde(default, skip_serializing_if = "Option::is_none")]
    b: Option<String>,
}

#[derive(Clone, Debug)]
pub(crate) enum Chunk {
    Ok(Vec<u8>),
    Err(u32),
}

pub(crate) fn chunk_txt(cs: &[Chunk]) -> String {
    if cs.is_empty() {
        return "-".into();
    }
    cs.iter()
        .map(|c| match c {
            Chunk::Ok(b) => hex(b),
            Chunk::Err(e) => format!("!{}", e),
        })
        .collect::<Vec<_>>()
        .join(",")
}

pub(crate) fn stream_err(e: u32) -> Error {
    Error::internal_safe(format!("verif-stream-error-{}", e))
}

pub(crate) fn items(cs: &[Chunk]) -> Vec<Result<Bytes, Error>> {
    cs.iter()
        .map(|c| match c {
            Chunk::Ok(b) => Ok(Bytes::from(b.clone())),
            Chunk::Err(e) => Err(stream_err(*e)),
        })
        .collect()
}

pub(crate) fn classify(e: &Error) -> String {
    let cause = e.cause().to_string();
    if let Some(rest) = cause.strip_prefix("verif-stream-error-") {
        return format!("stream {}", rest);
    }
    match e.kind() {
        ErrorKind::Service(s) => format!("{:?}", s.error_code()),
        _ => "other".into(),
    }
}

pub(crate) fn vid<T: std::fmt::Debug>(v: &T) -> u64 {
    fnv(&format!("{:?}", v)) % 1_000_000
}

/// stock parser verdict on a complete buffer: (value id, remainder insignificant?) or invalid
pub(crate) fn verdict<T: DeserializeOwned + std::fmt::Debug>(smile: bool, buf: &[u8]) -> String {
    if smile {
        let mut de = serde_smile::de::Deserializer::from_slice(buf);
        match T::deserialize(&mut de) {
            Ok(v) => format!("v{}:{}", vid(&v), de.end().is_ok() as u8),
            Err(_) => "x".into(),
        }
    } else {
        let mut de = serde_json::Deserializer::from_slice(buf);
        match T::deserialize(&mut de) {
            Ok(v) => format!("v{}:{}", vid(&v), de.end().is_ok() as u8),
            Err(_) => "x".into(),
        }
    }
}

pub(crate) fn joined(cs: &[Chunk]) -> Vec<u8> {
    let mut v = vec![];
    for c in cs {
        match c {
            Chunk::Ok(b) => v.extend_from_slice(b),
            Chunk::Err(_) => break,
        }
    }
    v
}

fn run_std<T: DeserializeOwned + std::fmt::Debug + Send + 'static, const N: usize>(ct: Option<&str>, cs: &[Chunk], is_async: bool) -> Result<String, String> {
    let its = items(cs);
    let ct = ct.map(|s| s.to_string());
    guarded(move || {
        let rt = ConjureRuntime::new();
        let mut h = HeaderMap::new();
        if let Some(c) = &ct {
            if let Ok(v) = HeaderValue::from_str(c) {
                h.insert(CONTENT_TYPE, v);
            }
        }
        let r: Result<T, Error> = if is_async {
            futures::executor::block_on(<StdRequestDeserializer<N> as AsyncDeserializeRequest<T, _>>::deserialize(&rt, &h, futures::stream::iter(its)))
        } else {
            <StdRequestDeserializer<N> as DeserializeRequest<T, _>>::deserialize(&rt, &h, its.into_iter())
        };
        match r {
            Ok(v) => format!("handler {}", vid(&v)),
            Err(e) => match classify(&e).as_str() {
                "InvalidArgument" => "invalid".to_string(),
                other => other.to_string(),
            },
        }
    })
}

/// like `run_std`, with a runtime that registers exactly the given encodings (0 = JSON, 1 = Smile), in that order
fn run_std_rt<T: DeserializeOwned + std::fmt::Debug + Send + 'static>(encs: &[u8], ct: Option<&str>, cs: &[Chunk], is_async: bool) -> Result<String, String> {
    let its = items(cs);
    let ct = ct.map(|s| s.to_string());
    let encs = encs.to_vec();
    guarded(move || {
        let mut b = ConjureRuntime::builder();
        for e in &encs {
            b = if *e == 0 { b.encoding(conjure_http::server::JsonEncoding) } else { b.encoding(conjure_http::server::SmileEncoding) };
        }
        let rt = b.build();
        let mut h = HeaderMap::new();
        if let Some(c) = &ct {
            if let Ok(v) = HeaderValue::from_str(c) {
                h.insert(CONTENT_TYPE, v);
            }
        }
        let r: Result<T, Error> = if is_async {
            futures::executor::block_on(<StdRequestDeserializer<64> as AsyncDeserializeRequest<T, _>>::deserialize(&rt, &h, futures::stream::iter(its)))
        } else {
            <StdRequestDeserializer<64> as DeserializeRequest<T, _>>::deserialize(&rt, &h, its.into_iter())
        };
        match r {
            Ok(v) => format!("handler {}", vid(&v)),
            Err(e) => match classify(&e).as_str() {
                "InvalidArgument" => "invalid".to_string(),
                other => other.to_string(),
            },
        }
    })
}

/// body types that leave unknown fields to the deserializer they are read with (no `deny_unknown_fields`): an object,
/// and a serde enum whose variants hold objects — the server's rules must reach below the variant
#[derive(Debug, Clone, PartialEq, Serialize, Deserialize)]
pub struct LObj {
    a: i32,
    #[serde(default, skip_serializing_if = "Option::is_none")]
    b: Option<String>,
}
/// a plain (not `transparent`) newtype around an object, alone and inside a list
#[derive(Debug, Clone, PartialEq, Serialize, Deserialize)]
pub struct LNew(LObj);
#[derive(Debug, Clone, PartialEq, Serialize, Deserialize)]
pub struct LNews(Vec<LNew>);
#[derive(Debug, Clone, PartialEq, Serialize, Deserialize)]
pub enum LCmd {
    Create { foo: i32 },
    Wrap(LObj),
    Many(Vec<LObj>),
    Pair(i32, LObj),
    Unit,
}

/// documents whose validity under server rules is known by construction; JSON and Smile, blocking and async, and the
/// registered-encoding clause with runtimes that register only one encoding
fn server_rules(cs: &mut Cases) {
    // (serde *struct variants* are not object types in the statement's sense — Conjure never generates them and
    // `struct_variant` does not pass through `deserialize_struct`; see DESIGN.md C05 — so `Create` only appears valid)
    let docs: [(&str, char, bool); 20] = [
        ("{\"a\":1}", 'n', true),
        ("{\"a\":1,\"zz\":2}", 'n', false),
        ("[{\"a\":1},{\"a\":2,\"b\":\"x\"}]", 'N', true),
        ("[{\"a\":1},{\"a\":2,\"y\":[]}]", 'N', false),
        ("[]", 'N', true),
        ("[{\"a\":1,\"b\":null,\"c\":{}}]", 'N', false),
        ("{\"a\":1}", 'o', true),
        ("{\"a\":1,\"b\":\"x\"}", 'o', true),
        ("{\"a\":1,\"zz\":2}", 'o', false),
        ("{\"zz\":{\"a\":1},\"a\":1}", 'o', false),
        ("{\"Create\":{\"foo\":1}}", 'c', true),
        ("{\"Wrap\":{\"a\":1}}", 'c', true),
        ("{\"Wrap\":{\"a\":1,\"x\":null}}", 'c', false),
        ("{\"Many\":[{\"a\":1},{\"a\":2}]}", 'c', true),
        ("{\"Many\":[{\"a\":1},{\"a\":2,\"y\":[]}]}", 'c', false),
        ("{\"Pair\":[3,{\"a\":1}]}", 'c', true),
        ("{\"Pair\":[3,{\"a\":1,\"q\":0}]}", 'c', false),
        ("\"Unit\"", 'c', true),
        ("{\"Create\":{\"foo\":1},\"Unit\":null}", 'c', false),
        ("{\"Nope\":{\"foo\":1}}", 'c', false),
    ];
    for (doc, ty, valid) in docs {
        let value: serde_json::Value = serde_json::from_str(doc).unwrap();
        for smile in [false, true] {
            let body = if smile { serde_smile::to_vec(&value).unwrap() } else { doc.as_bytes().to_vec() };
            let ct = if smile { "application/x-jackson-smile" } else { "application/json" };
            let chunks = if body.len() > 3 { vec![Chunk::Ok(body[..3].to_vec()), Chunk::Ok(body[3..].to_vec())] } else { vec![Chunk::Ok(body.clone())] };
            let (b, a) = match ty {
                'o' => (run_std::<LObj, 64>(Some(ct), &chunks, false), run_std::<LObj, 64>(Some(ct), &chunks, true)),
                'n' => (run_std::<LNew, 64>(Some(ct), &chunks, false), run_std::<LNew, 64>(Some(ct), &chunks, true)),
                'N' => (run_std::<LNews, 64>(Some(ct), &chunks, false), run_std::<LNews, 64>(Some(ct), &chunks, true)),
                _ => (run_std::<LCmd, 64>(Some(ct), &chunks, false), run_std::<LCmd, 64>(Some(ct), &chunks, true)),
            };
            cs.push("std:server-rules", "noop".into(), "noop".into(), true, format!("StdRequestDeserializer::<{}> {} body {}", match ty { 'o' => "LObj", 'n' => "LNew", 'N' => "LNews", _ => "LCmd" }, if smile { "Smile" } else { "JSON" }, doc));
            match (b, a) {
                (Ok(b), Ok(a)) => {
                    if a != b {
                        cs.fail_last("server:blocking-async-differ", format!("blocking says {:?}, async says {:?}", b, a));
                    } else if valid && !b.starts_with("handler") {
                        cs.fail_last("server:valid-body-rejected", format!("the valid document {} ({}) gives {:?}", doc, ct, b));
                    } else if !valid && b.starts_with("handler") {
                        cs.fail_last("server:invalid-body-accepted", format!("handler invoked for {} ({}), which has an undeclared field or is not a value of the type", doc, ct));
                    }
                }
                (b, a) => cs.fail_last("server:panic", format!("panicked: blocking {:?} async {:?}", b, a)),
            }
        }
    }
    // a uuid travels as 36 characters of text in JSON and as 16 raw bytes in Smile: the other form is not a value
    {
        #[derive(Debug, Clone, PartialEq, Serialize, Deserialize)]
        struct LUuid {
            id: conjure_object::Uuid,
            #[serde(default)]
            n: i32,
        }
        let v = LUuid { id: conjure_object::Uuid::from_u128(0x1234_5678_9abc_4def_8123_4567_89ab_cdef), n: 1 };
        let as_text = serde_json::json!({"id": "12345678-9abc-4def-8123-456789abcdef", "n": 1});
        let rows: Vec<(&str, &str, Vec<u8>, bool)> = vec![
            ("JSON, uuid as text", "application/json", conjure_serde::json::to_vec(&v).unwrap(), true),
            ("Smile, uuid as 16 bytes", "application/x-jackson-smile", conjure_serde::smile::to_vec(&v).unwrap(), true),
            ("Smile, uuid as text", "application/x-jackson-smile", serde_smile::to_vec(&as_text).unwrap(), false),
        ];
        for (what, ct, body, valid) in rows {
            let chunks = vec![Chunk::Ok(body)];
            let (b, a) = (run_std::<LUuid, 256>(Some(ct), &chunks, false), run_std::<LUuid, 256>(Some(ct), &chunks, true));
            cs.push("std:server-rules", "noop".into(), "noop".into(), true, format!("StdRequestDeserializer::<LUuid> {}", what));
            match (b, a) {
                (Ok(b), Ok(a)) => {
                    if a != b {
                        cs.fail_last("server:blocking-async-differ", format!("blocking says {:?}, async says {:?}", b, a));
                    } else if valid != b.starts_with("handler") {
                        cs.fail_last(if valid { "server:valid-body-rejected" } else { "server:invalid-body-accepted" }, format!("{}: {:?}", what, b));
                    }
                }
                (b, a) => cs.fail_last("server:panic", format!("panicked: blocking {:?} async {:?}", b, a)),
            }
        }
    }
    // a Content-Type is one media type: a list, or a second Content-Type line, names no encoding
    {
        use conjure_http::server::conjure::OptionalRequestDeserializer;
        let lines: [&[&str]; 6] = [&["application/json, text/plain"], &["application/json,"], &["@@@, application/json"], &["bogus", "application/json"], &["application/json", "application/json"], &["text/plain", "application/json"]];
        for ls in lines {
            let r = guarded(|| {
                let rt = ConjureRuntime::new();
                let mut h = HeaderMap::new();
                for l in ls {
                    h.append(CONTENT_TYPE, HeaderValue::from_str(l).unwrap());
                }
                let it = || vec![Ok::<_, Error>(Bytes::from_static(b"[1,2]"))].into_iter();
                let std: Result<Vec<i32>, String> = <StdRequestDeserializer as DeserializeRequest<Vec<i32>, _>>::deserialize(&rt, &h, it()).map_err(|e| classify(&e));
                let opt: Result<Option<Vec<i32>>, String> = <OptionalRequestDeserializer as DeserializeRequest<Option<Vec<i32>>, _>>::deserialize(&rt, &h, it()).map_err(|e| classify(&e));
                (std, opt)
            });
            cs.push("std:content-type-lines", "noop".into(), "noop".into(), true, format!("Content-Type lines {:?} with the body [1,2]", ls));
            match r {
                Err(p) => cs.fail_last("server:panic", p),
                Ok((std, opt)) => {
                    // two identical valid lines: `HeaderMap::get` reads the first, which names JSON — accepted either way
                    let may_accept = ls.len() == 2 && ls[0] == "application/json";
                    if !may_accept && (std.is_ok() || opt.is_ok()) {
                        cs.fail_last("server:content-type-list-accepted", format!("Content-Type lines {:?} are not one media type, yet the body is decoded: {:?} / {:?}", ls, std, opt));
                    }
                }
            }
        }
    }
    // only registered encodings decode a body
    let json_body = b"[1,2]".to_vec();
    let smile_body = serde_smile::to_vec(&vec![1, 2]).unwrap();
    for encs in [&[0u8][..], &[1u8][..], &[1u8, 0][..], &[0u8, 1][..]] {
        for (ct, body, enc) in [("application/json", &json_body, 0u8), ("application/x-jackson-smile", &smile_body, 1u8)] {
            let chunks = vec![Chunk::Ok(body.clone())];
            let b = run_std_rt::<Vec<i32>>(encs, Some(ct), &chunks, false);
            let a = run_std_rt::<Vec<i32>>(encs, Some(ct), &chunks, true);
            let registered = encs.contains(&enc);
            cs.push("std:registered-encodings", "noop".into(), "noop".into(), true, format!("runtime registering {:?} (0 = JSON, 1 = Smile), Content-Type {}", encs, ct));
            match (b, a) {
                (Ok(b), Ok(a)) => {
                    if a != b {
                        cs.fail_last("server:blocking-async-differ", format!("blocking says {:?}, async says {:?}", b, a));
                    } else if registered != b.starts_with("handler") {
                        cs.fail_last(if registered { "server:valid-body-rejected" } else { "server:unregistered-encoding-accepted" }, format!("runtime registering {:?}: a {} body gives {:?}", encs, ct, b));
                    }
                }
                (b, a) => cs.fail_last("server:panic", format!("panicked: blocking {:?} async {:?}", b, a)),
            }
        }
    }
}

/// `harness deep <server|client> <json|smile> <depth>`: a body of `depth` nested arrays (unterminated, or closed) read
/// as `any` by the server's request deserializer / the client's response decoder; prints what happened
pub fn deep_main(args: &[String]) -> i32 {
    let side = args.first().map(|s| s.as_str()).unwrap_or("server");
    let smile = args.get(1).map(|s| s == "smile").unwrap_or(false);
    let depth: usize = args.get(2).and_then(|d| d.parse().ok()).unwrap_or(100_000);
    let closed = args.get(3).map(|s| s == "closed").unwrap_or(false);
    let body: Vec<u8> = if smile {
        // Smile header, then `depth` START_ARRAY tokens (0xF8), optionally END_ARRAY (0xF9) as many times
        let mut b = vec![b':', b')', b'\n', 0x01];
        b.extend(std::iter::repeat(0xF8u8).take(depth));
        if closed {
            b.extend(std::iter::repeat(0xF9u8).take(depth));
        }
        b
    } else {
        let mut b: Vec<u8> = std::iter::repeat(b'[').take(depth).collect();
        if closed {
            b.extend(std::iter::repeat(b']').take(depth));
        }
        b
    };
    let ct = if smile { "application/x-jackson-smile" } else { "application/json" };
    let chunks: Vec<Result<Bytes, Error>> = body.chunks(65536).map(|c| Ok(Bytes::from(c.to_vec()))).collect();
    let out = if side == "server" {
        let rt = ConjureRuntime::new();
        let mut h = HeaderMap::new();
        h.insert(CONTENT_TYPE, HeaderValue::from_str(ct).unwrap());
        let r: Result<conjure_object::Any, Error> = <StdRequestDeserializer as DeserializeRequest<conjure_object::Any, _>>::deserialize(&rt, &h, chunks.into_iter());
        match r {
            Ok(_) => "handler".to_string(),
            Err(e) => format!("rejected: {}", classify(&e)),
        }
    } else {
        let resp = Response::builder().status(200).header(CONTENT_TYPE, "application/json").body(chunks.into_iter()).unwrap();
        match decode_serializable_response::<conjure_object::Any, _>(resp) {
            Ok(_) => "value".to_string(),
            Err(_) => "error".to_string(),
        }
    };
    println!("{}", out);
    0
}

/// runs the probe above in a child process and reports an abort (stack overflow) as what it is
fn deep_case(cs: &mut Cases, side: &str, fmt: &str, depth: usize, closed: bool) {
    let me = std::env::current_exe().unwrap();
    let o = std::process::Command::new(&me).args(["deep", side, fmt, &depth.to_string(), if closed { "closed" } else { "open" }]).output();
    cs.push(&format!("{}:deep-nesting", side), "noop".into(), "noop".into(), true, format!("a {} body of {} nested arrays ({}) read as `any` by the {}", fmt, depth, if closed { "closed" } else { "unterminated" }, side));
    match o {
        Err(e) => cs.fail_last("deep:harness", e.to_string()),
        Ok(o) => {
            let text = String::from_utf8_lossy(&o.stdout).trim().to_string();
            if !o.status.success() {
                cs.fail_last(&format!("{}:deep-nesting-aborts", side), format!("a {} body of {} nested arrays makes the {} abort the process ({:?}; {}) instead of returning an error", fmt, depth, side, o.status, String::from_utf8_lossy(&o.stderr).lines().last().unwrap_or("")));
            } else if text == "handler" || text == "value" {
                // a closed document of moderate depth may be accepted; an unterminated one never
                if !closed {
                    cs.fail_last(&format!("{}:invalid-body-accepted", side), format!("an unterminated {} body of {} nested arrays is accepted", fmt, depth));
                }
            }
        }
    }
}

fn run_opt<T: DeserializeOwned + std::fmt::Debug + Send + 'static>(ct: Option<&str>, cs: &[Chunk], is_async: bool) -> Result<String, String> {
    let its = items(cs);
    let ct = ct.map(|s| s.to_string());
    guarded(move || {
        let rt = ConjureRuntime::new();
        let mut h = HeaderMap::new();
        if let Some(c) = &ct {
            if let Ok(v) = HeaderValue::from_str(c) {
                h.insert(CONTENT_TYPE, v);
            }
        }
        let r: Result<Option<T>, Error> = if is_async {
            futures::executor::block_on(<OptionalRequestDeserializer as AsyncDeserializeRequest<Option<T>, _>>::deserialize(&rt, &h, futures::stream::iter(its)))
        } else {
            <OptionalRequestDeserializer as DeserializeRequest<Option<T>, _>>::deserialize(&rt, &h, its.into_iter())
        };
        match r {
            Ok(None) if !h.contains_key(CONTENT_TYPE) => "handler absent".to_string(),
            Ok(v) => format!("handler {}", vid(&v)),
            Err(e) => match classify(&e).as_str() {
                "InvalidArgument" => "invalid".to_string(),
                other => other.to_string(),
            },
        }
    })
}

fn enc_of(ct: Option<&str>) -> Option<bool> {
    // Some(smile?) when the Content-Type selects one of the two default encodings
    let ct = ct?;
    let hv = HeaderValue::from_str(ct).ok()?;
    let m = mediatype::MediaType::parse(hv.to_str().ok()?).ok()?;
    let ess = m.essence().to_string().to_ascii_lowercase();
    match ess.as_str() {
        "application/json" => Some(false),
        "application/x-jackson-smile" => Some(true),
        _ => None,
    }
}

fn compositions(n: usize) -> Vec<Vec<usize>> {
    // all ways to cut a string of length n into non-empty pieces
    if n == 0 {
        return vec![vec![]];
    }
    let mut out = vec![];
    for mask in 0..(1u32 << (n - 1)) {
        let mut parts = vec![];
        let mut cur = 1;
        for i in 0..n - 1 {
            if mask & (1 << i) != 0 {
                parts.push(cur);
                cur = 1;
            } else {
                cur += 1;
            }
        }
        parts.push(cur);
        out.push(parts);
    }
    out
}

fn cut(body: &[u8], parts: &[usize]) -> Vec<Chunk> {
    let mut out = vec![];
    let mut i = 0;
    for p in parts {
        out.push(Chunk::Ok(body[i..i + p].to_vec()));
        i += p;
    }
    out
}

pub(crate) fn random_chunking(rng: &mut Rng, body: &[u8]) -> Vec<Chunk> {
    let mut out = vec![];
    let mut i = 0;
    while i < body.len() {
        if rng.chance(1, 5) {
            out.push(Chunk::Ok(vec![]));
        }
        let k = 1 + rng.below((body.len() - i).min(7));
        out.push(Chunk::Ok(body[i..i + k].to_vec()));
        i += k;
    }
    if rng.chance(1, 4) {
        out.push(Chunk::Ok(vec![]));
    }
    out
}

fn server_case<T: DeserializeOwned + std::fmt::Debug + Send + 'static, const N: usize>(cs: &mut Cases, class: &str, ct: Option<&str>, chunks: &[Chunk]) {
    let enc = enc_of(ct);
    let body = joined(chunks);
    let v = match enc {
        Some(smile) => verdict::<T>(smile, &body),
        None => "x".into(),
    };
    let op = format!("std {} {} {} {}", enc.is_some() as u8, N, chunk_txt(chunks), v);
    let note = format!("StdRequestDeserializer<{}>::<{}> Content-Type {:?} chunks {}", N, std::any::type_name::<T>().rsplit("::").next().unwrap_or(""), ct, chunk_txt(chunks));
    let blocking = run_std::<T, N>(ct, chunks, false);
    let asynch = run_std::<T, N>(ct, chunks, true);
    let has_err = chunks.iter().any(|c| matches!(c, Chunk::Err(_)));
    match (blocking, asynch) {
        (Ok(b), Ok(a)) => {
            cs.push(class, op, b.clone(), true, note);
            if a != b {
                cs.fail_last("server:blocking-async-differ", format!("blocking says {:?}, async says {:?}", b, a));
                return;
            }
            // oracle, from the statement
            let accept = enc.is_some() && !has_err && body.len() <= N && v.ends_with(":1");
            let first_err = chunks.iter().find_map(|c| if let Chunk::Err(e) = c { Some(*e) } else { None });
            if accept {
                let want = format!("handler {}", &v[1..v.len() - 2]);
                if b != want {
                    cs.fail_last("server:valid-body-rejected", format!("one complete valid document within the limit gives {:?}, expected {:?}", b, want));
                }
            } else if b.starts_with("handler") {
                let key = if v.ends_with(":0") && enc.is_some() && !has_err && body.len() <= N { "server:trailing-data-accepted" } else { "server:invalid-body-accepted" };
                cs.fail_last(key, format!("handler invoked ({}) for a body that is not exactly one valid document within the limit: {:?}", b, String::from_utf8_lossy(&body)));
            } else if b != "invalid" && Some(b.clone()) != first_err.map(|e| format!("stream {}", e)) {
                cs.fail_last("server:wrong-error", format!("rejected with {:?}, expected INVALID_ARGUMENT or the stream's own error", b));
            }
        }
        (b, a) => {
            cs.push(class, op, "panic".into(), true, note);
            cs.fail_last("server:panic", format!("panicked: blocking {:?} async {:?}", b, a));
        }
    }
}

fn optional_case<T: DeserializeOwned + std::fmt::Debug + Send + 'static>(cs: &mut Cases, ct: Option<&str>, chunks: &[Chunk]) {
    const N: usize = 50 * 1024 * 1024;
    let enc = enc_of(ct);
    let body = joined(chunks);
    let v = match enc {
        Some(smile) => verdict::<Option<T>>(smile, &body),
        None => "x".into(),
    };
    let has_ct = ct.map(|c| HeaderValue::from_str(c).is_ok()).unwrap_or(false);
    let op = format!("opt {} {} {} {} {}", has_ct as u8, enc.is_some() as u8, N, chunk_txt(chunks), v);
    let note = format!("OptionalRequestDeserializer Content-Type {:?} chunks {}", ct, chunk_txt(chunks));
    let b = run_opt::<T>(ct, chunks, false);
    let a = run_opt::<T>(ct, chunks, true);
    match (b, a) {
        (Ok(b), Ok(a)) => {
            cs.push("optional", op, b.clone(), true, note);
            if a != b {
                cs.fail_last("server:blocking-async-differ", format!("blocking says {:?}, async says {:?}", b, a));
            } else if !has_ct && b != "handler absent" {
                cs.fail_last("server:optional-absent", format!("no Content-Type must mean an absent body, got {:?}", b));
            }
        }
        (b, a) => {
            cs.push("optional", op, "panic".into(), true, note);
            cs.fail_last("server:panic", format!("panicked: blocking {:?} async {:?}", b, a));
        }
    }
}

// ---------------- client side (C18)

#[derive(Clone, Copy, Debug, PartialEq)]
pub(crate) enum Kind {
    Empty,
    Ser,
    DefSer,
    Bin,
    OptBin,
}

fn run_client<T: DeserializeOwned + Default + std::fmt::Debug + 'static>(kind: Kind, status: u16, ct: Option<&str>, cs: &[Chunk], is_async: bool) -> Result<String, String> {
    let its = items(cs);
    let ct = ct.map(|s| s.to_string());
    guarded(move || {
        let mut b = Response::builder().status(StatusCode::from_u16(status).unwrap());
        if let Some(c) = &ct {
            if let Ok(v) = HeaderValue::from_str(c) {
                b = b.header(CONTENT_TYPE, v);
            }
        }
        let show = |r: Result<String, Error>| match r {
            Ok(s) => s,
            Err(e) => {
                let c = classify(&e);
                if c.starts_with("stream") {
                    c
                } else {
                    "error".into()
                }
            }
        };
        if is_async {
            let resp = b.body(futures::stream::iter(its)).unwrap();
            match kind {
                Kind::Empty => show(futures::executor::block_on(async_decode_empty_response(resp)).map(|_| "unit".into())),
                Kind::Ser => show(futures::executor::block_on(async_decode_serializable_response::<T, _>(resp)).map(|v| format!("value {}", vid(&v)))),
                Kind::DefSer => {
                    let is204 = status == 204;
                    show(futures::executor::block_on(async_decode_default_serializable_response::<T, _>(resp)).map(|v| if is204 { "default".into() } else { format!("value {}", vid(&v)) }))
                }
                Kind::Bin => show(decode_binary_response(resp).map(|_| "stream".into())),
                Kind::OptBin => show(decode_optional_binary_response(resp).map(|o| if o.is_some() { "stream".into() } else { "default".into() })),
            }
        } else {
            let resp = b.body(its.into_iter()).unwrap();
            match kind {
                Kind::Empty => show(decode_empty_response(resp).map(|_| "unit".into())),
                Kind::Ser => show(decode_serializable_response::<T, _>(resp).map(|v| format!("value {}", vid(&v)))),
                Kind::DefSer => {
                    let is204 = status == 204;
                    show(decode_default_serializable_response::<T, _>(resp).map(|v| if is204 { "default".into() } else { format!("value {}", vid(&v)) }))
                }
                Kind::Bin => show(decode_binary_response(resp).map(|_| "stream".into())),
                Kind::OptBin => show(decode_optional_binary_response(resp).map(|o| if o.is_some() { "stream".into() } else { "default".into() })),
            }
        }
    })
}

fn client_case<T: DeserializeOwned + Default + std::fmt::Debug + 'static>(cs: &mut Cases, kind: Kind, status: u16, ct: Option<&str>, chunks: &[Chunk]) {
    let body = joined(chunks);
    // for `empty`, any well-formed JSON document is tolerated: the verdict is that of IgnoredAny
    let v = if kind == Kind::Empty { verdict::<serde::de::IgnoredAny>(false, &body) } else { verdict::<T>(false, &body) };
    let b = run_client::<T>(kind, status, ct, chunks, false);
    let a = run_client::<T>(kind, status, ct, chunks, true);
    client_judge(cs, "client", &format!("decode_{}_response", kind_txt(kind)), kind, status, ct, chunks, &v, b, a);
}

pub(crate) fn kind_txt(kind: Kind) -> &'static str {
    match kind {
        Kind::Empty => "empty",
        Kind::Ser => "ser",
        Kind::DefSer => "defser",
        Kind::Bin => "bin",
        Kind::OptBin => "optbin",
    }
}

/// one client-side decode, blocking (`b`) and async (`a`), against the model (`resp` operation) and the statement;
/// `v` is the stock parser's verdict on the joined body for the return type
#[allow(clippy::too_many_arguments)]
pub(crate) fn client_judge(cs: &mut Cases, class: &str, what: &str, kind: Kind, status: u16, ct: Option<&str>, chunks: &[Chunk], v: &str, b: Result<String, String>, a: Result<String, String>) {
    let body = joined(chunks);
    let ct_json = ct == Some("application/json");
    let ct_oct = ct == Some("application/octet-stream");
    let k = kind_txt(kind);
    let op = format!("resp {} {} {} {} {} {}", k, (status == 204) as u8, ct_json as u8, ct_oct as u8, chunk_txt(chunks), v);
    let note = format!("{} status {} Content-Type {:?} chunks {}", what, status, ct, chunk_txt(chunks));
    let has_err = chunks.iter().any(|c| matches!(c, Chunk::Err(_)));
    match (b, a) {
        (Ok(b), Ok(a)) => {
            cs.push(&format!("{}:{}", class, k), op, b.clone(), true, note);
            if a != b {
                cs.fail_last(&format!("{}:blocking-async-differ", class), format!("blocking says {:?}, async says {:?}", b, a));
                return;
            }
            let reads_body = matches!(kind, Kind::Empty | Kind::Ser | Kind::DefSer) && !(status == 204 && kind != Kind::Ser);
            if reads_body {
                let good = ct_json && !has_err && v.ends_with(":1");
                let got_value = b.starts_with("value") || b == "unit" || b == "default";
                if good && !got_value {
                    cs.fail_last(&format!("{}:valid-response-rejected", class), format!("complete well-formed response gives {:?}", b));
                } else if !good && got_value {
                    cs.fail_last(&format!("{}:invalid-response-accepted", class), format!("{:?} returned from a response that is not a complete, correctly typed JSON document (status {}, Content-Type {:?}): {:?}", b, status, ct, String::from_utf8_lossy(&body)));
                } else if good && kind != Kind::Empty && b != format!("value {}", &v[1..v.len() - 2]) {
                    cs.fail_last(&format!("{}:wrong-value", class), format!("{:?} returned, document means {}", b, v));
                }
            } else if status == 204 && kind != Kind::Bin && kind != Kind::Ser {
                let want = if kind == Kind::Empty { "unit" } else { "default" };
                if b != want {
                    cs.fail_last(&format!("{}:204", class), format!("204 must give {}, got {:?}", want, b));
                }
            } else if matches!(kind, Kind::Bin | Kind::OptBin) && (b == "stream") != ct_oct {
                cs.fail_last(&format!("{}:binary-content-type", class), format!("binary body handed out = {:?} with Content-Type {:?}", b, ct));
            }
        }
        (b, a) => {
            cs.push(&format!("{}:{}", class, k), op, "panic".into(), true, note);
            cs.fail_last(&format!("{}:panic", class), format!("panicked: blocking {:?} async {:?}", b, a));
        }
    }
}

fn read_case(cs: &mut Cases, limit: Option<usize>, chunks: &[Chunk]) {
    let its = items(chunks);
    let its2 = items(chunks);
    let show = |r: Result<Bytes, Error>| match r {
        Ok(b) => format!("ok {}", hex(&b)),
        Err(e) => {
            let c = classify(&e);
            if c.starts_with("stream") {
                format!("err {}", &c[7..])
            } else {
                "toolarge".into()
            }
        }
    };
    let b = guarded(move || show(read_body(its.into_iter(), limit)));
    let a = guarded(move || show(futures::executor::block_on(async_read_body(futures::stream::iter(its2), limit))));
    let op = format!("read {} {}", limit.map(|l| l.to_string()).unwrap_or_else(|| "none".into()), chunk_txt(chunks));
    let note = format!("read_body limit {:?} chunks {}", limit, chunk_txt(chunks));
    match (b, a) {
        (Ok(b), Ok(a)) => {
            cs.push("read_body", op, b.clone(), true, note);
            if a != b {
                cs.fail_last("read:blocking-async-differ", format!("blocking {:?} async {:?}", b, a));
                return;
            }
            let body = joined(chunks);
            let first_err = chunks.iter().find_map(|c| if let Chunk::Err(e) = c { Some(*e) } else { None });
            let within = limit.map(|l| body.len() <= l).unwrap_or(true);
            let want = if !within { "toolarge".to_string() } else if let Some(e) = first_err { format!("err {}", e) } else { format!("ok {}", hex(&body)) };
            if b != want {
                cs.fail_last("read:reassembly", format!("read_body gives {:?}, expected {:?}", b, want));
            }
        }
        (b, a) => {
            cs.push("read_body", op, "panic".into(), true, note);
            cs.fail_last("read:panic", format!("{:?} {:?}", b, a));
        }
    }
}

fn json_docs() -> Vec<(&'static str, u8)> {
    // (document, type: 0 = Vec<i32>, 1 = Obj)
    vec![("[1,2]", 0), ("[]", 0), ("[-7]", 0), (" [ 1 ] ", 0), ("{\"a\":1}", 1), ("{\"a\":1,\"b\":\"x\"}", 1), ("{\"a\":1,\"b\":null}", 1), ("{\"b\":\"y\",\"a\":-2}", 1)]
}

pub fn cases(seed: u64, tier: Tier, client: bool) -> Cases {
    let mut rng = Rng::new(seed);
    let mut cs = Cases::new(if client { "C18" } else { "C06" });
    let cts: [Option<&str>; 13] = [Some("application/json+xml"), Some("application/x-jackson-smile+json"), Some("application/json+json; charset=utf-8"), Some("application/vnd.api+json"), Some("application/json"), Some("application/x-jackson-smile"), Some("application/json; charset=utf-8"), Some("APPLICATION/JSON"), Some("text/plain"), Some("application/octet-stream"), Some("garbage"), None, Some("application/*")];
    let suffixes: [&[u8]; 12] = [b"", b" ", b"\n", b"\t \r\n", b"x", b" x", b"0", b"\"", b"{", b"[1]", b"{\"a\":1}", b"\0"];

    // ---- read_body itself: all chunkings of short bodies, limits around the length, errors at every index
    let body: Vec<u8> = b"abcdef".to_vec();
    for n in 0..=(if tier == Tier::Quick { 5 } else { 6 }) {
        for parts in compositions(n) {
            let base = cut(&body[..n], &parts);
            for limit in [None, Some(0), Some(n.saturating_sub(1)), Some(n), Some(n + 1), Some(3)] {
                read_case(&mut cs, limit, &base);
                for pos in 0..=base.len() {
                    let mut withe = base.clone();
                    withe.insert(pos, Chunk::Err(pos as u32 + 1));
                    read_case(&mut cs, limit, &withe);
                    if n <= 4 {
                        let mut withempty = base.clone();
                        withempty.insert(pos, Chunk::Ok(vec![]));
                        read_case(&mut cs, limit, &withempty);
                    }
                }
            }
        }
    }

    if !client {
        // ---- server: documents x suffixes x chunkings x content types
        for (doc, ty) in json_docs() {
            for suf in suffixes {
                let mut body = doc.as_bytes().to_vec();
                body.extend_from_slice(suf);
                let chunkings: Vec<Vec<Chunk>> = if body.len() <= 6 {
                    compositions(body.len()).into_iter().map(|p| cut(&body, &p)).collect()
                } else {
                    let mut v = vec![vec![Chunk::Ok(body.clone())], vec![Chunk::Ok(body[..1].to_vec()), Chunk::Ok(body[1..].to_vec())], vec![Chunk::Ok(vec![]), Chunk::Ok(body.clone()), Chunk::Ok(vec![])]];
                    for _ in 0..(if tier == Tier::Quick { 2 } else { 10 }) {
                        v.push(random_chunking(&mut rng, &body));
                    }
                    v
                };
                for ch in &chunkings {
                    let ct = Some("application/json");
                    if ty == 0 {
                        server_case::<Vec<i32>, 10>(&mut cs, "std:json:limit10", ct, ch);
                        server_case::<Vec<i32>, { 50 * 1024 * 1024 }>(&mut cs, "std:json", ct, ch);
                    } else {
                        server_case::<Obj, 10>(&mut cs, "std:json:limit10", ct, ch);
                        server_case::<Obj, 64>(&mut cs, "std:json:limit64", ct, ch);
                    }
                }
                // every content type on the single-chunk form
                for ct in cts {
                    if ty == 0 {
                        server_case::<Vec<i32>, 64>(&mut cs, "std:content-type", ct, &chunkings[0]);
                        optional_case::<Vec<i32>>(&mut cs, ct, &chunkings[0]);
                    } else {
                        server_case::<Obj, 64>(&mut cs, "std:content-type", ct, &chunkings[0]);
                    }
                }
            }
            // truncation at every offset, errors at every chunk index, unknown field
            let b = doc.as_bytes();
            for k in 0..b.len() {
                let ch = vec![Chunk::Ok(b[..k].to_vec())];
                if ty == 0 {
                    server_case::<Vec<i32>, 64>(&mut cs, "std:truncated", Some("application/json"), &ch);
                } else {
                    server_case::<Obj, 64>(&mut cs, "std:truncated", Some("application/json"), &ch);
                }
                let che = vec![Chunk::Ok(b[..k].to_vec()), Chunk::Err(9), Chunk::Ok(b[k..].to_vec())];
                if ty == 0 {
                    server_case::<Vec<i32>, 64>(&mut cs, "std:stream-error", Some("application/json"), &che);
                } else {
                    server_case::<Obj, 64>(&mut cs, "std:stream-error", Some("application/json"), &che);
                }
            }
        }
        for doc in ["{\"a\":1,\"zz\":2}", "{\"a\":\"s\"}", "{}", "{\"a\":1,\"a\":2}", "[1,\"x\"]", "[99999999999]", "null", "1", "\"s\""] {
            server_case::<Obj, 64>(&mut cs, "std:malformed", Some("application/json"), &[Chunk::Ok(doc.as_bytes().to_vec())]);
            server_case::<Vec<i32>, 64>(&mut cs, "std:malformed", Some("application/json"), &[Chunk::Ok(doc.as_bytes().to_vec())]);
            optional_case::<Vec<i32>>(&mut cs, Some("application/json"), &[Chunk::Ok(doc.as_bytes().to_vec())]);
        }
        // Smile: real documents, with trailing bytes, truncated, chunked
        let smile_docs: Vec<Vec<u8>> = vec![conjure_serde::smile::to_vec(&vec![1i32, 2, 300]).unwrap(), conjure_serde::smile::to_vec(&Vec::<i32>::new()).unwrap()];
        let smile_obj = conjure_serde::smile::to_vec(&Obj { a: 5, b: Some("hello".into()) }).unwrap();
        for (i, d) in smile_docs.iter().enumerate() {
            for suf in [&b""[..], &[0xff][..], &[0xff, 0x00][..], &[0x00][..], &[0xf8, 0xf9][..], b":)\n\x00", &[0x24][..]] {
                let mut body = d.clone();
                body.extend_from_slice(suf);
                server_case::<Vec<i32>, 64>(&mut cs, "std:smile", Some("application/x-jackson-smile"), &[Chunk::Ok(body.clone())]);
                server_case::<Vec<i32>, 64>(&mut cs, "std:smile", Some("application/x-jackson-smile"), &random_chunking(&mut rng, &body));
                if i == 0 {
                    server_case::<Vec<i32>, 64>(&mut cs, "std:smile-as-json", Some("application/json"), &[Chunk::Ok(body.clone())]);
                }
            }
            for k in 0..d.len() {
                server_case::<Vec<i32>, 64>(&mut cs, "std:smile-truncated", Some("application/x-jackson-smile"), &[Chunk::Ok(d[..k].to_vec())]);
            }
        }
        for suf in [&b""[..], &[0xff][..], &[0x00, 0x01][..]] {
            let mut body = smile_obj.clone();
            body.extend_from_slice(suf);
            server_case::<Obj, 64>(&mut cs, "std:smile", Some("application/x-jackson-smile"), &random_chunking(&mut rng, &body));
        }
        // seeded random bytes
        for _ in 0..(if tier == Tier::Quick { 300 } else { 5000 }) {
            let len = rng.below(12);
            let body: Vec<u8> = (0..len).map(|_| *rng.pick(b"[]{}\":,0123456789 \n-aebnul\\")).collect();
            let ch = random_chunking(&mut rng, &body);
            let ct = *rng.pick(&cts);
            server_case::<Vec<i32>, 10>(&mut cs, "std:random", ct, &ch);
        }
        server_rules(&mut cs);
        for (fmt, depth, closed) in [("json", 100usize, true), ("json", 400_000, false), ("json", 400_000, true), ("smile", 400_000, false), ("smile", 100_000, true)] {
            deep_case(&mut cs, "server", fmt, depth, closed);
        }
        // which deserializer the generated server trait names for a body argument (optional / binary / standard, with or
        // without a size-limit tag): the generated source for seeded definitions against Model/Emit.lean and the types
        crate::ops::emit::add(&mut cs, &mut rng, tier);
    } else {
        // ---- client
        // which decode function the generated client names for a return type (empty / value / 204-aware / binary /
        // optional binary): the generated source for seeded definitions against Model/Emit.lean and the types
        crate::ops::emit::add(&mut cs, &mut rng, tier);
        let kinds = [Kind::Empty, Kind::Ser, Kind::DefSer, Kind::Bin, Kind::OptBin];
        let ccts: [Option<&str>; 8] = [Some("application/json"), Some("application/octet-stream"), Some("application/json; charset=utf-8"), Some("APPLICATION/JSON"), Some("application/x-jackson-smile"), Some("text/plain"), None, Some("garbage")];
        for (doc, ty) in json_docs().into_iter().chain(vec![("{\"a\":1,\"zz\":[2]}", 1u8), ("null", 0), ("\"x\"", 0), ("{\"a\":\"s\"}", 1)]) {
            for suf in suffixes {
                let mut body = doc.as_bytes().to_vec();
                body.extend_from_slice(suf);
                let mut chunkings: Vec<Vec<Chunk>> = if body.len() <= 5 { compositions(body.len()).into_iter().map(|p| cut(&body, &p)).collect() } else { vec![vec![Chunk::Ok(body.clone())], random_chunking(&mut rng, &body), random_chunking(&mut rng, &body)] };
                let k = rng.below(chunkings[0].len() + 1);
                let mut e = chunkings[0].clone();
                e.insert(k, Chunk::Err(4));
                chunkings.push(e);
                for ch in &chunkings {
                    for kind in kinds {
                        for status in [200u16, 204] {
                            if ty == 0 {
                                client_case::<Vec<i32>>(&mut cs, kind, status, Some("application/json"), ch);
                            } else {
                                client_case::<Option<Obj>>(&mut cs, kind, status, Some("application/json"), ch);
                            }
                        }
                    }
                }
                for ct in ccts {
                    for kind in kinds {
                        for status in [200u16, 204, 404, 500] {
                            client_case::<Vec<i32>>(&mut cs, kind, status, ct, &chunkings[0]);
                        }
                    }
                }
            }
            let b = doc.as_bytes();
            for k in 0..b.len() {
                for kind in [Kind::Empty, Kind::Ser, Kind::DefSer] {
                    client_case::<Vec<i32>>(&mut cs, kind, 200, Some("application/json"), &[Chunk::Ok(b[..k].to_vec())]);
                    client_case::<Vec<i32>>(&mut cs, kind, 200, Some("application/json"), &[Chunk::Ok(b[..k].to_vec()), Chunk::Err(2), Chunk::Ok(b[k..].to_vec())]);
                }
            }
        }
        crate::ops::c18c::add(&mut cs, &mut rng, tier);
        for (depth, closed) in [(100usize, true), (400_000, false), (400_000, true)] {
            deep_case(&mut cs, "client", "json", depth, closed);
        }
    }
    cs
}

pub const RULE_SERVER: &str = "read_body/async_read_body: every composition of a body of length 0..5 (6) into non-empty chunks, an empty chunk or a stream error inserted at every index, limits none/0/len-1/len/len+1/3. Server: 8 JSON documents of two types (Vec<i32>, a struct with an optional field) x 12 suffixes (none, whitespace, garbage, a second document, NUL) x all chunkings (<= 6 bytes) or seeded chunkings with empty chunks, limits 10 / 64 / 50 MiB; 13 Content-Type values (incl. registered types with a structured-syntax suffix, which name no registered encoding); truncation at every offset; a stream error at every offset; 9 malformed or wrongly typed documents incl. unknown and duplicate fields; Smile documents with 7 suffixes (end marker, bytes after it, stray bytes), truncated at every offset, and sent as JSON; seeded random byte strings; required and optional bodies; blocking and async compared. The parse verdict handed to the model comes from stock serde_json / serde_smile. Oracle: handler runs iff one registered encoding is named, no stream error, size within the limit, exactly one valid document plus insignificant bytes; otherwise INVALID_ARGUMENT or the stream's own error. All cases count as non-trivial; distinct = distinct operation lines.";
pub const RULE_CLIENT: &str = "read_body as for C06. Client: 12 JSON documents x 12 suffixes x chunkings (all compositions <= 5 bytes, else seeded) plus a stream error at a seeded index, x 5 response kinds (empty, serializable, default-serializable, binary, optional-binary) x status 200/204 (and 404/500 on the Content-Type sweep) x 8 Content-Type values; truncation and a stream error at every offset; blocking and async compared. Oracle: a value only from application/json + complete well-formed document of the type (any well-formed document for empty); 204 gives unit/default; binary handed out iff application/octet-stream; otherwise an error. All cases non-trivial; distinct = distinct operation lines.";
