//! C08 — seeded type graphs with cycles and mixed annotations through the real generator, in several
//! evaluation orders; the `safe` flags of the emitted server trait against the model and against
//! the declarative rule (greatest fixpoint) computed independently here.
use crate::irgen::*;
use crate::run::{Cases, Tier};
use crate::util::Rng;
use serde_json::Value;

#[derive(Clone, Debug)]
enum Ty {
    Prim(&'static str),
    Ext,
    Opt(Box<Ty>),
    List(Box<Ty>),
    Set(Box<Ty>),
    Map(Box<Ty>),
    Ref(usize),
}

#[derive(Clone, Copy, Debug, PartialEq)]
enum Annot {
    None,
    Safe,
    Unsafe,
    DoNotLog,
}

#[derive(Clone, Debug)]
enum Def {
    Alias(Annot, Ty),
    Enum,
    Object(Vec<(Annot, Ty)>),
    Union(Vec<(Annot, Ty)>),
}

#[derive(Clone, Debug)]
struct Arg {
    safety: Annot,
    legacy: u8, // 0 none, 1 tag `safe`, 2 marker logsafe.Safe; not legacy-safe: 3 marker logsafe.Unsafe, 4 marker logsafe.DoNotLog, 5 marker com.example.Safe, 6 tag `unsafe`
    ty: Ty,
    body: bool,
}

impl Annot {
    fn ir(self) -> Option<&'static str> {
        match self {
            Annot::None => None,
            Annot::Safe => Some("SAFE"),
            Annot::Unsafe => Some("UNSAFE"),
            Annot::DoNotLog => Some("DO_NOT_LOG"),
        }
    }
    fn ch(self) -> char {
        match self {
            Annot::None => 'N',
            Annot::Safe => 'S',
            _ => 'U',
        }
    }
}

fn ty_ir(t: &Ty) -> Value {
    match t {
        Ty::Prim(p) => prim(p),
        Ty::Ext => external(prim("STRING")),
        Ty::Opt(t) => opt(ty_ir(t)),
        Ty::List(t) => list(ty_ir(t)),
        Ty::Set(t) => set(ty_ir(t)),
        Ty::Map(v) => map(prim("STRING"), ty_ir(v)),
        Ty::Ref(i) => reference(&format!("T{}", i)),
    }
}

fn ty_txt(t: &Ty) -> String {
    match t {
        Ty::Prim(_) => "p".into(),
        Ty::Ext => "x".into(),
        Ty::Opt(t) => format!("o{}", ty_txt(t)),
        Ty::List(t) => format!("l{}", ty_txt(t)),
        Ty::Set(t) => format!("s{}", ty_txt(t)),
        Ty::Map(v) => format!("mp{}", ty_txt(v)),
        Ty::Ref(i) => format!("r{}.", i),
    }
}

fn def_txt(d: &Def) -> String {
    let members = |ms: &[(Annot, Ty)]| ms.iter().map(|(a, t)| format!("{}{}", a.ch(), ty_txt(t))).collect::<String>();
    match d {
        Def::Alias(a, t) => format!("A{}{}", a.ch(), ty_txt(t)),
        Def::Enum => "E".into(),
        Def::Object(fs) => format!("O{}", members(fs)),
        Def::Union(vs) => format!("U{}", members(vs)),
    }
}

fn def_ir(i: usize, d: &Def) -> Value {
    let name = format!("T{}", i);
    match d {
        Def::Alias(a, t) => alias_def(&name, ty_ir(t), a.ir()),
        Def::Enum => enum_def(&name, &["ONE", "TWO"]),
        Def::Object(fs) => object_def(&name, fs.iter().enumerate().map(|(j, (a, t))| field(&format!("f{}", j), ty_ir(t), a.ir())).collect()),
        Def::Union(vs) => union_def(&name, vs.iter().enumerate().map(|(j, (a, t))| field(&format!("v{}", j), ty_ir(t), a.ir())).collect()),
    }
}

// ---- independent oracle: greatest fixpoint of "own content safe and all undeclared references safe"
fn ty_parts(t: &Ty) -> (bool, Vec<usize>) {
    match t {
        Ty::Prim(_) | Ty::Ext => (false, vec![]),
        Ty::Opt(t) | Ty::List(t) | Ty::Set(t) => ty_parts(t),
        Ty::Map(v) => {
            let (b, r) = ty_parts(v);
            (false && b, r) // the key is an undeclared string
        }
        Ty::Ref(i) => (true, vec![*i]),
    }
}
fn member_parts(m: &(Annot, Ty)) -> (bool, Vec<usize>) {
    match m.0 {
        Annot::None => ty_parts(&m.1),
        a => (a == Annot::Safe, vec![]),
    }
}
fn node(d: &Def) -> (bool, Vec<usize>) {
    match d {
        Def::Alias(a, t) => member_parts(&(*a, t.clone())),
        Def::Enum => (true, vec![]),
        Def::Object(fs) => {
            let ps: Vec<_> = fs.iter().map(member_parts).collect();
            (ps.iter().all(|p| p.0), ps.into_iter().flat_map(|p| p.1).collect())
        }
        Def::Union(_) => (false, vec![]),
    }
}
fn safe_set(defs: &[Def]) -> Vec<bool> {
    let nodes: Vec<_> = defs.iter().map(node).collect();
    let mut safe: Vec<bool> = nodes.iter().map(|n| n.0).collect();
    loop {
        let mut changed = false;
        for i in 0..defs.len() {
            if safe[i] && !nodes[i].1.iter().all(|&k| safe[k]) {
                safe[i] = false;
                changed = true;
            }
        }
        if !changed {
            return safe;
        }
    }
}
fn arg_spec(defs_safe: &[bool], a: &Arg) -> bool {
    match a.safety {
        Annot::Safe => true,
        Annot::Unsafe | Annot::DoNotLog => false,
        Annot::None => {
            if a.legacy == 1 || a.legacy == 2 {
                return true;
            }
            let (b, r) = ty_parts(&a.ty);
            b && r.iter().all(|&k| defs_safe[k])
        }
    }
}

fn random_annot(rng: &mut Rng) -> Annot {
    match rng.below(10) {
        0..=5 => Annot::None,
        6..=7 => Annot::Safe,
        8 => Annot::Unsafe,
        _ => Annot::DoNotLog,
    }
}

fn random_member_ty(rng: &mut Rng, n: usize, self_idx: usize, alias: bool, is_alias: &[bool]) -> Ty {
    // references inside objects/unions are always behind an optional or a collection (legal recursion);
    // aliases refer to any object / union / enum (declared before or after them, so an alias can sit on a cycle) or to
    // an earlier alias (alias chains end)
    let leaf = |rng: &mut Rng| match rng.below(8) {
        0 => Ty::Prim("STRING"),
        1 => Ty::Prim("BEARERTOKEN"),
        2 => Ty::Prim("ANY"),
        3 => Ty::Ext,
        _ => Ty::Prim("INTEGER"),
    };
    if alias {
        let targets: Vec<usize> = (0..n).filter(|&j| j != self_idx && (!is_alias[j] || j < self_idx)).collect();
        if !targets.is_empty() && rng.chance(2, 3) {
            let r = Ty::Ref(targets[rng.below(targets.len())]);
            return match rng.below(4) {
                0 => r,
                1 => Ty::Opt(Box::new(r)),
                2 => Ty::List(Box::new(r)),
                _ => Ty::Map(Box::new(r)),
            };
        }
        return leaf(rng);
    }
    if rng.chance(3, 5) {
        let r = Box::new(Ty::Ref(rng.below(n)));
        match rng.below(5) {
            0 => Ty::Opt(r),
            1 => Ty::List(r),
            2 => Ty::Set(r),
            3 => Ty::Map(r),
            _ => Ty::Opt(Box::new(Ty::List(r))),
        }
    } else {
        let l = leaf(rng);
        if rng.chance(1, 3) {
            Ty::List(Box::new(l))
        } else {
            l
        }
    }
}

fn random_defs(rng: &mut Rng) -> Vec<Def> {
    let n = 1 + rng.below(7);
    let kinds: Vec<usize> = (0..n).map(|_| rng.below(10)).collect();
    let is_alias: Vec<bool> = kinds.iter().map(|k| (1..=2).contains(k)).collect();
    (0..n)
        .map(|i| match kinds[i] {
            0 => Def::Enum,
            1..=2 => Def::Alias(random_annot(rng), random_member_ty(rng, n, i, true, &is_alias)),
            3 => Def::Union((0..rng.below(3)).map(|_| (random_annot(rng), random_member_ty(rng, n, i, false, &is_alias))).collect()),
            _ => {
                // bias toward graphs where safety is decided by the cycle structure
                let k = rng.below(4);
                Def::Object(
                    (0..k)
                        .map(|_| {
                            let t = random_member_ty(rng, n, i, false, &is_alias);
                            let a = match &t {
                                Ty::Prim(_) | Ty::Ext | Ty::List(_) if rng.chance(2, 3) && !matches!(&t, Ty::List(b) if matches!(**b, Ty::Ref(_))) => Annot::Safe,
                                _ => random_annot(rng),
                            };
                            (a, t)
                        })
                        .collect(),
                )
            }
        })
        .collect()
}

fn random_args(rng: &mut Rng, n: usize) -> Vec<Arg> {
    let mut args: Vec<Arg> = (0..n)
        .map(|i| {
            let r = Ty::Ref(i);
            let ty = match rng.below(5) {
                0 => Ty::List(Box::new(r)),
                1 => Ty::Opt(Box::new(r)),
                2 => Ty::Map(Box::new(r)),
                _ => r,
            };
            Arg { safety: Annot::None, legacy: 0, ty, body: true }
        })
        .collect();
    for _ in 0..rng.below(4) {
        let ty = match rng.below(4) {
            0 => Ty::Prim("STRING"),
            1 => Ty::Ref(rng.below(n)),
            2 => Ty::Prim("BINARY"),
            _ => Ty::Prim("INTEGER"),
        };
        let body = matches!(ty, Ty::Ref(_) | Ty::Prim("BINARY"));
        args.push(Arg { safety: random_annot(rng), legacy: if rng.chance(1, 2) { 1 + rng.below(6) as u8 } else { 0 }, ty, body });
    }
    args
}

fn build_ir(defs: &[Def], type_order: &[usize], args: &[Arg], split: usize) -> Value {
    let types: Vec<Value> = type_order.iter().map(|&i| def_ir(i, &defs[i])).collect();
    let mk_ep = |j: usize, a: &Arg| {
        let marker = |name: &str, pkg: &str| serde_json::json!({"type": "external", "external": {"externalReference": {"name": name, "package": pkg}, "fallback": prim("ANY")}});
        let markers = match a.legacy {
            2 => vec![safe_marker()],
            3 => vec![marker("Unsafe", "com.palantir.logsafe")],
            4 => vec![marker("DoNotLog", "com.palantir.logsafe")],
            5 => vec![marker("Safe", "com.example.logging")],
            _ => vec![],
        };
        let tags = match a.legacy {
            1 => vec!["safe"],
            6 => vec!["unsafe"],
            _ => vec![],
        };
        let param = if a.body { body_param() } else { query_param("q") };
        endpoint_def(&format!("ep{}", j), "POST", &format!("/e{}", j), vec![arg_def("arg", ty_ir(&a.ty), param, a.safety.ir(), markers, tags)], None, None)
    };
    let eps: Vec<Value> = args.iter().enumerate().map(|(j, a)| mk_ep(j, a)).collect();
    let (a, b) = eps.split_at(split.min(eps.len()));
    let mut services = vec![];
    if !a.is_empty() {
        services.push(service_def("SvcA", a.to_vec()));
    }
    if !b.is_empty() {
        services.push(service_def("SvcB", b.to_vec()));
    }
    ir(types, services, vec![])
}

fn permutations(n: usize) -> Vec<Vec<usize>> {
    if n == 0 {
        return vec![vec![]];
    }
    let mut out = vec![];
    for p in permutations(n - 1) {
        for i in 0..=p.len() {
            let mut q = p.clone();
            q.insert(i, n - 1);
            out.push(q);
        }
    }
    out
}

fn run_one(cs: &mut Cases, class: &str, defs: &[Def], type_order: &[usize], args: &[Arg], split: usize) {
    let irv = build_ir(defs, type_order, args, split);
    let defs_txt = defs.iter().map(def_txt).collect::<Vec<_>>().join(",");
    let args_txt = if args.is_empty() { "-".to_string() } else { args.iter().map(|a| format!("{}{}{}", a.safety.ch(), (a.legacy == 1 || a.legacy == 2) as u8, ty_txt(&a.ty))).collect::<Vec<_>>().join(",") };
    let op = format!("safe {} {}", defs_txt, args_txt);
    let note = format!("defs [{}] args [{}] type order {:?} split {}", defs_txt, args_txt, type_order, split);
    let real = generate(&irv, &GenCfg::default()).and_then(|tree| endpoints(&tree));
    match real {
        Err(e) => {
            cs.push(class, op, format!("generator-error {}", e.chars().take(80).collect::<String>()), true, note);
            cs.fail_last("c08:generation-failed", e);
        }
        Ok(eps) => {
            // flags in evaluation order = service order (SvcA then SvcB), endpoint order
            let mut flags: Vec<(String, bool)> = vec![];
            for e in &eps {
                if e.trait_name.starts_with("Async") {
                    continue;
                }
                for a in &e.args {
                    if a.ident == "arg" {
                        flags.push((e.method.clone(), a.safe));
                    }
                }
            }
            let got: String = (0..args.len())
                .map(|j| match flags.iter().find(|(m, _)| m == &format!("ep{}", j)) {
                    Some((_, true)) => '1',
                    Some((_, false)) => '0',
                    None => '?',
                })
                .collect();
            let nontrivial = defs.iter().any(|d| !node(d).1.is_empty());
            cs.push(class, op, got.clone(), nontrivial, note);
            let safe = safe_set(defs);
            let want: String = args.iter().map(|a| if arg_spec(&safe, a) { '1' } else { '0' }).collect();
            if got != want {
                let j = got.chars().zip(want.chars()).position(|(a, b)| a != b).unwrap_or(0);
                let key = if want.as_bytes().get(j) == Some(&b'0') { "c08:unsafe-marked-safe" } else { "c08:safe-not-marked" };
                cs.fail_last(key, format!("argument {} is generated {} but the rule says {} (flags {} vs {})", j, if got.as_bytes().get(j) == Some(&b'1') { "safe" } else { "not safe" }, if want.as_bytes().get(j) == Some(&b'1') { "safe" } else { "not safe" }, got, want));
            } else {
                // the decision depends on the definition alone: the other configurations of the generator give the
                // same flags
                let other = GenCfg { exhaustive: true, serialize_empty_collections: true, strip_prefix: None, build_crate: None };
                if let Ok(eps2) = generate(&irv, &other).and_then(|tree| endpoints(&tree)) {
                    let got2: String = (0..args.len())
                        .map(|j| match eps2.iter().filter(|e| !e.trait_name.starts_with("Async") && e.method == format!("ep{}", j)).flat_map(|e| e.args.iter()).find(|a| a.ident == "arg") {
                            Some(a) if a.safe => '1',
                            Some(_) => '0',
                            None => '?',
                        })
                        .collect();
                    if got2 != got {
                        cs.fail_last("c08:depends-on-configuration", format!("the flags are {} in the default configuration and {} with `exhaustive` and `serializeEmptyCollections`", got, got2));
                    }
                }
            }
        }
    }
}

pub fn cases(seed: u64, tier: Tier) -> Cases {
    let mut rng = Rng::new(seed);
    let mut cs = Cases::new("C08");
    // the recorded 2-cycle, both orders, and an all-safe self-recursive type
    let cyc = vec![
        Def::Object(vec![(Annot::None, Ty::Opt(Box::new(Ty::Ref(1)))), (Annot::None, Ty::Prim("STRING"))]),
        Def::Object(vec![(Annot::None, Ty::Opt(Box::new(Ty::Ref(0)))), (Annot::Safe, Ty::Prim("STRING"))]),
        Def::Object(vec![(Annot::None, Ty::Opt(Box::new(Ty::Ref(2)))), (Annot::Safe, Ty::Prim("STRING"))]),
    ];
    let a = |i: usize| Arg { safety: Annot::None, legacy: 0, ty: Ty::Ref(i), body: true };
    for order in permutations(3) {
        let args: Vec<Arg> = order.iter().map(|&i| a(i)).collect();
        run_one(&mut cs, "two-cycle", &cyc, &[0, 1, 2], &args, 3);
        run_one(&mut cs, "two-cycle", &cyc, &[2, 1, 0], &args, 1);
    }
    // a chain of 81 types, each holding the next, the last one a SAFE string: safe all the way up, whatever is asked
    // first (no depth at which the walk gives up)
    {
        let chain: Vec<Def> = (0..81).map(|i| if i < 80 { Def::Object(vec![(Annot::None, Ty::Ref(i + 1))]) } else { Def::Object(vec![(Annot::Safe, Ty::Prim("STRING"))]) }).collect();
        let order: Vec<usize> = (0..81).collect();
        run_one(&mut cs, "deep-chain", &chain, &order, &[a(0)], 1);
        run_one(&mut cs, "deep-chain", &chain, &order, &[a(40), a(0), a(80)], 2);
        let mut unsafe_chain = chain.clone();
        unsafe_chain[80] = Def::Object(vec![(Annot::None, Ty::Prim("STRING"))]);
        run_one(&mut cs, "deep-chain", &unsafe_chain, &order, &[a(0), a(79)], 1);
    }
    // rings of 2..4 types in which every node is an object or an alias of the next node; exactly one object carries
    // one more member (an undeclared string, a SAFE string, or an enum reference) placed before or after its ring
    // edge; every evaluation order of one argument per node
    let ring_max = if tier == Tier::Quick { 3 } else { 4 };
    for len in 2..=ring_max {
        for mask in 0..(1u32 << len) {
            // bit set = alias; at least one object, and no two adjacent aliases pointing forward forever
            if mask == (1 << len) - 1 {
                continue;
            }
            for carrier in 0..len {
                if mask & (1 << carrier) != 0 {
                    continue;
                }
                for extra in 0..3 {
                    for before in [false, true] {
                        let mut defs: Vec<Def> = (0..len)
                            .map(|i| {
                                let next = (i + 1) % len;
                                if mask & (1 << i) != 0 {
                                    Def::Alias(Annot::None, Ty::Ref(next))
                                } else {
                                    let edge = (Annot::None, Ty::Opt(Box::new(Ty::Ref(next))));
                                    if i == carrier {
                                        let m = match extra {
                                            0 => (Annot::None, Ty::Prim("STRING")),
                                            1 => (Annot::Safe, Ty::Prim("STRING")),
                                            _ => (Annot::None, Ty::Ref(len)),
                                        };
                                        Def::Object(if before { vec![m, edge] } else { vec![edge, m] })
                                    } else {
                                        Def::Object(vec![edge])
                                    }
                                }
                            })
                            .collect();
                        defs.push(Def::Enum);
                        let nat: Vec<usize> = (0..defs.len()).collect();
                        for p in permutations(len) {
                            let pa: Vec<Arg> = p.iter().map(|&i| a(i)).collect();
                            run_one(&mut cs, "alias-ring", &defs, &nat, &pa, pa.len());
                        }
                    }
                }
            }
        }
    }
    let n = if tier == Tier::Quick { 120 } else { 2500 };
    for _ in 0..n {
        let defs = random_defs(&mut rng);
        let args = random_args(&mut rng, defs.len());
        let nat: Vec<usize> = (0..defs.len()).collect();
        if args.len() <= 4 {
            for p in permutations(args.len()) {
                let pa: Vec<Arg> = p.iter().map(|&i| args[i].clone()).collect();
                run_one(&mut cs, "all-orders", &defs, &nat, &pa, pa.len());
            }
        }
        for _ in 0..3 {
            let mut pa = args.clone();
            for i in (1..pa.len()).rev() {
                pa.swap(i, rng.below(i + 1));
            }
            let mut to = nat.clone();
            for i in (1..to.len()).rev() {
                to.swap(i, rng.below(i + 1));
            }
            let split = rng.below(pa.len() + 1);
            run_one(&mut cs, "seeded-orders", &defs, &to, &pa, split);
        }
    }
    cs
}

pub const RULE: &str = "seeded IR type graphs of 1..7 types (objects, unions, aliases (of any object/union/enum, also later ones, so aliases sit on cycles), enums; references behind optional/list/set/map so cycles of any shape occur; a directed family of rings of 2..3 (quick) / 4 (thorough) objects and aliases with one extra member, every evaluation order; fields and aliases annotated none/SAFE/UNSAFE/DO_NOT_LOG; primitives incl. bearertoken and any, external types), one endpoint per type with a body argument of that type (plain, list, optional, map) plus arguments with explicit safety, the legacy tag `safe`, the legacy marker com.palantir.logsafe.Safe, and look-alikes that are not legacy-safe (markers logsafe.Unsafe, logsafe.DoNotLog, a `Safe` of another package, the tag `unsafe`); the real generator is run for every permutation of the endpoints (<= 4 arguments) and for seeded permutations of endpoints, type declarations and the split into two services; the `safe` token of every emitted #[body/query(...)] attribute is read back with syn. Compared with the model fed the same definitions in the same evaluation order and with the declarative rule (greatest fixpoint) computed independently. Non-trivial = the graph has at least one undeclared reference; distinct = distinct (definitions, argument order) lines.";
