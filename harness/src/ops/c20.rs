//! C20 — determinism.  Support runs (testing, not proof): the library generates each IR twice in *separate
//! processes* (different `RandomState` seeds) into fresh directories and the command-line tool once with the
//! equivalent flags; the three trees must be byte-identical and nothing may appear outside the output directory.
//! Correspondence: the list of written paths is compared with the model's module trie (Model/GenOrder.lean) built
//! from the IR's packages and names.
use crate::irrand;
use crate::run::{Cases, Tier};
use crate::util::{hex, Rng};
use serde_json::Value;
use std::collections::BTreeMap;
use std::path::{Path, PathBuf};
use std::process::Command;

pub const RULE: &str = "non-trivial: the definition has at least two types in different packages, or a service, or the configuration is not the default";

fn scratch() -> PathBuf {
    PathBuf::from(std::env::var("VERIF_SCRATCH").unwrap_or_else(|_| "/verif/work/scratch".into())).join(format!("c20-{}", std::process::id()))
}

fn read_tree(root: &Path, dir: &Path, out: &mut BTreeMap<String, Vec<u8>>) {
    if let Ok(rd) = std::fs::read_dir(dir) {
        for e in rd.flatten() {
            let p = e.path();
            if p.is_dir() {
                read_tree(root, &p, out);
            } else if let Ok(b) = std::fs::read(&p) {
                out.insert(p.strip_prefix(root).unwrap().to_string_lossy().to_string(), b);
            }
        }
    }
}

#[derive(Clone, Debug)]
pub struct Cfg {
    pub exhaustive: bool,
    pub empties: bool,
    pub strip: Option<String>,
    /// (product name, product version, separate crate version)
    pub krate: Option<(String, String, Option<String>)>,
    /// how the tool's boolean flags are written: false = `--flag=<value>`, true = bare `--flag` for true and nothing
    /// for false (the README's `[=<VALUE>]` form)
    pub bare: bool,
}

impl Cfg {
    /// `swapped`: call `version` before `build_crate` (the setters are independent, so the order must not matter);
    /// `implicit`: leave `version` out where the documentation says it defaults to the `build_crate` version
    fn lib_args(&self, swapped: bool, implicit: bool) -> Vec<String> {
        let mut v = vec![format!("--exhaustive={}", self.exhaustive), format!("--empties={}", self.empties)];
        if let Some(s) = &self.strip {
            v.push(format!("--strip={}", s));
        }
        if let Some((n, ver, cv)) = &self.krate {
            // the library equivalent of the tool's flags: the crate gets the crate version (default: the
            // product version), endpoint metadata the product version
            let (a, b) = (format!("--crate={}:{}", n, cv.as_ref().unwrap_or(ver)), format!("--version={}", ver));
            if implicit && cv.is_none() {
                v.push(a);
            } else if swapped {
                v.push(b);
                v.push(a);
            } else {
                v.push(a);
                v.push(b);
            }
        }
        v
    }
    fn cli_args(&self) -> Vec<String> {
        let mut v = vec![];
        if self.bare {
            if self.exhaustive {
                v.push("--exhaustive".to_string());
            }
            if self.empties {
                v.push("--serializeEmptyCollections".to_string());
            }
        } else {
            v.push(format!("--exhaustive={}", self.exhaustive));
            v.push(format!("--serializeEmptyCollections={}", self.empties));
        }
        if let Some(s) = &self.strip {
            v.push(format!("--stripPrefix={}", s));
        }
        if let Some((n, ver, cv)) = &self.krate {
            v.push(format!("--productName={}", n));
            v.push(format!("--productVersion={}", ver));
            if let Some(cv) = cv {
                v.push(format!("--crateVersion={}", cv));
            }
        }
        v
    }
}

/// `harness gen <ir> <out> [flags]`: the library entry point, for use as a child process
pub fn gen_main(args: &[String]) -> i32 {
    let (ir, out) = (&args[0], &args[1]);
    let mut c = conjure_codegen::Config::new();
    for a in &args[2..] {
        if let Some(v) = a.strip_prefix("--exhaustive=") {
            c.exhaustive(v == "true");
        } else if let Some(v) = a.strip_prefix("--empties=") {
            c.serialize_empty_collections(v == "true");
        } else if let Some(v) = a.strip_prefix("--strip=") {
            c.strip_prefix(v.to_string());
        } else if let Some(v) = a.strip_prefix("--crate=") {
            let (n, ver) = v.split_once(':').unwrap();
            c.build_crate(n, ver);
        } else if let Some(v) = a.strip_prefix("--version=") {
            c.version(v.to_string());
        }
    }
    match c.generate_files(ir, out) {
        Ok(()) => 0,
        Err(e) => {
            eprintln!("{:#}", e);
            3
        }
    }
}

/// builds /repo's command-line tool (from the current working tree) into /verif/work/cli-target
pub fn build_cli() -> Result<PathBuf, String> {
    let target = "/verif/work/cli-target";
    let out = Command::new("cargo").args(["build", "--offline", "--quiet", "-p", "conjure-rust", "--manifest-path", "/repo/Cargo.toml", "--target-dir", target]).env("CARGO_NET_OFFLINE", "true").output().map_err(|e| e.to_string())?;
    if !out.status.success() {
        return Err(format!("building conjure-rust failed: {}", String::from_utf8_lossy(&out.stderr).chars().rev().take(600).collect::<String>().chars().rev().collect::<String>()));
    }
    Ok(PathBuf::from(target).join("debug").join("conjure-rust"))
}

fn snake(name: &str) -> String {
    // heck's snake_case for the names used here (a boundary before an upper-case letter that follows a lower-case
    // letter or digit, and before the last upper-case letter of a run followed by lower case)
    let cs: Vec<char> = name.chars().collect();
    let mut out = String::new();
    for (i, c) in cs.iter().enumerate() {
        if c.is_ascii_uppercase() && i > 0 {
            let prev = cs[i - 1];
            let next_lower = cs.get(i + 1).map(|n| n.is_ascii_lowercase()).unwrap_or(false);
            if prev.is_ascii_lowercase() || prev.is_ascii_digit() || (prev.is_ascii_uppercase() && next_lower) {
                out.push('_');
            }
        }
        out.push(c.to_ascii_lowercase());
    }
    out
}

/// the items of the model: (module path, module name) per type, error and service, in IR order
fn items(ir: &Value, cfg: &Cfg) -> String {
    let mut out = String::from("(items");
    let mut push = |pkg: &str, name: &str| {
        let stripped = match &cfg.strip {
            Some(p) if pkg == p => "",
            Some(p) if pkg.starts_with(&format!("{}.", p)) => &pkg[p.len() + 1..],
            _ => pkg,
        };
        let comps: Vec<&str> = stripped.split('.').filter(|c| !c.is_empty()).collect();
        out.push_str(&format!(",(i,(m{}),{})", comps.iter().map(|c| format!(",{}", hex(c.as_bytes()))).collect::<String>(), hex(snake(name).as_bytes())));
    };
    for t in ir["types"].as_array().unwrap() {
        let k = t["type"].as_str().unwrap();
        push(t[k]["typeName"]["package"].as_str().unwrap(), t[k]["typeName"]["name"].as_str().unwrap());
    }
    for e in ir["errors"].as_array().unwrap() {
        push(e["errorName"]["package"].as_str().unwrap(), e["errorName"]["name"].as_str().unwrap());
    }
    for s in ir["services"].as_array().unwrap() {
        push(s["serviceName"]["package"].as_str().unwrap(), s["serviceName"]["name"].as_str().unwrap());
    }
    out.push(')');
    out
}

fn one(cs: &mut Cases, label: &str, ir: &Value, cfg: &Cfg, cli: &Result<PathBuf, String>, n: usize) {
    let root = scratch().join(format!("case{}", n));
    let _ = std::fs::remove_dir_all(&root);
    std::fs::create_dir_all(&root).unwrap();
    let ir_path = root.join("ir.json");
    std::fs::write(&ir_path, serde_json::to_vec(ir).unwrap()).unwrap();
    // the temporary directory of the generating processes lies inside the case's root, so that whatever they leave
    // there is seen as well
    let tmp = root.join("tmp");
    std::fs::create_dir_all(&tmp).unwrap();
    let me = std::env::current_exe().unwrap();
    let mut trees: Vec<(String, Result<BTreeMap<String, Vec<u8>>, String>)> = vec![];
    for run in ["lib1", "lib2", "lib3", "lib4"] {
        let out = root.join(run);
        let o = Command::new(&me).arg("gen").arg(&ir_path).arg(&out).args(cfg.lib_args(run == "lib3", run == "lib4")).current_dir(&root).env("TMPDIR", &tmp).envs(if run == "lib2" { vec![("CARGO_PKG_VERSION", "0.3.1"), ("CARGO_PKG_NAME", "someone-elses-crate"), ("CARGO_MANIFEST_DIR", "/nonexistent")] } else { vec![] }).output();
        trees.push((run.to_string(), match o {
            Ok(o) if o.status.success() => {
                let mut t = BTreeMap::new();
                read_tree(&out, &out, &mut t);
                Ok(t)
            }
            Ok(o) => Err(format!("exit {:?}: {}", o.status.code(), String::from_utf8_lossy(&o.stderr))),
            Err(e) => Err(e.to_string()),
        }));
    }
    if let Ok(cli) = cli {
        let out = root.join("cli");
        let o = Command::new(cli).arg("generate").args(cfg.cli_args()).arg(&ir_path).arg(&out).current_dir(&root).env("TMPDIR", &tmp).output();
        trees.push(("cli".to_string(), match o {
            Ok(o) if o.status.success() => {
                let mut t = BTreeMap::new();
                read_tree(&out, &out, &mut t);
                Ok(t)
            }
            Ok(o) => Err(format!("exit {:?}: {}", o.status.code(), String::from_utf8_lossy(&o.stderr))),
            Err(e) => Err(e.to_string()),
        }));
    }
    // anything created outside the three output directories?
    let mut all = BTreeMap::new();
    read_tree(&root, &root, &mut all);
    let strays: Vec<String> = all.keys().filter(|k| *k != "ir.json" && !k.starts_with("lib1/") && !k.starts_with("lib2/") && !k.starts_with("lib3/") && !k.starts_with("lib4/") && !k.starts_with("cli/")).cloned().collect();
    let nontrivial = cfg.exhaustive || cfg.empties || cfg.strip.is_some() || cfg.krate.is_some() || !ir["services"].as_array().map(|a| a.is_empty()).unwrap_or(true) || ir["types"].as_array().map(|a| a.len() >= 2).unwrap_or(false);
    let note = format!("{} {:?} ({} types, {} services)", label, cfg, ir["types"].as_array().map(|a| a.len()).unwrap_or(0), ir["services"].as_array().map(|a| a.len()).unwrap_or(0));
    // model: the written paths (module mode only: the crate wrapper adds Cargo.toml etc. and `src/`)
    match &trees[0].1 {
        Ok(t) if cfg.krate.is_none() => {
            let mut paths: Vec<String> = t.keys().cloned().collect();
            paths.sort();
            cs.push(label, format!("tree {}", items(ir, cfg)), paths.join(";"), nontrivial, note.clone());
        }
        Ok(t) => {
            // crate mode: the manifest and rustfmt.toml beside `src/`, whose root module is lib.rs
            let mut paths: Vec<String> = t.keys().cloned().collect();
            paths.sort();
            cs.push(label, format!("crate {}", items(ir, cfg)), paths.join(";"), nontrivial, note.clone());
        }
        _ => cs.push(label, "noop".into(), "noop".into(), nontrivial, note.clone()),
    }
    let ir_txt = serde_json::to_string(ir).unwrap();
    let ir_short = if ir_txt.len() > 1500 { format!("{}… ({} bytes, seed-reproducible)", &ir_txt[..1500], ir_txt.len()) } else { ir_txt };
    if !strays.is_empty() {
        cs.fail_last("files-outside-output-dir", format!("files created outside the output directory: {:?}; {}", strays, note));
        return;
    }
    let base = &trees[0];
    for other in &trees[1..] {
        match (&base.1, &other.1) {
            (Ok(a), Ok(b)) => {
                if a != b {
                    let diff: Vec<&String> = a.keys().chain(b.keys()).filter(|k| a.get(*k) != b.get(*k)).take(4).collect();
                    cs.fail_last(&format!("trees-differ:{}", other.0), format!("{} and {} produced different trees (first differing files {:?}) for {} IR {}", base.0, other.0, diff, note, ir_short));
                    return;
                }
            }
            (Err(a), Err(b)) => {
                let _ = (a, b); // both refuse: deterministic (whether refusing is right is C03's business)
            }
            (a, b) => {
                cs.fail_last(&format!("outcome-differs:{}", other.0), format!("{} -> {:?} but {} -> {:?} for {} IR {}", base.0, a.as_ref().map(|t| t.len()), other.0, b.as_ref().map(|t| t.len()), note, ir_short));
                return;
            }
        }
    }
    let _ = std::fs::remove_dir_all(&root);
}

pub fn cases(seed: u64, tier: Tier) -> Cases {
    let mut cs = Cases::new("C20");
    let mut rng = Rng::new(seed ^ 0xC20);
    let cli = build_cli();
    if let Err(e) = &cli {
        cs.push("cli", "noop".into(), "noop".into(), true, "building the command-line tool".into());
        cs.fail_last("cli-build", e.clone());
    }
    let fixed: Vec<(&str, Value)> = vec![("verif.json", serde_json::from_str(verifgen::IR_SRC).unwrap()), ("test-ir.json", serde_json::from_str(&std::fs::read_to_string("/repo/conjure-test/test-ir.json").unwrap_or_else(|_| "{\"version\":1,\"errors\":[],\"types\":[],\"services\":[],\"extensions\":{}}".into())).unwrap())];
    let cfgs = |rng: &mut Rng, pkg: &str| -> Cfg {
        Cfg { exhaustive: rng.chance(1, 2), empties: rng.chance(1, 2), strip: match rng.below(4) { 0 => None, 1 => Some(pkg.to_string()), 2 => Some(pkg.rsplit_once('.').map(|x| x.0.to_string()).unwrap_or_else(|| pkg.to_string())), _ => Some(format!("{}.", pkg)) /* a trailing dot: a last, empty component that no package has */ }, krate: match rng.below(6) { 0 => Some(("my-product".to_string(), "1.2.3".to_string(), None)), 1 => Some(("my-product".to_string(), "1.2.3".to_string(), Some("9.9.9-rc1".to_string()))), _ => None }, bare: rng.chance(1, 2) }
    };
    let mut n = 0;
    for (name, ir) in &fixed {
        let pkg = if *name == "verif.json" { "com.palantir.verif" } else { "com.palantir.conjure" };
        one(&mut cs, name, ir, &Cfg { exhaustive: false, empties: false, strip: None, krate: None, bare: false }, &cli, n);
        n += 1;
        for _ in 0..(if tier == Tier::Quick { 2 } else { 8 }) {
            let c = cfgs(&mut rng, pkg);
            one(&mut cs, name, ir, &c, &cli, n);
            n += 1;
        }
    }
    // a type whose module name is also the name of a sub-package's module (the type's module is renamed)
    {
        let ir = serde_json::json!({"version": 1, "errors": [], "services": [], "extensions": {}, "types": [
            {"type": "object", "object": {"typeName": {"name": "Inner", "package": "com.demo"}, "fields": [{"fieldName": "leaf", "type": {"type": "optional", "optional": {"itemType": {"type": "reference", "reference": {"name": "Leaf", "package": "com.demo.inner"}}}}}]}},
            {"type": "object", "object": {"typeName": {"name": "Leaf", "package": "com.demo.inner"}, "fields": [{"fieldName": "x", "type": {"type": "primitive", "primitive": "INTEGER"}}]}},
            {"type": "enum", "enum": {"typeName": {"name": "Leaf", "package": "com.demo"}, "values": [{"value": "A"}]}},
            {"type": "enum", "enum": {"typeName": {"name": "Twig", "package": "com.demo.leaf.twig"}, "values": [{"value": "A"}]}}]});
        for (strip, krate) in [(None, None), (Some("com.demo".to_string()), None), (Some("com".to_string()), Some(("my-product".to_string(), "1.2.3".to_string(), None)))] {
            one(&mut cs, "type and sub-package share a module name", &ir, &Cfg { exhaustive: false, empties: false, strip, krate, bare: false }, &cli, n);
            n += 1;
        }
    }
    // definitions the generator refuses (a package with an empty component makes a module without a name): a failed
    // run must be the same failure every time and leave nothing outside the output directory either
    for pkg in ["com.demo.", "", "com..demo", "."] {
        let ir = serde_json::json!({"version": 1, "errors": [], "services": [], "extensions": {}, "types": [
            {"type": "object", "object": {"typeName": {"name": "Thing", "package": pkg}, "fields": [{"fieldName": "a", "type": {"type": "primitive", "primitive": "STRING"}}]}},
            {"type": "enum", "enum": {"typeName": {"name": "Kind", "package": "com.demo.ok"}, "values": [{"value": "A"}]}}]});
        for krate in [None, Some(("my-product".to_string(), "1.2.3".to_string(), None))] {
            one(&mut cs, &format!("refused (a type in package {:?})", pkg), &ir, &Cfg { exhaustive: false, empties: false, strip: None, krate, bare: false }, &cli, n);
            n += 1;
        }
    }
    let m = if tier == Tier::Quick { 40 } else { 600 };
    for _ in 0..m {
        let ir = irrand::random_ir(&mut rng, &irrand::Opts::default());
        let c = cfgs(&mut rng, "com.palantir.verif");
        one(&mut cs, "seeded", &ir, &c, &cli, n);
        n += 1;
    }
    let _ = std::fs::remove_dir_all(scratch());
    cs
}
