//! C10 — generated enums and unions (compiled from gen/ir/verif.json in default and exhaustive
//! mode): unknown values / variants survive a round trip unless exhaustive; listed ones are
//! always themselves.
use crate::dynval::*;
use crate::run::{guarded, Cases, Tier};
use crate::util::{hex, Rng};
use std::collections::HashMap;

pub fn sort_tree(t: &Tree) -> String {
    match t {
        Tree::Arr(xs) => format!("(arr{})", xs.iter().map(|x| format!(",{}", sort_tree(x))).collect::<String>()),
        Tree::Obj(ms) => {
            let mut ps: Vec<(String, String)> = ms.iter().map(|(k, v)| (format!("t{}", hex(k.as_bytes())), sort_tree(v))).collect();
            ps.sort_by(|a, b| a.0.cmp(&b.0));
            format!("(obj{})", ps.iter().map(|(k, v)| format!(",(m,{},{})", k, v)).collect::<String>())
        }
        other => other.txt(None),
    }
}

pub struct Gen {
    pub entries: HashMap<&'static str, verifgen::Entry>,
}

impl Gen {
    pub fn new() -> Gen {
        Gen { entries: verifgen::registry().into_iter().map(|e| (e.name, e)).collect() }
    }
    /// Ok(canonical sorted text of the re-serialized document) or Err(message); Err(Err) = panic
    pub fn de_ser(&self, ty: &str, cfg: &str, server: bool, doc: &[u8]) -> Result<Result<String, String>, String> {
        let f = self.entries[ty].de_ser;
        let (cfg, doc) = (cfg.to_string(), doc.to_vec());
        guarded(move || f(&cfg, server, &doc).map(|s| sort_tree(&serde_json::from_str::<Tree>(&s).unwrap_or(Tree::Null))))
    }
}

fn names_txt(v: &[&str]) -> String {
    if v.is_empty() {
        "-".into()
    } else {
        v.iter().map(|s| hex(s.as_bytes())).collect::<Vec<_>>().join(",")
    }
}

fn valid_variant(s: &str) -> bool {
    !s.is_empty() && s.bytes().all(|b| b.is_ascii_uppercase() || b.is_ascii_digit() || b == b'_')
}

fn enum_case(cs: &mut Cases, g: &Gen, ty: &str, values: &[&str], doc: &Tree) {
    let bytes = serde_json::to_vec(doc).unwrap();
    let mut outs = vec![];
    for cfg in ["plain", "exhaustive"] {
        let c = g.de_ser(ty, cfg, false, &bytes);
        let s = g.de_ser(ty, cfg, true, &bytes);
        let shown = match &c {
            Ok(Ok(d)) => format!("ok {}", d),
            Ok(Err(_)) => "err".to_string(),
            Err(_) => "panic".to_string(),
        };
        let op = format!("enum {} {} {}", (cfg == "exhaustive") as u8, names_txt(values), doc.txt(None));
        cs.push(&format!("enum:{}:{}", ty, cfg), op, shown.clone(), true, format!("{} ({}) from {}", ty, cfg, String::from_utf8_lossy(&bytes)));
        if let (Ok(c), Ok(s)) = (&c, &s) {
            if c.is_ok() != s.is_ok() || (c.is_ok() && c != s) {
                cs.fail_last("enum:client-server-differ", format!("client {:?} server {:?}", c, s));
            }
        } else {
            cs.fail_last("enum:panic", format!("{:?} {:?}", c, s));
        }
        outs.push(shown);
    }
    // oracle from the statement (string documents only)
    if let Tree::Str(name) = doc {
        let listed = values.contains(&name.as_str());
        let same = format!("ok (s,{})", hex(name.as_bytes()));
        let (plain, exh) = (&outs[0], &outs[1]);
        if listed {
            if plain != &same || exh != &same {
                cs.fail_last("enum:listed-not-itself", format!("listed value {:?} gives {} / {} (exhaustive)", name, plain, exh));
            }
        } else {
            if valid_variant(name) && plain != &same {
                cs.fail_last("enum:unknown-lost", format!("well-formed unlisted value {:?} gives {} in the default configuration", name, plain));
            }
            if !valid_variant(name) && plain != "err" {
                cs.fail_last("enum:malformed-accepted", format!("malformed name {:?} gives {}", name, plain));
            }
            if exh != "err" {
                cs.fail_last("enum:exhaustive-accepts-unknown", format!("exhaustive configuration accepts unlisted {:?}: {}", name, exh));
            }
        }
    }
}

/// (wire name, model type text or None when the payload type is outside the Wrap model)
fn shape_variants() -> Vec<(&'static str, Option<DynTy>)> {
    let simple = DynTy::Struct(vec![("a".into(), DynTy::Int(true, 32)), ("b".into(), DynTy::Str)]);
    vec![
        ("circle", Some(DynTy::F64)),
        ("square", Some(simple)),
        ("label", Some(DynTy::Str)),
        ("many", Some(DynTy::Seq(Box::new(DynTy::Int(true, 32))))),
        ("nothing", Some(DynTy::Struct(vec![]))),
        ("opt", Some(DynTy::Opt(Box::new(DynTy::Int(true, 32))))),
        ("color", None),
        ("rec", None),
        ("bin", Some(DynTy::Bytes)),
        ("anyValue", None),
    ]
}

fn variants_txt(vs: &[(&'static str, Option<DynTy>)]) -> String {
    if vs.is_empty() {
        return "-".into();
    }
    vs.iter().map(|(n, t)| format!("{}:{}", hex(n.as_bytes()), t.as_ref().map(|t| t.txt()).unwrap_or_else(|| "(u)".into()))).collect::<Vec<_>>().join(";")
}

fn union_case(cs: &mut Cases, g: &Gen, ty: &str, variants: &[(&'static str, Option<DynTy>)], doc: &Tree, valid_payload_of: Option<&str>) {
    let bytes = serde_json::to_vec(doc).unwrap();
    // is every member key that names a listed variant one whose payload type the model has?
    let modelled = match doc {
        Tree::Obj(ms) => ms.iter().all(|(k, _)| variants.iter().find(|v| v.0 == k).map(|v| v.1.is_some()).unwrap_or(true)) && ms.iter().all(|(k, v)| k != "type" || !matches!(v, Tree::Str(s) if variants.iter().any(|x| x.0 == s && x.1.is_none()))),
        _ => true,
    };
    let mut outs = vec![];
    for cfg in ["plain", "exhaustive"] {
        let c = g.de_ser(ty, cfg, false, &bytes);
        let s = g.de_ser(ty, cfg, true, &bytes);
        let shown = match &c {
            Ok(Ok(d)) => format!("ok {}", d),
            Ok(Err(_)) => "err".to_string(),
            Err(_) => "panic".to_string(),
        };
        let op = if modelled { format!("union {} {} {}", (cfg == "exhaustive") as u8, variants_txt(variants), doc.txt(None)) } else { "noop".to_string() };
        let real = if modelled { shown.clone() } else { "noop".to_string() };
        cs.push(&format!("union:{}:{}{}", ty, cfg, if modelled { "" } else { ":oracle-only" }), op, real, true, format!("{} ({}) from {}", ty, cfg, String::from_utf8_lossy(&bytes)));
        match (&c, &s) {
            (Ok(c), Ok(s)) => {
                let has_unknown_field = String::from_utf8_lossy(&bytes).contains("\"zz\"");
                if !has_unknown_field && (c.is_ok() != s.is_ok() || (c.is_ok() && c != s)) {
                    cs.fail_last("union:client-server-differ", format!("client {:?} server {:?}", c, s));
                }
            }
            _ => cs.fail_last("union:panic", format!("{:?} {:?}", c, s)),
        }
        outs.push(shown);
    }
    // oracle: two-member documents {"type": n, n: p} in either order
    if let Tree::Obj(ms) = doc {
        if ms.len() == 2 {
            let (tpos, vpos) = if ms[0].0 == "type" { (0, 1) } else { (1, 0) };
            if let (("type", Tree::Str(t)), (k, p)) = ((ms[tpos].0.as_str(), &ms[tpos].1), (&ms[vpos].0, &ms[vpos].1)) {
                if t == k && k != "type" {
                    let listed = variants.iter().any(|v| v.0 == t);
                    let canon = sort_tree(&Tree::Obj(vec![("type".into(), Tree::Str(t.clone())), (t.clone(), p.clone())]));
                    if !listed {
                        if outs[0] != format!("ok {}", canon) {
                            cs.fail_last("union:unknown-lost", format!("unknown variant {:?} with payload {} gives {} in the default configuration", t, serde_json::to_string(p).unwrap(), outs[0]));
                        } else if outs[1] != "err" {
                            cs.fail_last("union:exhaustive-accepts-unknown", format!("exhaustive configuration accepts unlisted variant {:?}: {}", t, outs[1]));
                        }
                    } else {
                        if outs[0] != outs[1] {
                            cs.fail_last("union:listed-differs-between-modes", format!("listed variant {:?}: {} vs {} (exhaustive)", t, outs[0], outs[1]));
                        } else if valid_payload_of == Some(t.as_str()) && !outs[0].starts_with("ok") {
                            cs.fail_last("union:listed-rejected", format!("listed variant {:?} with a valid payload is rejected", t));
                        } else if outs[0].starts_with("ok") && !outs[0].contains(&format!("(m,t74797065,(s,{}))", hex(t.as_bytes()))) {
                            cs.fail_last("union:listed-became-other", format!("listed variant {:?} re-serializes as {}", t, outs[0]));
                        }
                    }
                }
            }
        }
    }
}

fn payload_pool(rng: &mut Rng) -> Vec<Tree> {
    let mut v = vec![
        Tree::Null, Tree::Bool(true), Tree::Int(0), Tree::Int(-1), Tree::Int(i64::MAX as i128), Tree::Int(i64::MIN as i128), Tree::Int(u64::MAX as i128),
        Tree::Dbl(Dbl::of(14.3)), Tree::Dbl(Dbl::of(-0.0)), Tree::Dbl(Dbl::of(1e300)), Tree::Str("".into()), Tree::Str("NaN".into()), Tree::Str("Infinity".into()),
        Tree::Str("QUJD".into()), Tree::Str("é😀".into()), Tree::Arr(vec![]), Tree::Obj(vec![]),
        Tree::Arr(vec![Tree::Int(1), Tree::Str("NaN".into()), Tree::Null]),
        Tree::Obj(vec![("a".into(), Tree::Arr(vec![Tree::Int(1), Tree::Str("NaN".into()), Tree::Null]))]),
        Tree::Obj(vec![("type".into(), Tree::Str("inner".into())), ("inner".into(), Tree::Int(3))]),
        Tree::Obj(vec![("z".into(), Tree::Null), ("a".into(), Tree::Obj(vec![("b".into(), Tree::Obj(vec![("c".into(), Tree::Arr(vec![Tree::Arr(vec![])]))]))]))]),
        Tree::Arr(vec![Tree::Arr(vec![Tree::Arr(vec![Tree::Dbl(Dbl::of(0.1))])])]),
    ];
    for _ in 0..8 {
        // (payloads name no member twice: what an `Any` makes of a repeated name is C13's business)
        v.push(crate::ops::c13::last_wins(&crate::ops::c13_random_json(rng, 3)));
    }
    v
}

/// a generated enum / union read from a document directly and through the dynamic `any` (parse into `Any`, then view
/// as the type): the same outcome — the same re-serialization, or a rejection both ways
pub fn both<T: serde::de::DeserializeOwned + serde::Serialize>(doc: &str) -> (Result<String, String>, Result<String, String>) {
    let direct = conjure_serde::json::client_from_str::<T>(doc).map_err(|e| e.to_string()).and_then(|v| conjure_serde::json::to_string(&v).map_err(|e| e.to_string()));
    let via = conjure_serde::json::client_from_str::<conjure_object::Any>(doc)
        .map_err(|e| e.to_string())
        .and_then(|a| a.deserialize_into::<T>().map_err(|e| e.to_string()))
        .and_then(|v| conjure_serde::json::to_string(&v).map_err(|e| e.to_string()));
    (direct, via)
}

pub fn via_any_cases(cs: &mut Cases) {
    let enums = ["\"RED\"", "\"GREEN\"", "\"BLUE_2\"", "\"PURPLE\"", "\"X_9\"", "\"lower\"", "\"\"", "3", "null", "{\"RED\":null}"];
    let unions = [
        "{\"type\":\"label\",\"label\":\"x\"}",
        "{\"label\":\"x\",\"type\":\"label\"}",
        "{\"type\":\"circle\",\"circle\":1.5}",
        "{\"type\":\"circle\",\"circle\":\"NaN\"}",
        "{\"type\":\"square\",\"square\":{\"a\":1,\"b\":\"s\"}}",
        "{\"type\":\"bazqux\",\"bazqux\":[1,{\"k\":null}]}",
        "{\"bazqux\":[1,{\"k\":null}],\"type\":\"bazqux\"}",
        "{\"type\":\"zeta\",\"zeta\":\"later than type\"}",
        "{\"zeta\":1,\"type\":\"zeta\"}",
        "{\"type\":\"foobar\",\"bazqux\":1}",
        "{\"bazqux\":1,\"type\":\"foobar\"}",
        "{\"type\":\"label\",\"circle\":1.5}",
        "{\"type\":\"label\"}",
        "\"label\"",
    ];
    let mut run = |cs: &mut Cases, what: &str, doc: &str, r: Result<(Result<String, String>, Result<String, String>), String>| {
        cs.push("via-any", "noop".into(), "noop".into(), true, format!("{} from {} directly and through an Any", what, doc));
        match r {
            Err(p) => cs.fail_last("via-any:panic", p),
            Ok((direct, via)) => {
                if direct.is_ok() != via.is_ok() || (direct.is_ok() && direct != via) {
                    cs.fail_last("via-any:differs", format!("{} from {}: read directly {:?}, viewed through an Any {:?}", what, doc, direct, via));
                }
            }
        }
    };
    // maps with typed keys: in JSON every key is a string, which the `any` route must read back as the key type does
    // directly — doubles of either sign, in every spelling a double key is written in
    let keyed: [(&str, &str); 8] = [
        ("d", "{\"-2.5\":1,\"1.5\":2,\"NaN\":3,\"-Infinity\":4,\"Infinity\":5}"),
        ("d", "{\"-0.1\":1,\"0.1\":2,\"-1e300\":3,\"1e-7\":4,\"-5\":5,\"7\":6}"),
        ("d", "{\"-0\":1}"),
        ("l", "{\"-9007199254740991\":1,\"9007199254740991\":2,\"-1\":3,\"0\":4}"),
        ("i", "{\"-2147483648\":1,\"2147483647\":2,\"-7\":3}"),
        ("b", "{\"true\":1,\"false\":2}"),
        ("u", "{\"00000000-0000-0000-0000-000000000001\":1}"),
        ("d", "{\"inf\":1}"),
    ];
    for (k, d) in keyed {
        let d2 = d.to_string();
        let r = match k {
            "d" => guarded(move || both::<std::collections::BTreeMap<conjure_object::DoubleKey, i32>>(&d2)),
            "l" => guarded(move || both::<std::collections::BTreeMap<conjure_object::SafeLong, i32>>(&d2)),
            "i" => guarded(move || both::<std::collections::BTreeMap<i32, i32>>(&d2)),
            "b" => guarded(move || both::<std::collections::BTreeMap<bool, i32>>(&d2)),
            _ => guarded(move || both::<std::collections::BTreeMap<conjure_object::Uuid, i32>>(&d2)),
        };
        run(cs, &format!("a map keyed by {}", match k { "d" => "double", "l" => "safelong", "i" => "integer", "b" => "boolean", _ => "uuid" }), d, r);
    }
    for d in enums {
        let d2 = d.to_string();
        run(cs, "Color (default configuration)", d, guarded(move || both::<verifgen::plain::Color>(&d2)));
        let d2 = d.to_string();
        run(cs, "Color (exhaustive)", d, guarded(move || both::<verifgen::exhaustive::Color>(&d2)));
        let d2 = format!("[{},\"RED\"]", d);
        run(cs, "list<Color> (exhaustive)", &d2.clone(), guarded(move || both::<Vec<verifgen::exhaustive::Color>>(&d2)));
    }
    for d in unions {
        let d2 = d.to_string();
        run(cs, "Shape (default configuration)", d, guarded(move || both::<verifgen::plain::Shape>(&d2)));
        let d2 = d.to_string();
        run(cs, "Shape (exhaustive)", d, guarded(move || both::<verifgen::exhaustive::Shape>(&d2)));
        let d2 = format!("{{\"k\":{}}}", d);
        run(cs, "map<string, Shape> (default configuration)", &d2.clone(), guarded(move || both::<std::collections::BTreeMap<String, verifgen::plain::Shape>>(&d2)));
    }
}

pub fn cases(seed: u64, tier: Tier) -> Cases {
    let mut rng = Rng::new(seed);
    let mut cs = Cases::new("C10");
    via_any_cases(&mut cs);
    let g = Gen::new();

    // ---- enums
    let alpha = ["A", "Z", "0", "9", "_", "a", "-"];
    let mut names: Vec<String> = vec!["".into()];
    let maxlen = if tier == Tier::Quick { 3 } else { 4 };
    let mut level: Vec<String> = vec!["".into()];
    for _ in 0..maxlen {
        let mut next = vec![];
        for p in &level {
            for a in alpha {
                next.push(format!("{}{}", p, a));
            }
        }
        names.extend(next.iter().cloned());
        level = next;
    }
    for extra in ["RED", "GREEN", "BLUE_2", "ONLY", "BLUE", "BLUE_", "RED ", " RED", "red", "Red", "BOGUS", "BOGUS_1", "R", "RÉD", "UNKNOWN", "Unknown", "RED\n", "VERY_LONG_VALUE_NAME_WITH_1234567890_DIGITS"] {
        names.push(extra.to_string());
    }
    for (ty, values) in [("Color", vec!["RED", "GREEN", "BLUE_2"]), ("Single", vec!["ONLY"]), ("ColorAlias", vec!["RED", "GREEN", "BLUE_2"])] {
        for n in &names {
            enum_case(&mut cs, &g, ty, &values, &Tree::Str(n.clone()));
        }
        for d in [Tree::Null, Tree::Int(0), Tree::Bool(true), Tree::Arr(vec![]), Tree::Obj(vec![]), Tree::Arr(vec![Tree::Str("RED".into())]), Tree::Obj(vec![("RED".into(), Tree::Int(1))]), Tree::Obj(vec![("PURPLE".into(), Tree::Null)]), Tree::Obj(vec![("RED".into(), Tree::Null), ("GREEN".into(), Tree::Null)]), Tree::Dbl(Dbl::of(1.5))] {
            enum_case(&mut cs, &g, ty, &values, &d);
        }
    }
    // the same enum as the value of an object's field (`Opts.ocolor: optional<Color>`, `Tagged.color: Color`,
    // `Tagged.colors: list<Color>`): what holds at the top of a document holds below a member, for both readers and
    // both configurations
    for n in ["RED", "GREEN", "BLUE_2", "BOGUS", "BOGUS_1", "red", "RED "] {
        for (ty, doc) in [("Opts", Tree::Obj(vec![("ocolor".to_string(), Tree::Str(n.to_string()))])), ("Tagged", Tree::Obj(vec![("color".to_string(), Tree::Str(n.to_string()))])), ("Tagged", Tree::Obj(vec![("color".to_string(), Tree::Str("RED".to_string())), ("colors".to_string(), Tree::Arr(vec![Tree::Str("GREEN".to_string()), Tree::Str(n.to_string())]))]))] {
            let bytes = serde_json::to_vec(&doc).unwrap();
            let mut outs = vec![];
            for cfg in ["plain", "exhaustive"] {
                for server in [false, true] {
                    outs.push(match g.de_ser(ty, cfg, server, &bytes) {
                        Ok(Ok(d)) => format!("ok {}", d),
                        Ok(Err(_)) => "err".to_string(),
                        Err(_) => "panic".to_string(),
                    });
                }
            }
            cs.push(&format!("enum-below-member:{}", ty), "noop".into(), "noop".into(), true, format!("{} from {}", ty, String::from_utf8_lossy(&bytes)));
            let listed = ["RED", "GREEN", "BLUE_2"].contains(&n);
            let hexn = hex(n.as_bytes());
            if outs.iter().any(|o| o == "panic") {
                cs.fail_last("enum:panic", format!("{:?}", outs));
            } else if listed && !(outs.iter().all(|o| o == &outs[0]) && outs[0].starts_with("ok") && outs[0].contains(&hexn)) {
                cs.fail_last("enum:listed-not-itself", format!("the listed value {:?} below a member of {}: plain client / plain server / exhaustive client / exhaustive server give {:?}", n, ty, outs));
            } else if !listed && valid_variant(n) && !(outs[0] == outs[1] && outs[0].starts_with("ok") && outs[0].contains(&hexn)) {
                cs.fail_last("enum:unknown-lost", format!("the well-formed unlisted value {:?} below a member of {} gives {:?} in the default configuration", n, ty, &outs[..2]));
            } else if !listed && (outs[2] != "err" || outs[3] != "err") {
                cs.fail_last("enum:exhaustive-accepts-unknown", format!("the exhaustive configuration accepts the unlisted {:?} below a member of {}: {:?}", n, ty, &outs[2..]));
            } else if !listed && !valid_variant(n) && (outs[0] != "err" || outs[1] != "err") {
                cs.fail_last("enum:malformed-accepted", format!("the malformed name {:?} below a member of {} gives {:?}", n, ty, &outs[..2]));
            }
        }
    }
    // members whose declared names are not what a case conversion of their Rust names gives back (an acronym, an
    // underscore, a hyphen, a digit): listed under exactly the declared name, in both member orders, for both readers
    // and both configurations
    for (name, payload) in [("userID", Tree::Str("u".into())), ("group_name", Tree::Int(7)), ("kebab-case", Tree::Bool(true)), ("x2Y", Tree::Arr(vec![Tree::Str("a".into())]))] {
        for type_first in [true, false] {
            let doc = if type_first { Tree::Obj(vec![("type".into(), Tree::Str(name.into())), (name.to_string(), payload.clone())]) } else { Tree::Obj(vec![(name.to_string(), payload.clone()), ("type".into(), Tree::Str(name.into()))]) };
            let bytes = serde_json::to_vec(&doc).unwrap();
            let mut outs = vec![];
            for cfg in ["plain", "exhaustive"] {
                for server in [false, true] {
                    outs.push(match g.de_ser("Odd", cfg, server, &bytes) {
                        Ok(Ok(d)) => format!("ok {}", d),
                        Ok(Err(e)) => format!("err {}", e.chars().take(80).collect::<String>()),
                        Err(_) => "panic".to_string(),
                    });
                }
            }
            cs.push("union:odd-member-names", "noop".into(), "noop".into(), true, format!("Odd from {}", String::from_utf8_lossy(&bytes)));
            if !(outs[0].starts_with("ok") && outs.iter().all(|o| o == &outs[0]) && outs[0].contains(&format!("(s,{})", hex(name.as_bytes())))) {
                cs.fail_last("union:listed-differs-between-modes", format!("the listed member {:?} of Odd: plain client / plain server / exhaustive client / exhaustive server give {:?}", name, outs));
            }
        }
    }
    // an unknown variant whose payload holds doubles that need all their digits: the digits written back are the
    // digits read (compared as text: no second parser in between)
    {
        let mut r2 = Rng::new(seed ^ 0xD0B1);
        for i in 0..40 {
            let x = if i % 2 == 0 { 100.0 + (r2.next() >> 11) as f64 / (1u64 << 53) as f64 * 100.0 } else { f64::from_bits(r2.next()) };
            if !x.is_finite() {
                continue;
            }
            let lit = serde_json::to_string(&x).unwrap();
            let doc = format!("{{\"type\":\"gizmo\",\"gizmo\":{{\"k\":[{},{{\"deep\":{}}}]}}}}", lit, lit);
            for server in [false, true] {
                let f = g.entries["Shape"].de_ser;
                let d2 = doc.clone();
                let out = guarded(move || f("plain", server, d2.as_bytes()));
                cs.push("union:unknown-double-payload", "noop".into(), "noop".into(), true, format!("Shape ({}) from {}", if server { "server" } else { "client" }, doc));
                match out {
                    Ok(Ok(s)) if s.matches(lit.as_str()).count() == 2 => {}
                    other => cs.fail_last("union:unknown-payload-altered", format!("the payload of the unknown variant in {} comes back as {:?}", doc, other)),
                }
            }
        }
    }

    // ---- unions
    let shape = shape_variants();
    let simple = |a: i128, b: &str| Tree::Obj(vec![("a".into(), Tree::Int(a)), ("b".into(), Tree::Str(b.into()))]);
    let valid: Vec<(&str, Tree)> = vec![
        ("circle", Tree::Dbl(Dbl::of(14.3))), ("circle", Tree::Str("NaN".into())), ("square", simple(1, "x")), ("label", Tree::Str("hello".into())),
        ("many", Tree::Arr(vec![Tree::Int(1), Tree::Int(2)])), ("many", Tree::Arr(vec![])), ("nothing", Tree::Obj(vec![])), ("opt", Tree::Int(5)), ("opt", Tree::Null),
        ("color", Tree::Str("RED".into())), ("bin", Tree::Str("QUJD".into())), ("anyValue", Tree::Obj(vec![("k".into(), Tree::Arr(vec![Tree::Null]))])),
        ("rec", Tree::Obj(vec![("value".into(), Tree::Int(1)), ("kids".into(), Tree::Arr(vec![])), ("byName".into(), Tree::Obj(vec![]))])),
    ];
    let pair = |t: &str, k: &str, p: &Tree, type_first: bool| {
        let a = ("type".to_string(), Tree::Str(t.into()));
        let b = (k.to_string(), p.clone());
        Tree::Obj(if type_first { vec![a, b] } else { vec![b, a] })
    };
    for (n, p) in &valid {
        for tf in [true, false] {
            union_case(&mut cs, &g, "Shape", &shape, &pair(n, n, p, tf), Some(n));
        }
        // faults: disagreeing type, wrong payload kind, missing halves, extra member
        union_case(&mut cs, &g, "Shape", &shape, &pair("label", n, p, true), None);
        union_case(&mut cs, &g, "Shape", &shape, &pair("label", n, p, false), None);
        union_case(&mut cs, &g, "Shape", &shape, &pair("other", n, p, true), None);
        union_case(&mut cs, &g, "Shape", &shape, &Tree::Obj(vec![("type".into(), Tree::Str(n.to_string()))]), None);
        union_case(&mut cs, &g, "Shape", &shape, &Tree::Obj(vec![(n.to_string(), p.clone())]), None);
        union_case(&mut cs, &g, "Shape", &shape, &Tree::Obj(vec![("type".into(), Tree::Str(n.to_string())), (n.to_string(), p.clone()), ("extra".into(), Tree::Null)]), None);
        union_case(&mut cs, &g, "Shape", &shape, &Tree::Obj(vec![(n.to_string(), p.clone()), ("type".into(), Tree::Str(n.to_string())), ("type".into(), Tree::Str(n.to_string()))]), None);
        union_case(&mut cs, &g, "Shape", &shape, &Tree::Obj(vec![("type".into(), Tree::Int(1)), (n.to_string(), p.clone())]), None);
        union_case(&mut cs, &g, "Shape", &shape, &pair(n, n, &Tree::Obj(vec![("zz".into(), Tree::Int(1))]), true), None);
    }
    for d in [Tree::Obj(vec![]), Tree::Null, Tree::Str("circle".into()), Tree::Arr(vec![]), Tree::Int(1)] {
        union_case(&mut cs, &g, "Shape", &shape, &d, None);
        union_case(&mut cs, &g, "EmptyUnion", &[], &d, None);
    }
    let unknown_names = ["foobar", "foo", "Circle", "CIRCLE", "circle ", "", "a", "é", "x-y", "unknown", "Unknown", "value", "circle2", "null", "0"];
    let pool = payload_pool(&mut rng);
    for n in unknown_names {
        for p in &pool {
            for tf in [true, false] {
                let d = pair(n, n, p, tf);
                union_case(&mut cs, &g, "Shape", &shape, &d, None);
                if n != "a" {
                    union_case(&mut cs, &g, "EmptyUnion", &[], &d, None);
                }
            }
        }
        union_case(&mut cs, &g, "Shape", &shape, &pair(n, "foo2", &Tree::Null, true), None);
        union_case(&mut cs, &g, "Shape", &shape, &pair(n, "foo2", &Tree::Null, false), None);
    }
    let dbl_union: Vec<(&'static str, Option<DynTy>)> = vec![("a", Some(DynTy::F64)), ("b", Some(DynTy::Seq(Box::new(DynTy::F64)))), ("c", Some(DynTy::Struct(vec![("x".into(), DynTy::F64), ("y".into(), DynTy::Opt(Box::new(DynTy::Newtype(Box::new(DynTy::F64)))))])))];
    for (n, p) in [("a", Tree::Str("-Infinity".into())), ("a", Tree::Dbl(Dbl::of(2.5))), ("b", Tree::Arr(vec![Tree::Str("NaN".into()), Tree::Dbl(Dbl::of(0.5))])), ("c", Tree::Obj(vec![("x".into(), Tree::Dbl(Dbl::of(1.0))), ("y".into(), Tree::Str("Infinity".into()))])), ("c", Tree::Obj(vec![("x".into(), Tree::Str("NaN".into())), ("y".into(), Tree::Dbl(Dbl::of(2.0)))])), ("zzz", Tree::Str("NaN".into()))] {
        for tf in [true, false] {
            union_case(&mut cs, &g, "DblUnion", &dbl_union, &pair(n, n, &p, tf), if n == "zzz" { None } else { Some(n) });
        }
    }
    cs
}

pub const RULE: &str = "generated Color / Single / ColorAlias enums and Shape / DblUnion / EmptyUnion unions, compiled by the real generator in the default and the exhaustive configuration. Enums: every string of length <= 3 (4) over {A Z 0 9 _ a -}, 18 near-misses (lower case, padded, non-ASCII, long), 10 non-string documents incl. serde's map form. Unions: 15 valid variant documents x both member orders; per document 9 faults (type/member disagreement, missing value, missing type, third member, repeated type, non-string type, unknown field in payload); 15 unknown variant names x 30 payloads (64-bit integer edges, NaN strings, nested objects/arrays, an object that itself looks like a union, seeded documents) x both orders; empty object and non-objects. Client and server deserializers compared; documents re-serialized and compared up to member order with the model (variants whose payload type is outside the model are oracle-only) and with the oracle (unknown preserved unless exhaustive, listed never unknown and equal in both modes). All cases non-trivial; distinct = distinct operation lines.";
