//! C16 — bearer tokens and resource identifiers through every entry path, exhaustively over short
//! strings on a boundary alphabet, against the model and against an independent grammar oracle.
use crate::run::{guarded, Cases, Tier};
use crate::util::{hex, Rng};
use conjure_object::{BearerToken, FromPlain, ResourceIdentifier, ToPlain};
use std::str::FromStr;

fn spec_token(s: &str) -> bool {
    let b = s.as_bytes();
    let mut i = 0;
    while i < b.len() && (b[i].is_ascii_alphanumeric() || b"-._~+/".contains(&b[i])) {
        i += 1;
    }
    if i == 0 {
        return false;
    }
    b[i..].iter().all(|&c| c == b'=')
}

fn token_case(cs: &mut Cases, s: &str) {
    let owned = s.to_string();
    let r = guarded(move || {
        let a = BearerToken::from_str(&owned).ok().map(|t| t.as_str().to_string());
        let b = BearerToken::new(&owned).ok().map(|t| t.as_str().to_string());
        let c = BearerToken::from_plain(&owned).ok().map(|t| t.to_plain());
        let doc = serde_json::to_string(&owned).unwrap();
        let d = conjure_serde::json::server_from_str::<BearerToken>(&doc).ok().map(|t| conjure_serde::json::to_string(&t).unwrap());
        let d = d.map(|j| serde_json::from_str::<String>(&j).unwrap());
        let e = conjure_serde::json::client_from_str::<BearerToken>(&doc).ok().map(|t| t.into_string());
        // sources that cannot lend a borrowed string: a reader, the dynamic `any`, Smile
        let f = conjure_serde::json::server_from_reader::<_, BearerToken>(doc.as_bytes()).ok().map(|t| t.into_string());
        let g = conjure_object::Any::new(&owned).ok().and_then(|x| x.deserialize_into::<BearerToken>().ok()).map(|t| t.into_string());
        let h = conjure_serde::smile::to_vec(&owned).ok().and_then(|b| conjure_serde::smile::client_from_slice::<BearerToken>(&b).ok()).map(|t| t.into_string());
        let others = [("json reader", f), ("any", g), ("smile", h)];
        let e = match others.iter().find(|(_, x)| *x != e) {
            Some((n, x)) if d == e => {
                // report the odd one out through `e` so that the comparison below names it
                return (a, b, c, d, x.clone().map(|v| format!("{} [via {}]", v, n)).or(Some(format!("<rejected via {}>", n))).filter(|_| true));
            }
            _ => e,
        };
        (a, b, c, d, e)
    });
    let note = format!("bearer token {:?}", s);
    match r {
        Err(p) => {
            cs.push("token", format!("token {}", hex(s.as_bytes())), "panic".into(), true, note);
            cs.fail_last("token:panic", p);
        }
        Ok((a, b, c, d, e)) => {
            let real = match &a {
                Some(t) => format!("ok {}", hex(t.as_bytes())),
                None => "err".into(),
            };
            let valid = spec_token(s);
            cs.push(if valid { "token:valid" } else { "token:invalid" }, format!("token {}", hex(s.as_bytes())), real, s.len() > 1 || valid, note);
            if a != b || a != c || a != d || a != e {
                cs.fail_last("token:paths-differ", format!("entry paths disagree on {:?}: from_str {:?} new {:?} from_plain {:?} server-json {:?} client-json {:?}", s, a, b, c, d, e));
            } else if a.is_some() != valid {
                cs.fail_last(if valid { "token:valid-rejected" } else { "token:invalid-accepted" }, format!("{:?} is {} by the grammar but the code says {:?}", s, if valid { "valid" } else { "invalid" }, a));
            } else if let Some(t) = &a {
                if t != s {
                    cs.fail_last("token:render", format!("{:?} renders back as {:?}", s, t));
                }
            }
        }
    }
    auth_case(cs, s);
    param_case::<BearerToken>(cs, "bearer token", s, spec_token(s), |t| t.as_str().to_string());
}

/// the same string as a credential: `Authorization: Bearer <s>` and `Cookie: Sess_Tok=<s>` through generated endpoints
/// (conjure-http's `parse_header_auth` / `parse_cookie_auth`), for strings HTTP can carry in a header value
fn auth_case(cs: &mut Cases, s: &str) {
    // (blanks and tabs are legal inside a header value: a credential with blanks around it is not a token)
    if s.is_empty() || !s.bytes().all(|b| (0x20..0x7f).contains(&b) || b == b'\t') {
        return;
    }
    let ret = crate::svc::Ret { mixed: String::new(), aliases: vec![], set: Default::default(), bin: vec![], map: Default::default(), opt_str: None, doubles_json: "{\"d\":1.0,\"da\":2.0,\"inner\":{\"x\":0.5}}".into(), list: vec![], dmap: Default::default() };
    let valid = spec_token(s);
    let routes: [(&str, crate::svc::RawReq, String); 2] = [
        ("optBinary", crate::svc::RawReq { path_params: vec![], target: "/v/optBinary?present=false".into(), headers: vec![("authorization".into(), format!("Bearer {}", s).into_bytes())], body: vec![] }, format!("optBinary(auth={:?}, present=false)", s)),
        ("body", crate::svc::RawReq { path_params: vec![], target: "/v/body".into(), headers: vec![("cookie".into(), format!("Sess_Tok={}", s).into_bytes()), ("content-type".into(), b"application/json".to_vec())], body: vec![b"{\"a\":1,\"b\":\"x\"}".to_vec()] }, format!("body(auth={:?}, ", s)),
    ];
    for (ep, req, want) in routes {
        let (ep2, ret2) = (ep.to_string(), ret.clone());
        let r = guarded(move || crate::svc::call_sync(&ep2, &req, &ret2));
        cs.push(if valid { "token:auth:valid" } else { "token:auth:invalid" }, "noop".into(), "noop".into(), true, format!("bearer token {:?} as the credential of `{}`", s, ep));
        match r {
            Err(p) => cs.fail_last("token:auth:panic", p),
            Ok(Err(e)) => cs.fail_last("token:auth:harness", e),
            Ok(Ok(o)) => match (&o.result, valid) {
                (Ok(_), true) => {
                    if o.calls.len() != 1 || !o.calls[0].starts_with(&want) {
                        cs.fail_last("token:auth:altered", format!("the valid token {:?} sent as the credential of `{}` reaches the handler as {:?}", s, ep, o.calls));
                    }
                }
                (Ok(_), false) => cs.fail_last("token:auth:invalid-accepted", format!("{:?} is not a bearer token but `{}` accepts it as its credential: {:?}", s, ep, o.calls)),
                (Err(e), true) => cs.fail_last("token:auth:valid-rejected", format!("the valid token {:?} is rejected as the credential of `{}`: {} {}", s, ep, e.code, e.cause)),
                (Err(_), false) => {
                    if !o.calls.is_empty() {
                        cs.fail_last("token:auth:handler-ran", format!("handler invoked although the credential {:?} was rejected", s));
                    }
                }
            },
        }
    }
}

/// the string as a path and as a query parameter of type bearertoken / rid: what a generated client writes for it
/// (`UriBuilder`) decoded by what a generated endpoint uses (`path_param` / `query_param` with `FromPlainDecoder`)
fn param_case<T>(cs: &mut Cases, what: &str, s: &str, valid: bool, text_of: impl Fn(&T) -> String)
where
    T: FromPlain + 'static,
    T::Err: Into<Box<dyn std::error::Error + Sync + Send>>,
{
    use conjure_http::private::{parse_query_params, path_param, query_param, UriBuilder};
    use conjure_http::server::conjure::FromPlainDecoder;
    use conjure_http::server::ConjureRuntime;
    if s.len() > 40 {
        return;
    }
    let owned = s.to_string();
    let r = guarded(move || {
        let mut b = UriBuilder::new();
        b.push_literal("/t");
        b.push_path_parameter(&owned);
        b.push_query_parameter("q", &owned);
        let uri = b.build();
        let rt = ConjureRuntime::new();
        let raw = uri.path().split('/').nth(2).unwrap_or("").to_string();
        let mut req = http::Request::new(());
        *req.uri_mut() = uri.clone();
        let mut pp = conjure_http::PathParams::new();
        pp.insert("p", raw);
        req.extensions_mut().insert(pp);
        let (parts, _) = req.into_parts();
        let p = path_param::<T, FromPlainDecoder>(&rt, &parts, "p", "p").map_err(|e| e.cause().to_string());
        let qp = parse_query_params(&parts);
        let q = query_param::<T, FromPlainDecoder>(&rt, &qp, "q", "q").map_err(|e| e.cause().to_string());
        (p, q)
    });
    cs.push(if valid { "param:valid" } else { "param:invalid" }, "noop".into(), "noop".into(), true, format!("{} {:?} as a path and as a query parameter", what, s));
    match r {
        Err(p) => cs.fail_last("param:panic", p),
        Ok((p, q)) => {
            for (kind, r) in [("path", p), ("query", q)] {
                match (r, valid) {
                    (Ok(t), true) => {
                        if text_of(&t) != s {
                            cs.fail_last("param:altered", format!("the {} {:?} sent as a {} parameter arrives as {:?}", what, s, kind, text_of(&t)));
                        }
                    }
                    (Ok(t), false) => cs.fail_last("param:invalid-accepted", format!("{:?} is not a {} but is accepted as a {} parameter ({:?})", s, what, kind, text_of(&t))),
                    (Err(e), true) => cs.fail_last("param:valid-rejected", format!("the valid {} {:?} is rejected as a {} parameter: {}", what, s, kind, e)),
                    (Err(_), false) => {}
                }
            }
        }
    }
}

fn svc_ok(s: &str) -> bool {
    let b = s.as_bytes();
    !b.is_empty() && b[0].is_ascii_lowercase() && b[1..].iter().all(|c| c.is_ascii_lowercase() || c.is_ascii_digit() || *c == b'-')
}
fn inst_ok(s: &str) -> bool {
    let b = s.as_bytes();
    b.is_empty() || ((b[0].is_ascii_lowercase() || b[0].is_ascii_digit()) && b[1..].iter().all(|c| c.is_ascii_lowercase() || c.is_ascii_digit() || *c == b'-'))
}
fn loc_ok(s: &str) -> bool {
    !s.is_empty() && s.bytes().all(|c| c.is_ascii_alphanumeric() || c == b'_' || c == b'-' || c == b'.')
}

/// independent oracle: the grammar of the statement, by splitting at the first four dots
fn spec_rid(s: &str) -> Option<(String, String, String, String)> {
    let mut it = s.splitn(5, '.');
    let ri = it.next()?;
    let svc = it.next()?;
    let inst = it.next()?;
    let typ = it.next()?;
    let loc = it.next()?;
    if ri == "ri" && svc_ok(svc) && inst_ok(inst) && svc_ok(typ) && loc_ok(loc) {
        Some((svc.into(), inst.into(), typ.into(), loc.into()))
    } else {
        None
    }
}

type RidOut = Option<(String, String, String, String, String, String)>;

fn rid_view(r: Option<ResourceIdentifier>) -> RidOut {
    r.map(|r| (r.as_str().to_string(), r.service().to_string(), r.instance().to_string(), r.type_().to_string(), r.locator().to_string(), r.to_string()))
}

fn show_rid(v: &RidOut) -> String {
    match v {
        Some((rid, a, b, c, d, _)) => format!("ok {} {} {} {} {}", hex(rid.as_bytes()), hex(a.as_bytes()), hex(b.as_bytes()), hex(c.as_bytes()), hex(d.as_bytes())),
        None => "err".into(),
    }
}

fn rid_case(cs: &mut Cases, s: &str) {
    let owned = s.to_string();
    let r = guarded(move || {
        let a = rid_view(ResourceIdentifier::from_str(&owned).ok());
        let b = rid_view(ResourceIdentifier::new(&owned).ok());
        let c = rid_view(ResourceIdentifier::from_plain(&owned).ok());
        let doc = serde_json::to_string(&owned).unwrap();
        let d = rid_view(conjure_serde::json::server_from_str::<ResourceIdentifier>(&doc).ok());
        let e = rid_view(conjure_serde::json::client_from_str::<ResourceIdentifier>(&doc).ok());
        let f = rid_view(conjure_serde::json::server_from_reader::<_, ResourceIdentifier>(doc.as_bytes()).ok());
        let g = rid_view(conjure_object::Any::new(&owned).ok().and_then(|x| x.deserialize_into::<ResourceIdentifier>().ok()));
        let e = if f != e { f } else if g != e { g } else { e };
        let plain = ResourceIdentifier::from_str(&owned).ok().map(|r| (r.to_plain(), conjure_serde::json::to_string(&r).unwrap()));
        (a, b, c, d, e, plain, doc)
    });
    let note = format!("resource identifier {:?}", s);
    match r {
        Err(p) => {
            cs.push("rid", format!("rid {}", hex(s.as_bytes())), "panic".into(), true, note);
            cs.fail_last("rid:panic", p);
        }
        Ok((a, b, c, d, e, plain, doc)) => {
            let spec = spec_rid(s);
            cs.push(if spec.is_some() { "rid:valid" } else { "rid:invalid" }, format!("rid {}", hex(s.as_bytes())), show_rid(&a), s.len() > 3, note);
            if a != b || a != c || a != d || a != e {
                cs.fail_last("rid:paths-differ", format!("entry paths disagree on {:?}: from_str {:?} new {:?} from_plain {:?} server-json {:?} client-json {:?}", s, a, b, c, d, e));
            } else if a.is_some() != spec.is_some() {
                cs.fail_last(if spec.is_some() { "rid:valid-rejected" } else { "rid:invalid-accepted" }, format!("{:?} is {} by the grammar but the code says {:?}", s, if spec.is_some() { "valid" } else { "invalid" }, a));
            } else if let (Some((rid, sv, i, t, l, disp)), Some(sp)) = (&a, &spec) {
                if rid != s || disp != s || plain != Some((s.to_string(), doc)) {
                    cs.fail_last("rid:render", format!("{:?} renders back as {:?} / {:?} / {:?}", s, rid, disp, plain));
                } else if (sv, i, t, l) != (&sp.0, &sp.1, &sp.2, &sp.3) {
                    cs.fail_last("rid:components", format!("{:?} has components {:?}, grammar says {:?}", s, (sv, i, t, l), sp));
                } else if format!("ri.{}.{}.{}.{}", sv, i, t, l) != s {
                    cs.fail_last("rid:join", format!("components of {:?} do not join back", s));
                }
            }
        }
    }
    param_case::<ResourceIdentifier>(cs, "resource identifier", s, spec_rid(s).is_some(), |t| t.as_str().to_string());
}

fn ridc_case(cs: &mut Cases, a: &str, b: &str, c: &str, d: &str) {
    let (a2, b2, c2, d2) = (a.to_string(), b.to_string(), c.to_string(), d.to_string());
    let r = guarded(move || rid_view(ResourceIdentifier::from_components(&a2, &b2, &c2, &d2).ok()));
    let note = format!("from_components({:?}, {:?}, {:?}, {:?})", a, b, c, d);
    let op = format!("ridc {} {} {} {}", hex(a.as_bytes()), hex(b.as_bytes()), hex(c.as_bytes()), hex(d.as_bytes()));
    match r {
        Err(p) => {
            cs.push("ridc", op, "panic".into(), true, note);
            cs.fail_last("ridc:panic", p);
        }
        Ok(v) => {
            let valid = svc_ok(a) && inst_ok(b) && svc_ok(c) && loc_ok(d);
            cs.push(if valid { "ridc:valid" } else { "ridc:invalid" }, op, show_rid(&v), true, note);
            if v.is_some() != valid {
                cs.fail_last(if valid { "ridc:valid-rejected" } else { "ridc:invalid-accepted" }, format!("components ({:?},{:?},{:?},{:?}) are {} individually but from_components says {:?}", a, b, c, d, if valid { "valid" } else { "not all valid" }, v));
            } else if let Some((rid, sv, i, t, l, _)) = &v {
                if (sv.as_str(), i.as_str(), t.as_str(), l.as_str()) != (a, b, c, d) || rid != &format!("ri.{}.{}.{}.{}", a, b, c, d) {
                    cs.fail_last("ridc:components", format!("from_components({:?},{:?},{:?},{:?}) holds {:?}", a, b, c, d, v));
                }
            }
        }
    }
}

fn all_strings(alpha: &[&str], max_len: usize, f: &mut dyn FnMut(&str)) {
    let mut idx: Vec<usize> = vec![];
    loop {
        let s: String = idx.iter().map(|&i| alpha[i]).collect();
        f(&s);
        // increment
        let mut k = idx.len();
        loop {
            if k == 0 {
                idx = vec![0; idx.len() + 1];
                break;
            }
            k -= 1;
            if idx[k] + 1 < alpha.len() {
                idx[k] += 1;
                for j in k + 1..idx.len() {
                    idx[j] = 0;
                }
                break;
            }
        }
        if idx.len() > max_len {
            return;
        }
    }
}

pub fn cases(seed: u64, tier: Tier) -> Cases {
    let mut rng = Rng::new(seed);
    let mut cs = Cases::new("C16");
    let talpha = ["a", "z", "A", "0", "9", "-", "_", ".", "~", "+", "/", "=", "\n", "é"];
    let tmax = if tier == Tier::Quick { 4 } else { 5 };
    all_strings(&talpha, tmax, &mut |s| token_case(&mut cs, s));
    for s in [" abc", "abc ", "\tabc==", "abc\t", "  a.b-c  ", "a b", "Bearer abc", " a", "a ", "a=b", "a==", "====", "a\u{0}", "a\u{7f}", "aé=", "\u{ff1d}", "a\u{2028}", "AZaz09-._~+/=", "@", "[", "`", "{", ":", ",", "%41", "a\t"] {
        token_case(&mut cs, s);
    }
    // one code point at a time, alone and inside a token: everything up to U+017F, then the rest of the Basic
    // Multilingual Plane (quick: every 5th code point; code points whose low byte is an ASCII token character are the
    // ones a byte-wise slip would confuse) and a few beyond it
    let step = if tier == Tier::Quick { 5 } else { 1 };
    let mut cp = 0u32;
    while cp <= 0xFFFF {
        if let Some(c) = char::from_u32(cp) {
            token_case(&mut cs, &c.to_string());
            token_case(&mut cs, &format!("a{}b", c));
        }
        cp += if cp < 0x180 { 1 } else { step };
    }
    for cp in [0x10041u32, 0x1F600, 0x1F641, 0x2F82D, 0xE0041, 0x10FFFF, 0x10FF2D] {
        if let Some(c) = char::from_u32(cp) {
            token_case(&mut cs, &c.to_string());
            token_case(&mut cs, &format!("tok{}==", c));
        }
    }
    let n = if tier == Tier::Quick { 2000 } else { 40000 };
    let pool: Vec<char> = "abcxyzABCXYZ0123456789-._~+/=".chars().chain(" \n\t@é%:[]{}\"\\,;!".chars()).collect();
    for _ in 0..n {
        let len = 1 + rng.below(40);
        let mut s: String = (0..len).map(|_| if rng.chance(9, 10) { pool[rng.below(29)] } else { *rng.pick(&pool) }).collect();
        if rng.chance(1, 2) {
            for _ in 0..rng.below(4) {
                s.push('=');
            }
        }
        token_case(&mut cs, &s);
    }

    // rids: "ri." ++ w exhaustively, arbitrary short strings, mutations of valid rids
    let ralpha = ["a", "A", "0", "-", "_", "."];
    let rmax = if tier == Tier::Quick { 6 } else { 7 };
    all_strings(&ralpha, rmax, &mut |w| rid_case(&mut cs, &format!("ri.{}", w)));
    let ralpha2 = ["r", "i", ".", "a", "\n", "R"];
    all_strings(&ralpha2, if tier == Tier::Quick { 4 } else { 6 }, &mut |w| rid_case(&mut cs, w));
    // components longer than 16-bit offsets can address (the accessors must still cut the string where the grammar does)
    for n in [255usize, 256, 65533, 65534, 65535, 65536, 70000] {
        let long: String = std::iter::repeat('a').take(n).collect();
        rid_case(&mut cs, &format!("ri.{}.i.t.loc", long));
        rid_case(&mut cs, &format!("ri.s.{}.t.loc", long));
        rid_case(&mut cs, &format!("ri.s.i.{}.loc.x", long));
        rid_case(&mut cs, &format!("ri.s.i.t.{}", long));
    }
    let valids = ["ri.my-service.instance1.folder.foo_bar.baz", "ri.a..b.c", "ri.a.0.b-1.A.B..c", "ri.s1.1-a.t-.-", "ri.service.i.type.loc-ator_1.2"];
    let mchars: Vec<char> = "aA0-_.r\n é:/".chars().collect();
    for v in valids {
        rid_case(&mut cs, v);
        let chars: Vec<char> = v.chars().collect();
        for pos in 0..=chars.len() {
            for &m in &mchars {
                let mut ins = chars.clone();
                ins.insert(pos, m);
                rid_case(&mut cs, &ins.iter().collect::<String>());
                if pos < chars.len() {
                    let mut rep = chars.clone();
                    rep[pos] = m;
                    rid_case(&mut cs, &rep.iter().collect::<String>());
                }
            }
            if pos < chars.len() {
                let mut del = chars.clone();
                del.remove(pos);
                rid_case(&mut cs, &del.iter().collect::<String>());
            }
        }
    }
    let rpool: Vec<char> = "abcz019-_.AZ".chars().collect();
    for _ in 0..n {
        let comp = |rng: &mut Rng, max: usize| -> String { (0..rng.below(max + 1)).map(|_| *rng.pick(&rpool)).collect() };
        let s = format!("ri.{}.{}.{}.{}", comp(&mut rng, 6), comp(&mut rng, 4), comp(&mut rng, 6), comp(&mut rng, 12));
        rid_case(&mut cs, &s);
    }

    // from_components: all 4-tuples over short components, then seeded longer ones
    let comps1 = ["", "a", "A", "0", "-", "_", ".", "a.", "a-", "a0", ".a", "0a"];
    let lim = if tier == Tier::Quick { 7 } else { comps1.len() };
    for a in &comps1[..lim] {
        for b in &comps1[..lim] {
            for c in &comps1[..lim] {
                for d in &comps1[..lim] {
                    ridc_case(&mut cs, a, b, c, d);
                }
            }
        }
    }
    for _ in 0..n {
        let comp = |rng: &mut Rng, max: usize| -> String { (0..rng.below(max + 1)).map(|_| *rng.pick(&rpool)).collect() };
        let (a, b, c, d) = (comp(&mut rng, 3), comp(&mut rng, 3), comp(&mut rng, 3), comp(&mut rng, 5));
        ridc_case(&mut cs, &a, &b, &c, &d);
        // mostly-valid tuples: a valid base with at most one corrupted component
        let mut t = [format!("s{}", comp(&mut rng, 2).to_lowercase().replace(['.', '_'], "-")), comp(&mut rng, 2).to_lowercase().replace(['.', '_'], "0"), format!("t{}", comp(&mut rng, 2).to_lowercase().replace(['.', '_'], "-")), format!("L{}", comp(&mut rng, 4))];
        if rng.chance(1, 3) {
            let k = rng.below(4);
            t[k] = comp(&mut rng, 3);
        }
        ridc_case(&mut cs, &t[0], &t[1], &t[2], &t[3]);
    }
    cs
}

pub const RULE: &str = "tokens: all strings of length <= 4 (quick) / 5 (thorough) over the 14-character boundary alphabet {a z A 0 9 - _ . ~ + / = \\n é}, 20 hand-picked edge strings, every code point up to U+017F and every 5th (quick) / every (thorough) code point of the rest of the BMP alone and inside a token, seeded strings of length 1..40 with padding; each through from_str, new, from_plain, server JSON and client JSON deserialization, and as the credential of a header-auth and of a cookie-auth generated endpoint (strings HTTP can carry), compared with each other, with the grammar ^[A-Za-z0-9\\-._~+/]+=*$ re-implemented in the harness, and with the Lean model. rids: all strings ri.<w>, |w| <= 6 / 7 over {a A 0 - _ .}; all strings of length <= 4 / 6 over {r i . a \\n R}; every single-character insertion/replacement/deletion of 5 valid rids; seeded component-wise strings; each through from_str, new, from_plain, server and client JSON, with as_str/Display/to_plain/JSON rendering and the four accessors compared to the grammar's split. from_components: all 4-tuples over 7 / 12 short components plus seeded ones. Non-trivial = longer than one character (tokens) / three characters (rids) or valid; distinct = distinct operation lines.";
