//! C07 — the real `UriBuilder`, `http::Uri`, `path_param` and `parse_query_params`/`query_param`
//! against the model, on every single byte / boundary pair in every position of several templates.
use crate::run::{guarded, Cases, Tier};
use crate::util::{hex, Rng};
use conjure_http::private::{parse_query_params, path_param, query_param, UriBuilder};
use conjure_http::server::{ConjureRuntime, FromStrSeqDecoder};
use conjure_http::PathParams;
use std::collections::{BTreeMap, BTreeSet};

#[derive(Clone, Debug)]
enum Push {
    Lit(String),
    Path(String),
    Query(String, String),
}

fn boundary_alphabet() -> Vec<char> {
    let mut v: Vec<char> = "%/?#&=+ ;:@$,!'()*-._~\"<>[]\\^`{|}aZ09".chars().collect();
    v.extend(['\u{0}', '\n', '\u{7f}', 'é', '€', '😀', '\u{80}']);
    v
}

struct RealOut {
    line: String,
    segs: Vec<Vec<String>>,
    pairs: BTreeMap<String, Vec<String>>,
    path_and_query: String,
    /// where the typed decoders see a query value differently from the raw sequence decoder
    decoders: Vec<String>,
}

/// query keys with reserved characters: `#[conjure_client]` percent-encodes the key at compile time
pub const MACRO_KEYS: [&str; 5] = ["page&size", "a=b", "c+d e", "k%41", "\u{e9}/?#"];

use conjure_http::endpoint;

#[conjure_http::conjure_client]
trait MacroKeys {
    #[endpoint(method = GET, path = "/m/{p}/x")]
    fn weird(
        &self,
        #[path] p: &str,
        #[query(name = "page&size")] a: &str,
        #[query(name = "a=b")] b: &str,
        #[query(name = "c+d e")] c: &str,
        #[query(name = "k%41")] d: &str,
        #[query(name = "\u{e9}/?#")] e: &str,
    ) -> Result<(), conjure_error::Error>;
}

/// sequences through the macro's `DisplaySeqEncoder`: one path segment / one query pair per element, empty ones too
#[conjure_http::conjure_client]
trait MacroSeq {
    #[endpoint(method = GET, path = "/s/{p}/x")]
    fn seq(&self, #[path(encoder = conjure_http::client::DisplaySeqEncoder)] p: &[String], #[query(name = "tag", encoder = conjure_http::client::DisplaySeqEncoder)] tags: &[String], #[query(name = "one")] one: &str) -> Result<(), conjure_error::Error>;
}

/// path arguments declared in another order than the template names them, one of them renamed
#[conjure_http::conjure_client]
trait MacroOrder {
    #[endpoint(method = GET, path = "/o/{first}/mid/{second}/{third}")]
    fn order(&self, #[path] third: &str, #[path(name = "first")] a: &str, #[path] second: &str) -> Result<(), conjure_error::Error>;
}

#[derive(Clone, Default)]
struct UriCapture(std::sync::Arc<std::sync::Mutex<Option<http::Uri>>>);

impl conjure_http::client::Client for UriCapture {
    type BodyWriter = Vec<u8>;
    type ResponseBody = crate::svc::RemoteBody;
    fn send(&self, req: http::Request<conjure_http::client::RequestBody<'_, Vec<u8>>>) -> Result<http::Response<crate::svc::RemoteBody>, conjure_error::Error> {
        *self.0.lock().unwrap() = Some(req.uri().clone());
        let mut r = http::Response::new(crate::svc::RemoteBody(vec![]));
        *r.status_mut() = http::StatusCode::NO_CONTENT;
        Ok(r)
    }
}

/// the pushes the macro-derived method performs for these values (raw keys)
pub fn macro_pushes(p: &str, vals: [&str; 5]) -> Vec<Push> {
    let mut v = vec![Push::Lit("/m".to_string()), Push::Path(p.to_string()), Push::Lit("/x".to_string())];
    for (k, x) in MACRO_KEYS.iter().zip(vals) {
        v.push(Push::Query(k.to_string(), x.to_string()));
    }
    v
}

fn pct_all(s: &str) -> String {
    let mut out = String::new();
    for b in s.bytes() {
        if b.is_ascii_alphanumeric() {
            out.push(b as char);
        } else {
            out.push_str(&format!("%{:02X}", b));
        }
    }
    out
}

fn run_real(pushes: &[Push], variant: u8) -> Result<RealOut, String> {
    let pushes = pushes.to_vec();
    guarded(move || {
        let macro_uri = if variant == 9 {
            use conjure_http::client::Service;
            let cap = UriCapture::default();
            let c = MacroKeysClient::new(cap.clone());
            let vals: Vec<&str> = pushes.iter().filter_map(|p| if let Push::Query(_, v) = p { Some(v.as_str()) } else { None }).collect();
            let p = pushes.iter().find_map(|p| if let Push::Path(v) = p { Some(v.as_str()) } else { None }).unwrap_or("");
            c.weird(p, vals[0], vals[1], vals[2], vals[3], vals[4]).expect("macro client call");
            let u = cap.0.lock().unwrap().clone();
            u
        } else if variant == 11 {
            use conjure_http::client::Service;
            let cap = UriCapture::default();
            let c = MacroOrderClient::new(cap.clone());
            let ps: Vec<String> = pushes.iter().filter_map(|p| if let Push::Path(v) = p { Some(v.clone()) } else { None }).collect();
            // template order is first, second, third; the method takes (third, first, second)
            c.order(&ps[2], &ps[0], &ps[1]).expect("macro client call");
            let u = cap.0.lock().unwrap().clone();
            u
        } else if variant == 10 {
            use conjure_http::client::Service;
            let cap = UriCapture::default();
            let c = MacroSeqClient::new(cap.clone());
            let ps: Vec<String> = pushes.iter().filter_map(|p| if let Push::Path(v) = p { Some(v.clone()) } else { None }).collect();
            let tags: Vec<String> = pushes.iter().filter_map(|p| if let Push::Query(k, v) = p { if k == "tag" { Some(v.clone()) } else { None } } else { None }).collect();
            let one = pushes.iter().find_map(|p| if let Push::Query(k, v) = p { if k == "one" { Some(v.clone()) } else { None } } else { None }).unwrap_or_default();
            c.seq(&ps, &tags, &one).expect("macro client call");
            let u = cap.0.lock().unwrap().clone();
            u
        } else {
            None
        };
        // variant 5: the builder as its `Default` impl makes it (the same builder as `new()`)
        let mut b = if variant == 5 { UriBuilder::default() } else { UriBuilder::new() };
        for p in &pushes {
            match p {
                Push::Lit(l) => b.push_literal(l),
                Push::Path(v) => {
                    if variant == 0 || variant == 5 {
                        b.push_path_parameter_raw(v)
                    } else {
                        b.push_path_parameter(v)
                    }
                }
                Push::Query(k, v) => match variant {
                    0 | 5 => b.push_query_parameter_raw(k, v),
                    6 => {
                        // empty collections write nothing and leave the `?` to the first pair that is written
                        b.push_list_query_parameter::<String>("emptyList", &[]);
                        b.push_set_query_parameter::<String>("emptySet", &BTreeSet::new());
                        b.push_optional_query_parameter::<String>("absent", &None);
                        b.push_query_parameter(k, v)
                    }
                    1 => b.push_query_parameter(k, v),
                    2 => b.push_list_query_parameter(k, std::slice::from_ref(v)),
                    3 => b.push_optional_query_parameter(k, &Some(v.clone())),
                    _ => {
                        let mut s = BTreeSet::new();
                        s.insert(v.clone());
                        b.push_set_query_parameter(k, &s)
                    }
                },
            }
        }
        let uri = match macro_uri {
            Some(u) => u,
            None => b.build(),
        };
        read_back(uri)
    })
}

/// what the server-side functions make of a URI: the raw segments split and decoded, the query pairs grouped by key
fn read_back(uri: http::Uri) -> RealOut {
    {
        let rt = ConjureRuntime::new();
        let mut segs = vec![];
        let mut seg_txt = vec![];
        let path = uri.path().to_string();
        for raw in path.split('/').skip(1) {
            let mut req = http::Request::new(());
            *req.uri_mut() = uri.clone();
            let mut pp = PathParams::new();
            pp.insert("p", raw);
            req.extensions_mut().insert(pp);
            let (parts, _) = req.into_parts();
            let vals: Vec<String> = path_param::<Vec<String>, FromStrSeqDecoder<String>>(&rt, &parts, "p", "p")
                .map_err(|e| format!("{:?}", e))
                .unwrap();
            seg_txt.push(vals.iter().map(|v| hex(v.as_bytes())).collect::<Vec<_>>().join(","));
            segs.push(vals);
        }
        let mut req = http::Request::new(());
        *req.uri_mut() = uri.clone();
        let (parts, _) = req.into_parts();
        let qp = parse_query_params(&parts);
        let mut pairs: BTreeMap<String, Vec<String>> = BTreeMap::new();
        let mut keys: Vec<String> = qp.keys().map(|k| k.to_string()).collect();
        keys.sort_by(|a, b| a.as_bytes().cmp(b.as_bytes()));
        for k in keys {
            let vals: Vec<String> = query_param::<Vec<String>, FromStrSeqDecoder<String>>(&rt, &qp, &k, &k).map_err(|e| format!("{:?}", e)).unwrap();
            pairs.insert(k, vals);
        }
        // the same values through the decoders generated endpoints (`FromPlain*`) and macro endpoints (`FromStr*`) use
        let mut decoders: Vec<String> = vec![];
        for (k, vs) in &pairs {
            use conjure_http::server::conjure::{FromPlainDecoder, FromPlainOptionDecoder, FromPlainSeqDecoder};
            use conjure_http::server::{FromStrDecoder, FromStrOptionDecoder};
            let seq = query_param::<Vec<String>, FromPlainSeqDecoder<String>>(&rt, &qp, k, k).map_err(|e| e.cause().to_string());
            if seq.as_ref().ok() != Some(vs) {
                decoders.push(format!("FromPlainSeqDecoder on `{}`: {:?}, FromStrSeqDecoder: {:?}", k, seq, vs));
            }
            if vs.len() == 1 {
                let a = query_param::<String, FromPlainDecoder>(&rt, &qp, k, k).map_err(|e| e.cause().to_string());
                let b = query_param::<Option<String>, FromPlainOptionDecoder>(&rt, &qp, k, k).map_err(|e| e.cause().to_string());
                let c = query_param::<String, FromStrDecoder>(&rt, &qp, k, k).map_err(|e| e.cause().to_string());
                let d = query_param::<Option<String>, FromStrOptionDecoder>(&rt, &qp, k, k).map_err(|e| e.cause().to_string());
                if a.as_ref().ok() != Some(&vs[0]) || c.as_ref().ok() != Some(&vs[0]) || b.as_ref().ok() != Some(&Some(vs[0].clone())) || d.as_ref().ok() != Some(&Some(vs[0].clone())) {
                    decoders.push(format!("the single value {:?} of `{}`: FromPlainDecoder {:?}, FromPlainOptionDecoder {:?}, FromStrDecoder {:?}, FromStrOptionDecoder {:?}", vs[0], k, a, b, c, d));
                }
            }
        }
        let mut pair_txt: Vec<(Vec<u8>, String)> = pairs
            .iter()
            .map(|(k, vs)| (k.as_bytes().to_vec(), format!("{}={}", hex(k.as_bytes()), vs.iter().map(|v| hex(v.as_bytes())).collect::<Vec<_>>().join(","))))
            .collect();
        pair_txt.sort();
        let line = format!(
            "uri path={} query={} segs={} pairs={}",
            hex(uri.path().as_bytes()),
            uri.query().map(|q| hex(q.as_bytes())).unwrap_or_else(|| "none".into()),
            seg_txt.join("/"),
            pair_txt.into_iter().map(|p| p.1).collect::<Vec<_>>().join("&")
        );
        RealOut { line, segs, pairs, decoders, path_and_query: uri.path_and_query().map(|p| p.as_str().to_string()).unwrap_or_default() }
    }
}

fn op_line(pushes: &[Push], variant: u8) -> String {
    let mut s = String::from("uri");
    for p in pushes {
        match p {
            Push::Lit(l) => s.push_str(&format!(" L:{}", hex(l.as_bytes()))),
            Push::Path(v) => s.push_str(&format!(" P:{}", hex(v.as_bytes()))),
            // the macro writes the key percent-encoded (the keys used contain only alphanumerics and characters
            // every encode set in question escapes)
            Push::Query(k, v) if variant == 9 => s.push_str(&format!(" Q:{}:{}", hex(pct_all(k).as_bytes()), hex(v.as_bytes()))),
            Push::Query(k, v) => s.push_str(&format!(" Q:{}:{}", hex(k.as_bytes()), hex(v.as_bytes()))),
        }
    }
    s
}

fn one(cs: &mut Cases, class: &str, pushes: &[Push], variant: u8, nontrivial: bool) {
    let r = run_real(pushes, variant);
    let note = format!("{:?} (push variant {})", pushes, variant);
    let note = if note.len() > 300 { format!("{}… ({} bytes)", &note.chars().take(300).collect::<String>(), note.len()) } else { note };
    match r {
        Err(p) => {
            cs.push(class, op_line(pushes, variant), "panic".into(), true, note);
            let key = if p.contains("TooLong") { "build:panic:uri-too-long" } else { "build:panic" };
            cs.fail_last(key, format!("UriBuilder::build panicked: {}", p));
        }
        Ok(out) => {
            cs.push(class, op_line(pushes, variant), out.line.clone(), nontrivial, note);
            // property oracle, straight from the statement
            let mut exp_segs: Vec<Option<String>> = vec![];
            let mut exp_pairs: BTreeMap<String, Vec<String>> = BTreeMap::new();
            for p in pushes {
                match p {
                    Push::Lit(l) => {
                        for _ in l.split('/').skip(1) {
                            exp_segs.push(None);
                        }
                    }
                    Push::Path(v) => exp_segs.push(Some(v.clone())),
                    Push::Query(k, v) => exp_pairs.entry(k.clone()).or_default().push(v.clone()),
                }
            }
            if out.segs.len() != exp_segs.len() {
                cs.fail_last("segments:count", format!("path has {} segments, template prescribes {} ({})", out.segs.len(), exp_segs.len(), out.path_and_query));
                return;
            }
            for (i, (got, exp)) in out.segs.iter().zip(exp_segs.iter()).enumerate() {
                if let Some(e) = exp {
                    if got.len() != 1 || &got[0] != e {
                        cs.fail_last("segments:value", format!("path parameter {} decoded to {:?}, sent {:?}", i, got, e));
                        return;
                    }
                }
            }
            if out.pairs != exp_pairs {
                cs.fail_last("pairs", format!("query decoded to {:?}, sent {:?} ({})", out.pairs, exp_pairs, out.path_and_query));
                return;
            }
            if let Some(d) = out.decoders.first() {
                cs.fail_last("decoders", format!("{} ({})", d, out.path_and_query));
                return;
            }
            if out.path_and_query.contains('#') {
                cs.fail_last("fragment", format!("'#' in request target {}", out.path_and_query));
                return;
            }
            // the same request read by a server derived with `#[conjure_endpoints]` from the same declaration (keys with
            // reserved characters: the derived server must look them up as declared, not as they travel)
            if variant == 9 {
                let sent: Vec<String> = pushes.iter().filter_map(|p| match p {
                    Push::Path(v) => Some(v.clone()),
                    Push::Query(_, v) => Some(v.clone()),
                    _ => None,
                }).collect();
                match macro_server_reads(&out.path_and_query) {
                    Ok(got) if got == sent => {}
                    Ok(got) => cs.fail_last("macro-server:values", format!("the derived server's handler received {:?}, sent {:?} ({})", got, sent, out.path_and_query)),
                    Err(e) => cs.fail_last("macro-server:values", format!("the derived server refuses the derived client's request {}: {}", out.path_and_query, e)),
                }
            }
        }
    }
}

#[derive(Default)]
struct KeysHandler(std::sync::Mutex<Vec<String>>);

#[conjure_http::conjure_endpoints]
trait MacroKeysService {
    #[endpoint(method = GET, path = "/m/{p}/x")]
    fn weird(
        &self,
        #[path(log_as = "pathParam")] p: String,
        #[query(name = "page&size", log_as = "pageAndSize")] a: String,
        #[query(name = "a=b")] b: String,
        #[query(name = "c+d e")] c: String,
        #[query(name = "k%41")] d: String,
        #[query(name = "\u{e9}/?#")] e: String,
    ) -> Result<(), conjure_error::Error>;
}

impl MacroKeysService for std::sync::Arc<KeysHandler> {
    fn weird(&self, p: String, a: String, b: String, c: String, d: String, e: String) -> Result<(), conjure_error::Error> {
        *self.0.lock().unwrap() = vec![p, a, b, c, d, e];
        Ok(())
    }
}

pub fn macro_server_reads(path_and_query: &str) -> Result<Vec<String>, String> {
    let pq = path_and_query.to_string();
    guarded(move || {
        use conjure_http::server::{Endpoint, Service};
        let h = std::sync::Arc::new(KeysHandler::default());
        let svc = MacroKeysServiceEndpoints::new(h.clone());
        let rt = std::sync::Arc::new(ConjureRuntime::new());
        let eps = Service::<crate::svc::RemoteBody, Vec<u8>>::endpoints(&svc, &rt);
        let ep = eps.first().ok_or_else(|| "no endpoint".to_string())?;
        let uri: http::Uri = pq.parse().map_err(|e| format!("{:?}", e))?;
        let raw = uri.path().split('/').nth(2).unwrap_or("").to_string();
        let mut req = http::Request::new(crate::svc::RemoteBody(vec![]));
        *req.uri_mut() = uri;
        let mut pp = PathParams::new();
        pp.insert("p", &raw);
        req.extensions_mut().insert(pp);
        Endpoint::handle(&**ep, req, &mut http::Extensions::new()).map_err(|e| e.cause().to_string())?;
        let got = h.0.lock().unwrap().clone();
        Ok::<_, String>(got)
    })
    .and_then(|r| r)
}

fn templates(v: &str, w: &str) -> Vec<(&'static str, Vec<Push>)> {
    let s = |x: &str| x.to_string();
    vec![
        ("T0:/a/{p}", vec![Push::Lit(s("/a")), Push::Path(s(v))]),
        ("T1:/{p}/b/{q}", vec![Push::Path(s(v)), Push::Lit(s("/b")), Push::Path(s(w))]),
        ("T2:/a/b?k", vec![Push::Lit(s("/a/b")), Push::Query(s("k"), s(v))]),
        ("T3:/a/{p}?k1&k2&k1", vec![Push::Lit(s("/a")), Push::Path(s(w)), Push::Query(s("k1"), s(v)), Push::Query(s("k2"), s(w)), Push::Query(s("k1"), s(w))]),
        ("T4:/{p}/{q}/c?k", vec![Push::Path(s(w)), Push::Path(s(v)), Push::Lit(s("/c")), Push::Query(s("key-1_x.y"), s(v))]),
    ]
}

pub fn cases(seed: u64, tier: Tier) -> Cases {
    let mut rng = Rng::new(seed);
    let mut cs = Cases::new("C07");
    // every ASCII byte alone and embedded, in every position of every template
    for b in 0u8..128 {
        let c = b as char;
        for v in [c.to_string(), format!("a{}c", c), format!("{}=x&y", c)] {
            for (name, t) in templates(&v, "x") {
                one(&mut cs, name, &t, (b % 5) as u8, !c.is_ascii_alphanumeric());
            }
        }
    }
    // all pairs over the boundary alphabet
    let alpha = boundary_alphabet();
    let stride = if tier == Tier::Quick { 3 } else { 1 };
    let mut i = 0usize;
    for a in &alpha {
        for b in &alpha {
            i += 1;
            if i % stride != (seed as usize) % stride {
                continue;
            }
            let v: String = [*a, *b].iter().collect();
            let w: String = [*b, *a].iter().collect();
            for (name, t) in templates(&v, &w) {
                one(&mut cs, name, &t, (i % 5) as u8, true);
            }
        }
    }
    // a `#[conjure_client]` method whose query keys contain reserved characters
    for (i, a) in alpha.iter().enumerate() {
        let v: String = [*a, 'x', *a].iter().collect();
        let w = alpha[(i * 7 + 3) % alpha.len()].to_string();
        one(&mut cs, "macro-client:/m/{p}/x?5 keys", &macro_pushes(&v, [&v, &w, "", "plain", &v]), 9, true);
    }
    // a `#[conjure_client]` method whose path and query arguments are sequences (`DisplaySeqEncoder`): one segment /
    // one pair per element, empty elements included
    for (i, a) in alpha.iter().enumerate() {
        let v: String = [*a, 'y'].iter().collect();
        let lists: [Vec<String>; 4] = [vec![v.clone()], vec![v.clone(), String::new(), "z".into()], vec![String::new(), v.clone()], vec!["a".into(), String::new()]];
        let ps = &lists[i % 4];
        let tags = &lists[(i + 1) % 4];
        let mut pushes = vec![Push::Lit("/s".to_string())];
        pushes.extend(ps.iter().map(|p| Push::Path(p.clone())));
        pushes.push(Push::Lit("/x".to_string()));
        pushes.extend(tags.iter().map(|t| Push::Query("tag".to_string(), t.clone())));
        pushes.push(Push::Query("one".to_string(), if i % 3 == 0 { String::new() } else { v.clone() }));
        one(&mut cs, "macro-client:/s/{p..}/x?tag..&one", &pushes, 10, true);
    }
    // a `#[conjure_client]` method whose path arguments are declared in another order than the template names them
    for (i, a) in alpha.iter().enumerate() {
        let v: String = [*a, 'q'].iter().collect();
        let w = alpha[(i * 5 + 1) % alpha.len()].to_string();
        let pushes = vec![Push::Lit("/o".to_string()), Push::Path(v.clone()), Push::Lit("/mid".to_string()), Push::Path(w.clone()), Push::Path(format!("3{}", v))];
        one(&mut cs, "macro-client:/o/{first}/mid/{second}/{third}", &pushes, 11, true);
    }
    // empty values
    for (name, t) in templates("", "") {
        one(&mut cs, name, &t, 0, true);
        one(&mut cs, name, &t, 5, true);
        one(&mut cs, name, &t, 6, true);
    }
    // seeded Unicode strings
    let n = if tier == Tier::Quick { 300 } else { 5000 };
    let pool: Vec<char> = alpha.iter().copied().chain("bcdefghijklmnopqrstuvwxyzABCDEFGHIJKLMNOPQRSTUVWXY12345678".chars()).chain(['ß', 'Ж', '中', '\u{10FFFF}', '\u{FEFF}', '\t', '\r']).collect();
    for _ in 0..n {
        let len = if rng.chance(1, 20) { rng.below(4096) } else { rng.below(24) };
        let v: String = (0..len).map(|_| *rng.pick(&pool)).collect();
        let w: String = (0..rng.below(8)).map(|_| *rng.pick(&pool)).collect();
        let ts = templates(&v, &w);
        let (name, t) = &ts[rng.below(ts.len())];
        one(&mut cs, name, t, rng.below(7) as u8, true);
    }
    // very long values: within and beyond http::Uri's limit
    for len in [21000usize, 21840, 21845, 65000, 65531, 65532, 65533, 65534, 70000] {
        let v: String = std::iter::repeat('a').take(len).collect();
        one(&mut cs, "long:/a/{p}", &[Push::Lit("/a".into()), Push::Path(v.clone())], 0, true);
        let v2: String = std::iter::repeat('%').take(len / 3).collect();
        one(&mut cs, "long:/a?k", &[Push::Lit("/a".into()), Push::Query("k".into(), v2)], 0, true);
    }
    // which argument the generated client pushes for each `{name}` of the template, and under which query key: the
    // generated source for seeded definitions against Model/Emit.lean
    crate::ops::emit::add(&mut cs, &mut rng, tier);
    // what `#[conjure_client]` derives from a template, against Model/MacroEmit.lean
    macro_template_cases(&mut cs, &mut rng, tier, true);
    cs
}


/// `#[conjure_client]` traits over a spread of templates: every path and query argument a sequence, so any number of
/// texts can be supplied for it.  (name in the template, order of declaration) vary independently.
macro_rules! mt {
    ($tr:ident, $path:tt, [$($p:ident = $pn:tt),*], [$($q:ident = $qk:tt),*]) => {
        #[conjure_http::conjure_client]
        trait $tr {
            #[endpoint(method = GET, path = $path)]
            fn call(&self, $(#[path(name = $pn, encoder = conjure_http::client::DisplaySeqEncoder)] $p: &[String],)* $(#[query(name = $qk, encoder = conjure_http::client::DisplaySeqEncoder)] $q: &[String],)*) -> Result<(), conjure_error::Error>;
        }
    };
}
mt!(Mt0, "/a/{x}/b", [x = "x"], []);
mt!(Mt1, "/{x}/{y}", [y = "y", x = "x"], [k = "k"]);
mt!(Mt2, "/a b/c%d/{x}/e&f/g", [x = "x"], [k = "a b", l = "w+k&=%"]);
mt!(Mt3, "", [], [k = "k", l = "\u{e9}", m = "k"]);
mt!(Mt4, "/only/literals/here", [], []);
mt!(Mt5, "/{x}", [x = "x"], [k = ""]);
mt!(Mt6, "/a//b/{x}", [x = "x"], []);
mt!(Mt7, "/{/{x}/}/{", [x = "x"], []);
mt!(Mt8, "/\u{e9}/{x}/\u{fc}?#", [x = "x"], [k = "?#"]);
mt!(Mt9, "/a/{x}/b/{y}/c/d/{z}/e", [z = "z", x = "x", y = "y"], [k = "k", l = "l"]);
mt!(Mt10, "/{x:.+}/q", [x = "x:.+"], []);
mt!(Mt11, "/p/{}/x}{y/t", [e = ""], []);
mt!(Mt12, "/r/{x}/s/x", [x = "x"], [k = "x"]);

struct MacroTemplate {
    path: &'static str,
    path_args: &'static [&'static str],
    query_args: &'static [&'static str],
    call: fn(&UriCapture, &[Vec<String>]) -> Result<(), conjure_error::Error>,
}

macro_rules! mtc {
    ($cl:ident, $path:tt, [$($pn:tt),*], [$($qk:tt),*]) => {
        MacroTemplate {
            path: $path,
            path_args: &[$($pn),*],
            query_args: &[$($qk),*],
            call: |cap, vals| {
                let c = <$cl<UriCapture> as conjure_http::client::Service<UriCapture>>::new(cap.clone());
                let mut it = vals.iter();
                c.call($({ let _ = $pn; it.next().unwrap() },)* $({ let _ = $qk; it.next().unwrap() },)*)
            },
        }
    };
}

fn macro_templates() -> Vec<MacroTemplate> {
    vec![
        mtc!(Mt0Client, "/a/{x}/b", ["x"], []),
        mtc!(Mt1Client, "/{x}/{y}", ["y", "x"], ["k"]),
        mtc!(Mt2Client, "/a b/c%d/{x}/e&f/g", ["x"], ["a b", "w+k&=%"]),
        mtc!(Mt3Client, "", [], ["k", "\u{e9}", "k"]),
        mtc!(Mt4Client, "/only/literals/here", [], []),
        mtc!(Mt5Client, "/{x}", ["x"], [""]),
        mtc!(Mt6Client, "/a//b/{x}", ["x"], []),
        mtc!(Mt7Client, "/{/{x}/}/{", ["x"], []),
        mtc!(Mt8Client, "/\u{e9}/{x}/\u{fc}?#", ["x"], ["?#"]),
        mtc!(Mt9Client, "/a/{x}/b/{y}/c/d/{z}/e", ["z", "x", "y"], ["k", "l"]),
        mtc!(Mt10Client, "/{x:.+}/q", ["x:.+"], []),
        mtc!(Mt11Client, "/p/{}/x}{y/t", [""], []),
        mtc!(Mt12Client, "/r/{x}/s/x", ["x"], ["x"]),
    ]
}

/// the template as the statement reads it: split at `/`; `{name}` is a parameter, anything else a constant segment
fn template_segments(path: &str) -> Vec<Option<String>> {
    if path.is_empty() {
        return vec![];
    }
    path[1..].split('/').map(|c| if c.len() >= 2 && c.starts_with('{') && c.ends_with('}') { Some(c[1..c.len() - 1].to_string()) } else { None }).collect()
}

/// derived clients against Model/MacroEmit.lean, and against the statement: one segment per constant component and
/// per supplied text, each text read back unchanged; one pair per supplied query text under the declared key
pub fn macro_template_cases(cs: &mut Cases, rng: &mut Rng, tier: Tier, pathless: bool) {
    let alpha = boundary_alphabet();
    let rounds = if tier == Tier::Quick { 12 } else { 120 };
    for (ti, t) in macro_templates().iter().enumerate() {
        for round in 0..rounds {
            let nargs = t.path_args.len() + t.query_args.len();
            let vals: Vec<Vec<String>> = (0..nargs)
                .map(|i| {
                    // path arguments mostly one text, sometimes none or several; query arguments any number
                    let n = if round == 0 { 1 } else if i < t.path_args.len() && rng.chance(2, 3) { 1 } else { rng.below(4) };
                    (0..n).map(|_| (0..rng.below(4)).map(|_| *rng.pick(&alpha)).collect::<String>()).collect()
                })
                .collect();
            let mut op = format!("macro {}", if t.path.is_empty() { "-".to_string() } else { hex(t.path.as_bytes()) });
            for (i, n) in t.path_args.iter().chain(t.query_args.iter()).enumerate() {
                let kind = if i < t.path_args.len() { "P" } else { "Q" };
                let vs = if vals[i].is_empty() { "-".to_string() } else { vals[i].iter().map(|v| hex(v.as_bytes())).collect::<Vec<_>>().join(",") };
                op.push_str(&format!(" {}:{}:{}", kind, hex(n.as_bytes()), vs));
            }
            let class = format!("macro-template:{}", t.path);
            let note = format!("#[conjure_client] path = {:?}, path arguments {:?}, query arguments {:?}, texts {:?}", t.path, t.path_args, t.query_args, vals);
            let cap = UriCapture::default();
            let call = t.call;
            let (cap2, vals2) = (cap.clone(), vals.clone());
            let r = guarded(move || call(&cap2, &vals2).map_err(|e| format!("{:?}", e)));
            let uri = cap.0.lock().unwrap().clone();
            // the statement: segments
            let mut want: Vec<Option<String>> = vec![];
            for seg in template_segments(t.path) {
                match seg {
                    None => want.push(None),
                    Some(name) => {
                        // a later argument of the same name replaces an earlier one
                        if let Some(i) = t.path_args.iter().rposition(|a| *a == name) {
                            want.extend(vals[i].iter().cloned().map(Some));
                        }
                    }
                }
            }
            if want.is_empty() && !pathless {
                continue;
            }
            match (r, uri) {
                (Ok(Ok(())), Some(uri)) => {
                    let out = read_back(uri);
                    cs.push(&class, op, out.line.clone(), true, note);
                    let consts: Vec<&str> = if t.path.is_empty() { vec![] } else { t.path[1..].split('/').collect() };
                    let mut ci = consts.iter().filter(|c| !(c.len() >= 2 && c.starts_with('{') && c.ends_with('}')));
                    let mut bad = None;
                    if out.segs.len() != want.len() {
                        bad = Some(format!("{} segments where template and texts prescribe {}", out.segs.len(), want.len()));
                    } else {
                        for (got, w) in out.segs.iter().zip(&want) {
                            match w {
                                Some(v) => {
                                    if got != &vec![v.clone()] {
                                        bad = Some(format!("a parameter segment reads back as {:?}, sent {:?}", got, v));
                                    }
                                }
                                None => {
                                    let c = ci.next().unwrap();
                                    if got != &vec![c.to_string()] {
                                        bad = Some(format!("the constant segment {:?} reads back as {:?}", c, got));
                                    }
                                }
                            }
                        }
                    }
                    let mut exp_pairs: BTreeMap<String, Vec<String>> = BTreeMap::new();
                    for (j, k) in t.query_args.iter().enumerate() {
                        let vs = &vals[t.path_args.len() + j];
                        if !vs.is_empty() {
                            exp_pairs.entry(k.to_string()).or_default().extend(vs.iter().cloned());
                        }
                    }
                    if bad.is_none() && out.pairs != exp_pairs {
                        bad = Some(format!("the query reads back as {:?}, sent {:?}", out.pairs, exp_pairs));
                    }
                    if bad.is_none() && out.path_and_query.contains('#') {
                        bad = Some("the URI holds a `#`".to_string());
                    }
                    if let Some(b) = bad {
                        cs.fail_last(&format!("macro-template:{}", ti), format!("{} — {}", b, out.path_and_query));
                    }
                }
                (r, _) => {
                    let txt = format!("{:?}", r);
                    cs.push(&class, op, "panic".into(), true, note);
                    if want.is_empty() {
                        cs.fail_last("build:panic:request-without-path", format!("a derived method whose template and texts give no path segment at all (`path = \"\"`, or only sequence parameters, all empty) panics in UriBuilder::build: {}", txt));
                    } else {
                        cs.fail_last(&format!("macro-template-call:{}", ti), format!("the derived method did not send a request: {}", txt));
                    }
                }
            }
        }
    }
}

pub const RULE: &str = "values = every ASCII byte alone, embedded (a<b>c) and in an injection shape (<b>=x&y); all ordered pairs over a 44-character boundary alphabet (every URI delimiter, sub-delim, control, DEL, 2/3/4-byte code points; quick tier takes a seeded third); empty strings; seeded Unicode strings up to 4 kB; values at and beyond http::Uri's 65534-byte limit. Each value is placed in every parameter position of 5 path/query templates and pushed through the raw and the Plain-typed UriBuilder methods (single, list, optional, set). Real side: UriBuilder + http::Uri + path_param + parse_query_params/query_param; oracle: segment count, each decoded value equals the sent one, pairs per key in order, no '#', no panic. Non-trivial = value contains a non-alphanumeric character; distinct = distinct operation lines.";
