//! C07 — the real `UriBuilder`, `http::Uri`, `path_param` and `parse_query_params`/`query_param`
//! against the model, on every single byte / boundary pair in every position of several templates.
use crate::run::{guarded, Cases, Tier};
use crate::util::{hex, Rng};
use conjure_http::private::{parse_query_params, path_param, query_param, UriBuilder};
use conjure_http::server::{ConjureRuntime, FromStrSeqDecoder};
use conjure_http::PathParams;
use std::collections::{BTreeMap, BTreeSet};

#[derive(Clone, Debug)]
enum Push {
    Lit(String),
    Path(String),
    Query(String, String),
}

fn boundary_alphabet() -> Vec<char> {
    let mut v: Vec<char> = "%/?#&=+ ;:@$,!'()*-._~\"<>[]\\^`{|}aZ09".chars().collect();
    v.extend(['\u{0}', '\n', '\u{7f}', 'é', '€', '😀', '\u{80}']);
    v
}

struct RealOut {
    line: String,
    segs: Vec<Vec<String>>,
    pairs: BTreeMap<String, Vec<String>>,
    path_and_query: String,
    /// where the typed decoders see a query value differently from the raw sequence decoder
    decoders: Vec<String>,
}

/// query keys with reserved characters: `#[conjure_client]` percent-encodes the key at compile time
pub const MACRO_KEYS: [&str; 5] = ["page&size", "a=b", "c+d e", "k%41", "\u{e9}/?#"];

use conjure_http::endpoint;

#[conjure_http::conjure_client]
trait MacroKeys {
    #[endpoint(method = GET, path = "/m/{p}/x")]
    fn weird(
        &self,
        #[path] p: &str,
        #[query(name = "page&size")] a: &str,
        #[query(name = "a=b")] b: &str,
        #[query(name = "c+d e")] c: &str,
        #[query(name = "k%41")] d: &str,
        #[query(name = "\u{e9}/?#")] e: &str,
    ) -> Result<(), conjure_error::Error>;
}

/// sequences through the macro's `DisplaySeqEncoder`: one path segment / one query pair per element, empty ones too
#[conjure_http::conjure_client]
trait MacroSeq {
    #[endpoint(method = GET, path = "/s/{p}/x")]
    fn seq(&self, #[path(encoder = conjure_http::client::DisplaySeqEncoder)] p: &[String], #[query(name = "tag", encoder = conjure_http::client::DisplaySeqEncoder)] tags: &[String], #[query(name = "one")] one: &str) -> Result<(), conjure_error::Error>;
}

#[derive(Clone, Default)]
struct UriCapture(std::sync::Arc<std::sync::Mutex<Option<http::Uri>>>);

impl conjure_http::client::Client for UriCapture {
    type BodyWriter = Vec<u8>;
    type ResponseBody = crate::svc::RemoteBody;
    fn send(&self, req: http::Request<conjure_http::client::RequestBody<'_, Vec<u8>>>) -> Result<http::Response<crate::svc::RemoteBody>, conjure_error::Error> {
        *self.0.lock().unwrap() = Some(req.uri().clone());
        let mut r = http::Response::new(crate::svc::RemoteBody(vec![]));
        *r.status_mut() = http::StatusCode::NO_CONTENT;
        Ok(r)
    }
}

/// the pushes the macro-derived method performs for these values (raw keys)
pub fn macro_pushes(p: &str, vals: [&str; 5]) -> Vec<Push> {
    let mut v = vec![Push::Lit("/m".to_string()), Push::Path(p.to_string()), Push::Lit("/x".to_string())];
    for (k, x) in MACRO_KEYS.iter().zip(vals) {
        v.push(Push::Query(k.to_string(), x.to_string()));
    }
    v
}

fn pct_all(s: &str) -> String {
    let mut out = String::new();
    for b in s.bytes() {
        if b.is_ascii_alphanumeric() {
            out.push(b as char);
        } else {
            out.push_str(&format!("%{:02X}", b));
        }
    }
    out
}

fn run_real(pushes: &[Push], variant: u8) -> Result<RealOut, String> {
    let pushes = pushes.to_vec();
    guarded(move || {
        let macro_uri = if variant == 9 {
            use conjure_http::client::Service;
            let cap = UriCapture::default();
            let c = MacroKeysClient::new(cap.clone());
            let vals: Vec<&str> = pushes.iter().filter_map(|p| if let Push::Query(_, v) = p { Some(v.as_str()) } else { None }).collect();
            let p = pushes.iter().find_map(|p| if let Push::Path(v) = p { Some(v.as_str()) } else { None }).unwrap_or("");
            c.weird(p, vals[0], vals[1], vals[2], vals[3], vals[4]).expect("macro client call");
            let u = cap.0.lock().unwrap().clone();
            u
        } else if variant == 10 {
            use conjure_http::client::Service;
            let cap = UriCapture::default();
            let c = MacroSeqClient::new(cap.clone());
            let ps: Vec<String> = pushes.iter().filter_map(|p| if let Push::Path(v) = p { Some(v.clone()) } else { None }).collect();
            let tags: Vec<String> = pushes.iter().filter_map(|p| if let Push::Query(k, v) = p { if k == "tag" { Some(v.clone()) } else { None } } else { None }).collect();
            let one = pushes.iter().find_map(|p| if let Push::Query(k, v) = p { if k == "one" { Some(v.clone()) } else { None } } else { None }).unwrap_or_default();
            c.seq(&ps, &tags, &one).expect("macro client call");
            let u = cap.0.lock().unwrap().clone();
            u
        } else {
            None
        };
        let mut b = UriBuilder::new();
        for p in &pushes {
            match p {
                Push::Lit(l) => b.push_literal(l),
                Push::Path(v) => {
                    if variant == 0 {
                        b.push_path_parameter_raw(v)
                    } else {
                        b.push_path_parameter(v)
                    }
                }
                Push::Query(k, v) => match variant {
                    0 => b.push_query_parameter_raw(k, v),
                    1 => b.push_query_parameter(k, v),
                    2 => b.push_list_query_parameter(k, std::slice::from_ref(v)),
                    3 => b.push_optional_query_parameter(k, &Some(v.clone())),
                    _ => {
                        let mut s = BTreeSet::new();
                        s.insert(v.clone());
                        b.push_set_query_parameter(k, &s)
                    }
                },
            }
        }
        let uri = match macro_uri {
            Some(u) => u,
            None => b.build(),
        };
        let rt = ConjureRuntime::new();
        let mut segs = vec![];
        let mut seg_txt = vec![];
        let path = uri.path().to_string();
        for raw in path.split('/').skip(1) {
            let mut req = http::Request::new(());
            *req.uri_mut() = uri.clone();
            let mut pp = PathParams::new();
            pp.insert("p", raw);
            req.extensions_mut().insert(pp);
            let (parts, _) = req.into_parts();
            let vals: Vec<String> = path_param::<Vec<String>, FromStrSeqDecoder<String>>(&rt, &parts, "p", "p")
                .map_err(|e| format!("{:?}", e))
                .unwrap();
            seg_txt.push(vals.iter().map(|v| hex(v.as_bytes())).collect::<Vec<_>>().join(","));
            segs.push(vals);
        }
        let mut req = http::Request::new(());
        *req.uri_mut() = uri.clone();
        let (parts, _) = req.into_parts();
        let qp = parse_query_params(&parts);
        let mut pairs: BTreeMap<String, Vec<String>> = BTreeMap::new();
        let mut keys: Vec<String> = qp.keys().map(|k| k.to_string()).collect();
        keys.sort_by(|a, b| a.as_bytes().cmp(b.as_bytes()));
        for k in keys {
            let vals: Vec<String> = query_param::<Vec<String>, FromStrSeqDecoder<String>>(&rt, &qp, &k, &k).map_err(|e| format!("{:?}", e)).unwrap();
            pairs.insert(k, vals);
        }
        // the same values through the decoders generated endpoints (`FromPlain*`) and macro endpoints (`FromStr*`) use
        let mut decoders: Vec<String> = vec![];
        for (k, vs) in &pairs {
            use conjure_http::server::conjure::{FromPlainDecoder, FromPlainOptionDecoder, FromPlainSeqDecoder};
            use conjure_http::server::{FromStrDecoder, FromStrOptionDecoder};
            let seq = query_param::<Vec<String>, FromPlainSeqDecoder<String>>(&rt, &qp, k, k).map_err(|e| e.cause().to_string());
            if seq.as_ref().ok() != Some(vs) {
                decoders.push(format!("FromPlainSeqDecoder on `{}`: {:?}, FromStrSeqDecoder: {:?}", k, seq, vs));
            }
            if vs.len() == 1 {
                let a = query_param::<String, FromPlainDecoder>(&rt, &qp, k, k).map_err(|e| e.cause().to_string());
                let b = query_param::<Option<String>, FromPlainOptionDecoder>(&rt, &qp, k, k).map_err(|e| e.cause().to_string());
                let c = query_param::<String, FromStrDecoder>(&rt, &qp, k, k).map_err(|e| e.cause().to_string());
                let d = query_param::<Option<String>, FromStrOptionDecoder>(&rt, &qp, k, k).map_err(|e| e.cause().to_string());
                if a.as_ref().ok() != Some(&vs[0]) || c.as_ref().ok() != Some(&vs[0]) || b.as_ref().ok() != Some(&Some(vs[0].clone())) || d.as_ref().ok() != Some(&Some(vs[0].clone())) {
                    decoders.push(format!("the single value {:?} of `{}`: FromPlainDecoder {:?}, FromPlainOptionDecoder {:?}, FromStrDecoder {:?}, FromStrOptionDecoder {:?}", vs[0], k, a, b, c, d));
                }
            }
        }
        let mut pair_txt: Vec<(Vec<u8>, String)> = pairs
            .iter()
            .map(|(k, vs)| (k.as_bytes().to_vec(), format!("{}={}", hex(k.as_bytes()), vs.iter().map(|v| hex(v.as_bytes())).collect::<Vec<_>>().join(","))))
            .collect();
        pair_txt.sort();
        let line = format!(
            "uri path={} query={} segs={} pairs={}",
            hex(uri.path().as_bytes()),
            uri.query().map(|q| hex(q.as_bytes())).unwrap_or_else(|| "none".into()),
            seg_txt.join("/"),
            pair_txt.into_iter().map(|p| p.1).collect::<Vec<_>>().join("&")
        );
        RealOut { line, segs, pairs, decoders, path_and_query: uri.path_and_query().map(|p| p.as_str().to_string()).unwrap_or_default() }
    })
}

fn op_line(pushes: &[Push], variant: u8) -> String {
    let mut s = String::from("uri");
    for p in pushes {
        match p {
            Push::Lit(l) => s.push_str(&format!(" L:{}", hex(l.as_bytes()))),
            Push::Path(v) => s.push_str(&format!(" P:{}", hex(v.as_bytes()))),
            // the macro writes the key percent-encoded (the keys used contain only alphanumerics and characters
            // every encode set in question escapes)
            Push::Query(k, v) if variant == 9 => s.push_str(&format!(" Q:{}:{}", hex(pct_all(k).as_bytes()), hex(v.as_bytes()))),
            Push::Query(k, v) => s.push_str(&format!(" Q:{}:{}", hex(k.as_bytes()), hex(v.as_bytes()))),
        }
    }
    s
}

fn one(cs: &mut Cases, class: &str, pushes: &[Push], variant: u8, nontrivial: bool) {
    let r = run_real(pushes, variant);
    let note = format!("{:?} (push variant {})", pushes, variant);
    let note = if note.len() > 300 { format!("{}… ({} bytes)", &note.chars().take(300).collect::<String>(), note.len()) } else { note };
    match r {
        Err(p) => {
            cs.push(class, op_line(pushes, variant), "panic".into(), true, note);
            let key = if p.contains("TooLong") { "build:panic:uri-too-long" } else { "build:panic" };
            cs.fail_last(key, format!("UriBuilder::build panicked: {}", p));
        }
        Ok(out) => {
            cs.push(class, op_line(pushes, variant), out.line.clone(), nontrivial, note);
            // property oracle, straight from the statement
            let mut exp_segs: Vec<Option<String>> = vec![];
            let mut exp_pairs: BTreeMap<String, Vec<String>> = BTreeMap::new();
            for p in pushes {
                match p {
                    Push::Lit(l) => {
                        for _ in l.split('/').skip(1) {
                            exp_segs.push(None);
                        }
                    }
                    Push::Path(v) => exp_segs.push(Some(v.clone())),
                    Push::Query(k, v) => exp_pairs.entry(k.clone()).or_default().push(v.clone()),
                }
            }
            if out.segs.len() != exp_segs.len() {
                cs.fail_last("segments:count", format!("path has {} segments, template prescribes {} ({})", out.segs.len(), exp_segs.len(), out.path_and_query));
                return;
            }
            for (i, (got, exp)) in out.segs.iter().zip(exp_segs.iter()).enumerate() {
                if let Some(e) = exp {
                    if got.len() != 1 || &got[0] != e {
                        cs.fail_last("segments:value", format!("path parameter {} decoded to {:?}, sent {:?}", i, got, e));
                        return;
                    }
                }
            }
            if out.pairs != exp_pairs {
                cs.fail_last("pairs", format!("query decoded to {:?}, sent {:?} ({})", out.pairs, exp_pairs, out.path_and_query));
                return;
            }
            if let Some(d) = out.decoders.first() {
                cs.fail_last("decoders", format!("{} ({})", d, out.path_and_query));
                return;
            }
            if out.path_and_query.contains('#') {
                cs.fail_last("fragment", format!("'#' in request target {}", out.path_and_query));
            }
        }
    }
}

fn templates(v: &str, w: &str) -> Vec<(&'static str, Vec<Push>)> {
    let s = |x: &str| x.to_string();
    vec![
        ("T0:/a/{p}", vec![Push::Lit(s("/a")), Push::Path(s(v))]),
        ("T1:/{p}/b/{q}", vec![Push::Path(s(v)), Push::Lit(s("/b")), Push::Path(s(w))]),
        ("T2:/a/b?k", vec![Push::Lit(s("/a/b")), Push::Query(s("k"), s(v))]),
        ("T3:/a/{p}?k1&k2&k1", vec![Push::Lit(s("/a")), Push::Path(s(w)), Push::Query(s("k1"), s(v)), Push::Query(s("k2"), s(w)), Push::Query(s("k1"), s(w))]),
        ("T4:/{p}/{q}/c?k", vec![Push::Path(s(w)), Push::Path(s(v)), Push::Lit(s("/c")), Push::Query(s("key-1_x.y"), s(v))]),
    ]
}

pub fn cases(seed: u64, tier: Tier) -> Cases {
    let mut rng = Rng::new(seed);
    let mut cs = Cases::new("C07");
    // every ASCII byte alone and embedded, in every position of every template
    for b in 0u8..128 {
        let c = b as char;
        for v in [c.to_string(), format!("a{}c", c), format!("{}=x&y", c)] {
            for (name, t) in templates(&v, "x") {
                one(&mut cs, name, &t, (b % 5) as u8, !c.is_ascii_alphanumeric());
            }
        }
    }
    // all pairs over the boundary alphabet
    let alpha = boundary_alphabet();
    let stride = if tier == Tier::Quick { 3 } else { 1 };
    let mut i = 0usize;
    for a in &alpha {
        for b in &alpha {
            i += 1;
            if i % stride != (seed as usize) % stride {
                continue;
            }
            let v: String = [*a, *b].iter().collect();
            let w: String = [*b, *a].iter().collect();
            for (name, t) in templates(&v, &w) {
                one(&mut cs, name, &t, (i % 5) as u8, true);
            }
        }
    }
    // a `#[conjure_client]` method whose query keys contain reserved characters
    for (i, a) in alpha.iter().enumerate() {
        let v: String = [*a, 'x', *a].iter().collect();
        let w = alpha[(i * 7 + 3) % alpha.len()].to_string();
        one(&mut cs, "macro-client:/m/{p}/x?5 keys", &macro_pushes(&v, [&v, &w, "", "plain", &v]), 9, true);
    }
    // a `#[conjure_client]` method whose path and query arguments are sequences (`DisplaySeqEncoder`): one segment /
    // one pair per element, empty elements included
    for (i, a) in alpha.iter().enumerate() {
        let v: String = [*a, 'y'].iter().collect();
        let lists: [Vec<String>; 4] = [vec![v.clone()], vec![v.clone(), String::new(), "z".into()], vec![String::new(), v.clone()], vec!["a".into(), String::new()]];
        let ps = &lists[i % 4];
        let tags = &lists[(i + 1) % 4];
        let mut pushes = vec![Push::Lit("/s".to_string())];
        pushes.extend(ps.iter().map(|p| Push::Path(p.clone())));
        pushes.push(Push::Lit("/x".to_string()));
        pushes.extend(tags.iter().map(|t| Push::Query("tag".to_string(), t.clone())));
        pushes.push(Push::Query("one".to_string(), if i % 3 == 0 { String::new() } else { v.clone() }));
        one(&mut cs, "macro-client:/s/{p..}/x?tag..&one", &pushes, 10, true);
    }
    // empty values
    for (name, t) in templates("", "") {
        one(&mut cs, name, &t, 0, true);
    }
    // seeded Unicode strings
    let n = if tier == Tier::Quick { 300 } else { 5000 };
    let pool: Vec<char> = alpha.iter().copied().chain("bcdefghijklmnopqrstuvwxyzABCDEFGHIJKLMNOPQRSTUVWXY12345678".chars()).chain(['ß', 'Ж', '中', '\u{10FFFF}', '\u{FEFF}', '\t', '\r']).collect();
    for _ in 0..n {
        let len = if rng.chance(1, 20) { rng.below(4096) } else { rng.below(24) };
        let v: String = (0..len).map(|_| *rng.pick(&pool)).collect();
        let w: String = (0..rng.below(8)).map(|_| *rng.pick(&pool)).collect();
        let ts = templates(&v, &w);
        let (name, t) = &ts[rng.below(ts.len())];
        one(&mut cs, name, t, rng.below(5) as u8, true);
    }
    // very long values: within and beyond http::Uri's limit
    for len in [21000usize, 21840, 21845, 65000, 65531, 65532, 65533, 65534, 70000] {
        let v: String = std::iter::repeat('a').take(len).collect();
        one(&mut cs, "long:/a/{p}", &[Push::Lit("/a".into()), Push::Path(v.clone())], 0, true);
        let v2: String = std::iter::repeat('%').take(len / 3).collect();
        one(&mut cs, "long:/a?k", &[Push::Lit("/a".into()), Push::Query("k".into(), v2)], 0, true);
    }
    // which argument the generated client pushes for each `{name}` of the template, and under which query key: the
    // generated source for seeded definitions against Model/Emit.lean
    crate::ops::emit::add(&mut cs, &mut rng, tier);
    cs
}

pub const RULE: &str = "values = every ASCII byte alone, embedded (a<b>c) and in an injection shape (<b>=x&y); all ordered pairs over a 44-character boundary alphabet (every URI delimiter, sub-delim, control, DEL, 2/3/4-byte code points; quick tier takes a seeded third); empty strings; seeded Unicode strings up to 4 kB; values at and beyond http::Uri's 65534-byte limit. Each value is placed in every parameter position of 5 path/query templates and pushed through the raw and the Plain-typed UriBuilder methods (single, list, optional, set). Real side: UriBuilder + http::Uri + path_param + parse_query_params/query_param; oracle: segment count, each decoded value equals the sent one, pairs per key in order, no '#', no panic. Non-trivial = value contains a non-alphanumeric character; distinct = distinct operation lines.";
