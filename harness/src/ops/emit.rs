//! C04, at the generator: what `conjure-codegen` emits for an endpoint — the runtime calls of the client method and the
//! attributes of the server trait method — read back from the generated source with `syn`, for seeded random IR
//! documents (and the fixed ones), against Model/Emit.lean, which transcribes clients.rs / servers.rs / http_paths.rs and
//! the type predicates of context.rs.  The theorems about that model (the two halves agree on cardinalities, names,
//! bodies, auth and the return type's decode function) then speak about every generated service, not only the one
//! compiled into this harness.
use crate::irgen::{self, EndpointInfo, GenCfg};
use crate::irrand;
use crate::run::{Cases, Tier};
use crate::util::{hex, Rng};
use heck::ToSnakeCase;
use serde_json::Value;
use std::collections::BTreeMap;
use syn::visit::Visit;

fn hx(s: &str) -> String {
    hex(s.as_bytes())
}

fn ty_sexp(t: &Value, index: &BTreeMap<(String, String), usize>) -> String {
    match t["type"].as_str().unwrap_or("") {
        "primitive" => format!("(p,{})", (t["primitive"] == "BINARY") as u8),
        "optional" => format!("(o,{})", ty_sexp(&t["optional"]["itemType"], index)),
        "list" => format!("(l,{})", ty_sexp(&t["list"]["itemType"], index)),
        "set" => format!("(s,{})", ty_sexp(&t["set"]["itemType"], index)),
        "map" => format!("(m,{},{})", ty_sexp(&t["map"]["keyType"], index), ty_sexp(&t["map"]["valueType"], index)),
        "reference" => {
            let key = (t["reference"]["package"].as_str().unwrap_or("").to_string(), t["reference"]["name"].as_str().unwrap_or("").to_string());
            format!("(r,{})", index.get(&key).copied().unwrap_or(9999))
        }
        "external" => format!("(x,{})", ty_sexp(&t["external"]["fallback"], index)),
        other => format!("(bad-{})", other),
    }
}

fn defs_sexp(ir: &Value) -> (String, BTreeMap<(String, String), usize>) {
    let mut index = BTreeMap::new();
    let types = ir["types"].as_array().cloned().unwrap_or_default();
    for (i, t) in types.iter().enumerate() {
        let k = t["type"].as_str().unwrap_or("");
        index.insert((t[k]["typeName"]["package"].as_str().unwrap_or("").to_string(), t[k]["typeName"]["name"].as_str().unwrap_or("").to_string()), i);
    }
    let mut out = String::from("(defs");
    for t in &types {
        if t["type"] == "alias" {
            out.push_str(&format!(",(a,{})", ty_sexp(&t["alias"]["alias"], &index)));
        } else {
            out.push_str(",(o)");
        }
    }
    out.push(')');
    (out, index)
}

fn endpoint_sexp(ep: &Value, index: &BTreeMap<(String, String), usize>) -> String {
    let auth = match ep["auth"]["type"].as_str() {
        Some("header") => "(h)".to_string(),
        Some("cookie") => format!("(c,{})", hx(ep["auth"]["cookie"]["cookieName"].as_str().unwrap_or(""))),
        _ => "(n)".to_string(),
    };
    let ctx = ep["tags"].as_array().map(|t| t.iter().any(|x| x == "server-request-context")).unwrap_or(false);
    let ret = match ep.get("returns") {
        Some(r) if !r.is_null() => format!("(some,{})", ty_sexp(r, index)),
        _ => "(none)".to_string(),
    };
    let mut args = String::from("(args");
    for a in ep["args"].as_array().cloned().unwrap_or_default() {
        let name = a["argName"].as_str().unwrap_or("");
        let (k, id) = match a["paramType"]["type"].as_str().unwrap_or("") {
            "path" => ("p", String::new()),
            "query" => ("q", a["paramType"]["query"]["paramId"].as_str().unwrap_or("").to_string()),
            "header" => ("h", a["paramType"]["header"]["paramId"].as_str().unwrap_or("").to_string()),
            _ => ("b", String::new()),
        };
        args.push_str(&format!(",(a,{},{},{},{},{})", hx(name), hx(&name.to_snake_case()), k, hx(&id), ty_sexp(&a["type"], index)));
    }
    args.push(')');
    format!("(ep,{},{},{},{},{},{},{})", hx(ep["httpMethod"].as_str().unwrap_or("")), hx(ep["httpPath"].as_str().unwrap_or("")), hx(ep["endpointName"].as_str().unwrap_or("")), auth, ctx as u8, ret, args)
}

// ---- the client half, from the generated source

struct Calls(Vec<String>);

fn last_seg(p: &syn::Path) -> String {
    p.segments.last().map(|s| s.ident.to_string()).unwrap_or_default()
}

fn str_args(args: &syn::punctuated::Punctuated<syn::Expr, syn::token::Comma>) -> Vec<String> {
    args.iter()
        .filter_map(|a| match a {
            syn::Expr::Lit(l) => match &l.lit {
                syn::Lit::Str(s) => Some(s.value()),
                _ => None,
            },
            _ => None,
        })
        .collect()
}

/// the identifier an argument expression names: `x`, `&x`, `&mut x`
fn ident_of(e: &syn::Expr) -> Option<String> {
    match e {
        syn::Expr::Path(p) => p.path.get_ident().map(|i| i.to_string()),
        syn::Expr::Reference(r) => ident_of(&r.expr),
        syn::Expr::Paren(p) => ident_of(&p.expr),
        _ => None,
    }
}

fn last_ident(args: &syn::punctuated::Punctuated<syn::Expr, syn::token::Comma>) -> String {
    args.iter().last().and_then(ident_of).unwrap_or_else(|| "?".into())
}

impl<'ast> Visit<'ast> for Calls {
    fn visit_expr_call(&mut self, c: &'ast syn::ExprCall) {
        if let syn::Expr::Path(p) = &*c.func {
            let f = last_seg(&p.path);
            let f = f.strip_prefix("async_").unwrap_or(&f).to_string();
            let strs = str_args(&c.args);
            match f.as_str() {
                "encode_empty_request" => self.0.push("req:empty".into()),
                "encode_serializable_request" => self.0.push(format!("req:ser:{}", hx(&last_ident(&c.args)))),
                "encode_binary_request" => self.0.push(format!("req:bin:{}", hx(&last_ident(&c.args)))),
                "encode_header_auth" => self.0.push("ha".into()),
                "encode_cookie_auth" => self.0.push(format!("ca:{}", hx(strs.first().map(|s| s.as_str()).unwrap_or("?")))),
                "encode_header" => self.0.push(format!("h:{}:{}", hx(strs.first().map(|s| s.as_str()).unwrap_or("?")), hx(&last_ident(&c.args)))),
                "encode_optional_header" => self.0.push(format!("oh:{}:{}", hx(strs.first().map(|s| s.as_str()).unwrap_or("?")), hx(&last_ident(&c.args)))),
                "encode_empty_response_headers" => self.0.push("acc:empty".into()),
                "encode_serializable_response_headers" => self.0.push("acc:ser".into()),
                "encode_binary_response_headers" => self.0.push("acc:bin".into()),
                "decode_empty_response" => self.0.push("dec:empty".into()),
                "decode_serializable_response" => self.0.push("dec:ser".into()),
                "decode_default_serializable_response" => self.0.push("dec:def".into()),
                "decode_binary_response" => self.0.push("dec:bin".into()),
                "decode_optional_binary_response" => self.0.push("dec:optbin".into()),
                "new" if p.path.segments.len() >= 2 && p.path.segments[p.path.segments.len() - 2].ident == "Endpoint" => {
                    // Endpoint::new(service, version, name, path): the literals are service, name, path
                    if strs.len() >= 3 {
                        self.0.push(format!("ext:{}:{}", hx(&strs[strs.len() - 2]), hx(&strs[strs.len() - 1])));
                    } else {
                        self.0.push("ext:?".into());
                    }
                }
                _ => {}
            }
        }
        syn::visit::visit_expr_call(self, c);
    }
    fn visit_expr_method_call(&mut self, c: &'ast syn::ExprMethodCall) {
        // receiver first (source order), then this call
        syn::visit::visit_expr(self, &c.receiver);
        let m = c.method.to_string();
        let strs = str_args(&c.args);
        let key = strs.first().cloned().unwrap_or_else(|| "?".into());
        match m.as_str() {
            "push_literal" => self.0.push(format!("lit:{}", hx(&key))),
            "push_path_parameter" => self.0.push(format!("pp:{}", hx(&last_ident(&c.args)))),
            "push_query_parameter" => self.0.push(format!("q:{}:{}", hx(&key), hx(&last_ident(&c.args)))),
            "push_optional_query_parameter" => self.0.push(format!("oq:{}:{}", hx(&key), hx(&last_ident(&c.args)))),
            "push_list_query_parameter" => self.0.push(format!("lq:{}:{}", hx(&key), hx(&last_ident(&c.args)))),
            "push_set_query_parameter" => self.0.push(format!("sq:{}:{}", hx(&key), hx(&last_ident(&c.args)))),
            _ => {}
        }
        for a in &c.args {
            syn::visit::visit_expr(self, a);
        }
    }
}

/// (client struct name, endpoint name from its `Endpoint::new`) -> the calls of the method, in source order
fn client_methods(tree: &BTreeMap<String, String>) -> Result<BTreeMap<(String, String), String>, String> {
    let mut out = BTreeMap::new();
    for (path, text) in tree {
        if !path.ends_with(".rs") {
            continue;
        }
        let file = syn::parse_file(text).map_err(|e| format!("{}: {}", path, e))?;
        for item in &file.items {
            if let syn::Item::Impl(im) = item {
                if im.trait_.is_some() {
                    continue;
                }
                let ty = match &*im.self_ty {
                    syn::Type::Path(p) => last_seg(&p.path),
                    _ => continue,
                };
                if !ty.ends_with("Client") {
                    continue;
                }
                for it in &im.items {
                    if let syn::ImplItem::Fn(f) = it {
                        let mut v = Calls(vec![]);
                        v.visit_block(&f.block);
                        let name = v.0.iter().find_map(|c| c.strip_prefix("ext:").map(|r| r.split(':').next().unwrap_or("").to_string())).unwrap_or_default();
                        out.insert((ty.clone(), name), v.0.join(";"));
                    }
                }
            }
        }
    }
    Ok(out)
}

// ---- the server half

fn method_of(attr: &str) -> String {
    attr.split("method=").nth(1).map(|r| r.split(',').next().unwrap_or("").to_string()).unwrap_or_default()
}

fn lit(attr: &str, key: &str) -> Option<String> {
    let pat = format!("{}=\"", key);
    let i = attr.find(&pat)? + pat.len();
    let j = attr[i..].find('"')? + i;
    Some(attr[i..j].to_string())
}

fn server_method(e: &EndpointInfo) -> String {
    let mut out = vec![];
    let produces = if e.attr.contains("OptionalBinaryResponseSerializer") {
        "optbin"
    } else if e.attr.contains("BinaryResponseSerializer") {
        "bin"
    } else if e.attr.contains("CollectionResponseSerializer") {
        "collection"
    } else if e.attr.contains("StdResponseSerializer") {
        "std"
    } else if e.attr.contains("produces") {
        "?"
    } else {
        "-"
    };
    out.push(format!("ep:{}:{}:{}:{}", hx(&method_of(&e.attr)), hx(&lit(&e.attr, "path").unwrap_or_default()), hx(&lit(&e.attr, "name").unwrap_or_default()), produces));
    for a in &e.args {
        let log = a.log_as.as_ref().map(|l| hx(l)).unwrap_or_else(|| "-".into());
        let dec = if a.attr.contains("FromDecoder<") {
            "optfrom"
        } else if a.attr.contains("FromPlainOptionDecoder") {
            "opt"
        } else if a.attr.contains("FromPlainSeqDecoder") {
            "seq"
        } else if a.attr.contains("FromPlainDecoder") {
            "one"
        } else {
            "?"
        };
        match a.kind.as_str() {
            "auth" => out.push(match lit(&a.attr, "cookie_name") {
                Some(c) => format!("auth:{}", hx(&c)),
                None => "auth".into(),
            }),
            "path" => out.push(format!("path:{}:{}:{}", hx(&a.name.clone().unwrap_or_default()), hx(&a.ident), log)),
            "query" => out.push(format!("query:{}:{}:{}:{}", hx(&a.name.clone().unwrap_or_default()), dec, hx(&a.ident), log)),
            "header" => out.push(format!("header:{}:{}:{}:{}", hx(&a.name.clone().unwrap_or_default()), dec, hx(&a.ident), log)),
            "body" => {
                let d = if a.attr.contains("FromRequestDeserializer<") {
                    "optfrom"
                } else if a.attr.contains("OptionalRequestDeserializer") {
                    "opt"
                } else if a.attr.contains("BinaryRequestDeserializer") {
                    "bin"
                } else if a.attr.contains("StdRequestDeserializer") {
                    "std"
                } else {
                    "?"
                };
                out.push(format!("body:{}:{}:{}", d, hx(&a.ident), log));
            }
            "context" => out.push("ctx".into()),
            other => out.push(format!("?{}", other)),
        }
    }
    out.join(";")
}

/// what a type is once aliases and imported types are looked through (written here independently of the generator
/// and of the model): optional (and whether of binary), list, set, map, binary or something else
fn shape_of(t: &Value, ir: &Value, fuel: usize) -> &'static str {
    if fuel == 0 {
        return "other";
    }
    match t["type"].as_str().unwrap_or("") {
        "primitive" => if t["primitive"] == "BINARY" { "binary" } else { "other" },
        "optional" => if shape_of(&t["optional"]["itemType"], ir, fuel - 1) == "binary" { "optional-binary" } else { "optional" },
        "list" => "list",
        "set" => "set",
        "map" => "map",
        "external" => shape_of(&t["external"]["fallback"], ir, fuel - 1),
        "reference" => {
            let (n, p) = (&t["reference"]["name"], &t["reference"]["package"]);
            match ir["types"].as_array().and_then(|ts| ts.iter().find(|d| d["type"] == "alias" && &d["alias"]["typeName"]["name"] == n && &d["alias"]["typeName"]["package"] == p)) {
                Some(d) => shape_of(&d["alias"]["alias"], ir, fuel - 1),
                None => "other",
            }
        }
        _ => "other",
    }
}

/// each half against the declared types: an optional argument is sent and decoded as optional, a list or set as a
/// sequence, a binary body streamed, and the response handled as the return type's shape prescribes
fn fits_types(client: &str, server: &str, ep: &Value, ir: &Value) -> Option<String> {
    let c: Vec<Vec<&str>> = client.split(';').map(|t| t.split(':').collect()).collect();
    let s: Vec<Vec<&str>> = server.split(';').map(|t| t.split(':').collect()).collect();
    for a in ep["args"].as_array().cloned().unwrap_or_default() {
        let shape = shape_of(&a["type"], ir, 32);
        let name = a["argName"].as_str().unwrap_or("");
        // the name an undecodable argument is reported under (its `log_as`, or else its identifier) is the declared one
        {
            let kind = a["paramType"]["type"].as_str().unwrap_or("");
            let snake = heck::ToSnakeCase::to_snake_case(name);
            let tok = s.iter().find(|t| t[0] == kind && match kind {
                "path" => t.get(2).map(|i| unhx(i).trim_end_matches('_') == snake).unwrap_or(false),
                "query" | "header" => t.get(3).map(|i| unhx(i).trim_end_matches('_') == snake).unwrap_or(false),
                "body" => true,
                _ => false,
            });
            if let Some(t) = tok {
                let (ident, log) = match kind {
                    "path" => (t.get(2), t.get(3)),
                    "query" | "header" => (t.get(3), t.get(4)),
                    _ => (t.get(2), t.get(3)),
                };
                let reported = match log {
                    Some(l) if *l != "-" => unhx(l),
                    _ => ident.map(|i| unhx(i)).unwrap_or_default(),
                };
                if reported != name {
                    return Some(format!("the {} argument declared `{}` is reported as `{}` when it cannot be decoded", kind, name, reported));
                }
            }
        }
        match a["paramType"]["type"].as_str().unwrap_or("") {
            "body" => {
                let want = match shape {
                    "optional" | "optional-binary" => "opt",
                    "binary" => "bin",
                    _ => "std",
                };
                let got = s.iter().find(|t| t[0] == "body").map(|t| t[1]).unwrap_or("?");
                if got.trim_end_matches("from") != want {
                    return Some(format!("the body argument `{}` is {} but the server trait reads it with the `{}` deserializer", name, shape, got));
                }
                let req = c.iter().find(|t| t[0] == "req").map(|t| t[1]).unwrap_or("?");
                if (shape == "binary") != (req == "bin") {
                    return Some(format!("the body argument `{}` is {} but the client builds a `{}` request", name, shape, req));
                }
            }
            kind @ ("query" | "header") => {
                let id = a["paramType"][kind]["paramId"].as_str().unwrap_or("");
                let want = match (kind, shape) {
                    (_, "optional") | (_, "optional-binary") => "opt",
                    ("query", "list") | ("query", "set") => "seq",
                    _ => "one",
                };
                let got = s.iter().find(|t| t[0] == kind && unhx(t.get(1).unwrap_or(&"")) == id).map(|t| *t.get(2).unwrap_or(&"?")).unwrap_or("?");
                if shape != "map" && got.trim_end_matches("from") != want {
                    return Some(format!("the {} argument `{}` is {} but the server trait decodes it with the `{}` decoder", kind, name, shape, got));
                }
                let sent = c.iter().find(|t| matches!(t[0], "q" | "oq" | "lq" | "sq" | "h" | "oh") && unhx(t.get(1).unwrap_or(&"")).eq_ignore_ascii_case(id)).map(|t| t[0]).unwrap_or("?");
                let want_push = match (kind, shape) {
                    ("query", "optional") | ("query", "optional-binary") => "oq",
                    ("query", "list") => "lq",
                    ("query", "set") => "sq",
                    ("query", _) => "q",
                    (_, "optional") | (_, "optional-binary") => "oh",
                    _ => "h",
                };
                if shape != "map" && sent != want_push {
                    return Some(format!("the {} argument `{}` is {} but the client sends it with `{}`", kind, name, shape, sent));
                }
            }
            _ => {}
        }
    }
    let (want_p, want_d) = match ep.get("returns").filter(|r| !r.is_null()).map(|r| shape_of(r, ir, 32)) {
        None => ("-", "empty"),
        Some("optional-binary") => ("optbin", "optbin"),
        Some("binary") => ("bin", "bin"),
        Some("optional") | Some("list") | Some("set") | Some("map") => ("collection", "def"),
        Some(_) => ("std", "ser"),
    };
    let produces = s.first().and_then(|t| t.get(4)).copied().unwrap_or("?");
    let dec = c.iter().find(|t| t[0] == "dec").map(|t| t[1]).unwrap_or("?");
    if produces != want_p || dec != want_d {
        return Some(format!("the return type prescribes the `{}` serializer and the `{}` decode function; generated: `{}` and `{}`", want_p, want_d, produces, dec));
    }
    None
}

fn unhx(h: &str) -> String {
    String::from_utf8_lossy(&crate::util::unhex(h).unwrap_or_default()).to_string()
}

/// the statement itself, on the two generated halves (no model involved): the client sends every argument in the
/// form the server's decoder for it takes, under the same name; fills each `{name}` of the template with the path
/// argument of that name; and decodes the response with the function that reads what the trait's serializer writes
fn halves_agree(client: &str, server: &str, path: &str) -> Option<String> {
    let c: Vec<Vec<&str>> = client.split(';').map(|t| t.split(':').collect()).collect();
    let s: Vec<Vec<&str>> = server.split(';').map(|t| t.split(':').collect()).collect();
    // path parameters, in template order
    let template: Vec<String> = path.split('/').skip(1).filter_map(|seg| seg.strip_prefix('{').and_then(|x| x.strip_suffix('}')).map(|x| x.split(':').next().unwrap_or("").to_string())).collect();
    let pushed: Vec<String> = c.iter().filter(|t| t[0] == "pp").map(|t| unhx(t.get(1).unwrap_or(&""))).collect();
    let ident_of = |name: &str| s.iter().find(|t| t[0] == "path" && unhx(t.get(1).unwrap_or(&"")) == name).map(|t| unhx(t.get(2).unwrap_or(&"")));
    let want: Vec<Option<String>> = template.iter().map(|n| ident_of(n)).collect();
    if want.iter().all(|w| w.is_some()) && want.iter().map(|w| w.clone().unwrap()).collect::<Vec<_>>() != pushed {
        return Some(format!("the template's parameters {:?} are filled from the arguments {:?} (the server's path arguments of those names are {:?})", template, pushed, want));
    }
    // query and header arguments: same key, matching cardinality
    for t in s.iter().filter(|t| t[0] == "query" || t[0] == "header") {
        let (kind, id, dec, ident) = (t[0], unhx(t.get(1).unwrap_or(&"")), *t.get(2).unwrap_or(&""), unhx(t.get(3).unwrap_or(&"")));
        let sent = c.iter().find(|x| match kind {
            "query" => matches!(x[0], "q" | "oq" | "lq" | "sq") && unhx(x.get(1).unwrap_or(&"")) == id,
            _ => matches!(x[0], "h" | "oh") && unhx(x.get(1).unwrap_or(&"")) == id.to_ascii_lowercase(),
        });
        match sent {
            None => return Some(format!("the server takes a {} argument `{}` that the client never sends", kind, id)),
            Some(x) => {
                let card = match x[0] {
                    "q" | "h" => "one",
                    "oq" | "oh" => "opt",
                    _ => "seq",
                };
                let takes = if dec.starts_with("opt") { "opt" } else { dec };
                if card != takes {
                    return Some(format!("{} argument `{}`: the client sends it as `{}` ({}), the server decodes it with a `{}` decoder", kind, id, x[0], card, dec));
                }
                if unhx(x.get(2).unwrap_or(&"")) != ident {
                    return Some(format!("{} argument `{}`: the client sends `{}`, the server's argument is `{}`", kind, id, unhx(x.get(2).unwrap_or(&"")), ident));
                }
            }
        }
    }
    // body
    let body = s.iter().find(|t| t[0] == "body");
    let req = c.iter().find(|t| t[0] == "req").map(|t| t[1]).unwrap_or("?");
    match (body, req) {
        (None, "empty") => {}
        (Some(b), "bin") if b[1] == "bin" => {}
        (Some(b), "ser") if b[1] != "bin" => {}
        (b, r) => return Some(format!("the client builds a `{}` request, the server's body argument is {:?}", r, b.map(|b| b[1]))),
    }
    // auth
    let s_auth = s.iter().find(|t| t[0] == "auth").map(|t| t.get(1).map(|c| format!("{}=", unhx(c))));
    let c_auth = c.iter().find(|t| t[0] == "ha" || t[0] == "ca").map(|t| t.get(1).map(|p| unhx(p)));
    if s_auth != c_auth {
        return Some(format!("auth: the client sends {:?}, the server expects {:?} (None = Authorization header, Some = cookie prefix)", c_auth, s_auth));
    }
    // the way back
    let produces = s.first().and_then(|t| t.get(4)).copied().unwrap_or("?");
    let dec = c.iter().find(|t| t[0] == "dec").map(|t| t[1]).unwrap_or("?");
    let acc = c.iter().find(|t| t[0] == "acc").map(|t| t[1]).unwrap_or("?");
    let ok = matches!((produces, dec, acc), ("-", "empty", "empty") | ("std", "ser", "ser") | ("collection", "def", "ser") | ("bin", "bin", "bin") | ("optbin", "optbin", "bin"));
    if !ok {
        return Some(format!("the trait's response serializer is `{}`, the client asks for `{}` and decodes with `{}`", produces, acc, dec));
    }
    None
}

fn one_doc(cs: &mut Cases, label: &str, ir: &Value, cfg: &GenCfg) {
    let (defs, index) = defs_sexp(ir);
    let services = ir["services"].as_array().cloned().unwrap_or_default();
    if services.is_empty() {
        return;
    }
    let tree = match irgen::generate(ir, cfg) {
        Ok(t) => t,
        Err(_) => return, // whether generation succeeds is C03's business
    };
    let (clients, servers) = match (client_methods(&tree), irgen::endpoints(&tree)) {
        (Ok(c), Ok(s)) => (c, s),
        (c, s) => {
            cs.push("emit", "noop".into(), "noop".into(), true, format!("{}: generated source", label));
            cs.fail_last("emit:unparsable", format!("generated source does not parse: {:?} {:?}", c.err(), s.err()));
            return;
        }
    };
    for svc in &services {
        let sname = svc["serviceName"]["name"].as_str().unwrap_or("");
        for ep in svc["endpoints"].as_array().cloned().unwrap_or_default() {
            let ename = ep["endpointName"].as_str().unwrap_or("");
            let op = format!("emit {} {}", defs, endpoint_sexp(&ep, &index));
            let find_c = |suffix: &str| clients.get(&(format!("{}{}", sname, suffix), hx(ename))).cloned().unwrap_or_else(|| "missing".into());
            let find_s = |prefix: &str| servers.iter().find(|e| e.trait_name == format!("{}{}", prefix, sname) && lit(&e.attr, "name").as_deref() == Some(ename)).map(server_method).unwrap_or_else(|| "missing".into());
            let (c_sync, c_async, s_sync, s_async) = (find_c("Client"), find_c("AsyncClient"), find_s(""), find_s("Async"));
            let args = ep["args"].as_array().map(|a| a.len()).unwrap_or(0);
            if std::env::var("VERIF_EMIT_DEBUG").is_ok() {
                eprintln!("C04 {}\n  real: {} || {}", op, c_sync, s_sync);
            }
            cs.push("emit", op, format!("{} || {}", c_sync, s_sync), args > 0, format!("{}: {}.{} ({} {}, {} arguments)", label, sname, ename, ep["httpMethod"].as_str().unwrap_or(""), ep["httpPath"].as_str().unwrap_or(""), args));
            if c_sync != c_async {
                cs.fail_last("emit:client-flavours-differ", format!("the blocking and the async client method of {}.{} make different calls: {} vs {}", sname, ename, c_sync, c_async));
            } else if s_sync != s_async {
                cs.fail_last("emit:server-flavours-differ", format!("the blocking and the async trait method of {}.{} carry different attributes: {} vs {}", sname, ename, s_sync, s_async));
            } else if let Some(what) = size_limit_differs(&ep, servers.iter().filter(|e| lit(&e.attr, "name").as_deref() == Some(ename) && (e.trait_name == sname || e.trait_name == format!("Async{}", sname)))) {
                cs.fail_last("emit:size-limit", format!("{}.{}: {} — IR endpoint {}", sname, ename, what, serde_json::to_string(&ep).unwrap().chars().take(600).collect::<String>()));
            } else if c_sync != "missing" && s_sync != "missing" {
                if let Some(what) = halves_agree(&c_sync, &s_sync, ep["httpPath"].as_str().unwrap_or("")).or_else(|| fits_types(&c_sync, &s_sync, &ep, ir)) {
                    cs.fail_last("emit:halves-disagree", format!("generated client and generated server of {}.{} ({} {}) do not fit: {} — IR endpoint {}", sname, ename, ep["httpMethod"].as_str().unwrap_or(""), ep["httpPath"].as_str().unwrap_or(""), what, serde_json::to_string(&ep).unwrap().chars().take(900).collect::<String>()));
                }
            }
        }
    }
}

/// the request-size limit an endpoint declares (`server-limit-request-size:<n><unit>`, blanks around the value allowed),
/// read independently of the generator, against the limit the generated body deserializer carries
fn size_limit_differs<'a>(ep: &Value, methods: impl Iterator<Item = &'a EndpointInfo>) -> Option<String> {
    let tag = ep["tags"].as_array()?.iter().filter_map(|t| t.as_str()).find_map(|t| t.strip_prefix("server-limit-request-size:"))?.trim().to_string();
    let digits: String = tag.chars().take_while(|c| c.is_ascii_digit()).collect();
    let unit = tag[digits.len()..].trim().to_ascii_lowercase();
    let mult: u64 = match unit.as_str() {
        "b" | "" => 1,
        "k" | "kb" => 1000,
        "ki" | "kib" => 1024,
        "m" | "mb" => 1000 * 1000,
        "mi" | "mib" => 1024 * 1024,
        "g" | "gb" => 1000 * 1000 * 1000,
        "gi" | "gib" => 1024 * 1024 * 1024,
        _ => return None,
    };
    let want = digits.parse::<u64>().ok()? * mult;
    for m in methods {
        for a in &m.args {
            if a.kind == "body" && a.attr.contains("StdRequestDeserializer") {
                let compact: String = a.attr.chars().filter(|c| !c.is_whitespace()).collect();
                let got = compact.split("StdRequestDeserializer<").nth(1).map(|r| r.chars().take_while(|c| c.is_ascii_digit()).collect::<String>());
                if got.as_deref().and_then(|g| g.parse::<u64>().ok()) != Some(want) {
                    return Some(format!("the endpoint declares a request size limit of {} bytes (`{}`) but the body of trait {} is read with {}", want, tag, m.trait_name, match &got { Some(g) if !g.is_empty() => format!("a limit of {} bytes", g), _ => "the default limit".to_string() }));
                }
            }
        }
    }
    None
}

/// every parameter kind and the return position against every shape a type can resolve to: directly, through an alias,
/// through an alias of an alias, and through an imported type
const LIMIT_TAGS: [&str; 5] = ["server-limit-request-size: 10kb", "server-limit-request-size:10b", "server-limit-request-size:   2 MiB ", "server-limit-request-size:512", "server-limit-request-size: 3 k"];

fn directed() -> Value {
    use serde_json::json;
    let pkg = "com.palantir.emit";
    let tn = |n: &str| json!({"name": n, "package": pkg});
    let p = |x: &str| json!({"type": "primitive", "primitive": x});
    let r = |n: &str| json!({"type": "reference", "reference": {"name": n, "package": pkg}});
    let opt = |t: Value| json!({"type": "optional", "optional": {"itemType": t}});
    let list = |t: Value| json!({"type": "list", "list": {"itemType": t}});
    let set = |t: Value| json!({"type": "set", "set": {"itemType": t}});
    let map = |k: Value, v: Value| json!({"type": "map", "map": {"keyType": k, "valueType": v}});
    let ext = |n: &str, fb: Value| json!({"type": "external", "external": {"externalReference": {"name": n, "package": "java.lang"}, "fallback": fb}});
    let alias = |n: &str, t: Value| json!({"type": "alias", "alias": {"typeName": tn(n), "alias": t}});
    let types = vec![
        alias("StrAlias", p("STRING")),
        alias("OptStr", opt(p("STRING"))),
        alias("OptOfAlias", r("OptStr")),
        alias("ListInt", list(p("INTEGER"))),
        alias("ListOfAlias", r("ListInt")),
        alias("SetStr", set(p("STRING"))),
        alias("MapAlias", map(p("STRING"), p("INTEGER"))),
        alias("BinAlias", p("BINARY")),
        alias("BinAliasAlias", r("BinAlias")),
        alias("OptBin", opt(p("BINARY"))),
        alias("OptBinAlias", opt(r("BinAlias"))),
        alias("ExtAlias", ext("Str", opt(p("STRING")))),
        json!({"type": "enum", "enum": {"typeName": tn("Colour"), "values": [{"value": "RED"}]}}),
        json!({"type": "object", "object": {"typeName": tn("Thing"), "fields": [{"fieldName": "a", "type": p("INTEGER")}]}}),
        alias("ThingAlias", r("Thing")),
        alias("OptThing", opt(r("Thing"))),
    ];
    let plainish: Vec<(&str, Value)> = vec![
        ("str", p("STRING")), ("strAlias", r("StrAlias")), ("colour", r("Colour")), ("optStr", opt(p("STRING"))), ("optAlias", r("OptStr")), ("optOfAlias", r("OptOfAlias")),
        ("extOpt", ext("E", opt(p("INTEGER")))), ("extAlias", r("ExtAlias")), ("extPlain", ext("E", p("SAFELONG"))), ("optExt", opt(ext("E", p("STRING")))),
        ("listInt", list(p("INTEGER"))), ("listAlias", r("ListInt")), ("listOfAlias", r("ListOfAlias")), ("setStr", set(p("STRING"))), ("setAlias", r("SetStr")), ("extList", ext("L", list(p("STRING")))),
    ];
    let anything: Vec<(&str, Value)> = plainish.iter().cloned().chain(vec![
        ("bin", p("BINARY")), ("binAlias", r("BinAlias")), ("binAliasAlias", r("BinAliasAlias")), ("extBin", ext("B", p("BINARY"))), ("optBin", opt(p("BINARY"))), ("optBinAlias", r("OptBin")),
        ("optOfBinAlias", r("OptBinAlias")), ("extOptBin", ext("B", opt(p("BINARY")))), ("map", map(p("STRING"), p("INTEGER"))), ("mapAlias", r("MapAlias")), ("thing", r("Thing")), ("thingAlias", r("ThingAlias")),
        ("optThing", r("OptThing")), ("optThingDirect", opt(r("Thing"))), ("any", p("ANY")), ("listThing", list(r("Thing"))),
    ]).collect();
    let mut eps = vec![];
    let arg = |n: &str, t: &Value, pt: Value| json!({"argName": n, "type": t, "paramType": pt, "markers": [], "tags": []});
    for (i, (n, t)) in plainish.iter().enumerate() {
        eps.push(json!({"endpointName": format!("q{}", n), "httpMethod": "GET", "httpPath": format!("/q/{}", i), "args": [arg("theArg", t, json!({"type": "query", "query": {"paramId": format!("Query-{}", n)}}))], "markers": [], "tags": []}));
        eps.push(json!({"endpointName": format!("h{}", n), "httpMethod": "GET", "httpPath": format!("/h/{}", i), "args": [arg("type", t, json!({"type": "header", "header": {"paramId": format!("X-Header-{}", n)}}))], "markers": [], "tags": [], "auth": {"type": "header", "header": {}}}));
    }
    for (i, (n, t)) in plainish.iter().take(3).chain(plainish.iter().skip(8).take(1)).enumerate() {
        eps.push(json!({"endpointName": format!("p{}", n), "httpMethod": "GET", "httpPath": format!("/p/{}/{{theArg}}/mid/{{other:.+}}", i), "args": [arg("other", &p("STRING"), json!({"type": "path", "path": {}})), arg("theArg", t, json!({"type": "path", "path": {}}))], "markers": [], "tags": ["server-request-context"], "auth": {"type": "cookie", "cookie": {"cookieName": "SESSION_ID"}}}));
    }
    for (i, (n, t)) in anything.iter().enumerate() {
        eps.push(json!({"endpointName": format!("b{}", n), "httpMethod": "POST", "httpPath": format!("/b/{}", i), "args": [arg("body", t, json!({"type": "body", "body": {}}))], "markers": [], "tags": []}));
        eps.push(json!({"endpointName": format!("r{}", n), "httpMethod": "GET", "httpPath": format!("/r/{}", i), "args": [], "returns": t, "markers": [], "tags": []}));
    }
    for (i, (n, t)) in anything.iter().enumerate() {
        eps.push(json!({"endpointName": format!("limited{}", n), "httpMethod": "PUT", "httpPath": format!("/l/{}", i), "args": [arg("body", t, json!({"type": "body", "body": {}}))], "markers": [], "tags": [LIMIT_TAGS[i % 5]]}));
    }
    eps.push(json!({"endpointName": "noSegments", "httpMethod": "GET", "httpPath": "/", "args": [], "markers": [], "tags": []}));
    // wire ids spelled like the Rust identifier of the argument they belong to
    eps.push(json!({"endpointName": "snakeIds", "httpMethod": "GET", "httpPath": "/snake/{fileName}", "args": [arg("pageSize", &p("INTEGER"), json!({"type": "query", "query": {"paramId": "page_size"}})), arg("maxItems", &opt(p("INTEGER")), json!({"type": "header", "header": {"paramId": "max_items"}})), arg("fileName", &p("STRING"), json!({"type": "path", "path": {}})), arg("type", &p("STRING"), json!({"type": "query", "query": {"paramId": "type_"}}))], "markers": [], "tags": []}));
    eps.push(json!({"endpointName": "paramFirst", "httpMethod": "DELETE", "httpPath": "/{a}/{b}/x/y/{c}", "args": [arg("c", &p("STRING"), json!({"type": "path", "path": {}})), arg("a", &p("INTEGER"), json!({"type": "path", "path": {}})), arg("b", &r("Colour"), json!({"type": "path", "path": {}}))], "markers": [], "tags": []}));
    json!({"version": 1, "errors": [], "types": types, "services": [{"serviceName": tn("EmitService"), "endpoints": eps}], "extensions": {}})
}

pub fn add(cs: &mut Cases, rng: &mut Rng, tier: Tier) {
    let fixed: Vec<(&str, Value)> = vec![
        ("verif.json", serde_json::from_str(verifgen::IR_SRC).unwrap()),
        ("test-ir.json", std::fs::read_to_string(format!("{}/conjure-test/test-ir.json", std::env::var("VERIF_REPO").unwrap_or_else(|_| "/repo".into()))).ok().and_then(|s| serde_json::from_str(&s).ok()).unwrap_or_else(|| serde_json::json!({"types": [], "services": [], "errors": []}))),
    ];
    for (name, ir) in &fixed {
        one_doc(cs, name, ir, &GenCfg::default());
    }
    one_doc(cs, "directed", &directed(), &GenCfg::default());
    let n = if tier == Tier::Quick { 60 } else { 1200 };
    for i in 0..n {
        let ir = irrand::random_ir(rng, &irrand::Opts { max_types: 8, services: true, errors: false, keywords: true, rich_set_items: false });
        let cfg = GenCfg { exhaustive: rng.chance(1, 2), serialize_empty_collections: rng.chance(1, 2), strip_prefix: None, build_crate: None };
        one_doc(cs, &format!("seeded#{}", i), &ir, &cfg);
    }
}
