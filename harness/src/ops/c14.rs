//! C14 — lawful order / equality / hash with doubles at any position.
//!
//! Real side: `conjure_object::private::DoubleOps::{eq,cmp,hash}` on static types (f64, Option, Vec, BTreeMap
//! nestings), `DoubleKey`'s own Eq/Ord/Hash, and the *generated* objects / unions / aliases compiled from
//! gen/ir/verif.json by /repo's generator (educe-derived impls), reached through JSON documents.
//! Model side: the same value as an S-expression over the model's shapes; the only abstraction is
//! f64 -> `nan | k` where k is the order-preserving integer image of the bits (both zeros -> 0).
//! Hashes are compared as the exact word sequence fed to a recording `Hasher`, so "equal hash" means equal for
//! every hasher.
use crate::run::{guarded, Cases, Tier};
use crate::util::Rng;
use conjure_object::private::DoubleOps;
use conjure_object::DoubleKey;
use std::cmp::Ordering;
use std::collections::{BTreeMap, BTreeSet, HashSet};
use std::hash::Hash;
use verifgen::Recorder;

pub const RULE: &str = "non-trivial: the pair involves a NaN, a zero of either sign, an absent/empty container, or two values one of which is a proper prefix of the other";

const STRS: [&str; 6] = ["", "a", "ab", "b", "ba", "z"];

#[derive(Clone, Debug)]
pub enum Sh {
    F,
    /// integer leaf
    K,
    /// string leaf (index into STRS)
    S,
    Opt(Box<Sh>),
    Vec(Box<Sh>),
    SetF,
    MapK(Box<Sh>),
    MapS(Box<Sh>),
    MapF(Box<Sh>),
    Prod(Vec<(&'static str, Sh)>),
    Sum(Vec<(&'static str, Sh)>),
}

#[derive(Clone, Debug)]
pub enum V {
    F(f64),
    K(i64),
    None,
    Some(Box<V>),
    Vec(Vec<V>),
    /// key is F (double key), K (int key or string index)
    Map(Vec<(V, V)>),
    Prod(Vec<V>),
    Sum(usize, Box<V>),
}

pub fn kof(x: f64) -> Option<i64> {
    if x.is_nan() {
        None
    } else if x == 0.0 {
        Some(0)
    } else {
        let b = x.to_bits();
        if b >> 63 == 1 {
            Some(-((b & 0x7fff_ffff_ffff_ffff) as i64))
        } else {
            Some(b as i64)
        }
    }
}

fn fkey(x: f64) -> i64 {
    kof(x).unwrap_or(i64::MAX)
}

impl Sh {
    pub fn model(&self) -> String {
        match self {
            Sh::F => "(f)".into(),
            Sh::K | Sh::S => "(k)".into(),
            Sh::Opt(s) => format!("(opt,{})", s.model()),
            Sh::Vec(s) => format!("(vec,{})", s.model()),
            Sh::SetF => "(vec,(f))".into(),
            Sh::MapK(s) | Sh::MapS(s) | Sh::MapF(s) => format!("(map,{})", s.model()),
            Sh::Prod(fs) => nest("prod", &fs.iter().map(|(_, s)| s.model()).collect::<Vec<_>>()),
            Sh::Sum(vs) => nest("sum", &vs.iter().map(|(_, s)| s.model()).collect::<Vec<_>>()),
        }
    }
}

fn nest(tag: &str, xs: &[String]) -> String {
    match xs {
        [] => unreachable!(),
        [x] => x.clone(),
        [x, rest @ ..] => format!("({},{},{})", tag, x, nest(tag, rest)),
    }
}

fn show_f(x: f64) -> String {
    match kof(x) {
        None => "(f,nan)".into(),
        Some(k) => format!("(f,{})", k),
    }
}

/// canonical form: sets / maps sorted by key (OrderedFloat order for doubles) with later duplicates dropped,
/// exactly what collecting into BTreeSet / BTreeMap-with-first-wins would give; the harness builds the real
/// value from this canonical form, so no insertion-order question arises.
pub fn show(sh: &Sh, v: &V) -> String {
    match (sh, v) {
        (Sh::F, V::F(x)) => show_f(*x),
        (Sh::K | Sh::S, V::K(k)) => format!("(k,{})", k),
        (Sh::Opt(_), V::None) => "(none)".into(),
        (Sh::Opt(s), V::Some(x)) => format!("(some,{})", show(s, x)),
        (Sh::Vec(s), V::Vec(xs)) => format!("(vec{})", xs.iter().map(|x| format!(",{}", show(s, x))).collect::<String>()),
        (Sh::SetF, V::Vec(xs)) => format!("(vec{})", xs.iter().map(|x| format!(",{}", show(&Sh::F, x))).collect::<String>()),
        (Sh::MapK(s) | Sh::MapS(s) | Sh::MapF(s), V::Map(es)) => format!(
            "(map{})",
            es.iter()
                .map(|(k, x)| {
                    let k = match k {
                        V::F(f) => fkey(*f),
                        V::K(k) => *k,
                        _ => unreachable!(),
                    };
                    format!(",(e,{},{})", k, show(s, x))
                })
                .collect::<String>()
        ),
        (Sh::Prod(fs), V::Prod(xs)) => nest("prod", &fs.iter().zip(xs).map(|((_, s), x)| show(s, x)).collect::<Vec<_>>()),
        (Sh::Sum(vs), V::Sum(i, x)) => {
            let inner = show(&vs[*i].1, x);
            let n = vs.len();
            // variant i of n: inr^i (inl v), the last one inr^(n-1) v
            let mut s = if *i + 1 == n { inner } else { format!("(inl,{})", inner) };
            if n == 1 {
                return s;
            }
            for _ in 0..*i {
                s = format!("(inr,{})", s);
            }
            s
        }
        _ => unreachable!("shape/value mismatch {:?} {:?}", sh, v),
    }
}

fn json_f(x: f64) -> String {
    if x.is_nan() {
        "\"NaN\"".into()
    } else if x == f64::INFINITY {
        "\"Infinity\"".into()
    } else if x == f64::NEG_INFINITY {
        "\"-Infinity\"".into()
    } else {
        format!("{:?}", x)
    }
}

fn json_key_f(x: f64) -> String {
    let s = json_f(x);
    if s.starts_with('"') {
        s
    } else {
        format!("\"{}\"", s)
    }
}

pub fn json(sh: &Sh, v: &V) -> String {
    match (sh, v) {
        (Sh::F, V::F(x)) => json_f(*x),
        (Sh::K, V::K(k)) => format!("{}", k),
        (Sh::S, V::K(k)) => format!("\"{}\"", STRS[*k as usize]),
        (Sh::Opt(_), V::None) => "null".into(),
        (Sh::Opt(s), V::Some(x)) => json(s, x),
        (Sh::Vec(s), V::Vec(xs)) => format!("[{}]", xs.iter().map(|x| json(s, x)).collect::<Vec<_>>().join(",")),
        (Sh::SetF, V::Vec(xs)) => format!("[{}]", xs.iter().map(|x| json(&Sh::F, x)).collect::<Vec<_>>().join(",")),
        (Sh::MapK(s) | Sh::MapS(s) | Sh::MapF(s), V::Map(es)) => format!(
            "{{{}}}",
            es.iter()
                .map(|(k, x)| {
                    let k = match (sh, k) {
                        (Sh::MapF(_), V::F(f)) => json_key_f(*f),
                        (Sh::MapS(_), V::K(k)) => format!("\"{}\"", STRS[*k as usize]),
                        (_, V::K(k)) => format!("\"{}\"", k),
                        _ => unreachable!(),
                    };
                    format!("{}:{}", k, json(s, x))
                })
                .collect::<Vec<_>>()
                .join(",")
        ),
        (Sh::Prod(fs), V::Prod(xs)) => format!(
            "{{{}}}",
            fs.iter()
                .zip(xs)
                .filter(|((_, s), x)| !(matches!(s, Sh::Opt(_)) && matches!(x, V::None)))
                .map(|((n, s), x)| format!("\"{}\":{}", n, json(s, x)))
                .collect::<Vec<_>>()
                .join(",")
        ),
        (Sh::Sum(vs), V::Sum(i, x)) => format!("{{\"type\":\"{}\",\"{}\":{}}}", vs[*i].0, vs[*i].0, json(&vs[*i].1, x)),
        _ => unreachable!(),
    }
}

const SPECIAL: [u64; 20] = [
    0x7ff8_0000_0000_0000, // NaN
    0xfff8_0000_0000_0000, // -NaN
    0x7ff8_0000_0000_0001, // NaN payload
    0x7ff0_0000_0000_0001, // signalling NaN
    0x0000_0000_0000_0000, // +0
    0x8000_0000_0000_0000, // -0
    0x7ff0_0000_0000_0000, // +inf
    0xfff0_0000_0000_0000, // -inf
    0x0000_0000_0000_0001, // min subnormal
    0x8000_0000_0000_0001,
    0x0010_0000_0000_0000, // min normal
    0x3ff0_0000_0000_0000, // 1
    0xbff0_0000_0000_0000, // -1
    0x3ff8_0000_0000_0000, // 1.5
    0x7fef_ffff_ffff_ffff, // MAX
    0xffef_ffff_ffff_ffff, // MIN
    0x3fb9_9999_9999_999a, // 0.1
    0x4000_0000_0000_0000, // 2
    0xc000_0000_0000_0000, // -2
    0x3ff0_0000_0000_0001, // 1+ulp
];

fn gen_f(rng: &mut Rng) -> f64 {
    match rng.below(10) {
        0..=5 => f64::from_bits(SPECIAL[rng.below(SPECIAL.len())]),
        6 | 7 => rng.range(-3, 3) as f64,
        8 => rng.range(-30, 30) as f64 / 4.0,
        _ => f64::from_bits(rng.next()),
    }
}

fn ord_f(a: f64, b: f64) -> Ordering {
    match (kof(a), kof(b)) {
        (None, None) => Ordering::Equal,
        (None, _) => Ordering::Greater,
        (_, None) => Ordering::Less,
        (Some(x), Some(y)) => x.cmp(&y),
    }
}

pub fn gen(sh: &Sh, rng: &mut Rng, depth: usize) -> V {
    let n = |rng: &mut Rng| if depth > 3 { rng.below(2) } else { rng.below(4) };
    match sh {
        Sh::F => V::F(gen_f(rng)),
        Sh::K => V::K(rng.range(-2, 2)),
        Sh::S => V::K(rng.below(STRS.len()) as i64),
        Sh::Opt(s) => {
            if rng.chance(1, 3) {
                V::None
            } else {
                V::Some(Box::new(gen(s, rng, depth + 1)))
            }
        }
        Sh::Vec(s) => V::Vec((0..n(rng)).map(|_| gen(s, rng, depth + 1)).collect()),
        Sh::SetF => {
            let mut xs: Vec<f64> = (0..n(rng)).map(|_| gen_f(rng)).collect();
            xs.sort_by(|a, b| ord_f(*a, *b));
            xs.dedup_by(|a, b| ord_f(*a, *b) == Ordering::Equal);
            V::Vec(xs.into_iter().map(V::F).collect())
        }
        Sh::MapK(s) | Sh::MapS(s) => {
            let mut ks: Vec<i64> = (0..n(rng)).map(|_| if matches!(sh, Sh::MapS(_)) { rng.below(STRS.len()) as i64 } else { rng.range(-2, 2) }).collect();
            ks.sort();
            ks.dedup();
            // string keys are ordered as strings: STRS is sorted, so index order = string order
            V::Map(ks.into_iter().map(|k| (V::K(k), gen(s, rng, depth + 1))).collect())
        }
        Sh::MapF(s) => {
            let mut ks: Vec<f64> = (0..n(rng)).map(|_| gen_f(rng)).collect();
            ks.sort_by(|a, b| ord_f(*a, *b));
            ks.dedup_by(|a, b| ord_f(*a, *b) == Ordering::Equal);
            V::Map(ks.into_iter().map(|k| (V::F(k), gen(s, rng, depth + 1))).collect())
        }
        Sh::Prod(fs) => V::Prod(fs.iter().map(|(_, s)| gen(s, rng, depth + 1)).collect()),
        Sh::Sum(vs) => {
            let i = rng.below(vs.len());
            V::Sum(i, Box::new(gen(&vs[i].1, rng, depth + 1)))
        }
    }
}

/// a value close to `v`: equal up to NaN payload / zero sign, or differing in one late position
pub fn tweak(sh: &Sh, v: &V, rng: &mut Rng) -> V {
    match (sh, v) {
        (Sh::F, V::F(x)) => {
            if x.is_nan() {
                V::F(f64::from_bits(SPECIAL[rng.below(4)]))
            } else if *x == 0.0 {
                V::F(if rng.chance(1, 2) { 0.0 } else { -0.0 })
            } else if rng.chance(1, 2) {
                V::F(*x)
            } else {
                V::F(gen_f(rng))
            }
        }
        (Sh::Opt(s), V::Some(x)) => {
            if rng.chance(1, 5) {
                V::None
            } else {
                V::Some(Box::new(tweak(s, x, rng)))
            }
        }
        (Sh::Vec(s), V::Vec(xs)) => {
            let mut ys: Vec<V> = xs.iter().map(|x| if rng.chance(1, 3) { tweak(s, x, rng) } else { x.clone() }).collect();
            match rng.below(4) {
                0 => {
                    ys.pop();
                }
                1 => ys.push(gen(s, rng, 3)),
                _ => {}
            }
            V::Vec(ys)
        }
        (Sh::MapK(s) | Sh::MapS(s) | Sh::MapF(s), V::Map(es)) => {
            let mut ys: Vec<(V, V)> = es.iter().map(|(k, x)| (k.clone(), if rng.chance(1, 3) { tweak(s, x, rng) } else { x.clone() })).collect();
            if rng.chance(1, 4) {
                ys.pop();
            }
            V::Map(ys)
        }
        (Sh::Prod(fs), V::Prod(xs)) => V::Prod(fs.iter().zip(xs).map(|((_, s), x)| if rng.chance(1, 3) { tweak(s, x, rng) } else { x.clone() }).collect()),
        (Sh::Sum(vs), V::Sum(i, x)) => {
            if rng.chance(1, 5) {
                gen(sh, rng, 2)
            } else {
                V::Sum(*i, Box::new(tweak(&vs[*i].1, x, rng)))
            }
        }
        _ => v.clone(),
    }
}

fn interesting(sh: &Sh, v: &V) -> bool {
    match (sh, v) {
        (_, V::F(x)) => x.is_nan() || *x == 0.0,
        (_, V::None) => true,
        (Sh::Opt(s), V::Some(x)) => interesting(s, x),
        (Sh::Vec(s), V::Vec(xs)) => xs.is_empty() || xs.iter().any(|x| interesting(s, x)),
        (Sh::SetF, V::Vec(xs)) => xs.is_empty() || xs.iter().any(|x| interesting(&Sh::F, x)),
        (Sh::MapK(s) | Sh::MapS(s) | Sh::MapF(s), V::Map(es)) => es.is_empty() || es.iter().any(|(k, x)| interesting(&Sh::F, k) || interesting(s, x)),
        (Sh::Prod(fs), V::Prod(xs)) => fs.iter().zip(xs).any(|((_, s), x)| interesting(s, x)),
        (Sh::Sum(vs), V::Sum(i, x)) => interesting(&vs[*i].1, x),
        _ => false,
    }
}

/// static types: shape descriptor + construction from a canonical `V`
pub trait St: Sized {
    fn sh() -> Sh;
    fn build(v: &V) -> Self;
}
impl St for f64 {
    fn sh() -> Sh {
        Sh::F
    }
    fn build(v: &V) -> f64 {
        match v {
            V::F(x) => *x,
            _ => unreachable!(),
        }
    }
}
impl<T: St> St for Option<T> {
    fn sh() -> Sh {
        Sh::Opt(Box::new(T::sh()))
    }
    fn build(v: &V) -> Self {
        match v {
            V::None => None,
            V::Some(x) => Some(T::build(x)),
            _ => unreachable!(),
        }
    }
}
impl<T: St> St for Vec<T> {
    fn sh() -> Sh {
        Sh::Vec(Box::new(T::sh()))
    }
    fn build(v: &V) -> Self {
        match v {
            V::Vec(xs) => xs.iter().map(T::build).collect(),
            _ => unreachable!(),
        }
    }
}
impl<T: St> St for BTreeMap<i64, T> {
    fn sh() -> Sh {
        Sh::MapK(Box::new(T::sh()))
    }
    fn build(v: &V) -> Self {
        match v {
            V::Map(es) => es.iter().map(|(k, x)| (if let V::K(k) = k { *k } else { unreachable!() }, T::build(x))).collect(),
            _ => unreachable!(),
        }
    }
}
impl<T: St> St for BTreeMap<String, T> {
    fn sh() -> Sh {
        Sh::MapS(Box::new(T::sh()))
    }
    fn build(v: &V) -> Self {
        match v {
            V::Map(es) => es.iter().map(|(k, x)| (if let V::K(k) = k { STRS[*k as usize].to_string() } else { unreachable!() }, T::build(x))).collect(),
            _ => unreachable!(),
        }
    }
}
impl<T: St> St for BTreeMap<DoubleKey, T> {
    fn sh() -> Sh {
        Sh::MapF(Box::new(T::sh()))
    }
    fn build(v: &V) -> Self {
        match v {
            V::Map(es) => es.iter().map(|(k, x)| (if let V::F(k) = k { DoubleKey(*k) } else { unreachable!() }, T::build(x))).collect(),
            _ => unreachable!(),
        }
    }
}

struct Obs {
    eq: bool,
    cmp: i8,
    words: (Vec<u8>, Vec<u8>),
}

fn words_ops<T: DoubleOps>(v: &T) -> Vec<u8> {
    let mut r = Recorder::default();
    DoubleOps::hash(v, &mut r);
    r.0
}

fn words_std<T: Hash>(v: &T) -> Vec<u8> {
    let mut r = Recorder::default();
    v.hash(&mut r);
    r.0
}

fn pool(sh: &Sh, rng: &mut Rng, n: usize) -> Vec<V> {
    let mut vs: Vec<V> = vec![];
    while vs.len() < n {
        let v = gen(sh, rng, 0);
        vs.push(v.clone());
        if vs.len() < n && rng.chance(2, 3) {
            vs.push(tweak(sh, &v, rng));
        }
        if vs.len() < n && rng.chance(1, 3) {
            let last = vs.last().unwrap().clone();
            vs.push(tweak(sh, &last, rng));
        }
    }
    vs
}

/// all pairs of the pool against the model, plus the laws themselves on the real observations (oracle)
fn run_pool(cs: &mut Cases, label: &str, sh: &Sh, vs: &[V], obs: &dyn Fn(usize, usize) -> Result<Obs, String>) {
    let n = vs.len();
    let shape = sh.model();
    let mut m: Vec<Vec<Option<Obs>>> = vec![];
    for i in 0..n {
        let mut row = vec![];
        for j in 0..n {
            let o = obs(i, j);
            let (a, b) = (show(sh, &vs[i]), show(sh, &vs[j]));
            let real = match &o {
                Ok(o) => format!("eq={} cmp={} heq={}", o.eq as u8, o.cmp, (o.words.0 == o.words.1) as u8),
                Err(e) => format!("panic {}", e),
            };
            let nontrivial = interesting(sh, &vs[i]) || interesting(sh, &vs[j]);
            cs.push(label, format!("ops {} {} {}", shape, a, b), real.clone(), nontrivial, format!("{} a={} b={}", label, json(sh, &vs[i]), json(sh, &vs[j])));
            match &o {
                Err(e) => cs.fail_last(&format!("{}:panic", label), format!("comparison panicked: {}", e)),
                Ok(o) => {
                    if i == j && !o.eq {
                        cs.fail_last(&format!("{}:eq-not-reflexive", label), format!("a value is not equal to itself: {}", json(sh, &vs[i])));
                    } else if (o.cmp == 0) != o.eq {
                        cs.fail_last(&format!("{}:cmp-eq-inconsistent", label), format!("cmp={} but eq={} for {} vs {}", o.cmp, o.eq, json(sh, &vs[i]), json(sh, &vs[j])));
                    } else if o.eq && o.words.0 != o.words.1 {
                        cs.fail_last(&format!("{}:hash-differs-for-equal", label), format!("equal values hash differently: {} vs {}", json(sh, &vs[i]), json(sh, &vs[j])));
                    }
                }
            }
            row.push(o.ok());
        }
        m.push(row);
    }
    let c = |i: usize, j: usize| m[i][j].as_ref().map(|o| o.cmp);
    for i in 0..n {
        for j in 0..n {
            if let (Some(a), Some(b)) = (c(i, j), c(j, i)) {
                if a != -b {
                    cs.push(label, "noop".into(), "noop".into(), true, format!("{} antisymmetry a={} b={}", label, json(sh, &vs[i]), json(sh, &vs[j])));
                    cs.fail_last(&format!("{}:not-antisymmetric", label), format!("cmp(a,b)={} but cmp(b,a)={} for a={} b={}", a, b, json(sh, &vs[i]), json(sh, &vs[j])));
                }
            }
            for k in 0..n {
                if let (Some(ab), Some(bc), Some(ac)) = (c(i, j), c(j, k), c(i, k)) {
                    if ab <= 0 && bc <= 0 && ac > 0 {
                        cs.push(label, "noop".into(), "noop".into(), true, format!("{} transitivity", label));
                        cs.fail_last(&format!("{}:not-transitive", label), format!("a<=b, b<=c but a>c for a={} b={} c={}", json(sh, &vs[i]), json(sh, &vs[j]), json(sh, &vs[k])));
                    }
                }
            }
        }
    }
}

fn run_static<T: St + DoubleOps>(cs: &mut Cases, rng: &mut Rng, n: usize, label: &str) {
    let sh = T::sh();
    let vs = pool(&sh, rng, n);
    let ts: Vec<T> = vs.iter().map(T::build).collect();
    run_pool(cs, label, &sh, &vs, &|i, j| {
        guarded(|| Obs { eq: DoubleOps::eq(&ts[i], &ts[j]), cmp: DoubleOps::cmp(&ts[i], &ts[j]) as i8, words: (words_ops(&ts[i]), words_ops(&ts[j])) })
    });
}

fn run_double_key(cs: &mut Cases, rng: &mut Rng, n: usize) {
    let vs = pool(&Sh::F, rng, n);
    let ts: Vec<DoubleKey> = vs.iter().map(|v| DoubleKey(f64::build(v))).collect();
    run_pool(cs, "DoubleKey", &Sh::F, &vs, &|i, j| {
        guarded(|| {
            let pc = ts[i].partial_cmp(&ts[j]);
            let c = ts[i].cmp(&ts[j]);
            assert!(pc == Some(c), "partial_cmp disagrees with cmp");
            // the comparison operators are what `sort` and `BTreeSet::from_iter` use: they must say what `cmp` says
            assert!((ts[i] < ts[j]) == (c == Ordering::Less) && (ts[i] <= ts[j]) == (c != Ordering::Greater) && (ts[i] > ts[j]) == (c == Ordering::Greater) && (ts[i] >= ts[j]) == (c != Ordering::Less), "partial_cmp disagrees with cmp");
            Obs { eq: ts[i] == ts[j], cmp: c as i8, words: (words_std(&ts[i]), words_std(&ts[j])) }
        })
    });
    // sets of DoubleKey: insertion then lookup, against the model's sorted-list set
    for _ in 0..n {
        let xs: Vec<f64> = (0..rng.below(7)).map(|_| gen_f(rng)).collect();
        let x = if !xs.is_empty() && rng.chance(1, 2) { f64::build(&tweak(&Sh::F, &V::F(xs[rng.below(xs.len())]), rng)) } else { gen_f(rng) };
        let mut bs: BTreeSet<DoubleKey> = BTreeSet::new();
        let mut hs: HashSet<DoubleKey> = HashSet::new();
        for y in xs.iter().chain(std::iter::once(&x)) {
            bs.insert(DoubleKey(*y));
            hs.insert(DoubleKey(*y));
        }
        let found = bs.contains(&DoubleKey(x));
        let all = xs.iter().all(|y| bs.contains(&DoubleKey(*y)));
        let hall = xs.iter().chain(std::iter::once(&x)).all(|y| hs.contains(&DoubleKey(*y)));
        let op = format!("set (f) (vec{}) {}", xs.iter().map(|y| format!(",{}", show_f(*y))).collect::<String>(), show_f(x));
        cs.push("DoubleKey-set", op, format!("len={} found={} all={}", bs.len(), found as u8, all as u8), true, format!("insert {:?} then {:?}", xs, x));
        if !found || !all {
            cs.fail_last("DoubleKey-set:not-found", format!("a DoubleKey inserted into a BTreeSet is not found again: {:?} then {:?}", xs, x));
        } else if !hall || hs.len() != bs.len() {
            cs.fail_last("DoubleKey-set:hashset", format!("HashSet<DoubleKey> disagrees with BTreeSet: {:?} then {:?}", xs, x));
        }
    }
}

fn inner_sh() -> Sh {
    Sh::Prod(vec![("x", Sh::F), ("y", Sh::Opt(Box::new(Sh::F)))])
}
fn union_sh() -> Sh {
    Sh::Sum(vec![("a", Sh::F), ("b", Sh::Vec(Box::new(Sh::F))), ("c", inner_sh())])
}

/// generated types of gen/ir/verif.json that contain doubles, with the model shape of what educe derives for them
/// (fields / variants in declaration order; fields of `Colls` not listed here are left empty in every document)
pub fn generated() -> Vec<(&'static str, Sh)> {
    let b = |s: Sh| Box::new(s);
    vec![
        ("DblAlias", Sh::F),
        ("SetDblAlias", Sh::SetF),
        ("DblKeyMapAlias", Sh::MapF(b(Sh::S))),
        ("DoublesInner", inner_sh()),
        ("DblUnion", union_sh()),
        (
            "Doubles",
            Sh::Prod(vec![
                ("d", Sh::F),
                ("od", Sh::Opt(b(Sh::F))),
                ("ld", Sh::Vec(b(Sh::F))),
                ("md", Sh::MapS(b(Sh::F))),
                ("da", Sh::F),
                ("inner", inner_sh()),
                ("mk", Sh::MapF(b(Sh::F))),
                ("sd", Sh::SetF),
                ("lo", Sh::Vec(b(Sh::Opt(b(Sh::F))))),
                ("u", Sh::Opt(b(union_sh()))),
            ]),
        ),
        (
            "Colls",
            Sh::Prod(vec![
                ("ls", Sh::Vec(b(Sh::S))),
                ("ld", Sh::Vec(b(Sh::F))),
                ("sd", Sh::SetF),
                ("md", Sh::MapS(b(Sh::F))),
                ("mkd", Sh::MapF(b(Sh::K))),
                ("lopt", Sh::Vec(b(Sh::Opt(b(Sh::K))))),
            ]),
        ),
    ]
}

fn run_generated(cs: &mut Cases, rng: &mut Rng, triples: usize, sets: usize) {
    let reg: std::collections::HashMap<&'static str, verifgen::Entry> = verifgen::registry().into_iter().map(|e| (e.name, e)).collect();
    for (name, sh) in generated() {
        let e = &reg[name];
        let label = format!("gen:{}", name);
        let shape = sh.model();
        for _ in 0..triples {
            let vs = pool(&sh, rng, 3);
            let docs: Vec<String> = vs.iter().map(|v| json(&sh, v)).collect();
            let laws = guarded(|| (e.laws)([docs[0].as_bytes(), docs[1].as_bytes(), docs[2].as_bytes()]));
            for i in 0..3 {
                for j in 0..3 {
                    let real = match &laws {
                        Ok(Ok(l)) => format!("eq={} cmp={} heq={}", l.eq[i][j] as u8, l.cmp[i][j], l.hash_eq[i][j] as u8),
                        Ok(Err(e)) => format!("de-error {}", e),
                        Err(e) => format!("panic {}", e),
                    };
                    let nontrivial = interesting(&sh, &vs[i]) || interesting(&sh, &vs[j]);
                    cs.push(&label, format!("ops {} {} {}", shape, show(&sh, &vs[i]), show(&sh, &vs[j])), real, nontrivial, format!("{} a={} b={}", name, docs[i], docs[j]));
                    if let Ok(Ok(l)) = &laws {
                        if i == j && !l.eq[i][i] {
                            cs.fail_last(&format!("{}:eq-not-reflexive", label), format!("{} deserialized twice from {} is not equal to itself", name, docs[i]));
                        } else if (l.cmp[i][j] == 0) != l.eq[i][j] {
                            cs.fail_last(&format!("{}:cmp-eq-inconsistent", label), format!("{}: cmp={} but eq={} for {} vs {}", name, l.cmp[i][j], l.eq[i][j], docs[i], docs[j]));
                        } else if l.eq[i][j] && !l.hash_eq[i][j] {
                            cs.fail_last(&format!("{}:hash-differs-for-equal", label), format!("{}: equal values hash differently: {} vs {}", name, docs[i], docs[j]));
                        } else if l.cmp[i][j] != -l.cmp[j][i] {
                            cs.fail_last(&format!("{}:not-antisymmetric", label), format!("{}: cmp(a,b)={} cmp(b,a)={} for {} vs {}", name, l.cmp[i][j], l.cmp[j][i], docs[i], docs[j]));
                        }
                    }
                }
            }
            if let Ok(Ok(l)) = &laws {
                let mut bad = None;
                for i in 0..3 {
                    for j in 0..3 {
                        for k in 0..3 {
                            if l.cmp[i][j] <= 0 && l.cmp[j][k] <= 0 && l.cmp[i][k] > 0 {
                                bad = Some(format!("{}: a<=b, b<=c but a>c for a={} b={} c={}", name, docs[i], docs[j], docs[k]));
                            }
                        }
                    }
                }
                let other = if !l.partial_is_cmp {
                    Some("partial_cmp disagrees with cmp")
                } else if !l.lt_le_consistent {
                    Some("< / <= disagree with cmp")
                } else if !l.btree_finds {
                    Some("a value inserted into a BTreeSet is not found again")
                } else if !l.hashset_finds {
                    Some("a value inserted into a HashSet is not found again")
                } else {
                    None
                };
                if let Some(w) = bad {
                    cs.push(&label, "noop".into(), "noop".into(), true, format!("{} transitivity", name));
                    cs.fail_last(&format!("{}:not-transitive", label), w);
                }
                if let Some(w) = other {
                    cs.push(&label, "noop".into(), "noop".into(), true, format!("{} {:?}", name, docs));
                    cs.fail_last(&format!("{}:set-or-partial", label), format!("{}: {} for {:?}", name, w, docs));
                }
            } else {
                cs.push(&label, "noop".into(), "noop".into(), true, format!("{} {:?}", name, docs));
                cs.fail_last(&format!("{}:rejected", label), format!("{}: a document the harness built from valid values was rejected or panicked: {:?} ({:?})", name, docs, laws.as_ref().map(|r| r.as_ref().err())));
            }
        }
        for _ in 0..sets {
            let n = 1 + rng.below(6);
            let vs = pool(&sh, rng, n + 1);
            let docs: Vec<String> = vs.iter().map(|v| json(&sh, v)).collect();
            let refs: Vec<&[u8]> = docs.iter().map(|d| d.as_bytes()).collect();
            let r = guarded(|| (e.set_probe)(&refs));
            let real = match &r {
                Ok(Ok((bl, _, ball, _, _))) => format!("len={} found={} all={}", bl, *ball as u8, *ball as u8),
                Ok(Err(e)) => format!("de-error {}", e),
                Err(e) => format!("panic {}", e),
            };
            let op = format!("set {} (vec{}) {}", shape, vs[..n].iter().map(|v| format!(",{}", show(&sh, v))).collect::<String>(), show(&sh, &vs[n]));
            cs.push(&format!("{}-set", label), op, real, true, format!("{} {:?}", name, docs));
            match &r {
                Ok(Ok((bl, hl, ball, hall, twice))) => {
                    if !ball || !hall {
                        cs.fail_last(&format!("{}:not-found", label), format!("{}: a value inserted into a set is not found again (btree all={} hash all={}) docs={:?}", name, ball, hall, docs));
                    } else if bl != hl {
                        cs.fail_last(&format!("{}:set-sizes", label), format!("{}: BTreeSet holds {} values, HashSet {} for docs={:?}", name, bl, hl, docs));
                    } else if !twice {
                        cs.fail_last(&format!("{}:twice", label), format!("{}: deserializing one document twice yields unequal values, docs={:?}", name, docs));
                    }
                }
                _ => cs.fail_last(&format!("{}:rejected", label), format!("{}: rejected or panicked: {:?}", name, docs)),
            }
        }
    }
}

pub fn cases(seed: u64, tier: Tier) -> Cases {
    let mut cs = Cases::new("C14");
    let mut rng = Rng::new(seed);
    let (n, triples, sets) = if tier == Tier::Quick { (10, 40, 40) } else { (26, 600, 600) };
    let r = &mut rng;
    run_static::<f64>(&mut cs, r, n + 6, "f64");
    run_static::<Option<f64>>(&mut cs, r, n, "Option<f64>");
    run_static::<Vec<f64>>(&mut cs, r, n, "Vec<f64>");
    run_static::<BTreeMap<i64, f64>>(&mut cs, r, n, "BTreeMap<i64,f64>");
    run_static::<BTreeMap<String, f64>>(&mut cs, r, n, "BTreeMap<String,f64>");
    run_static::<BTreeMap<DoubleKey, f64>>(&mut cs, r, n, "BTreeMap<DoubleKey,f64>");
    run_static::<Option<Option<f64>>>(&mut cs, r, n, "Option<Option<f64>>");
    run_static::<Option<Vec<f64>>>(&mut cs, r, n, "Option<Vec<f64>>");
    run_static::<Vec<Option<f64>>>(&mut cs, r, n, "Vec<Option<f64>>");
    run_static::<Vec<Vec<f64>>>(&mut cs, r, n, "Vec<Vec<f64>>");
    run_static::<Vec<BTreeMap<i64, Option<f64>>>>(&mut cs, r, n, "Vec<BTreeMap<i64,Option<f64>>>");
    run_static::<BTreeMap<String, Vec<Option<f64>>>>(&mut cs, r, n, "BTreeMap<String,Vec<Option<f64>>>");
    run_static::<BTreeMap<i64, BTreeMap<DoubleKey, Vec<f64>>>>(&mut cs, r, n, "BTreeMap<i64,BTreeMap<DoubleKey,Vec<f64>>>");
    run_static::<Option<Vec<BTreeMap<String, Option<Vec<f64>>>>>>(&mut cs, r, n, "Option<Vec<BTreeMap<String,Option<Vec<f64>>>>>");
    run_double_key(&mut cs, r, n + 6);
    run_generated(&mut cs, r, triples, sets);
    cs
}
