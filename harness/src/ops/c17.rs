//! C17 — conjure_error::encode, Error::service / propagated_service partition, status codes, the
//! generator's safe_args, and the JSON round trip of SerializableError.
use crate::dynval::*;
use crate::irgen;
use crate::run::{guarded, Cases, Tier};
use crate::util::{hex, Rng};
use conjure_error::{encode, Error, ErrorCode, ErrorType, SerializableError};
use conjure_object::Uuid;
use serde::{Serialize, Serializer};
use std::collections::BTreeMap;

struct DynError {
    code: ErrorCode,
    name: String,
    safe: &'static [&'static str],
    ty: DynTy,
    val: DynVal,
    id: Option<Uuid>,
}

impl Serialize for DynError {
    fn serialize<S: Serializer>(&self, s: S) -> Result<S::Ok, S::Error> {
        Typed(&self.ty, &self.val).serialize(s)
    }
}

impl ErrorType for DynError {
    fn code(&self) -> ErrorCode {
        self.code.clone()
    }
    fn name(&self) -> &str {
        &self.name
    }
    fn instance_id(&self) -> Option<Uuid> {
        self.id
    }
    fn safe_args(&self) -> &'static [&'static str] {
        self.safe
    }
}

fn core(t: &DynTy) -> &DynTy {
    match t {
        DynTy::Opt(t) | DynTy::Newtype(t) => core(t),
        t => t,
    }
}

/// canonical text of a parameter: doubles by value (the text is Rust's Display), everything else verbatim
fn ptext(field_ty: &DynTy, text: &str) -> String {
    if matches!(core(field_ty), DynTy::F64 | DynTy::F32) {
        if let Ok(d) = text.parse::<f64>() {
            return format!("d:{}", Dbl::of(d).txt());
        }
    }
    format!("t:{}", hex(text.as_bytes()))
}

fn show_params(fields: &[(String, DynTy)], params: &BTreeMap<String, String>) -> String {
    let mut items: Vec<(String, String)> = params
        .iter()
        .map(|(k, v)| {
            let ft = fields.iter().find(|f| &f.0 == k).map(|f| &f.1).unwrap_or(&DynTy::Str);
            (hex(k.as_bytes()), ptext(ft, v))
        })
        .collect();
    items.sort();
    if items.is_empty() {
        "-".into()
    } else {
        items.iter().map(|(k, v)| format!("{}={}", k, v)).collect::<Vec<_>>().join(";")
    }
}

/// the statement's rule, written independently: which parameters appear and with what text
fn spec_text(t: &DynTy, v: &DynVal) -> Option<String> {
    match (t, v) {
        (DynTy::Bool, DynVal::Bool(b)) => Some(format!("t:{}", hex(b.to_string().as_bytes()))),
        (DynTy::Int(_, bits), DynVal::Int(n)) if *bits <= 64 => Some(format!("t:{}", hex(n.to_string().as_bytes()))),
        (DynTy::F64, DynVal::F64(d)) | (DynTy::F32, DynVal::F32(d)) => Some(format!("d:{}", d.txt())),
        (DynTy::Str, DynVal::Str(s)) => Some(format!("t:{}", hex(s.as_bytes()))),
        (DynTy::Uuid, DynVal::Uuid(b)) => Some(format!("t:{}", hex(Uuid::from_bytes(*b).hyphenated().to_string().as_bytes()))),
        (DynTy::Opt(t), DynVal::Some(v)) | (DynTy::Newtype(t), DynVal::Newtype(v)) => spec_text(t, v),
        (DynTy::Enum(vs), DynVal::Variant(i, _)) if vs[*i].1 == VKind::Unit => Some(format!("t:{}", hex(vs[*i].0.as_bytes()))),
        _ => None, // lists, maps, objects, binary, absent optionals, unit
    }
}

fn random_param_ty(rng: &mut Rng) -> DynTy {
    match rng.below(18) {
        0 => DynTy::Str,
        1 => DynTy::Bool,
        2 => DynTy::Int(true, 32),
        3 => DynTy::Int(true, 64),
        4 => DynTy::F64,
        5 => DynTy::Uuid,
        6 => DynTy::Bytes,
        7 => DynTy::Opt(Box::new(DynTy::Str)),
        8 => DynTy::Opt(Box::new(DynTy::Int(true, 32))),
        9 => DynTy::Seq(Box::new(DynTy::Str)),
        10 => DynTy::Map(Box::new(DynTy::Str), Box::new(DynTy::Int(true, 32))),
        11 => DynTy::Struct(vec![("x".into(), DynTy::Bool)]),
        12 => DynTy::Enum(vec![("ONE".into(), VKind::Unit, DynTy::Unit), ("TWO_2".into(), VKind::Unit, DynTy::Unit)]),
        13 => DynTy::Newtype(Box::new(DynTy::Str)),
        14 => DynTy::Newtype(Box::new(DynTy::F64)),
        15 => DynTy::Int(false, 16),
        // unsigned 64-bit values (hashes, counters; what a JSON reader makes of a non-negative integer in an `any`)
        16 => DynTy::Int(false, 64),
        _ => DynTy::Newtype(Box::new(DynTy::Int(false, 64))),
    }
}

const CODES: [(&str, u16); 10] = [("PermissionDenied", 403), ("InvalidArgument", 400), ("NotFound", 404), ("Conflict", 409), ("RequestEntityTooLarge", 413), ("FailedPrecondition", 500), ("Internal", 500), ("Timeout", 500), ("CustomClient", 400), ("CustomServer", 500)];

fn code_of(i: usize) -> ErrorCode {
    match i % 10 {
        0 => ErrorCode::PermissionDenied,
        1 => ErrorCode::InvalidArgument,
        2 => ErrorCode::NotFound,
        3 => ErrorCode::Conflict,
        4 => ErrorCode::RequestEntityTooLarge,
        5 => ErrorCode::FailedPrecondition,
        6 => ErrorCode::Internal,
        7 => ErrorCode::Timeout,
        8 => ErrorCode::CustomClient,
        _ => ErrorCode::CustomServer,
    }
}

pub fn cases(seed: u64, tier: Tier) -> Cases {
    let mut rng = Rng::new(seed);
    let mut cs = Cases::new("C17");
    // status codes: all of them
    for (i, (name, want)) in CODES.iter().enumerate() {
        let got = code_of(i).status_code();
        cs.push("status", format!("status {}", name), got.to_string(), true, format!("ErrorCode::{}.status_code()", name));
        if got != *want {
            cs.fail_last("status:wrong", format!("{} maps to {} but the specification says {}", name, got, want));
        }
    }
    let names = ["alpha", "beta", "gamma", "safeOne", "z", "a-b", "type", "é"];
    let n = if tier == Tier::Quick { 1500 } else { 20000 };
    for i in 0..n {
        let k = rng.below(6);
        let mut pool: Vec<&str> = names.to_vec();
        let fields: Vec<(String, DynTy)> = (0..k)
            .map(|_| {
                let j = rng.below(pool.len());
                (pool.remove(j).to_string(), random_param_ty(&mut rng))
            })
            .collect();
        let ty = DynTy::Struct(fields.clone());
        let val = random_val(&mut rng, &ty, 3);
        let safe_names: Vec<&str> = fields.iter().filter(|_| rng.chance(1, 2)).map(|f| f.0.as_str()).collect();
        let safe = leak_list(safe_names.clone());
        let id = if rng.chance(1, 2) { Some(Uuid::from_bytes([i as u8; 16])) } else { None };
        let code = code_of(i);
        let name = format!("Ns{}:Name{}", i % 7, i % 5);

        // ---- encode
        let e = DynError { code: code.clone(), name: name.clone(), safe, ty: ty.clone(), val: val.clone(), id };
        let r = guarded(|| {
            let a = encode(&e);
            let b = encode(&e);
            // the same error reached through a reference (`impl ErrorType for &T`) and through `Error::service`
            let by_ref = encode(&&e);
            assert!(by_ref.error_code() == a.error_code() && by_ref.error_name() == a.error_name() && by_ref.parameters() == a.parameters(), "BYREF: encode(&&e) differs from encode(&e): {:?} vs {:?}", by_ref, a);
            if let Some(id) = id {
                assert!(by_ref.error_instance_id() == id, "BYREF: the supplied instance id {} is lost when the error is passed by reference: {}", id, by_ref.error_instance_id());
                if let conjure_error::ErrorKind::Service(s) = Error::service_safe("cause", &e).kind() {
                    assert!(s.error_instance_id() == id, "BYREF: Error::service_safe(cause, &e) carries instance id {} instead of the supplied {}", s.error_instance_id(), id);
                }
            }
            // an instance id supplied afterwards wins over whatever the error reported before: over its own, if it has
            // one, and over one supplied earlier
            let supplied = Uuid::from_u128(0x0f0e_0d0c_0b0a_4908_8706_0504_0302_0100 ^ (i as u128));
            let earlier = Uuid::from_u128(0x1111_2222_3333_4444_8555_6666_7777_8888);
            let once = encode(&(&e).with_instance_id(supplied));
            assert!(once.error_instance_id() == supplied, "WITHID: with_instance_id({}) on an error reporting {:?} encodes instance id {}", supplied, id, once.error_instance_id());
            let twice = (&e).with_instance_id(earlier).with_instance_id(supplied);
            assert!(encode(&twice).error_instance_id() == supplied, "WITHID: with_instance_id({}) after with_instance_id({}) encodes instance id {}", supplied, earlier, encode(&twice).error_instance_id());
            if let conjure_error::ErrorKind::Service(s) = Error::service_safe("cause", twice).kind() {
                assert!(s.error_instance_id() == supplied, "WITHID: Error::service_safe carries instance id {} instead of the one supplied last, {}", s.error_instance_id(), supplied);
            }
            (a, b)
        });
        let op = format!("encode {} {}", ty.txt(), val.txt());
        let note = format!("encode({} : {}) id {:?}", val.txt(), ty.txt(), id);
        let se = match r {
            Err(p) if p.starts_with("BYREF: ") => {
                cs.push("encode", op, "byref".into(), true, note);
                cs.fail_last("encode:by-reference", p);
                continue;
            }
            Err(p) if p.starts_with("WITHID: ") => {
                cs.push("encode", op, "withid".into(), true, note);
                cs.fail_last("encode:with-instance-id", p[8..].to_string());
                continue;
            }
            Err(p) => {
                cs.push("encode", op, "panic".into(), true, note);
                cs.fail_last("encode:panic", p);
                continue;
            }
            Ok((a, b)) => {
                cs.push("encode", op, show_params(&fields, a.parameters()), true, note);
                // oracle
                let vals = match &val {
                    DynVal::Struct(vs) => vs.clone(),
                    _ => vec![],
                };
                let mut want: Vec<(String, String)> = fields.iter().zip(vals.iter()).filter_map(|((n, t), v)| spec_text(t, v).map(|x| (hex(n.as_bytes()), x))).collect();
                want.sort();
                let want_txt = if want.is_empty() { "-".to_string() } else { want.iter().map(|(k, v)| format!("{}={}", k, v)).collect::<Vec<_>>().join(";") };
                if show_params(&fields, a.parameters()) != want_txt {
                    cs.fail_last("encode:parameters", format!("encoded parameters {} differ from the rule's {}", show_params(&fields, a.parameters()), want_txt));
                } else if *a.error_code() != code || a.error_name() != name {
                    cs.fail_last("encode:code-or-name", format!("code/name {:?}/{} instead of {:?}/{}", a.error_code(), a.error_name(), code, name));
                } else if let Some(id) = id {
                    if a.error_instance_id() != id {
                        cs.fail_last("encode:instance-id", "the supplied instance id is not used".into());
                    }
                } else if a.error_instance_id() == b.error_instance_id() || a.error_instance_id().get_version_num() != 4 {
                    cs.fail_last("encode:instance-id", "no fresh random instance id".into());
                }
                // doubles: the text must parse back to the same number
                for ((n, t), v) in fields.iter().zip(vals.iter()) {
                    if let (DynTy::F64, DynVal::F64(d)) = (core(t), strip_val(v)) {
                        if let Some(text) = a.parameters().get(n) {
                            let back = text.parse::<f64>().ok().map(Dbl::of);
                            if back != Some(*d) {
                                cs.fail_last("encode:double-text", format!("double parameter {:?} is written {:?}, which parses to {:?}", d, text, back));
                            }
                        }
                    }
                }
                a
            }
        };

        // ---- JSON round trip of the serializable form
        let se2 = se.clone();
        let rt = guarded(move || {
            let bytes = conjure_serde::json::to_vec(&se2).map_err(|e| e.to_string())?;
            let c: SerializableError = conjure_serde::json::client_from_slice(&bytes).map_err(|e| e.to_string())?;
            let s: SerializableError = conjure_serde::json::server_from_slice(&bytes).map_err(|e| e.to_string())?;
            Ok::<_, String>(c == se2 && s == se2)
        });
        if !matches!(rt, Ok(Ok(true))) {
            cs.fail_last("encode:json-roundtrip", format!("SerializableError does not survive a JSON round trip: {:?}", rt));
        }

        // ---- partition: direct and propagated
        let e = DynError { code: code.clone(), name: name.clone(), safe, ty: ty.clone(), val: val.clone(), id };
        let e_wrapped = DynError { code: code.clone(), name: name.clone(), safe, ty: ty.clone(), val: val.clone(), id };
        let e_ref = DynError { code: code.clone(), name: name.clone(), safe, ty: ty.clone(), val: val.clone(), id };
        let se3 = se.clone();
        let r = guarded(move || {
            let keys = |p: conjure_error::Params<'_>| {
                let mut v: Vec<String> = p.iter().map(|(k, _)| k.to_string()).collect();
                v.sort();
                v
            };
            // the same error behind the library's own wrappers: an overriding instance id, a reference
            let w = Error::service("cause", e_wrapped.with_instance_id(Uuid::from_u128(0x1234_5678_9abc_4def_8123_4567_89ab_cdef)));
            let rf = Error::service_safe("cause", &e_ref);
            let direct = Error::service("cause", e);
            assert!(keys(w.safe_params()) == keys(direct.safe_params()) && keys(w.unsafe_params()) == keys(direct.unsafe_params()), "WRAPPED: with_instance_id changes the partition: safe {:?} unsafe {:?}", keys(w.safe_params()), keys(w.unsafe_params()));
            assert!(keys(rf.safe_params()) == keys(direct.safe_params()) && keys(rf.unsafe_params()) == keys(direct.unsafe_params()), "WRAPPED: a borrowed error changes the partition: safe {:?} unsafe {:?}", keys(rf.safe_params()), keys(rf.unsafe_params()));
            let prop = Error::propagated_service("cause", se3);
            let keys = |p: conjure_error::Params<'_>| {
                let mut v: Vec<String> = p.iter().map(|(k, _)| k.to_string()).collect();
                v.sort();
                v
            };
            (keys(direct.safe_params()), keys(direct.unsafe_params()), keys(prop.safe_params()), keys(prop.unsafe_params()))
        });
        let safe_txt = if safe_names.is_empty() { "-".to_string() } else { safe_names.iter().map(|s| hex(s.as_bytes())).collect::<Vec<_>>().join(",") };
        let op = format!("partition {} {} {}", safe_txt, ty.txt(), val.txt());
        let note = format!("Error::service(.., error with safe_args {:?}) over {}", safe_names, val.txt());
        match r {
            Err(p) if p.starts_with("WRAPPED: ") => {
                cs.push("partition", "noop".into(), "noop".into(), true, note);
                cs.fail_last("partition:wrapped", format!("{} (error with safe_args {:?} over {})", &p[9..], safe_names, val.txt()));
            }
            Err(p) => {
                cs.push("partition", op, "panic".into(), true, note);
                cs.fail_last("partition:panic", p);
            }
            Ok((ds, du, ps, pu)) => {
                let sub = |keys: &[String]| {
                    let m: BTreeMap<String, String> = se.parameters().iter().filter(|(k, _)| keys.contains(k)).map(|(k, v)| (k.clone(), v.clone())).collect();
                    show_params(&fields, &m)
                };
                cs.push("partition", op, format!("safe={} unsafe={}", sub(&ds), sub(&du)), true, note);
                let all: Vec<String> = se.parameters().keys().cloned().collect();
                let want_safe: Vec<String> = all.iter().filter(|k| safe_names.contains(&k.as_str())).cloned().collect();
                let want_unsafe: Vec<String> = all.iter().filter(|k| !safe_names.contains(&k.as_str())).cloned().collect();
                if ds != want_safe || du != want_unsafe {
                    cs.fail_last("partition:direct", format!("safe {:?} / unsafe {:?}, expected {:?} / {:?}", ds, du, want_safe, want_unsafe));
                } else if !ps.is_empty() || pu != all {
                    cs.fail_last("partition:propagated", format!("propagated error exposes safe {:?} / unsafe {:?}; all of {:?} must be unsafe", ps, pu, all));
                }
            }
        }
    }

    // ---- generated ErrorType impls: safe_args sorted and equal to the declared safe arguments
    let m = if tier == Tier::Quick { 25 } else { 300 };
    for i in 0..m {
        let k = rng.below(5);
        let mut pool: Vec<&str> = vec!["zeta", "alpha", "mid", "Beta", "a1", "a", "safeArg", "b"];
        let mut safe: Vec<String> = vec![];
        let mut uns: Vec<String> = vec![];
        for _ in 0..k {
            let j = rng.below(pool.len());
            let n = pool.remove(j).to_string();
            if rng.chance(2, 3) {
                safe.push(n)
            } else {
                uns.push(n)
            }
        }
        let f = |n: &String| irgen::field(n, irgen::prim("STRING"), None);
        // names that are and are not what the generator calls the Rust type (acronym runs, the keyword `Self`)
        let ename = match i % 5 {
            0 => format!("Err{}", i),
            1 => format!("MyHTTPError{}", i),
            2 => "Self".to_string(),
            3 => format!("XMLParse{}Failure", i),
            _ => format!("Io{}", i),
        };
        let ns = ["Test", "MyNS", "Conjure", "HTTPApi"][i % 4];
        let (code_name, code_variant) = CODE_NAMES[i % CODE_NAMES.len()];
        let err = serde_json::json!({"errorName": irgen::tname(&ename), "namespace": ns, "code": code_name, "safeArgs": safe.iter().map(f).collect::<Vec<_>>(), "unsafeArgs": uns.iter().map(f).collect::<Vec<_>>()});
        let irv = irgen::ir(vec![], vec![], vec![err]);
        let op = format!("safeargs {}", if safe.is_empty() { "-".to_string() } else { safe.iter().map(|s| hex(s.as_bytes())).collect::<Vec<_>>().join(",") });
        let note = format!("generated ErrorType::safe_args for safe {:?} unsafe {:?}", safe, uns);
        match irgen::generate(&irv, &irgen::GenCfg::default()) {
            Err(e) => {
                cs.push("generated", op, "generator-error".into(), true, note);
                cs.fail_last("generated:failed", e);
            }
            Ok(tree) => {
                let mut got: Option<Vec<String>> = None;
                for text in tree.values() {
                    if let Some(i) = text.find("fn safe_args") {
                        let rest = &text[i..];
                        if let Some(a) = rest.find("&[") {
                            let b = a + rest[a..].find(']').unwrap_or(2);
                            let inner = &rest[a + 2..b];
                            got = Some(inner.split(',').map(|s| s.trim().trim_matches('"').to_string()).filter(|s| !s.is_empty()).collect());
                        }
                    }
                }
                // the name and the code the generated `ErrorType` reports
                let mut got_name: Option<String> = None;
                let mut got_code: Option<String> = None;
                for text in tree.values() {
                    if let Some(i) = text.find("fn name(") {
                        let rest = &text[i..];
                        if let Some(a) = rest.find('"') {
                            if let Some(b) = rest[a + 1..].find('"') {
                                got_name = Some(rest[a + 1..a + 1 + b].to_string());
                            }
                        }
                    }
                    if let Some(i) = text.find("fn code(") {
                        let rest = &text[i..];
                        if let Some(a) = rest.find("ErrorCode::") {
                            got_code = Some(rest[a + 11..].chars().take_while(|c| c.is_ascii_alphanumeric() || *c == '_').collect());
                        }
                    }
                }
                let got = got.unwrap_or_default();
                cs.push("generated", op, if got.is_empty() { "-".to_string() } else { got.iter().map(|s| hex(s.as_bytes())).collect::<Vec<_>>().join(",") }, true, note);
                let mut want = safe.clone();
                want.sort_by(|a, b| a.as_bytes().cmp(b.as_bytes()));
                if got != want {
                    cs.fail_last("generated:safe-args", format!("generated safe_args {:?}, declared safe (sorted) {:?}", got, want));
                }
                let want_name = format!("{}:{}", ns, ename);
                if got_name.as_deref() != Some(want_name.as_str()) {
                    cs.fail_last("generated:name", format!("the error declared as {} reports the name {:?}", want_name, got_name));
                } else if got_code.as_deref() != Some(code_variant) {
                    cs.fail_last("generated:code", format!("the error declared with code {} reports {:?}", code_name, got_code));
                }
            }
        }
    }
    cs
}

const CODE_NAMES: [(&str, &str); 10] = [
    ("PERMISSION_DENIED", "PermissionDenied"),
    ("INVALID_ARGUMENT", "InvalidArgument"),
    ("NOT_FOUND", "NotFound"),
    ("CONFLICT", "Conflict"),
    ("REQUEST_ENTITY_TOO_LARGE", "RequestEntityTooLarge"),
    ("FAILED_PRECONDITION", "FailedPrecondition"),
    ("INTERNAL", "Internal"),
    ("TIMEOUT", "Timeout"),
    ("CUSTOM_CLIENT", "CustomClient"),
    ("CUSTOM_SERVER", "CustomServer"),
];

fn strip_val(v: &DynVal) -> &DynVal {
    match v {
        DynVal::Some(v) | DynVal::Newtype(v) => strip_val(v),
        v => v,
    }
}

pub const RULE: &str = "all 10 error codes against the specification's status table; seeded dynamic error types with 0-5 parameters drawn from 16 type shapes (strings, bool, i32, i64, u16, double incl. NaN/infinities, uuid, binary, optional present/absent, list, map, object, enum, aliases), a seeded subset declared safe, with and without an explicit instance id: conjure_error::encode (parameters, code, name, instance id supplied or fresh v4), JSON round trip of the SerializableError through client and server deserializers, Error::service vs Error::propagated_service partition of safe/unsafe parameter names; seeded error definitions through the real generator, reading back the emitted safe_args array, the name (names the generator must rename for Rust among them) and the code. Compared with the model and with the statement's rule written independently. All cases non-trivial; distinct = distinct operation lines.";
