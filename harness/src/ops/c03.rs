//! C03 — code generation succeeds and its output compiles.
//!
//! For a stream of seeded valid IR documents (irrand.rs: every definition kind, recursion through optionals and
//! collections, doubles / binary / any everywhere legal, four packages, Rust keywords and awkward spellings as
//! names) under random configurations: (1) the real generator must report success and every emitted file must be
//! parseable Rust; (2) the identifiers it emitted for fields are compared with the model's escaping rule;
//! (3) the emitted module trees of a batch of documents are compiled together, by rustc, against /repo's runtime
//! crates in a scratch crate under /verif/work, and every compiler error is attributed to its document.
use crate::irgen::{self, GenCfg};
use crate::irrand;
use crate::run::{Cases, Tier};
use crate::util::{hex, Rng};
use heck::{ToSnakeCase, ToUpperCamelCase};
use serde_json::{json, Value};
use std::collections::BTreeMap;
use std::path::PathBuf;
use std::process::Command;

pub const RULE: &str = "non-trivial: the document uses a Rust keyword or multi-word name, a recursive reference, a double / binary / any below a collection, more than one package, a service or an error";

fn work() -> PathBuf {
    PathBuf::from("/verif/work/c03-crate")
}

/// hand-made documents for the shapes the changelog records as past generator bugs, and for every keyword
fn shapes() -> Vec<(String, Value)> {
    let pkg = "com.palantir.shapes";
    let tn = |n: &str| json!({"name": n, "package": pkg});
    let prim = |p: &str| json!({"type": "primitive", "primitive": p});
    let r = |n: &str| json!({"type": "reference", "reference": {"name": n, "package": pkg}});
    let opt = |t: Value| json!({"type": "optional", "optional": {"itemType": t}});
    let list = |t: Value| json!({"type": "list", "list": {"itemType": t}});
    let map = |k: Value, v: Value| json!({"type": "map", "map": {"keyType": k, "valueType": v}});
    let obj = |n: &str, fs: Vec<(&str, Value)>| json!({"type": "object", "object": {"typeName": tn(n), "fields": fs.into_iter().map(|(f, t)| json!({"fieldName": f, "type": t})).collect::<Vec<_>>()}});
    let uni = |n: &str, fs: Vec<(&str, Value)>| json!({"type": "union", "union": {"typeName": tn(n), "union": fs.into_iter().map(|(f, t)| json!({"fieldName": f, "type": t})).collect::<Vec<_>>()}});
    let ir = |types: Vec<Value>, services: Vec<Value>, errors: Vec<Value>| json!({"version": 1, "errors": errors, "types": types, "services": services, "extensions": {}});
    let mut v = vec![];
    v.push(("optional-binary nested-maps map-to-double empty-union".to_string(), ir(vec![
        obj("OptBin", vec![("b", opt(prim("BINARY"))), ("m", map(prim("STRING"), map(prim("INTEGER"), list(prim("DOUBLE"))))), ("md", map(prim("RID"), prim("DOUBLE"))), ("e", opt(r("Nothing")))]),
        uni("Nothing", vec![]),
    ], vec![], vec![])));
    v.push(("recursive-union recursive-through-map error-arg-object".to_string(), ir(vec![
        uni("Tree", vec![("leaf", prim("DOUBLE")), ("node", list(r("Tree"))), ("named", map(prim("STRING"), r("Tree"))), ("maybe", opt(r("Tree")))]),
        obj("Holder", vec![("t", r("Tree")), ("self", opt(r("Holder")))]),
    ], vec![], vec![json!({"errorName": tn("BadTree"), "namespace": "Shapes", "code": "INVALID_ARGUMENT", "safeArgs": [{"fieldName": "tree", "type": r("Tree")}], "unsafeArgs": [{"fieldName": "holder", "type": opt(r("Holder"))}]})])));
    v.push(("no-arg-endpoint-with-context async-endpoint".to_string(), ir(vec![], vec![json!({"serviceName": tn("CtxService"), "endpoints": [
        {"endpointName": "ping", "httpMethod": "GET", "httpPath": "/ping", "args": [], "markers": [], "tags": ["server-request-context"]},
        {"endpointName": "async", "httpMethod": "POST", "httpPath": "/async/{type}", "args": [{"argName": "type", "type": prim("STRING"), "paramType": {"type": "path", "path": {}}, "markers": [], "tags": []}, {"argName": "match", "type": opt(prim("BINARY")), "paramType": {"type": "body", "body": {}}, "markers": [], "tags": []}], "returns": opt(prim("BINARY")), "markers": [], "tags": []}
    ]})], vec![])));
    // imported (external) types stand for their fallback everywhere, also as set items and map keys (a double there
    // needs the ordered wrapper) and as path / query / header parameters
    let ext = |n: &str, fb: Value| json!({"type": "external", "external": {"externalReference": {"name": n, "package": "java.lang"}, "fallback": fb}});
    v.push(("external-fallbacks-as-keys".to_string(), ir(vec![
        obj("ExtKeys", vec![("sd", json!({"type": "set", "set": {"itemType": ext("Dbl", prim("DOUBLE"))}})), ("md", map(ext("Dbl", prim("DOUBLE")), prim("STRING"))), ("ms", map(ext("Str", prim("STRING")), ext("Lst", list(prim("DOUBLE"))))), ("od", opt(ext("Dbl", prim("DOUBLE")))), ("key", ext("Long", prim("SAFELONG")))]),
        uni("ExtUnion", vec![("sd", json!({"type": "set", "set": {"itemType": ext("Dbl", prim("DOUBLE"))}})), ("md", map(ext("Dbl", prim("DOUBLE")), list(r("ExtKeys"))))]),
        json!({"type": "alias", "alias": {"typeName": tn("ExtSetAlias"), "alias": {"type": "set", "set": {"itemType": ext("Dbl", prim("DOUBLE"))}}}}),
        json!({"type": "alias", "alias": {"typeName": tn("ExtMapAlias"), "alias": map(ext("Dbl", prim("DOUBLE")), prim("INTEGER"))}}),
    ], vec![json!({"serviceName": tn("ExtService"), "endpoints": [
        {"endpointName": "get", "httpMethod": "POST", "httpPath": "/ext/{id}", "args": [
            {"argName": "id", "type": ext("Long", prim("SAFELONG")), "paramType": {"type": "path", "path": {}}, "markers": [], "tags": []},
            {"argName": "ds", "type": {"type": "set", "set": {"itemType": ext("Dbl", prim("DOUBLE"))}}, "paramType": {"type": "query", "query": {"paramId": "ds"}}, "markers": [], "tags": []},
            {"argName": "h", "type": opt(ext("Str", prim("STRING"))), "paramType": {"type": "header", "header": {"paramId": "X-H"}}, "markers": [], "tags": []},
            {"argName": "body", "type": map(ext("Dbl", prim("DOUBLE")), prim("STRING")), "paramType": {"type": "body", "body": {}}, "markers": [], "tags": []}],
         "returns": {"type": "set", "set": {"itemType": ext("Dbl", prim("DOUBLE"))}}, "markers": [], "tags": []}
    ]})], vec![])));
    // path parameters with a regular expression (`{name:regex}`), in the middle and at the end of the template
    v.push(("regex-path-parameters".to_string(), ir(vec![], vec![json!({"serviceName": tn("FileService"), "endpoints": [
        {"endpointName": "getFile", "httpMethod": "GET", "httpPath": "/files/{path:.+}", "args": [{"argName": "path", "type": prim("STRING"), "paramType": {"type": "path", "path": {}}, "markers": [], "tags": []}], "returns": opt(prim("BINARY")), "markers": [], "tags": []},
        {"endpointName": "list", "httpMethod": "GET", "httpPath": "/list/{prefix:.*}", "args": [{"argName": "prefix", "type": prim("STRING"), "paramType": {"type": "path", "path": {}}, "markers": [], "tags": []}], "returns": list(prim("STRING")), "markers": [], "tags": []},
        {"endpointName": "put", "httpMethod": "PUT", "httpPath": "/b/{bucket}/o/{type:[a-z]+}/{rest:.+}", "args": [{"argName": "bucket", "type": prim("RID"), "paramType": {"type": "path", "path": {}}, "markers": [], "tags": []}, {"argName": "type", "type": prim("STRING"), "paramType": {"type": "path", "path": {}}, "markers": [], "tags": []}, {"argName": "rest", "type": prim("STRING"), "paramType": {"type": "path", "path": {}}, "markers": [], "tags": []}, {"argName": "body", "type": prim("BINARY"), "paramType": {"type": "body", "body": {}}, "markers": [], "tags": []}], "markers": [], "tags": []}
    ]})], vec![])));
    // doubles "at every legal position" includes below a set item: as the values of a map, inside an optional, and
    // below lists of those (the item type of a set is any type)
    {
        let set = |t: Value| json!({"type": "set", "set": {"itemType": t}});
        let d = || prim("DOUBLE");
        let s = || prim("STRING");
        let fields = vec![("f0", set(map(s(), d()))), ("f1", set(opt(d()))), ("f2", set(list(map(s(), d())))), ("f3", set(map(s(), opt(d())))), ("f4", map(s(), set(map(s(), d())))),
            ("f5", list(set(map(s(), list(d()))))), ("f6", set(map(d(), d()))), ("f7", opt(set(map(s(), d())))), ("f8", set(map(s(), map(s(), d()))))];
        v.push(("shape:doubles-below-set-items".to_string(), ir(vec![
            obj("SetHolder", fields.clone()),
            uni("SetUnion", fields.clone()),
            json!({"type": "alias", "alias": {"typeName": tn("SetOfMaps"), "alias": set(map(s(), d()))}}),
        ], vec![], vec![])));
    }
    // "types spread over nested packages": a type and a sub-package of its package whose module names coincide (the
    // type `Inner` lives in module `inner`, the package `….inner` is module `inner` too), and two types of one
    // package whose names differ only in how they are cased
    v.push(("type-and-subpackage-share-a-module-name".to_string(), ir(vec![
        obj("Inner", vec![("leaf", opt(json!({"type": "reference", "reference": {"name": "Leaf", "package": "com.palantir.shapes.inner"}})))]),
        json!({"type": "object", "object": {"typeName": {"name": "Leaf", "package": "com.palantir.shapes.inner"}, "fields": [{"fieldName": "x", "type": prim("INTEGER")}]}}),
    ], vec![], vec![])));
    // type, error and service names that are also names generated code or its derives use (one document per name:
    // an object, a union, an enum, an alias, an error and a service of that name, each in a package of its own)
    for n in ["Result", "Ok", "Err", "Some", "None", "Default", "Clone", "From", "Into", "Iterator", "IntoIterator", "String", "Vec", "Option", "Box", "Send", "Sync", "Copy", "Eq", "Ord", "Hash", "Debug", "Drop", "ToString", "AsRef", "Unknown", "Error", "Builder", "Any", "Bytes", "Uuid", "Variant", "Display", "Serialize", "Deserialize", "Stage", "Endpoint", "Service", "Client"] {
        let pk = |r: &str| format!("com.palantir.shapes.named.{}", r);
        let t = |r: &str, name: &str| json!({"name": name, "package": pk(r)});
        let rf = |r: &str, name: &str| json!({"type": "reference", "reference": t(r, name)});
        v.push((format!("type-named:{}", n), ir(vec![
            json!({"type": "object", "object": {"typeName": t("o", n), "fields": [{"fieldName": "s", "type": prim("STRING")}, {"fieldName": "o", "type": opt(prim("INTEGER"))}, {"fieldName": "l", "type": list(prim("DOUBLE"))}, {"fieldName": "me", "type": opt(rf("o", n))}, {"fieldName": "other", "type": rf("o", "Other")}, {"fieldName": "b", "type": prim("BINARY")}]}}),
            json!({"type": "object", "object": {"typeName": t("o", "Other"), "fields": [{"fieldName": "x", "type": prim("INTEGER")}]}}),
            json!({"type": "union", "union": {"typeName": t("u", n), "union": [{"fieldName": "a", "type": prim("STRING")}, {"fieldName": "b", "type": rf("o", "Other")}, {"fieldName": "me", "type": list(rf("u", n))}]}}),
            json!({"type": "enum", "enum": {"typeName": t("e", n), "values": [{"value": "A"}, {"value": "B"}]}}),
            json!({"type": "alias", "alias": {"typeName": t("a", n), "alias": opt(prim("STRING"))}}),
        ], vec![json!({"serviceName": t("s", n), "endpoints": [
            {"endpointName": "get", "httpMethod": "POST", "httpPath": "/get/{id}", "args": [{"argName": "id", "type": prim("STRING"), "paramType": {"type": "path", "path": {}}, "markers": [], "tags": []}, {"argName": "q", "type": opt(prim("INTEGER")), "paramType": {"type": "query", "query": {"paramId": "q"}}, "markers": [], "tags": []}, {"argName": "body", "type": rf("o", "Other"), "paramType": {"type": "body", "body": {}}, "markers": [], "tags": []}], "returns": list(prim("STRING")), "markers": [], "tags": []}
        ]})], vec![json!({"errorName": t("x", n), "namespace": "Shapes", "code": "INVALID_ARGUMENT", "safeArgs": [{"fieldName": "a", "type": prim("STRING")}], "unsafeArgs": [{"fieldName": "o", "type": rf("o", "Other")}]})])));
    }
    // a binary request body declared safe to log
    v.push(("shape:safe-binary-body".to_string(), ir(vec![], vec![json!({"serviceName": tn("UploadService"), "endpoints": [
        {"endpointName": "put", "httpMethod": "POST", "httpPath": "/put", "args": [{"argName": "body", "type": prim("BINARY"), "paramType": {"type": "body", "body": {}}, "safety": "SAFE", "markers": [], "tags": []}], "markers": [], "tags": []}
    ]})], vec![])));
    // an alias whose target mentions a type of its own package, used from another package: as an optional body, a
    // header and a query argument of a service, and as the target of a second alias
    {
        let t = |p: &str, name: &str| json!({"name": name, "package": format!("com.palantir.shapes.{}", p)});
        let rf = |p: &str, name: &str| json!({"type": "reference", "reference": t(p, name)});
        v.push(("shape:alias-used-from-another-package".to_string(), ir(vec![
            json!({"type": "enum", "enum": {"typeName": t("model", "Color"), "values": [{"value": "RED"}]}}),
            json!({"type": "object", "object": {"typeName": t("model", "Filter"), "fields": [{"fieldName": "c", "type": opt(rf("model", "Color"))}]}}),
            json!({"type": "alias", "alias": {"typeName": t("model", "MaybeFilter"), "alias": opt(rf("model", "Filter"))}}),
            json!({"type": "alias", "alias": {"typeName": t("model", "MaybeColor"), "alias": opt(rf("model", "Color"))}}),
            json!({"type": "alias", "alias": {"typeName": t("api.v2", "Wrapped"), "alias": rf("model", "MaybeFilter")}}),
            json!({"type": "object", "object": {"typeName": t("api", "Request"), "fields": [{"fieldName": "f", "type": rf("model", "MaybeFilter")}, {"fieldName": "w", "type": rf("api.v2", "Wrapped")}]}}),
        ], vec![json!({"serviceName": t("api.svc", "FilterService"), "endpoints": [
            {"endpointName": "find", "httpMethod": "POST", "httpPath": "/find", "args": [{"argName": "body", "type": rf("model", "MaybeFilter"), "paramType": {"type": "body", "body": {}}, "markers": [], "tags": []}, {"argName": "color", "type": rf("model", "MaybeColor"), "paramType": {"type": "query", "query": {"paramId": "color"}}, "markers": [], "tags": []}, {"argName": "hc", "type": rf("model", "MaybeColor"), "paramType": {"type": "header", "header": {"paramId": "X-Color"}}, "markers": [], "tags": []}], "returns": rf("api.v2", "Wrapped"), "markers": [], "tags": []}
        ]})], vec![])));
    }
    // one object per keyword-like field name (so that a failure names the keyword)
    for kw in ["as", "async", "await", "break", "const", "continue", "crate", "dyn", "else", "enum", "extern", "false", "fn", "for", "if", "impl", "in", "let", "loop", "match", "mod", "move", "mut", "pub", "ref", "return", "self", "static", "struct", "super", "trait", "true", "type", "unsafe", "use", "where", "while", "abstract", "become", "box", "do", "final", "macro", "override", "priv", "try", "typeof", "unsized", "virtual", "yield", "gen", "union", "builder", "build", "new", "default", "clone", "from", "into"] {
        v.push((format!("field-named:{}", kw), ir(vec![obj("KwObject", vec![(kw, prim("STRING")), ("other", opt(prim("INTEGER")))]), obj("KwOptObject", vec![("first", prim("BOOLEAN")), (kw, opt(prim("STRING")))]), obj("KwListObject", vec![(kw, list(prim("DOUBLE")))]), uni("KwUnion", vec![(kw, prim("DOUBLE"))])], vec![], vec![])));
    }
    v
}

fn field_idents(tree: &BTreeMap<String, String>) -> Result<Vec<(String, Vec<String>)>, String> {
    // (struct name, field identifiers) of every struct with named fields in the emitted tree
    let mut out = vec![];
    for (path, text) in tree {
        if !path.ends_with(".rs") {
            continue;
        }
        let file = syn::parse_file(text).map_err(|e| format!("{} does not parse: {}", path, e))?;
        for item in &file.items {
            if let syn::Item::Struct(s) = item {
                if let syn::Fields::Named(n) = &s.fields {
                    out.push((s.ident.to_string(), n.named.iter().filter_map(|f| f.ident.as_ref().map(|i| i.to_string().trim_start_matches("r#").to_string())).collect()));
                }
            }
        }
    }
    Ok(out)
}


/// which references the generated objects and unions hold behind a `Box`, read back from the emitted types, against
/// Model/Boxing.lean on the same definitions
fn boxing_case(cs: &mut Cases, class: &str, name: &str, ir: &Value, cfg: &GenCfg, tree: &BTreeMap<String, String>) {
    let types = match ir["types"].as_array() {
        Some(t) if !t.is_empty() => t,
        _ => return,
    };
    let key = |tn: &Value| format!("{}.{}", tn["package"].as_str().unwrap_or(""), tn["name"].as_str().unwrap_or(""));
    let index: BTreeMap<String, usize> = types.iter().enumerate().map(|(i, t)| (key(&t[t["type"].as_str().unwrap()]["typeName"]), i)).collect();
    fn conv(t: &Value, index: &BTreeMap<String, usize>, key: &dyn Fn(&Value) -> String) -> (String, bool) {
        // (model text, ends in a reference outside collections)
        match t["type"].as_str().unwrap_or("") {
            "primitive" => ("p".into(), false),
            "list" | "set" | "map" => ("c".into(), false),
            "optional" => {
                let (x, r) = conv(&t["optional"]["itemType"], index, key);
                (format!("(opt,{})", x), r)
            }
            "reference" => (format!("(r,{})", index.get(&key(&t["reference"])).copied().unwrap_or(9999)), true),
            "external" => {
                let (x, r) = conv(&t["external"]["fallback"], index, key);
                (format!("(x,{})", x), r)
            }
            _ => ("p".into(), false),
        }
    }
    // every struct / enum of the emitted tree by name
    let mut structs: BTreeMap<String, Vec<syn::Type>> = BTreeMap::new();
    let mut struct_ops: BTreeMap<String, Vec<bool>> = BTreeMap::new();
    let mut struct_builder: BTreeMap<String, Vec<String>> = BTreeMap::new();
    let mut enums: BTreeMap<String, Vec<Option<syn::Type>>> = BTreeMap::new();
    for text in tree.values() {
        if let Ok(file) = syn::parse_file(text) {
            for item in &file.items {
                match item {
                    syn::Item::Struct(st) => {
                        if let syn::Fields::Named(n) = &st.fields {
                            structs.entry(st.ident.to_string()).or_insert_with(|| n.named.iter().map(|f| f.ty.clone()).collect());
                            struct_builder.entry(st.ident.to_string()).or_insert_with(|| n.named.iter().map(|f| builder_desc(&f.attrs)).collect());
                            struct_ops.entry(st.ident.to_string()).or_insert_with(|| n.named.iter().map(|f| f.attrs.iter().any(|a| quote::quote!(#a).to_string().contains("DoubleOps"))).collect());
                        }
                    }
                    syn::Item::Enum(e) => {
                        enums.entry(e.ident.to_string()).or_insert_with(|| e.variants.iter().map(|v| match &v.fields {
                            syn::Fields::Unnamed(u) if u.unnamed.len() == 1 => Some(u.unnamed[0].ty.clone()),
                            _ => None,
                        }).collect());
                    }
                    _ => {}
                }
            }
        }
    }
    fn boxed(ty: &syn::Type) -> bool {
        if let syn::Type::Path(p) = ty {
            if let Some(seg) = p.path.segments.last() {
                if seg.ident == "Option" {
                    if let syn::PathArguments::AngleBracketed(a) = &seg.arguments {
                        if let Some(syn::GenericArgument::Type(inner)) = a.args.first() {
                            return boxed(inner);
                        }
                    }
                }
                return seg.ident == "Box";
            }
        }
        false
    }
    let mut defs = String::from("(defs");
    let mut real: Vec<String> = vec![];
    let mut any_ref = false;
    for t in types {
        let k = t["type"].as_str().unwrap();
        let rust_name = {
            let n = t[k]["typeName"]["name"].as_str().unwrap().to_upper_camel_case();
            if n == "Self" { "Self_".to_string() } else { n }
        };
        match k {
            "alias" => {
                defs.push_str(&format!(",(a,{})", conv(&t["alias"]["alias"], &index, &key).0));
                real.push("a".into());
            }
            "enum" => {
                defs.push_str(",(e)");
                real.push("e".into());
            }
            "object" | "union" => {
                let fields = if k == "object" { t["object"]["fields"].as_array().unwrap() } else { t["union"]["union"].as_array().unwrap() };
                let convs: Vec<(String, bool)> = fields.iter().map(|f| conv(&f["type"], &index, &key)).collect();
                defs.push_str(&format!(",({}{})", if k == "object" { "o" } else { "u" }, convs.iter().map(|c| format!(",{}", c.0)).collect::<String>()));
                let tys: Vec<Option<syn::Type>> = if k == "object" { structs.get(&rust_name).map(|v| v.iter().cloned().map(Some).collect()).unwrap_or_default() } else { enums.get(&rust_name).cloned().unwrap_or_default() };
                let flags: Vec<String> = convs.iter().enumerate().map(|(i, (_, is_ref))| {
                    if !*is_ref {
                        "-".to_string()
                    } else {
                        any_ref = true;
                        match tys.get(i) {
                            Some(Some(ty)) => if boxed(ty) { "1".to_string() } else { "0".to_string() },
                            _ => "?".to_string(),
                        }
                    }
                }).collect();
                real.push(format!("{}:{}", if k == "object" { "o" } else { "u" }, flags.join(",")));
                // the path written for each such reference (inside `Option` / `Box`), against Model/TypePath.lean
                fn innermost(ty: &syn::Type) -> &syn::Type {
                    if let syn::Type::Path(p) = ty {
                        if let Some(seg) = p.path.segments.last() {
                            if seg.ident == "Option" || seg.ident == "Box" {
                                if let syn::PathArguments::AngleBracketed(a) = &seg.arguments {
                                    if let Some(syn::GenericArgument::Type(inner)) = a.args.first() {
                                        return innermost(inner);
                                    }
                                }
                            }
                        }
                    }
                    ty
                }
                fn target(t: &Value) -> Option<&Value> {
                    match t["type"].as_str().unwrap_or("") {
                        "optional" => target(&t["optional"]["itemType"]),
                        "reference" => Some(&t["reference"]),
                        _ => None,
                    }
                }
                // the whole Rust type of each object field (boxes aside) against Model/RustType.lean
                if k == "object" {
                    for (i, f) in fields.iter().enumerate() {
                        if let (Some(sx), Some(Some(ty))) = (type_sexp(&f["type"]), tys.get(i)) {
                            let has_key_double = sx.contains("(set,") || sx.contains("(map,");
                            if let Some(b) = struct_builder.get(&rust_name).and_then(|v| v.get(i)) {
                                cs.push("builder", format!("builder {}", sx), b.clone(), b != "-", format!("the element types of the setters of field `{}` of {} in {}", f["fieldName"].as_str().unwrap_or(""), rust_name, name));
                            }
                            let ops = struct_ops.get(&rust_name).and_then(|v| v.get(i)).copied().unwrap_or(false);
                            cs.push("rust-type", format!("rusttype {}", sx), format!("{}{}", norm_type(ty), if ops { " double-ops" } else { "" }), has_key_double && sx.contains("DOUBLE"), format!("the type of field `{}` of {} in {}", f["fieldName"].as_str().unwrap_or(""), rust_name, name));
                        }
                    }
                }
                let this_pkg = t[k]["typeName"]["package"].as_str().unwrap_or("");
                for (i, f) in fields.iter().enumerate() {
                    if let (Some(tn), Some(Some(ty))) = (target(&f["type"]), tys.get(i)) {
                        let other_pkg = tn["package"].as_str().unwrap_or("");
                        let rust = tn["name"].as_str().unwrap_or("").to_upper_camel_case();
                        if rust == "Option" || rust == "Box" || rust == "Self" || this_pkg.is_empty() || other_pkg.is_empty() {
                            continue;
                        }
                        let inner = innermost(ty);
                        let got = quote::quote!(#inner).to_string().replace(' ', "");
                        cs.push("type-path", format!("typepath {} {} {} {}", cfg.strip_prefix.as_deref().map(esc_pkg).unwrap_or_else(|| "-".to_string()), esc_pkg(this_pkg), esc_pkg(other_pkg), rust), got, this_pkg != other_pkg,
                            format!("the path written in {} ({}) for a reference to {} ({}), stripPrefix {:?}, in {}", rust_name, this_pkg, rust, other_pkg, cfg.strip_prefix, name));
                    }
                }
            }
            _ => return,
        }
    }
    defs.push(')');
    cs.push(class, format!("boxing {}", defs), real.join(";"), any_ref, format!("which references the types generated for {} hold behind a Box", name));
}

/// the element types a field's `#[builder(list(item(..)))]`, `set(item(..))` or `map(key(..), value(..))` attribute names,
/// as the model renders them; `-` for every other field
fn builder_desc(attrs: &[syn::Attribute]) -> String {
    use proc_macro2::TokenTree;
    fn groups(ts: proc_macro2::TokenStream, name: &str) -> Option<proc_macro2::TokenStream> {
        let v: Vec<TokenTree> = ts.into_iter().collect();
        for i in 0..v.len() {
            if let (TokenTree::Ident(id), Some(TokenTree::Group(g))) = (&v[i], v.get(i + 1)) {
                if id == name {
                    return Some(g.stream());
                }
            }
        }
        None
    }
    fn item(ts: proc_macro2::TokenStream) -> String {
        // `type = T`, `type = T, into`, or `custom(type = T, convert = ..)`
        let inner = groups(ts.clone(), "custom").unwrap_or(ts);
        let v: Vec<TokenTree> = inner.into_iter().collect();
        let mut ty = proc_macro2::TokenStream::new();
        let mut into = false;
        let mut i = 0;
        while i < v.len() {
            if matches!(&v[i], TokenTree::Ident(id) if id == "type") && matches!(v.get(i + 1), Some(TokenTree::Punct(p)) if p.as_char() == '=') {
                let mut depth = 0i32;
                let mut j = i + 2;
                while j < v.len() {
                    if let TokenTree::Punct(p) = &v[j] {
                        match p.as_char() {
                            '<' => depth += 1,
                            '>' => depth -= 1,
                            ',' if depth == 0 => break,
                            _ => {}
                        }
                    }
                    ty.extend(std::iter::once(v[j].clone()));
                    j += 1;
                }
                i = j;
            } else {
                if matches!(&v[i], TokenTree::Ident(id) if id == "into") {
                    into = true;
                }
                i += 1;
            }
        }
        let shown = match syn::parse2::<syn::Type>(ty.clone()) {
            Ok(syn::Type::ImplTrait(it)) => {
                let mut out = "?".to_string();
                for b in &it.bounds {
                    if let syn::TypeParamBound::Trait(tb) = b {
                        if let Some(seg) = tb.path.segments.last() {
                            if seg.ident == "Serialize" {
                                out = "Serialize".to_string();
                            } else if let syn::PathArguments::AngleBracketed(a) = &seg.arguments {
                                for g in &a.args {
                                    if let syn::GenericArgument::AssocType(at) = g {
                                        out = format!("Iter<{}>", norm_type(&at.ty));
                                    }
                                }
                            }
                        }
                    }
                }
                out
            }
            Ok(t) => norm_type(&t),
            Err(_) => format!("?{}", ty.to_string().replace(' ', "")),
        };
        if into { format!("{},into", shown) } else { shown }
    }
    for a in attrs {
        if !a.path().is_ident("builder") {
            continue;
        }
        let ts = match &a.meta {
            syn::Meta::List(l) => l.tokens.clone(),
            _ => continue,
        };
        for kind in ["list", "set"] {
            if let Some(g) = groups(ts.clone(), kind) {
                if let Some(i) = groups(g, "item") {
                    return format!("{}:{}", kind, item(i));
                }
            }
        }
        if let Some(g) = groups(ts.clone(), "map") {
            if let (Some(k), Some(v)) = (groups(g.clone(), "key"), groups(g, "value")) {
                return format!("map:{};{}", item(k), item(v));
            }
        }
    }
    "-".to_string()
}

/// a Rust type as the model renders it: path prefixes dropped, `Box` transparent, no blanks
fn norm_type(ty: &syn::Type) -> String {
    if let syn::Type::Path(p) = ty {
        if let Some(seg) = p.path.segments.last() {
            let args: Vec<String> = match &seg.arguments {
                syn::PathArguments::AngleBracketed(a) => a.args.iter().filter_map(|g| if let syn::GenericArgument::Type(t) = g { Some(norm_type(t)) } else { None }).collect(),
                _ => vec![],
            };
            if seg.ident == "Box" && args.len() == 1 {
                return args[0].clone();
            }
            return if args.is_empty() { seg.ident.to_string() } else { format!("{}<{}>", seg.ident, args.join(",")) };
        }
    }
    if let syn::Type::Tuple(t) = ty {
        return format!("({})", t.elems.iter().map(norm_type).collect::<Vec<_>>().join(","));
    }
    quote::quote!(#ty).to_string().replace(' ', "")
}

/// a Conjure type as the model reads it
fn type_sexp(t: &Value) -> Option<String> {
    Some(match t["type"].as_str()? {
        "primitive" => format!("(p,{})", t["primitive"].as_str()?),
        "optional" => format!("(opt,{})", type_sexp(&t["optional"]["itemType"])?),
        "list" => format!("(list,{})", type_sexp(&t["list"]["itemType"])?),
        "set" => format!("(set,{})", type_sexp(&t["set"]["itemType"])?),
        "map" => format!("(map,{},{})", type_sexp(&t["map"]["keyType"])?, type_sexp(&t["map"]["valueType"])?),
        "reference" => {
            let n = t["reference"]["name"].as_str()?.to_upper_camel_case();
            format!("(r,{})", if n == "Self" { "Self_".to_string() } else { n })
        }
        "external" => format!("(x,{})", type_sexp(&t["external"]["fallback"])?),
        _ => return None,
    })
}

/// a package as the generator names its modules: each component followed by `_` when it is a Rust keyword
fn esc_pkg(p: &str) -> String {
    const KW: [&str; 51] = ["as", "break", "const", "continue", "crate", "else", "enum", "extern", "false", "fn", "for", "if", "impl", "in", "let", "loop", "match", "mod", "move", "mut", "pub", "ref", "return", "self", "static", "struct", "super", "trait", "true", "type", "unsafe", "use", "where", "while", "await", "abstract", "async", "become", "box", "do", "final", "macro", "override", "priv", "try", "typeof", "unsized", "virtual", "yield", "union", "dyn"];
    p.split('.').map(|c| if KW.contains(&c) { format!("{}_", c) } else { c.to_string() }).collect::<Vec<_>>().join(".")
}

fn interesting(ir: &Value) -> bool {
    let t = serde_json::to_string(ir).unwrap();
    irrand::FIELD_NAMES.iter().any(|k| t.contains(&format!("\"{}\"", k))) || t.contains("DOUBLE") || t.contains("BINARY") || t.contains("ANY") || !ir["services"].as_array().map(|a| a.is_empty()).unwrap_or(true) || !ir["errors"].as_array().map(|a| a.is_empty()).unwrap_or(true)
}

pub fn cases(seed: u64, tier: Tier) -> Cases {
    let mut cs = Cases::new("C03");
    let mut rng = Rng::new(seed ^ 0xC03);
    let mut docs: Vec<(String, Value, GenCfg)> = vec![];
    for (name, ir) in shapes() {
        docs.push((name, ir, GenCfg { exhaustive: rng.chance(1, 2), serialize_empty_collections: rng.chance(1, 2), strip_prefix: Some("com.palantir.shapes".into()), build_crate: None }));
    }
    let n = if tier == Tier::Quick { 30 } else { 400 };
    for i in 0..n {
        let ir = irrand::random_ir(&mut rng, &irrand::Opts { rich_set_items: true, ..irrand::Opts::default() });
        let strip = match rng.below(3) {
            0 => None,
            1 => Some("com.palantir.verif".to_string()),
            _ => Some("com.palantir".to_string()),
        };
        docs.push((format!("seeded#{}", i), ir, GenCfg { exhaustive: rng.chance(1, 2), serialize_empty_collections: rng.chance(1, 2), strip_prefix: strip, build_crate: None }));
    }

    // how generated code names a type of another package: an object in one package with a field of an enum type in
    // another, for a spread of package pairs and prefixes; the path written for the field against Model/TypePath.lean
    // (the documents join the corpus below, so rustc resolves every one of these paths as well)
    for (strip, this, other) in [
        (None, "com.a", "com.a"), (None, "com.a.b", "com.a"), (None, "com.a", "com.a.b.c"), (None, "a", "b"), (None, "com.a.b.c.d", "com.a.x.y"),
        (Some("com.a"), "com.a.x", "com.a.y.z"), (Some("com.a"), "com.a", "com.a.y"), (Some("com.a"), "org.b", "com.a.y"), (Some("com.a"), "com.a.y", "org.b.c"),
        (Some("com.a.x"), "com.a.x", "com.a"), (Some("com"), "com.p.q", "com.p.q.r.s"), (Some("com.a"), "com.ab.c", "com.a.c"),
        // package components that are Rust keywords, also inside the prefix
        (Some("com.acme.box"), "com.acme.box.api", "com.acme.box.model"), (Some("com.type"), "com.type.x", "com.type.async.z"), (None, "com.loop.a", "com.loop.b"), (Some("com.acme.box.api"), "com.acme.box.api", "com.acme.box"),
    ] {
        let ir = json!({"version": 1, "errors": [], "services": [], "extensions": {}, "types": [
            {"type": "enum", "enum": {"typeName": {"name": "Kind", "package": other}, "values": [{"value": "A"}, {"value": "B"}]}},
            {"type": "object", "object": {"typeName": {"name": "Holder", "package": this}, "fields": [
                {"fieldName": "kind", "type": {"type": "reference", "reference": {"name": "Kind", "package": other}}},
                {"fieldName": "kinds", "type": {"type": "map", "map": {"keyType": {"type": "reference", "reference": {"name": "Kind", "package": other}}, "valueType": {"type": "optional", "optional": {"itemType": {"type": "reference", "reference": {"name": "Holder", "package": this}}}}}}}]}}]});
        let cfg = GenCfg { exhaustive: false, serialize_empty_collections: false, strip_prefix: strip.map(|s: &str| s.to_string()), build_crate: None };
        let op = format!("typepath {} {} {} Kind", strip.map(esc_pkg).unwrap_or_else(|| "-".to_string()), esc_pkg(this), esc_pkg(other));
        let note = format!("the type of field `kind: Kind` ({}) in object Holder ({}), stripPrefix {:?}", other, this, strip);
        let real = match irgen::generate(&ir, &cfg) {
            Err(e) => format!("generation failed: {}", e.lines().next().unwrap_or("")),
            Ok(tree) => {
                let mut found = "no struct Holder with a field `kind`".to_string();
                for text in tree.values() {
                    if let Ok(file) = syn::parse_file(text) {
                        for item in &file.items {
                            if let syn::Item::Struct(st) = item {
                                if st.ident == "Holder" {
                                    if let syn::Fields::Named(n) = &st.fields {
                                        for f in &n.named {
                                            if f.ident.as_ref().map(|i| i == "kind").unwrap_or(false) {
                                                let ty = &f.ty;
                                                found = quote::quote!(#ty).to_string().replace(' ', "");
                                            }
                                        }
                                    }
                                }
                            }
                        }
                    }
                }
                found
            }
        };
        cs.push("type-path", op, real, this != other, note);
        // the statement: each declared type is exposed under its package's module (without the prefix, when the
        // package begins with it)
        if let Ok(tree) = irgen::generate(&ir, &cfg) {
            for (pkg, file) in [(this, "holder.rs"), (other, "kind.rs")] {
                let comps: Vec<String> = esc_pkg(pkg).split('.').map(|s| s.to_string()).collect();
                let pre: Vec<String> = strip.map(|p| esc_pkg(p).split('.').map(|s| s.to_string()).collect()).unwrap_or_default();
                let rest: Vec<String> = if comps.len() >= pre.len() && comps[..pre.len()] == pre[..] { comps[pre.len()..].to_vec() } else { comps.clone() };
                let want = rest.iter().cloned().chain(std::iter::once(file.to_string())).collect::<Vec<_>>().join("/");
                if !tree.contains_key(&want) {
                    cs.fail_last("type-path:module", format!("the type of package {} (stripPrefix {:?}) is not written to {}; files: {:?}", pkg, strip, want, tree.keys().collect::<Vec<_>>()));
                }
            }
        }
        docs.push((format!("type-path:{}->{} strip {:?}", this, other, strip), ir, cfg));
    }

    // (1) + (2): generate; compare identifiers
    let mut compiled: Vec<(usize, BTreeMap<String, String>)> = vec![];
    let mut case_of_doc: Vec<usize> = vec![];
    for (k, (name, ir, cfg)) in docs.iter().enumerate() {
        let class = if name.starts_with("seeded") { "seeded" } else if name.starts_with("field-named") { "keyword-field" } else if name.starts_with("type-path") { "type-path" } else if name.starts_with("type-named") { "type-named" } else { "changelog-shape" };
        let ir_txt = serde_json::to_string(ir).unwrap();
        match irgen::generate(ir, cfg) {
            Err(e) => {
                cs.push(class, "noop".into(), "noop".into(), true, format!("{} {:?}", name, cfg));
                case_of_doc.push(cs.cases.len() - 1);
                let first = e.lines().next().unwrap_or("").to_string();
                let key = if name.starts_with("field-named:") || name.starts_with("type-named:") || name.starts_with("shape:") { format!("generation-failed:{}", name) } else { format!("generation-failed:{}", if first.contains("keyword") { "keyword" } else { "other" }) };
                cs.fail_last(&key, format!("generation failed for {} under {:?}: {} — IR {}", name, cfg, e.chars().take(300).collect::<String>(), ir_txt.chars().take(1500).collect::<String>()));
            }
            Ok(tree) => {
                match field_idents(&tree) {
                    Err(e) => {
                        cs.push(class, "noop".into(), "noop".into(), true, format!("{} {:?}", name, cfg));
                        cs.fail_last("emitted-file-does-not-parse", format!("{} for {}", e, name));
                    }
                    Ok(structs) => {
                        // the generated struct of object `X` is `X` (camel-cased); compare its field identifiers
                        let mut any = false;
                        for t in ir["types"].as_array().unwrap() {
                            if t["type"] != "object" {
                                continue;
                            }
                            let tname = t["object"]["typeName"]["name"].as_str().unwrap().to_upper_camel_case();
                            let declared: Vec<String> = t["object"]["fields"].as_array().unwrap().iter().map(|f| f["fieldName"].as_str().unwrap().to_string()).collect();
                            if let Some((_, idents)) = structs.iter().find(|(n, _)| *n == tname || *n == format!("{}_", tname)) {
                                for (d, got) in declared.iter().zip(idents) {
                                    let snake = d.to_snake_case();
                                    cs.push(class, format!("ident {}", hex(snake.as_bytes())), got.clone(), snake != *d || irrand::FIELD_NAMES.contains(&d.as_str()), format!("field `{}` of {} in {}", d, tname, name));
                                    any = true;
                                }
                            }
                        }
                        if !any {
                            cs.push(class, "noop".into(), "noop".into(), interesting(ir), format!("{} {:?}", name, cfg));
                        }
                    }
                }
                // (the documents of `type-named:` give one name to several types: the read-back goes by name)
                if !name.starts_with("type-named:") {
                    boxing_case(&mut cs, class, name, ir, cfg, &tree);
                }
                case_of_doc.push(cs.cases.len() - 1);
                compiled.push((k, tree));
            }
        }
    }

    // (3) compile the batch
    let root = work();
    let _ = std::fs::remove_dir_all(root.join("src"));
    std::fs::create_dir_all(root.join("src")).unwrap();
    std::fs::write(root.join("Cargo.toml"), "[package]\nname = \"c03corpus\"\nversion = \"0.0.0\"\nedition = \"2018\"\npublish = false\n\n[workspace]\n\n[dependencies]\nconjure-object = { path = \"/repo/conjure-object\" }\nconjure-error = { path = \"/repo/conjure-error\" }\nconjure-http = { path = \"/repo/conjure-http\" }\n").unwrap();
    let _ = std::fs::copy("/verif/harness/Cargo.lock", root.join("Cargo.lock"));
    let mut lib = String::from("#![allow(warnings)]\n");
    for (k, tree) in &compiled {
        lib.push_str(&format!("pub mod ir{};\n", k));
        for (p, text) in tree {
            let path = root.join("src").join(format!("ir{}", k)).join(p);
            std::fs::create_dir_all(path.parent().unwrap()).unwrap();
            std::fs::write(path, text).unwrap();
        }
    }
    std::fs::write(root.join("src/lib.rs"), lib).unwrap();
    let out = Command::new("cargo").args(["build", "--offline", "--message-format=json", "--target-dir", "/verif/work/c03-target"]).current_dir(&root).env("CARGO_NET_OFFLINE", "true").output();
    match out {
        Err(e) => {
            cs.push("compile", "noop".into(), "noop".into(), true, "cargo build of the corpus".into());
            cs.fail_last("compile:cargo-unavailable", e.to_string());
        }
        Ok(o) => {
            let mut by_doc: BTreeMap<usize, Vec<String>> = BTreeMap::new();
            let mut other: Vec<String> = vec![];
            for line in String::from_utf8_lossy(&o.stdout).lines() {
                if let Ok(v) = serde_json::from_str::<Value>(line) {
                    if v["reason"] == "compiler-message" && v["message"]["level"] == "error" {
                        let msg = v["message"]["message"].as_str().unwrap_or("").to_string();
                        let code = v["message"]["code"]["code"].as_str().unwrap_or("").to_string();
                        let file = v["message"]["spans"].as_array().and_then(|s| s.first()).and_then(|s| s["file_name"].as_str()).unwrap_or("").to_string();
                        let doc = file.split("src/ir").nth(1).and_then(|r| r.split('/').next()).and_then(|d| d.parse::<usize>().ok());
                        let txt = format!("{} {} ({})", code, msg, file);
                        match doc {
                            Some(d) => by_doc.entry(d).or_default().push(txt),
                            None if msg.starts_with("aborting") || msg.starts_with("could not compile") => {}
                            None => other.push(txt),
                        }
                    }
                }
            }
            let ok = o.status.success();
            cs.push("compile", "noop".into(), "noop".into(), true, format!("cargo build of {} generated module trees: {}", compiled.len(), if ok { "ok" } else { "failed" }));
            if !ok && by_doc.is_empty() {
                cs.fail_last("compile:unattributed", format!("the corpus does not compile and no error points into a generated module: {:?} {}", other.iter().take(3).collect::<Vec<_>>(), String::from_utf8_lossy(&o.stderr).chars().rev().take(500).collect::<String>().chars().rev().collect::<String>()));
            }
            for (d, errs) in by_doc {
                let (name, ir, cfg) = &docs[d];
                let class = if name.starts_with("seeded") { "seeded" } else if name.starts_with("field-named") { "keyword-field" } else if name.starts_with("type-path") { "type-path" } else if name.starts_with("type-named") { "type-named" } else { "changelog-shape" };
                cs.push(class, "noop".into(), "noop".into(), true, format!("rustc on the output for {} {:?}", name, cfg));
                let key = if name.starts_with("field-named:") || name.starts_with("type-named:") || name.starts_with("shape:") { format!("does-not-compile:{}", name) } else { format!("does-not-compile:{}", errs[0].split(' ').next().unwrap_or("")) };
                cs.fail_last(&key, format!("the code generated for {} under {:?} does not compile: {} — IR {}", name, cfg, errs.iter().take(3).cloned().collect::<Vec<_>>().join(" | "), serde_json::to_string(ir).unwrap().chars().take(1500).collect::<String>()));
            }
        }
    }
    let _ = case_of_doc;
    crate_mode(&mut cs, &mut rng, tier);
    cli_cases(&mut cs);
    cs
}

/// Full-crate output (`Config::build_crate`): one document per subset of {types, errors, services} (so that every
/// combination of runtime dependencies the generated manifest can list occurs) plus seeded documents; the generated
/// crates — their own Cargo.toml included — are built as members of one workspace whose only addition is a
/// `[patch.crates-io]` that points the runtime crates at /repo.
/// "every configuration, generation reports success" through the command-line tool: every spelling of the two boolean
/// flags (absent, bare, `=true`, `=false`), with and without a prefix, in both orders — so that each flag is also once
/// the last thing before the definition's path
fn cli_cases(cs: &mut Cases) {
    let cli = match crate::ops::c20::build_cli() {
        Ok(c) => c,
        Err(e) => {
            cs.push("cli", "noop".into(), "noop".into(), true, "building the command-line tool".into());
            cs.fail_last("cli:build", e);
            return;
        }
    };
    let root = work().join("cli");
    let _ = std::fs::remove_dir_all(&root);
    std::fs::create_dir_all(&root).unwrap();
    let ir_path = root.join("ir.json");
    std::fs::write(&ir_path, serde_json::to_vec(&shapes()[1].1).unwrap()).unwrap();
    let spell = |name: &str, k: usize| -> Option<String> {
        match k {
            0 => None,
            1 => Some(format!("--{}", name)),
            2 => Some(format!("--{}=true", name)),
            _ => Some(format!("--{}=false", name)),
        }
    };
    let mut n = 0;
    for e in 0..4 {
        for s in 0..4 {
            for strip in [false, true] {
                for swapped in [false, true] {
                    let mut flags: Vec<String> = vec![];
                    let (a, b) = (spell("exhaustive", e), spell("serializeEmptyCollections", s));
                    if strip {
                        flags.push("--stripPrefix=com.palantir".to_string());
                    }
                    if swapped {
                        flags.extend(b.clone());
                        flags.extend(a.clone());
                    } else {
                        flags.extend(a.clone());
                        flags.extend(b.clone());
                    }
                    let out = root.join(format!("out{}", n));
                    n += 1;
                    let o = Command::new(&cli).arg("generate").args(&flags).arg(&ir_path).arg(&out).output();
                    let files = {
                        let mut t = BTreeMap::new();
                        read_tree_c03(&out, &out, &mut t);
                        t.len()
                    };
                    cs.push("cli", "noop".into(), "noop".into(), e == 1 || s == 1, format!("conjure-rust generate {} <ir> <out>", flags.join(" ")));
                    match o {
                        Ok(o) if o.status.success() && files > 0 => {}
                        Ok(o) => cs.fail_last("cli:generation-failed", format!("`conjure-rust generate {} <ir> <out>` exits with {:?} and writes {} files: {}", flags.join(" "), o.status.code(), files, String::from_utf8_lossy(&o.stderr).chars().take(300).collect::<String>())),
                        Err(e) => cs.fail_last("cli:generation-failed", e.to_string()),
                    }
                }
            }
        }
    }
    let _ = std::fs::remove_dir_all(&root);
}

fn read_tree_c03(root: &std::path::Path, dir: &std::path::Path, out: &mut BTreeMap<String, usize>) {
    if let Ok(rd) = std::fs::read_dir(dir) {
        for e in rd.flatten() {
            let p = e.path();
            if p.is_dir() {
                read_tree_c03(root, &p, out);
            } else {
                out.insert(p.strip_prefix(root).unwrap().to_string_lossy().to_string(), 1);
            }
        }
    }
}

fn crate_mode(cs: &mut Cases, rng: &mut Rng, tier: Tier) {
    let pkg = "com.palantir.crates";
    let tn = |n: &str| json!({"name": n, "package": pkg});
    let prim = |p: &str| json!({"type": "primitive", "primitive": p});
    let types = vec![json!({"type": "object", "object": {"typeName": tn("Thing"), "fields": [{"fieldName": "id", "type": prim("UUID")}, {"fieldName": "gen", "type": prim("INTEGER")}, {"fieldName": "weights", "type": {"type": "list", "list": {"itemType": prim("DOUBLE")}}}]}}), json!({"type": "enum", "enum": {"typeName": tn("Colour"), "values": [{"value": "RED"}]}})];
    let errors = vec![json!({"errorName": tn("ThingMissing"), "namespace": "Crates", "code": "NOT_FOUND", "safeArgs": [{"fieldName": "id", "type": prim("UUID")}], "unsafeArgs": [{"fieldName": "why", "type": {"type": "optional", "optional": {"itemType": prim("STRING")}}}]})];
    let services = vec![json!({"serviceName": tn("ThingService"), "endpoints": [{"endpointName": "count", "httpMethod": "GET", "httpPath": "/things/{kind}", "args": [{"argName": "kind", "type": prim("STRING"), "paramType": {"type": "path", "path": {}}, "markers": [], "tags": []}], "returns": prim("INTEGER"), "markers": [], "tags": []}]})];
    let mut docs: Vec<(String, Value, GenCfg)> = vec![];
    for mask in 0..8u32 {
        let name = format!("crate:{}{}{}", if mask & 1 != 0 { "types " } else { "" }, if mask & 2 != 0 { "errors " } else { "" }, if mask & 4 != 0 { "services" } else { "" });
        let d = json!({"version": 1, "types": if mask & 1 != 0 { types.clone() } else { vec![] }, "errors": if mask & 2 != 0 { errors.clone() } else { vec![] }, "services": if mask & 4 != 0 { services.clone() } else { vec![] }, "extensions": {}});
        docs.push((name.trim().to_string(), d, GenCfg { exhaustive: mask % 3 == 0, serialize_empty_collections: mask % 2 == 1, strip_prefix: if mask & 1 != 0 { Some("com.palantir".into()) } else { None }, build_crate: Some((format!("c03-crate-{}", mask), "1.2.3".into())) }));
    }
    let n = if tier == Tier::Quick { 3 } else { 25 };
    for i in 0..n {
        let ir = irrand::random_ir(rng, &irrand::Opts { rich_set_items: true, ..irrand::Opts::default() });
        docs.push((format!("crate:seeded#{}", i), ir, GenCfg { exhaustive: rng.chance(1, 2), serialize_empty_collections: rng.chance(1, 2), strip_prefix: None, build_crate: Some((format!("c03-crate-s{}", i), "0.1.0".into())) }));
    }
    let root = PathBuf::from("/verif/work/c03-crates");
    let _ = std::fs::remove_dir_all(&root);
    std::fs::create_dir_all(&root).unwrap();
    let mut members = vec![];
    for (k, (name, ir, cfg)) in docs.iter().enumerate() {
        match irgen::generate(ir, cfg) {
            Err(e) => {
                cs.push("crate-mode", "noop".into(), "noop".into(), true, format!("{} {:?}", name, cfg));
                cs.fail_last("generation-failed:crate-mode", format!("generation failed for {} under {:?}: {} — IR {}", name, cfg, e.chars().take(300).collect::<String>(), serde_json::to_string(ir).unwrap().chars().take(1500).collect::<String>()));
            }
            Ok(tree) => {
                for (p, text) in &tree {
                    let path = root.join(format!("m{}", k)).join(p);
                    std::fs::create_dir_all(path.parent().unwrap()).unwrap();
                    std::fs::write(path, text).unwrap();
                }
                let has = tree.contains_key("Cargo.toml") && tree.contains_key("src/lib.rs");
                cs.push("crate-mode", "noop".into(), "noop".into(), true, format!("{} {:?}: {} files", name, cfg, tree.len()));
                if !has {
                    cs.fail_last("crate-mode:no-manifest", format!("crate output for {} has no Cargo.toml / src/lib.rs: {:?}", name, tree.keys().collect::<Vec<_>>()));
                } else {
                    members.push(k);
                }
            }
        }
    }
    let ws = format!("[workspace]\nresolver = \"2\"\nmembers = [{}]\n\n[patch.crates-io]\nconjure-object = {{ path = \"/repo/conjure-object\" }}\nconjure-error = {{ path = \"/repo/conjure-error\" }}\nconjure-http = {{ path = \"/repo/conjure-http\" }}\n", members.iter().map(|k| format!("\"m{}\"", k)).collect::<Vec<_>>().join(", "));
    std::fs::write(root.join("Cargo.toml"), ws).unwrap();
    let _ = std::fs::copy("/verif/harness/Cargo.lock", root.join("Cargo.lock"));
    let out = Command::new("cargo").args(["build", "--offline", "--workspace", "--message-format=json", "--target-dir", "/verif/work/c03-target"]).current_dir(&root).env("CARGO_NET_OFFLINE", "true").env("RUSTFLAGS", "-Awarnings").output();
    match out {
        Err(e) => {
            cs.push("crate-mode", "noop".into(), "noop".into(), true, "cargo build of the generated crates".into());
            cs.fail_last("compile:cargo-unavailable", e.to_string());
        }
        Ok(o) => {
            let mut by_doc: BTreeMap<usize, Vec<String>> = BTreeMap::new();
            for line in String::from_utf8_lossy(&o.stdout).lines() {
                if let Ok(v) = serde_json::from_str::<Value>(line) {
                    if v["reason"] == "compiler-message" && v["message"]["level"] == "error" {
                        let msg = v["message"]["message"].as_str().unwrap_or("").to_string();
                        let code = v["message"]["code"]["code"].as_str().unwrap_or("").to_string();
                        let member = v["manifest_path"].as_str().unwrap_or("").to_string();
                        let doc = member.split("c03-crates/m").nth(1).and_then(|r| r.split('/').next()).and_then(|d| d.parse::<usize>().ok());
                        if let Some(d) = doc {
                            if !msg.starts_with("aborting") && !msg.starts_with("could not compile") {
                                by_doc.entry(d).or_default().push(format!("{} {}", code, msg));
                            }
                        }
                    }
                }
            }
            let ok = o.status.success();
            cs.push("crate-mode", "noop".into(), "noop".into(), true, format!("cargo build of {} generated crates: {}", members.len(), if ok { "ok" } else { "failed" }));
            if !ok && by_doc.is_empty() {
                cs.fail_last("compile:unattributed", format!("the generated crates do not build and no error points into one of them: {}", String::from_utf8_lossy(&o.stderr).chars().rev().take(700).collect::<String>().chars().rev().collect::<String>()));
            }
            for (d, errs) in by_doc {
                let (name, ir, cfg) = &docs[d];
                cs.push("crate-mode", "noop".into(), "noop".into(), true, format!("rustc on the crate generated for {} {:?}", name, cfg));
                cs.fail_last(&format!("crate-does-not-compile:{}", errs[0].split(' ').next().unwrap_or("")), format!("the crate generated for {} under {:?} does not compile with its own manifest: {} — manifest {:?} — IR {}", name, cfg, errs.iter().take(3).cloned().collect::<Vec<_>>().join(" | "), std::fs::read_to_string(root.join(format!("m{}", d)).join("Cargo.toml")).unwrap_or_default(), serde_json::to_string(ir).unwrap().chars().take(1200).collect::<String>()));
            }
        }
    }
}
