//! C15 — every route that can produce a `SafeLong`, on boundary neighbourhoods and random values.
use crate::run::{Cases, Tier};
use crate::util::{hex, Rng};
use conjure_object::{Any, FromPlain, SafeLong};
use std::collections::BTreeMap;
use std::convert::TryFrom;
use std::str::FromStr;

const MAX: i128 = (1 << 53) - 1;

fn safe(v: i128) -> bool {
    -MAX <= v && v <= MAX
}

fn show(r: Result<SafeLong, String>) -> String {
    match r {
        Ok(s) => format!("ok {}", *s),
        Err(e) if e.starts_with(PANIC) => "panic".to_string(),
        Err(_) => "err".to_string(),
    }
}

const PANIC: &str = "PANIC: ";

/// like `run::guarded`, but a panic is told apart from a reported error (the statement demands an error)
fn guarded<T>(f: impl FnOnce() -> T) -> Result<T, String> {
    crate::run::guarded(f).map_err(|p| format!("{}{}", PANIC, p))
}

fn panicked(cs: &mut Cases, route: &str, input: &str, r: &Result<SafeLong, String>) -> bool {
    if let Err(e) = r {
        if e.starts_with(PANIC) {
            cs.fail_last(&format!("{}:panic", route), format!("{} panicked on {} instead of reporting an error: {}", route, input, &e[PANIC.len()..]));
            return true;
        }
    }
    false
}

/// property oracle for integer routes: accepted iff safe, and the value is kept
fn check_int(cs: &mut Cases, route: &str, v: i128, r: &Result<SafeLong, String>) {
    if panicked(cs, route, &v.to_string(), r) {
        return;
    }
    match r {
        Ok(s) => {
            if !safe(**s as i128) {
                cs.fail_last(&format!("{}:out-of-range-produced", route), format!("{} produced safelong {} outside the safe range from {}", route, **s, v));
            } else if **s as i128 != v {
                cs.fail_last(&format!("{}:value-changed", route), format!("{} turned {} into {}", route, v, **s));
            }
        }
        Err(e) => {
            if safe(v) {
                cs.fail_last(&format!("{}:in-range-rejected", route), format!("{} rejected in-range {}: {}", route, v, e));
            }
        }
    }
}

fn int_pool(rng: &mut Rng, tier: Tier) -> Vec<i128> {
    let mut v: Vec<i128> = vec![];
    for d in -4..=4 {
        v.push(MAX + d);
        v.push(-MAX + d);
        v.push(d);
    }
    let edges: [i128; 12] = [
        i8::MIN as i128, i8::MAX as i128, u8::MAX as i128, i16::MIN as i128, i16::MAX as i128, u16::MAX as i128,
        i32::MIN as i128, i32::MAX as i128, u32::MAX as i128, i64::MIN as i128, i64::MAX as i128, u64::MAX as i128,
    ];
    for e in edges {
        for d in -1..=1 {
            v.push(e + d);
        }
    }
    v.push(i128::MAX);
    v.push(i128::MIN);
    v.push(i128::MAX - 1);
    v.push(1 << 52);
    v.push(-(1 << 54));
    let n = if tier == Tier::Quick { 300 } else { 10_000 };
    for _ in 0..n {
        let bits = 1 + rng.below(70) as u32;
        let mag = (rng.next() as i128 | ((rng.next() as i128) << 64)) & ((1i128 << bits) - 1);
        v.push(if rng.chance(1, 2) { -mag } else { mag });
        // near the bound
        v.push(MAX - rng.range(-2000, 2000) as i128);
        v.push(-MAX + rng.range(-2000, 2000) as i128);
    }
    v
}

macro_rules! try_from_w {
    ($cs:ident, $v:ident, $t:ty, $name:expr) => {
        if let Ok(n) = <$t>::try_from($v) {
            let r = guarded(move || SafeLong::try_from(n).map_err(|e| e.to_string())).and_then(|r| r);
            $cs.push(concat!("tryfrom:", $name), format!("tryfrom {}", $v), show(r.clone()), !safe($v) || $v.abs() > (1 << 32), format!("SafeLong::try_from({}{})", $v, $name));
            check_int(&mut $cs, concat!("try_from<", $name, ">"), $v, &r);
        }
    };
}

macro_rules! from_w {
    ($cs:ident, $v:ident, $t:ty, $s:expr, $bits:expr) => {
        if let Ok(n) = <$t>::try_from($v) {
            let r: Result<SafeLong, String> = guarded(move || SafeLong::from(n));
            $cs.push(concat!("from:", $s, stringify!($bits)), format!("from {} {} {}", $s, $bits, $v), show(r.clone()), $v.abs() >= 127, format!("SafeLong::from({}{}{})", $v, $s, $bits));
            check_int(&mut $cs, "from", $v, &r);
        }
    };
}

fn text_route(cs: &mut Cases, text: &str) {
    let meaning: Option<i128> = {
        // mathematical value of `[+-]?[0-9]+`, None if not of that shape (or too long to matter)
        let (neg, digits) = match text.as_bytes().first() {
            Some(b'+') => (false, &text[1..]),
            Some(b'-') => (true, &text[1..]),
            _ => (false, text),
        };
        if !digits.is_empty() && digits.len() <= 36 && digits.bytes().all(|b| b.is_ascii_digit()) {
            digits.parse::<i128>().ok().map(|m| if neg { -m } else { m })
        } else {
            None
        }
    };
    let json_shape = {
        let t = text.strip_prefix('-').unwrap_or(text);
        !t.is_empty() && t.bytes().all(|b| b.is_ascii_digit()) && (t == "0" || !t.starts_with('0')) && text != "-0"
    };
    let nontriv = meaning.map(|m| !safe(m) || m.abs() > 1 << 40).unwrap_or(true) || text.starts_with('+') || text.starts_with("0") || text.starts_with("-0");
    let note = format!("{:?}", text);
    let h = hex(text.as_bytes());
    let check_text = |cs: &mut Cases, route: &str, accepts_shape: bool, r: &Result<SafeLong, String>| if panicked(cs, route, &format!("{:?}", text), r) {
    } else { match (r, meaning) {
        (Ok(s), Some(m)) => {
            if !safe(**s as i128) {
                cs.fail_last(&format!("{}:out-of-range-produced", route), format!("{} produced {} from text {:?}", route, **s, text));
            } else if **s as i128 != m {
                cs.fail_last(&format!("{}:value-changed", route), format!("{} read {:?} as {}", route, text, **s));
            }
        }
        (Ok(s), None) => {
            if !safe(**s as i128) {
                cs.fail_last(&format!("{}:out-of-range-produced", route), format!("{} produced {} from text {:?}", route, **s, text));
            }
        }
        (Err(e), Some(m)) => {
            if safe(m) && accepts_shape {
                cs.fail_last(&format!("{}:in-range-rejected", route), format!("{} rejected {:?}: {}", route, text, e));
            }
        }
        (Err(_), None) => {}
    } };

    let t = text.to_string();
    let r = guarded(move || SafeLong::from_str(&t).map_err(|e| e.to_string())).and_then(|r| r);
    cs.push("fromstr", format!("fromstr {}", h), show(r.clone()), nontriv, format!("SafeLong::from_str({})", note));
    check_text(cs, "from_str", meaning.is_some(), &r);

    let t = text.to_string();
    let r = guarded(move || SafeLong::from_plain(&t).map_err(|e| e.to_string())).and_then(|r| r);
    cs.push("plain", format!("plain {}", h), show(r.clone()), nontriv, format!("SafeLong::from_plain({})", note));
    check_text(cs, "from_plain", meaning.is_some(), &r);

    // the server's parameter decoders (what a generated endpoint uses for a safelong path / query / header argument):
    // single, optional, and as the middle element of a list between two good ones — a bad element fails the whole
    // list, it is not dropped
    {
        use conjure_http::server::conjure::{FromPlainDecoder, FromPlainOptionDecoder, FromPlainSeqDecoder};
        use conjure_http::server::{ConjureRuntime, DecodeParam};
        let t = text.to_string();
        let r = guarded(move || <FromPlainDecoder as DecodeParam<SafeLong>>::decode(&ConjureRuntime::new(), [t.as_str()]).map_err(|e| e.cause().to_string())).and_then(|r| r);
        cs.push("param", format!("plain {}", h), show(r.clone()), nontriv, format!("FromPlainDecoder on the parameter {}", note));
        check_text(cs, "param", meaning.is_some(), &r);
        let t = text.to_string();
        let r = guarded(move || <FromPlainOptionDecoder as DecodeParam<Option<SafeLong>>>::decode(&ConjureRuntime::new(), [t.as_str()]).map_err(|e| e.cause().to_string()));
        let flat: Result<SafeLong, String> = match r {
            Ok(Ok(Some(v))) => Ok(v),
            Ok(Ok(None)) => Err("<absent>".into()),
            Ok(Err(e)) => Err(e),
            Err(p) => Err(p),
        };
        cs.push("param-opt", format!("plain {}", h), show(flat.clone()), nontriv, format!("FromPlainOptionDecoder on the parameter {}", note));
        check_text(cs, "param-opt", meaning.is_some(), &flat);
        if matches!(&flat, Err(e) if e == "<absent>") {
            cs.fail_last("param-opt:value-dropped", format!("the optional parameter given as {:?} decodes to the absent optional instead of a value or an error", text));
        }
        // the same three decoders in their header form, for every text a header can carry
        if let Ok(hv) = http::HeaderValue::from_str(text) {
            use conjure_http::server::DecodeHeader;
            let hv1 = hv.clone();
            let r = guarded(move || <FromPlainDecoder as DecodeHeader<SafeLong>>::decode(&ConjureRuntime::new(), [&hv1]).map_err(|e| e.cause().to_string())).and_then(|r| r);
            cs.push("header", format!("plain {}", h), show(r.clone()), nontriv, format!("FromPlainDecoder on the header {}", note));
            check_text(cs, "header", meaning.is_some(), &r);
            let hv1 = hv.clone();
            let r = guarded(move || <FromPlainOptionDecoder as DecodeHeader<Option<SafeLong>>>::decode(&ConjureRuntime::new(), [&hv1]).map_err(|e| e.cause().to_string()));
            let flat: Result<SafeLong, String> = match r {
                Ok(Ok(Some(v))) => Ok(v),
                Ok(Ok(None)) => Err("<absent>".into()),
                Ok(Err(e)) => Err(e),
                Err(p) => Err(p),
            };
            cs.push("header-opt", format!("plain {}", h), show(flat.clone()), nontriv, format!("FromPlainOptionDecoder on the header {}", note));
            check_text(cs, "header-opt", meaning.is_some(), &flat);
            if matches!(&flat, Err(e) if e == "<absent>") {
                cs.fail_last("header-opt:value-dropped", format!("the optional header given as {:?} decodes to the absent optional instead of a value or an error", text));
            }
        }
        let t = text.to_string();
        let r = guarded(move || <FromPlainSeqDecoder<SafeLong> as DecodeParam<Vec<SafeLong>>>::decode(&ConjureRuntime::new(), ["1", t.as_str(), "-2"]).map_err(|e| e.cause().to_string()));
        let flat: Result<SafeLong, String> = match r {
            Ok(Ok(v)) if v.len() == 3 && *v[0] == 1 && *v[2] == -2 => Ok(v[1]),
            Ok(Ok(v)) => Err(format!("<{} elements: {:?}>", v.len(), v.iter().map(|x| **x).collect::<Vec<_>>())),
            Ok(Err(e)) => Err(e),
            Err(p) => Err(p),
        };
        cs.push("param-seq", format!("plain {}", h), show(flat.clone()), nontriv, format!("FromPlainSeqDecoder on the parameters 1, {}, -2", note));
        check_text(cs, "param-seq", meaning.is_some(), &flat);
        if let Err(e) = &flat {
            if e.starts_with('<') {
                cs.fail_last("param-seq:elements-dropped", format!("the list 1, {:?}, -2 decodes to {} instead of three elements or an error", text, e));
            }
        }
    }

    // JSON routes only for texts made of sign and digits (no escapes, no whitespace): the model has
    // the JSON integer grammar, not a JSON parser.
    if text.bytes().all(|b| b.is_ascii_digit() || b == b'-' || b == b'+') && !text.is_empty() {
        let t = text.to_string();
        let r = guarded(move || {
            let c = conjure_serde::json::client_from_str::<SafeLong>(&t).map_err(|e| e.to_string());
            let s = conjure_serde::json::server_from_slice::<SafeLong>(t.as_bytes()).map_err(|e| e.to_string());
            (c, s)
        });
        let (r, differ) = match r {
            Ok((c, s)) => {
                let d = c.as_ref().ok().map(|x| **x) != s.as_ref().ok().map(|x| **x);
                (c, d)
            }
            Err(e) => (Err(e), false),
        };
        cs.push("jsonvalue", format!("jsonvalue {}", h), show(r.clone()), nontriv, format!("json document {}", text));
        if differ {
            cs.fail_last("jsonvalue:client-server-differ", format!("client and server deserializers disagree on {}", text));
        } else {
            check_text(cs, "json-value", json_shape, &r);
        }

        let doc = format!("{{\"{}\":true}}", text);
        let r = guarded(move || conjure_serde::json::server_from_str::<BTreeMap<SafeLong, bool>>(&doc).map_err(|e| e.to_string())).and_then(|r| r);
        let r = r.and_then(|m| m.keys().next().copied().ok_or_else(|| "empty".to_string()));
        cs.push("jsonkey", format!("jsonkey {}", h), show(r.clone()), nontriv, format!("json map key \"{}\"", text));
        check_text(cs, "json-key", json_shape, &r);

        // the dynamic `any`: a JSON integer / an object key held in an Any, then viewed as a safelong
        // (same verdict and value as the direct routes: the model lines are the same)
        let t = text.to_string();
        let r = guarded(move || {
            let any = conjure_serde::json::client_from_str::<conjure_object::Any>(&t).map_err(|e| e.to_string())?;
            any.deserialize_into::<SafeLong>().map_err(|e| e.to_string())
        })
        .and_then(|r| r);
        cs.push("anyvalue", format!("jsonvalue {}", h), show(r.clone()), nontriv, format!("json document {} held in an Any", text));
        check_text(cs, "any-value", json_shape, &r);
        let doc = format!("{{\"{}\":true}}", text);
        let r = guarded(move || {
            let any = conjure_serde::json::client_from_str::<conjure_object::Any>(&doc).map_err(|e| e.to_string())?;
            any.deserialize_into::<BTreeMap<SafeLong, bool>>().map_err(|e| e.to_string())
        })
        .and_then(|r| r);
        let r = r.and_then(|m| m.keys().next().copied().ok_or_else(|| "empty".to_string()));
        // (a key held in an Any is a string; it is parsed with Rust's integer grammar, like `from_str`)
        cs.push("anykey", format!("fromstr {}", h), show(r.clone()), nontriv, format!("json map key \"{}\" held in an Any", text));
        check_text(cs, "any-key", meaning.is_some(), &r);
    }
}

pub fn cases(seed: u64, tier: Tier) -> Cases {
    let mut rng = Rng::new(seed);
    let mut cs = Cases::new("C15");
    let pool = int_pool(&mut rng, tier);
    // u128 values beyond i128 (the pool above is i128): the model line carries the decimal text
    for d in 0..6u128 {
        for n in [u128::MAX - d, (1u128 << 127) + d, (1u128 << 127) - 1 - d, u128::MAX - (1u128 << 53) + d, (1u128 << 64) + d] {
            let r = guarded(move || SafeLong::try_from(n).map_err(|e| e.to_string())).and_then(|r| r);
            cs.push("tryfrom:u128", format!("tryfrom {}", n), show(r.clone()), true, format!("SafeLong::try_from({}u128)", n));
            if !panicked(&mut cs, "try_from<u128>", &n.to_string(), &r) {
                if let Ok(s) = &r {
                    cs.fail_last("try_from<u128>:out-of-range-accepted", format!("try_from<u128> accepted {} (far outside the safe range) as {}", n, **s));
                }
            }
        }
    }
    for &v in &pool {
        if let Ok(n) = i64::try_from(v) {
            let r = guarded(move || SafeLong::new(n).map_err(|e| e.to_string())).and_then(|r| r);
            cs.push("new", format!("new {}", v), show(r.clone()), !safe(v) || v.abs() > 1 << 32, format!("SafeLong::new({})", v));
            check_int(&mut cs, "new", v, &r);
        }
        try_from_w!(cs, v, u64, "u64");
        try_from_w!(cs, v, i64, "i64");
        try_from_w!(cs, v, u128, "u128");
        try_from_w!(cs, v, i128, "i128");
        try_from_w!(cs, v, usize, "usize");
        try_from_w!(cs, v, isize, "isize");
        from_w!(cs, v, u8, "u", 8);
        from_w!(cs, v, i8, "i", 8);
        from_w!(cs, v, u16, "u", 16);
        from_w!(cs, v, i16, "i", 16);
        from_w!(cs, v, u32, "u", 32);
        from_w!(cs, v, i32, "i", 32);
        // Smile: an integer token written by the Conjure Smile serializer, read back as SafeLong
        if let Ok(n) = i64::try_from(v) {
            let r = guarded(move || {
                let bytes = conjure_serde::smile::to_vec(&n).map_err(|e| e.to_string())?;
                conjure_serde::smile::server_from_slice::<SafeLong>(&bytes).map_err(|e| e.to_string())
            })
            .and_then(|r| r);
            cs.push("smile", format!("smile {}", v), show(r.clone()), !safe(v) || v.abs() > 1 << 32, format!("smile integer {}", v));
            check_int(&mut cs, "smile", v, &r);
        }
        // Any: an integer of any width stored in the dynamic value, viewed as SafeLong
        {
            let r = guarded(move || {
                let any = if let Ok(n) = i64::try_from(v) {
                    Any::new(n)
                } else if let Ok(n) = u64::try_from(v) {
                    Any::new(n)
                } else {
                    Any::new(v)
                }
                .map_err(|e| e.to_string())?;
                any.deserialize_into::<SafeLong>().map_err(|e| e.to_string())
            })
            .and_then(|r| r);
            cs.push("any", format!("any {}", v), show(r.clone()), !safe(v) || v.abs() > 1 << 32, format!("Any::new({}).deserialize_into::<SafeLong>()", v));
            check_int(&mut cs, "any", v, &r);
            // … and as the key of a map that is made into an `Any` in the program (its keys are integers there, not
            // the strings a parsed document has) and viewed as a map with safelong keys (same verdict: same model line)
            if let Ok(n) = i64::try_from(v) {
                let r = guarded(move || {
                    let mut m = BTreeMap::new();
                    m.insert(n, true);
                    let any = Any::new(&m).map_err(|e| e.to_string())?;
                    let back = any.deserialize_into::<BTreeMap<SafeLong, bool>>().map_err(|e| e.to_string())?;
                    back.keys().next().copied().ok_or_else(|| "empty".to_string())
                })
                .and_then(|r| r);
                cs.push("any-map-key", format!("any {}", v), show(r.clone()), !safe(v) || v.abs() > 1 << 32, format!("Any::new(map {{{}: true}}).deserialize_into::<BTreeMap<SafeLong, bool>>()", v));
                check_int(&mut cs, "any-map-key", v, &r);
            }
        }
        // canonical decimal text and variations of it
        let t = v.to_string();
        text_route(&mut cs, &t);
        if v >= 0 {
            text_route(&mut cs, &format!("+{}", t));
            text_route(&mut cs, &format!("00{}", t));
        } else {
            text_route(&mut cs, &format!("-0{}", &t[1..]));
        }
    }
    for t in ["", "+", "-", "--1", "+-1", "1 ", " 1", "1_000", "0x10", "1e3", "1.0", "９", "-", "0", "-0", "+0", "00", "9007199254740991.0", "1\n", "٣"] {
        text_route(&mut cs, t);
    }
    cs
}

pub const RULE: &str = "integer pool = ±4 around ±(2^53-1) and 0, every Rust integer width's min/max ±1, i128 extremes, seeded random magnitudes of 1..70 bits and seeded values within ±2000 of the bounds; each integer is sent through new, 6 try_from widths, 6 from widths, Smile, Any, and as decimal text (canonical, '+'-prefixed, zero-padded) through from_str, from_plain, JSON value (client and server) and JSON map key; plus 20 malformed texts. A case is non-trivial when the value is outside the safe range or above 2^32 in magnitude, or the text is non-canonical; distinct = distinct operation lines.";
