//! C01 — the Conjure JSON / Smile serializers and client / server deserializers on seeded typed
//! values that reach every serde entry point, against the model and the round-trip oracle.
use crate::dynval::*;
use crate::run::{guarded, Cases, Tier};
use crate::util::Rng;
use serde::de::DeserializeSeed;
use std::collections::BTreeMap;

fn json_tree(bytes: &[u8]) -> Result<Tree, String> {
    serde_json::from_slice::<Tree>(bytes).map_err(|e| format!("stock serde_json cannot read the output: {}", e))
}
fn smile_tree(bytes: &[u8]) -> Result<Tree, String> {
    serde_smile::from_slice::<Tree>(bytes).map_err(|e| format!("stock serde_smile cannot read the output: {}", e))
}

pub struct SerOut {
    pub bytes: Vec<u8>,
    pub tree: Tree,
    pub pretty: Option<Vec<u8>>,
}

pub fn real_ser(fmt: &str, ty: &DynTy, val: &DynVal) -> Result<Result<SerOut, String>, String> {
    let (ty, val) = (ty.clone(), val.clone());
    let fmt = fmt.to_string();
    guarded(move || {
        let t = Typed(&ty, &val);
        if fmt == "json" {
            let a = conjure_serde::json::to_vec(&t).map_err(|e| e.to_string())?;
            let b = conjure_serde::json::to_string(&t).map_err(|e| e.to_string())?;
            let mut c = vec![];
            conjure_serde::json::to_writer(&mut c, &t).map_err(|e| e.to_string())?;
            let mut p = vec![];
            {
                use serde::Serialize;
                let mut s = conjure_serde::json::Serializer::pretty(&mut p);
                t.serialize(&mut s).map_err(|e| e.to_string())?;
            }
            if a != b.as_bytes() || a != c {
                return Err("INCONSISTENT: to_vec / to_string / to_writer differ".to_string());
            }
            let tree = json_tree(&a)?;
            if json_tree(&p)? != tree {
                return Err("INCONSISTENT: pretty and compact output are different documents".to_string());
            }
            Ok(SerOut { bytes: a, tree, pretty: Some(p) })
        } else {
            let a = conjure_serde::smile::to_vec(&t).map_err(|e| e.to_string())?;
            let mut c = vec![];
            conjure_serde::smile::to_writer(&mut c, &t).map_err(|e| e.to_string())?;
            if a != c {
                return Err("INCONSISTENT: to_vec / to_writer differ".to_string());
            }
            let tree = smile_tree(&a)?;
            Ok(SerOut { bytes: a, tree, pretty: None })
        }
    })
}

pub fn show_de(r: &Result<DynVal, String>) -> String {
    match r {
        Ok(v) => format!("ok {}", v.txt()),
        Err(e) => {
            if let Some(i) = e.find("unknown field `") {
                let rest = &e[i + 15..];
                if let Some(j) = rest.find('`') {
                    return format!("err-unknown {}", crate::util::hex(rest[..j].as_bytes()));
                }
            }
            "err".into()
        }
    }
}

/// all input sources of one (format, side); Err(..) in the outer Result = sources disagree / panic
pub fn real_de(fmt: &str, side: &str, ty: &DynTy, bytes: &[u8]) -> Result<Result<DynVal, String>, String> {
    let ty = ty.clone();
    let bytes = bytes.to_vec();
    let (fmt, side) = (fmt.to_string(), side.to_string());
    guarded(move || {
        let seed = Seed(&ty);
        let mut results: Vec<Result<DynVal, String>> = vec![];
        if fmt == "json" {
            let s = String::from_utf8_lossy(&bytes).to_string();
            if side == "client" {
                let mut d = conjure_serde::json::ClientDeserializer::from_str(&s);
                results.push(seed.deserialize(&mut d).map_err(|e| e.to_string()).and_then(|v| d.end().map(|_| v).map_err(|e| e.to_string())));
                let mut d = conjure_serde::json::ClientDeserializer::from_slice(&bytes);
                results.push(seed.deserialize(&mut d).map_err(|e| e.to_string()).and_then(|v| d.end().map(|_| v).map_err(|e| e.to_string())));
                let mut d = conjure_serde::json::ClientDeserializer::from_reader(&bytes[..]);
                results.push(seed.deserialize(&mut d).map_err(|e| e.to_string()).and_then(|v| d.end().map(|_| v).map_err(|e| e.to_string())));
            } else {
                let mut d = conjure_serde::json::ServerDeserializer::from_str(&s);
                results.push(seed.deserialize(&mut d).map_err(|e| e.to_string()).and_then(|v| d.end().map(|_| v).map_err(|e| e.to_string())));
                let mut d = conjure_serde::json::ServerDeserializer::from_slice(&bytes);
                results.push(seed.deserialize(&mut d).map_err(|e| e.to_string()).and_then(|v| d.end().map(|_| v).map_err(|e| e.to_string())));
                let mut d = conjure_serde::json::ServerDeserializer::from_reader(&bytes[..]);
                results.push(seed.deserialize(&mut d).map_err(|e| e.to_string()).and_then(|v| d.end().map(|_| v).map_err(|e| e.to_string())));
            }
        } else {
            let mut copy = bytes.clone();
            if side == "client" {
                let mut d = conjure_serde::smile::ClientDeserializer::from_slice(&bytes);
                results.push(seed.deserialize(&mut d).map_err(|e| e.to_string()).and_then(|v| d.end().map(|_| v).map_err(|e| e.to_string())));
                let mut d = conjure_serde::smile::ClientDeserializer::from_mut_slice(&mut copy);
                results.push(seed.deserialize(&mut d).map_err(|e| e.to_string()).and_then(|v| d.end().map(|_| v).map_err(|e| e.to_string())));
                let mut d = conjure_serde::smile::ClientDeserializer::from_reader(std::io::BufReader::new(&bytes[..]));
                results.push(seed.deserialize(&mut d).map_err(|e| e.to_string()).and_then(|v| d.end().map(|_| v).map_err(|e| e.to_string())));
            } else {
                let mut d = conjure_serde::smile::ServerDeserializer::from_slice(&bytes);
                results.push(seed.deserialize(&mut d).map_err(|e| e.to_string()).and_then(|v| d.end().map(|_| v).map_err(|e| e.to_string())));
                let mut d = conjure_serde::smile::ServerDeserializer::from_mut_slice(&mut copy);
                results.push(seed.deserialize(&mut d).map_err(|e| e.to_string()).and_then(|v| d.end().map(|_| v).map_err(|e| e.to_string())));
                let mut d = conjure_serde::smile::ServerDeserializer::from_reader(std::io::BufReader::new(&bytes[..]));
                results.push(seed.deserialize(&mut d).map_err(|e| e.to_string()).and_then(|v| d.end().map(|_| v).map_err(|e| e.to_string())));
            }
        }
        let first = show_de(&results[0]);
        for (i, r) in results.iter().enumerate() {
            if show_de(r) != first {
                return Err(format!("INCONSISTENT: input source {} gives {} but source 0 gives {}", i, show_de(r), first));
            }
        }
        results.remove(0)
    })
}

/// JSON shape rules of the statement, checked on the tree with the type alongside
fn json_shape(ty: &DynTy, val: &DynVal, tree: &Tree) -> Result<(), String> {
    use base64::Engine;
    match (ty, val, tree) {
        (DynTy::Bytes, DynVal::Bytes(b), t) => {
            let want = base64::engine::general_purpose::STANDARD.encode(b);
            if *t != Tree::Str(want.clone()) {
                return Err(format!("binary is written {:?}, expected the padded Base64 string {:?}", t, want));
            }
        }
        (DynTy::F64, DynVal::F64(d), t) | (DynTy::F32, DynVal::F32(d), t) => {
            let want = match d {
                Dbl::Nan => Tree::Str("NaN".into()),
                Dbl::Inf => Tree::Str("Infinity".into()),
                Dbl::NInf => Tree::Str("-Infinity".into()),
                Dbl::Fin(_) => return if matches!(t, Tree::Dbl(Dbl::Fin(_)) | Tree::Int(_)) { Ok(()) } else { Err(format!("finite double written as {:?}", t)) },
            };
            if *t != want {
                return Err(format!("non-finite double written as {:?}, expected {:?}", t, want));
            }
        }
        (DynTy::Opt(t), DynVal::Some(v), tr) | (DynTy::Newtype(t), DynVal::Newtype(v), tr) => return json_shape(t, v, tr),
        (DynTy::Seq(t), DynVal::Seq(vs), Tree::Arr(xs)) => {
            for (v, x) in vs.iter().zip(xs) {
                json_shape(t, v, x)?;
            }
        }
        (DynTy::Tuple(ts), DynVal::Tuple(vs), Tree::Arr(xs)) | (DynTy::TupleStruct(ts), DynVal::TupleStruct(vs), Tree::Arr(xs)) => {
            for ((t, v), x) in ts.iter().zip(vs).zip(xs) {
                json_shape(t, v, x)?;
            }
        }
        (DynTy::Struct(fs), DynVal::Struct(vs), Tree::Obj(ms)) => {
            for (((_, t), v), (_, x)) in fs.iter().zip(vs).zip(ms) {
                json_shape(t, v, x)?;
            }
        }
        (DynTy::Map(kt, vt), DynVal::Map(es), Tree::Obj(ms)) => {
            for ((k, v), (name, x)) in es.iter().zip(ms) {
                let want = key_spelling(kt, k);
                if let Some(w) = want {
                    if &w != name {
                        return Err(format!("map key {:?} is spelled {:?}, expected {:?}", k, name, w));
                    }
                }
                json_shape(vt, v, x)?;
            }
        }
        (DynTy::Enum(vars), DynVal::Variant(i, p), Tree::Obj(ms)) if ms.len() == 1 => return json_shape(&vars[*i].2, p, &ms[0].1),
        _ => {}
    }
    Ok(())
}

fn key_spelling(kt: &DynTy, k: &DynVal) -> Option<String> {
    use base64::Engine;
    Some(match (kt, k) {
        (DynTy::Bool, DynVal::Bool(b)) => b.to_string(),
        (DynTy::Int(..), DynVal::Int(n)) => n.to_string(),
        (DynTy::F64, DynVal::F64(d)) | (DynTy::F32, DynVal::F32(d)) => match d {
            Dbl::Nan => "NaN".into(),
            Dbl::Inf => "Infinity".into(),
            Dbl::NInf => "-Infinity".into(),
            Dbl::Fin(_) => return None,
        },
        (DynTy::Str, DynVal::Str(s)) => s.clone(),
        (DynTy::Uuid, DynVal::Uuid(b)) => uuid::Uuid::from_bytes(*b).hyphenated().to_string(),
        (DynTy::Bytes, DynVal::Bytes(b)) => base64::engine::general_purpose::STANDARD.encode(b),
        (DynTy::Newtype(t), DynVal::Newtype(v)) => return key_spelling(t, v),
        (DynTy::Enum(vs), DynVal::Variant(i, _)) => vs[*i].0.clone(),
        _ => return None,
    })
}

pub fn one_value(cs: &mut Cases, class: &str, ty: &DynTy, val: &DynVal, hist: &mut BTreeMap<String, u64>) {
    entry_points(ty, val, false, hist);
    let mut json_tree_for_keys: Option<Tree> = None;
    for fmt in ["json", "smile"] {
        let op = format!("ser {} {} {}", fmt, ty.txt(), val.txt());
        let note = format!("{} serialize {} : {}", fmt, val.txt(), ty.txt());
        let out = match real_ser(fmt, ty, val) {
            Err(p) => {
                cs.push(class, op, "panic".into(), true, note);
                cs.fail_last(&format!("{}:ser-panic", fmt), p);
                continue;
            }
            Ok(Err(e)) => {
                cs.push(class, op, "err".into(), true, note);
                cs.fail_last(&format!("{}:ser-failed", fmt), format!("serialization of a data-model value failed: {}", e));
                continue;
            }
            Ok(Ok(o)) => o,
        };
        cs.push(class, op, out.tree.txt(Some(ty)), true, note);
        if fmt == "json" {
            if let Err(e) = json_shape(ty, val, &out.tree) {
                cs.fail_last("json:shape", e);
            }
            json_tree_for_keys = Some(out.tree.clone());
        } else if let Some(j) = &json_tree_for_keys {
            if keys_of(j) != keys_of(&out.tree) {
                cs.fail_last("smile:key-spelling", format!("Smile keys {:?} differ from JSON keys {:?}", keys_of(&out.tree), keys_of(j)));
            }
        }
        for side in ["client", "server"] {
            let mut inputs = vec![out.bytes.clone()];
            if let Some(p) = &out.pretty {
                inputs.push(p.clone());
            }
            let op = format!("de {} {} {} {}", fmt, side, ty.txt(), out.tree.txt(Some(ty)));
            let note = format!("{} {} deserialize {} as {}", fmt, side, String::from_utf8_lossy(&out.bytes).chars().take(200).collect::<String>(), ty.txt());
            let mut shown = None;
            let mut failure: Option<(String, String)> = None;
            for inp in &inputs {
                match real_de(fmt, side, ty, inp) {
                    Err(p) => failure = Some((format!("{}:{}:de-inconsistent", fmt, side), p)),
                    Ok(r) => {
                        if shown.is_none() {
                            shown = Some(show_de(&r));
                        }
                        match r {
                            Ok(v) if &v == val => {}
                            Ok(v) => failure = Some((format!("{}:{}:roundtrip", fmt, side), format!("{} came back as {}", val.txt(), v.txt()))),
                            Err(e) => failure = Some((format!("{}:{}:own-output-rejected", fmt, side), format!("the serializer's own output is rejected: {}", e))),
                        }
                    }
                }
            }
            cs.push(class, op, shown.unwrap_or_else(|| "panic".into()), true, note);
            if let Some((k, w)) = failure {
                cs.fail_last(&k, w);
            }
        }
    }
}

fn keys_of(t: &Tree) -> Vec<String> {
    let mut out = vec![];
    fn go(t: &Tree, out: &mut Vec<String>) {
        match t {
            Tree::Arr(xs) => xs.iter().for_each(|x| go(x, out)),
            Tree::Obj(ms) => {
                for (k, v) in ms {
                    out.push(k.clone());
                    go(v, out);
                }
            }
            _ => {}
        }
    }
    go(t, &mut out);
    out
}

/// every container kind around every sensitive leaf, depth 1 and 2 (deterministic part)
pub fn systematic_values() -> Vec<(DynTy, DynVal)> {
    systematic()
}

fn systematic() -> Vec<(DynTy, DynVal)> {
    let leaves: Vec<(DynTy, DynVal)> = vec![
        (DynTy::F64, DynVal::F64(Dbl::Nan)),
        (DynTy::F64, DynVal::F64(Dbl::NInf)),
        (DynTy::F64, DynVal::F64(Dbl::of(1.5))),
        (DynTy::F32, DynVal::F32(Dbl::Inf)),
        (DynTy::Bytes, DynVal::Bytes(vec![1, 2, 254])),
        (DynTy::Bool, DynVal::Bool(true)),
        (DynTy::Uuid, DynVal::Uuid([0x12, 0x34, 0x56, 0x78, 0x9a, 0xbc, 0xde, 0xf0, 1, 2, 3, 4, 5, 6, 7, 8])),
        (DynTy::Map(Box::new(DynTy::Uuid), Box::new(DynTy::Uuid)), DynVal::Map(vec![(DynVal::Uuid([7; 16]), DynVal::Uuid([9; 16]))])),
        (DynTy::Map(Box::new(DynTy::Bool), Box::new(DynTy::F64)), DynVal::Map(vec![(DynVal::Bool(false), DynVal::F64(Dbl::Inf))])),
        (DynTy::Map(Box::new(DynTy::F64), Box::new(DynTy::Bytes)), DynVal::Map(vec![(DynVal::F64(Dbl::Nan), DynVal::Bytes(vec![9])), (DynVal::F64(Dbl::of(-1.5)), DynVal::Bytes(vec![]))])),
        (DynTy::Map(Box::new(DynTy::Bytes), Box::new(DynTy::Bool)), DynVal::Map(vec![(DynVal::Bytes(vec![102, 111]), DynVal::Bool(true))])),
        (DynTy::Map(Box::new(DynTy::Newtype(Box::new(DynTy::F64))), Box::new(DynTy::Int(true, 32))), DynVal::Map(vec![(DynVal::Newtype(Box::new(DynVal::F64(Dbl::Inf))), DynVal::Int(3))])),
    ];
    let wrap = |(t, v): &(DynTy, DynVal), k: usize| -> (DynTy, DynVal) {
        let (t, v) = (t.clone(), v.clone());
        match k {
            0 => (DynTy::Opt(Box::new(t)), DynVal::Some(Box::new(v))),
            1 => (DynTy::Seq(Box::new(t)), DynVal::Seq(vec![v.clone(), v])),
            2 => (DynTy::Tuple(vec![DynTy::Str, t]), DynVal::Tuple(vec![DynVal::Str("x".into()), v])),
            3 => (DynTy::Map(Box::new(DynTy::Str), Box::new(t)), DynVal::Map(vec![(DynVal::Str("k".into()), v)])),
            4 => (DynTy::Newtype(Box::new(t)), DynVal::Newtype(Box::new(v))),
            5 => (DynTy::TupleStruct(vec![t, DynTy::Bool]), DynVal::TupleStruct(vec![v, DynVal::Bool(false)])),
            6 => (DynTy::Struct(vec![("a".into(), DynTy::Int(true, 32)), ("fieldName".into(), t)]), DynVal::Struct(vec![DynVal::Int(7), v])),
            7 => (DynTy::Enum(vec![("U".into(), VKind::Unit, DynTy::Unit), ("N".into(), VKind::Newtype, t)]), DynVal::Variant(1, Box::new(v))),
            8 => (DynTy::Enum(vec![("T".into(), VKind::Tuple, DynTy::Tuple(vec![t, DynTy::Str]))]), DynVal::Variant(0, Box::new(DynVal::Tuple(vec![v, DynVal::Str("s".into())])))),
            _ => (DynTy::Enum(vec![("S".into(), VKind::Struct, DynTy::Struct(vec![("f".into(), t)]))]), DynVal::Variant(0, Box::new(DynVal::Struct(vec![v])))),
        }
    };
    let mut out = leaves.clone();
    let mut level1 = vec![];
    for l in &leaves {
        for k in 0..10 {
            level1.push(wrap(l, k));
        }
    }
    out.extend(level1.iter().cloned());
    for (i, l) in level1.iter().enumerate() {
        for k in 0..10 {
            if (i + k) % 3 == 0 {
                out.push(wrap(l, k));
            }
        }
    }
    out
}

pub fn cases(seed: u64, tier: Tier) -> (Cases, serde_json::Value) {
    let mut rng = Rng::new(seed);
    let mut cs = Cases::new("C01");
    let mut hist = BTreeMap::new();
    for (t, v) in systematic() {
        one_value(&mut cs, "systematic", &t, &v, &mut hist);
    }
    let (n, depth, width) = if tier == Tier::Quick { (1500, 4, 3) } else { (30000, 6, 4) };
    for i in 0..n {
        let d = 1 + (i as u32 % depth);
        let ty = random_ty(&mut rng, d, width);
        let val = random_val(&mut rng, &ty, width);
        one_value(&mut cs, &format!("seeded:depth{}", d), &ty, &val, &mut hist);
    }
    crate::ops::c02::c01_generated(&mut cs, &mut rng, tier);
    runtime_types(&mut cs);
    (cs, serde_json::json!({ "entry_points_hit": hist }))
}

/// values of the runtime crates' own key types made through their constructors rather than by a reader: doubles in
/// key position holding a NaN that is not the canonical one, safelongs at the ends of their range
fn runtime_types(cs: &mut Cases) {
    use conjure_object::{DoubleKey, SafeLong};
    use std::collections::{BTreeMap, BTreeSet};
    fn all_ways<T: serde::Serialize + serde::de::DeserializeOwned + PartialEq + std::fmt::Debug + Clone + std::panic::UnwindSafe + 'static>(cs: &mut Cases, what: &str, v: &T) {
        let v2 = v.clone();
        let r = guarded(move || {
            let mut bad = vec![];
            let j = conjure_serde::json::to_vec(&v2).map_err(|e| e.to_string())?;
            let s = conjure_serde::smile::to_vec(&v2).map_err(|e| e.to_string())?;
            let reads: Vec<(&str, Result<T, String>)> = vec![
                ("json client slice", conjure_serde::json::client_from_slice(&j).map_err(|e| e.to_string())),
                ("json server slice", conjure_serde::json::server_from_slice(&j).map_err(|e| e.to_string())),
                ("json client reader", conjure_serde::json::client_from_reader(&j[..]).map_err(|e| e.to_string())),
                ("json server reader", conjure_serde::json::server_from_reader(&j[..]).map_err(|e| e.to_string())),
                ("smile client slice", conjure_serde::smile::client_from_slice(&s).map_err(|e| e.to_string())),
                ("smile server slice", conjure_serde::smile::server_from_slice(&s).map_err(|e| e.to_string())),
                ("smile client reader", conjure_serde::smile::client_from_reader(&s[..]).map_err(|e| e.to_string())),
                ("smile server reader", conjure_serde::smile::server_from_reader(&s[..]).map_err(|e| e.to_string())),
            ];
            for (how, got) in reads {
                if got.as_ref().ok() != Some(&v2) {
                    bad.push(format!("{}: {:?}", how, got));
                }
            }
            Ok::<_, String>((String::from_utf8_lossy(&j).to_string(), bad))
        });
        cs.push("runtime-types", "noop".into(), "noop".into(), true, format!("{} = {:?} written and read back through every entry point", what, v));
        match r {
            Ok(Ok((_, bad))) if bad.is_empty() => {}
            Ok(Ok((j, bad))) => cs.fail_last("runtime-types:roundtrip", format!("{} = {:?} is written as {} and read back as {}", what, v, j, bad.join("; "))),
            other => cs.fail_last("runtime-types:roundtrip", format!("{} = {:?}: {:?}", what, v, other.map(|_| ()))),
        }
    }
    for nan in [-f64::NAN, f64::from_bits(0x7ff8_0000_0000_0001), f64::from_bits(0xfff0_0000_0000_0001), f64::NAN] {
        let set: BTreeSet<DoubleKey> = [DoubleKey(1.5), DoubleKey(nan), DoubleKey(f64::NEG_INFINITY)].into_iter().collect();
        all_ways(cs, "set<double>", &set);
        let map: BTreeMap<DoubleKey, i32> = [(DoubleKey(nan), 1), (DoubleKey(-0.0), 2)].into_iter().collect();
        all_ways(cs, "map<double, integer>", &map);
        let nested: Vec<BTreeMap<DoubleKey, BTreeSet<DoubleKey>>> = vec![[(DoubleKey(nan), [DoubleKey(nan)].into_iter().collect())].into_iter().collect()];
        all_ways(cs, "list<map<double, set<double>>>", &nested);
    }
    for sl in [SafeLong::max_value(), SafeLong::min_value(), SafeLong::default()] {
        all_ways(cs, "safelong", &sl);
        all_ways(cs, "list<safelong>", &vec![sl, sl]);
        let m: BTreeMap<SafeLong, Option<SafeLong>> = [(sl, Some(sl))].into_iter().collect();
        all_ways(cs, "map<safelong, optional<safelong>>", &m);
    }
}

pub const RULE: &str = "typed values over the whole serde data model (bool, i8..u64, f64, f32, str, bytes, unit, option, seq, tuple, map with key types bool / ints / f64 / str / bytes / unit-variant enums / newtypes of these, unit struct, newtype struct, tuple struct, struct, enums with unit, newtype, tuple and struct variants): a deterministic part wraps 12 sensitive leaves (NaN, -Infinity, finite, f32 Infinity, binary, bool, uuid, and maps keyed by bool / double / binary / newtype-of-double) in each of 10 container kinds at depth 1 and a third of depth 2; then seeded type-directed values of depth 1..4 (6), width <= 3 (4), leaves from a sensitive pool. Each value is serialized with json::{to_vec,to_string,to_writer,pretty} and smile::{to_vec,to_writer} (outputs canonicalised by reading them with stock serde_json / serde_smile), then read back by the client and the server deserializer from str/slice/reader (JSON, compact and pretty) and slice/mut_slice/reader (Smile). Compared with the model's document and value; oracle: round trip equal, all sources agree, binary is padded Base64, non-finite doubles are the three strings, keys spelled per the statement, Smile keys equal JSON keys. Evidence lists the serde entry points hit. All cases non-trivial; distinct = distinct operation lines.";
