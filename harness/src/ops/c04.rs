//! C04 — a client call reaches the matching server handler with identical arguments, and the client returns what
//! the handler returned.
//!
//! Real side: the generated `VerifServiceClient` / `VerifServiceAsyncClient` (blocking and async) call into an
//! in-process loopback (`loopback.rs`) that routes the produced request to the generated `VerifService` /
//! `AsyncVerifService` endpoints, whose recording handler (`svc.rs`) logs the arguments it is invoked with.
//! Model side: Model/Call.lean builds the request (URI bytes, headers) from the argument *texts*; the outputs are
//! compared byte for byte.  Oracle (the statement itself): the handler ran exactly once, with arguments equal to
//! those given to the client, and the client returned exactly the handler's value.
use crate::loopback::{drain, LoopClient, SliceBody};
use crate::run::{guarded, Cases, Tier};
use crate::svc::{self, EpDesc, Ret};
use crate::util::{hex, Rng};
use conjure_http::client::{AsyncService, Service};
use conjure_object::{BearerToken, DateTime, Plain, ResourceIdentifier, SafeLong, ToPlain, Utc, Uuid};
use futures::executor::block_on;
use std::collections::{BTreeMap, BTreeSet};
use verifgen::plain::*;

// ---- `#[conjure_client]` clients whose `Accept` makes the server negotiate Smile (or JSON), reading the response by the
// Content-Type the server declares
use conjure_http::client::{AsyncDeserializeResponse, DeserializeResponse};
use conjure_http::endpoint;

/// K: 0 = Smile only, 1 = Smile preferred over JSON, 2 = JSON preferred over Smile, 3 = anything (first registered)
pub enum Neg<const K: u8, const D: bool> {}

fn neg_accept(k: u8) -> &'static str {
    match k {
        0 => "application/x-jackson-smile",
        1 => "application/json;q=0.5, application/x-jackson-smile",
        2 => "application/x-jackson-smile;q=0.1, application/json",
        _ => "*/*",
    }
}
fn neg_expected(k: u8) -> &'static str {
    if k <= 1 { "smile" } else { "json" }
}

fn neg_decode<T: serde::de::DeserializeOwned>(status: http::StatusCode, ct: Option<http::HeaderValue>, body: &[u8], empty: Option<T>) -> Result<T, conjure_error::Error> {
    if status == http::StatusCode::NO_CONTENT {
        return empty.ok_or_else(|| conjure_error::Error::internal_safe("204 for a type with no empty value"));
    }
    match ct.as_ref().map(|v| v.as_bytes()) {
        Some(b"application/x-jackson-smile") => conjure_serde::smile::client_from_slice(body).map_err(conjure_error::Error::internal),
        Some(b"application/json") => conjure_serde::json::client_from_slice(body).map_err(conjure_error::Error::internal),
        _ => Err(conjure_error::Error::internal_safe("invalid response Content-Type")),
    }
}

impl<const K: u8, T, R> DeserializeResponse<T, R> for Neg<K, false>
where
    T: serde::de::DeserializeOwned,
    R: Iterator<Item = Result<bytes::Bytes, conjure_error::Error>>,
{
    fn accept() -> Option<http::HeaderValue> {
        Some(http::HeaderValue::from_static(neg_accept(K)))
    }
    fn deserialize(response: http::Response<R>) -> Result<T, conjure_error::Error> {
        let (status, ct) = (response.status(), response.headers().get(http::header::CONTENT_TYPE).cloned());
        let mut buf = vec![];
        for c in response.into_body() {
            buf.extend_from_slice(&c?);
        }
        neg_decode(status, ct, &buf, None)
    }
}
impl<const K: u8, T, R> DeserializeResponse<T, R> for Neg<K, true>
where
    T: serde::de::DeserializeOwned + Default,
    R: Iterator<Item = Result<bytes::Bytes, conjure_error::Error>>,
{
    fn accept() -> Option<http::HeaderValue> {
        Some(http::HeaderValue::from_static(neg_accept(K)))
    }
    fn deserialize(response: http::Response<R>) -> Result<T, conjure_error::Error> {
        let (status, ct) = (response.status(), response.headers().get(http::header::CONTENT_TYPE).cloned());
        let mut buf = vec![];
        for c in response.into_body() {
            buf.extend_from_slice(&c?);
        }
        neg_decode(status, ct, &buf, Some(T::default()))
    }
}
impl<const K: u8, T, R> AsyncDeserializeResponse<T, R> for Neg<K, false>
where
    T: serde::de::DeserializeOwned,
    R: futures::Stream<Item = Result<bytes::Bytes, conjure_error::Error>> + Send,
{
    fn accept() -> Option<http::HeaderValue> {
        Some(http::HeaderValue::from_static(neg_accept(K)))
    }
    async fn deserialize(response: http::Response<R>) -> Result<T, conjure_error::Error> {
        use futures::TryStreamExt;
        let (status, ct) = (response.status(), response.headers().get(http::header::CONTENT_TYPE).cloned());
        let body = response.into_body();
        futures::pin_mut!(body);
        let mut buf = vec![];
        while let Some(c) = body.try_next().await? {
            buf.extend_from_slice(&c);
        }
        neg_decode(status, ct, &buf, None)
    }
}
impl<const K: u8, T, R> AsyncDeserializeResponse<T, R> for Neg<K, true>
where
    T: serde::de::DeserializeOwned + Default,
    R: futures::Stream<Item = Result<bytes::Bytes, conjure_error::Error>> + Send,
{
    fn accept() -> Option<http::HeaderValue> {
        Some(http::HeaderValue::from_static(neg_accept(K)))
    }
    async fn deserialize(response: http::Response<R>) -> Result<T, conjure_error::Error> {
        use futures::TryStreamExt;
        let (status, ct) = (response.status(), response.headers().get(http::header::CONTENT_TYPE).cloned());
        let body = response.into_body();
        futures::pin_mut!(body);
        let mut buf = vec![];
        while let Some(c) = body.try_next().await? {
            buf.extend_from_slice(&c);
        }
        neg_decode(status, ct, &buf, Some(T::default()))
    }
}

macro_rules! neg_traits {
    ($sync:ident, $asy:ident, $k:literal) => {
        #[conjure_http::conjure_client]
        trait $sync {
            #[endpoint(method = POST, path = "/v/safeBody", accept = Neg<$k, false>)]
            fn safe_body(&self, #[body] b: i32) -> Result<i32, conjure_error::Error>;
            #[endpoint(method = POST, path = "/v/body", accept = Neg<$k, false>)]
            fn body(&self, #[auth(cookie_name = "Sess_Tok")] auth: &BearerToken, #[body] b: &Simple) -> Result<Simple, conjure_error::Error>;
            #[endpoint(method = GET, path = "/v/dblRet", accept = Neg<$k, false>)]
            fn dbl_ret(&self, #[query(name = "the-x")] x: &str, #[query(name = "w+k&=%", encoder = conjure_http::client::DisplaySeqEncoder)] weird: Option<&str>) -> Result<Doubles, conjure_error::Error>;
            #[endpoint(method = GET, path = "/v/listAliasRet", accept = Neg<$k, true>)]
            fn list_alias_ret(&self, #[query(name = "n")] n: i32) -> Result<ListAlias, conjure_error::Error>;
            #[endpoint(method = GET, path = "/v/optAliasRet", accept = Neg<$k, true>)]
            fn opt_alias_ret(&self, #[query(name = "n")] n: i32) -> Result<OptStrAlias, conjure_error::Error>;
            #[endpoint(method = GET, path = "/v/mapAliasRet", accept = Neg<$k, true>)]
            fn map_alias_ret(&self, #[query(name = "n")] n: i32) -> Result<MapAlias, conjure_error::Error>;
            #[endpoint(method = GET, path = "/v/mapRet", accept = Neg<$k, true>)]
            fn map_ret(&self, #[query(name = "count")] n: i32, #[query(name = "ids", encoder = conjure_http::client::DisplaySeqEncoder)] ids: &[Uuid]) -> Result<BTreeMap<String, i32>, conjure_error::Error>;
        }
        #[conjure_http::conjure_client]
        trait $asy {
            #[endpoint(method = POST, path = "/v/safeBody", accept = Neg<$k, false>)]
            async fn safe_body(&self, #[body] b: i32) -> Result<i32, conjure_error::Error>;
            #[endpoint(method = POST, path = "/v/body", accept = Neg<$k, false>)]
            async fn body(&self, #[auth(cookie_name = "Sess_Tok")] auth: &BearerToken, #[body] b: &Simple) -> Result<Simple, conjure_error::Error>;
            #[endpoint(method = GET, path = "/v/dblRet", accept = Neg<$k, false>)]
            async fn dbl_ret(&self, #[query(name = "the-x")] x: &str, #[query(name = "w+k&=%", encoder = conjure_http::client::DisplaySeqEncoder)] weird: Option<&str>) -> Result<Doubles, conjure_error::Error>;
            #[endpoint(method = GET, path = "/v/listAliasRet", accept = Neg<$k, true>)]
            async fn list_alias_ret(&self, #[query(name = "n")] n: i32) -> Result<ListAlias, conjure_error::Error>;
            #[endpoint(method = GET, path = "/v/optAliasRet", accept = Neg<$k, true>)]
            async fn opt_alias_ret(&self, #[query(name = "n")] n: i32) -> Result<OptStrAlias, conjure_error::Error>;
            #[endpoint(method = GET, path = "/v/mapAliasRet", accept = Neg<$k, true>)]
            async fn map_alias_ret(&self, #[query(name = "n")] n: i32) -> Result<MapAlias, conjure_error::Error>;
            #[endpoint(method = GET, path = "/v/mapRet", accept = Neg<$k, true>)]
            async fn map_ret(&self, #[query(name = "count")] n: i32, #[query(name = "ids", encoder = conjure_http::client::DisplaySeqEncoder)] ids: &[Uuid]) -> Result<BTreeMap<String, i32>, conjure_error::Error>;
        }
    };
}
neg_traits!(NegSmile, AsyncNegSmile, 0);
neg_traits!(NegSmileFirst, AsyncNegSmileFirst, 1);
neg_traits!(NegJsonFirst, AsyncNegJsonFirst, 2);
neg_traits!(NegAny, AsyncNegAny, 3);

/// one negotiated call per (flavour, Accept kind): `$method(args)` on a macro-derived client over the loopback
macro_rules! neg_call {
    ($run:expr, $rng:expr, $ret:expr, $name:expr, $coll:expr, $dflt:expr, $log:expr, $want:expr, $method:ident ( $($arg:expr),* ), $render:expr) => {{
        for fl in ["sync", "async"] {
            for k in 0u8..4 {
                let c = LoopClient { chunk: [0usize, 1, 3, 7][$rng.below(4)], ..Default::default() };
                *c.handler.ret.lock().unwrap() = $ret.clone();
                let render = $render;
                let out: Result<Outcome, String> = guarded(|| {
                    let r = match (fl, k) {
                        ("sync", 0) => NegSmileClient::new(c.clone()).$method($($arg),*),
                        ("sync", 1) => NegSmileFirstClient::new(c.clone()).$method($($arg),*),
                        ("sync", 2) => NegJsonFirstClient::new(c.clone()).$method($($arg),*),
                        ("sync", _) => NegAnyClient::new(c.clone()).$method($($arg),*),
                        (_, 0) => block_on(AsyncNegSmileClient::new(c.clone()).$method($($arg),*)),
                        (_, 1) => block_on(AsyncNegSmileFirstClient::new(c.clone()).$method($($arg),*)),
                        (_, 2) => block_on(AsyncNegJsonFirstClient::new(c.clone()).$method($($arg),*)),
                        (_, _) => block_on(AsyncNegAnyClient::new(c.clone()).$method($($arg),*)),
                    };
                    r.map(render).map_err(|e| format!("{:?}", e.cause().to_string()))
                });
                $run.check_neg(fl, k, $name, $coll, $dflt, &c, out, $log.clone(), $want.clone());
            }
        }
    }};
}

pub const RULE: &str = "non-trivial: some argument or the return value is outside [A-Za-z0-9] (reserved or non-ASCII characters, empty, NaN/infinite, absent optional, empty collection) or the call is refused";

const STRS: [&str; 24] = ["", "a", "hello world", "a/b", "a?b=c&d#e", "100%", "%2F", "%zz", "+", "a+b c", "é", "漢字", "🙂", " lead", "trail ", "x\ty", "=", "&", "#frag", "..", ".", "a;b,c", "\"q\"", "{curly}"];

fn gen_str(rng: &mut Rng) -> String {
    match rng.below(10) {
        0..=5 => STRS[rng.below(STRS.len())].to_string(),
        6 => (0..rng.below(12)).map(|_| (32 + rng.below(95)) as u8 as char).collect(),
        7 => (0..rng.below(8)).map(|_| char::from_u32([0x61, 0xe9, 0x6f22, 0x1f642, 0x2f, 0x25, 0x3f, 0x26][rng.below(8)]).unwrap()).collect(),
        8 => "x".repeat(200 + rng.below(200)),
        _ => format!("v{}", rng.below(1000)),
    }
}

/// visible ASCII (what HTTP can carry as header text)
fn gen_header_str(rng: &mut Rng) -> String {
    match rng.below(6) {
        0 => "plain".into(),
        1 => "with space and / ? & = % + # \" ;".into(),
        2 => "".into(),
        3 => (0..rng.below(20)).map(|_| (32 + rng.below(95)) as u8 as char).collect(),
        4 => "tab\tinside".into(),
        _ => format!("h{}", rng.below(100)),
    }
}

/// text HTTP cannot carry as visible ASCII
fn gen_bad_header_str(rng: &mut Rng) -> String {
    ["é", "line\nbreak", "nul\0", "del\u{7f}", "漢", "cr\rx", "ok-then-é", "\u{80}"][rng.below(8)].to_string()
}

fn gen_i32(rng: &mut Rng) -> i32 {
    match rng.below(6) {
        0 => 0,
        1 => i32::MAX,
        2 => i32::MIN,
        3 => -1,
        _ => rng.range(-100000, 100000) as i32,
    }
}

fn gen_f64(rng: &mut Rng) -> f64 {
    match rng.below(10) {
        0 => f64::NAN,
        1 => f64::INFINITY,
        2 => f64::NEG_INFINITY,
        3 => 0.0,
        4 => -0.0,
        5 => f64::MAX,
        6 => 5e-324,
        7 => 0.1,
        _ => {
            // any bit pattern; a NaN's payload and sign do not survive its text (`NaN`), nor need they
            let d = f64::from_bits(rng.next());
            if d.is_nan() {
                f64::NAN
            } else {
                d
            }
        }
    }
}

fn gen_token(rng: &mut Rng) -> BearerToken {
    const A: &[u8] = b"abcdefghijklmnopqrstuvwxyzABCDEFGHIJKLMNOPQRSTUVWXYZ0123456789-._~+/";
    let n = 1 + rng.below(30);
    let mut s: String = (0..n).map(|_| A[rng.below(A.len())] as char).collect();
    for _ in 0..rng.below(3) {
        s.push('=');
    }
    s.parse().unwrap()
}

fn gen_rid(rng: &mut Rng) -> ResourceIdentifier {
    let loc = ["a", "A.b-c_9", "loc.with.dots", "x"][rng.below(4)];
    format!("ri.svc{}.inst-{}.type.{}", rng.below(10), rng.below(10), loc).parse().unwrap()
}

fn gen_uuid(rng: &mut Rng) -> Uuid {
    Uuid::from_u128(((rng.next() as u128) << 64) | rng.next() as u128)
}

fn gen_dt(rng: &mut Rng) -> DateTime<Utc> {
    let secs = rng.range(-62_167_219_200, 253_402_300_799);
    let ns = [0, 1, 999_999_999, 123_000_000, 500][rng.below(5)];
    DateTime::from_timestamp(secs, ns).unwrap()
}

fn gen_color(rng: &mut Rng) -> Color {
    let s = ["RED", "GREEN", "BLUE_2", "PURPLE", "X_1"][rng.below(5)];
    conjure_object::FromPlain::from_plain(s).unwrap()
}

fn gen_simple(rng: &mut Rng) -> Simple {
    Simple::new(gen_i32(rng), gen_str(rng))
}

fn plain<T: Plain + ?Sized>(v: &T) -> Vec<u8> {
    v.to_plain().into_bytes()
}

/// S-expressions of one call for the model
struct Texts(Vec<Vec<Vec<u8>>>);

fn tmpl_sexp(template: &str) -> String {
    let mut out = String::from("(t");
    for seg in template.split('/').skip(1) {
        if seg.starts_with('{') {
            out.push_str(&format!(",(p,{})", hex(seg.trim_matches(|c| c == '{' || c == '}').as_bytes())));
        } else {
            out.push_str(&format!(",(l,{})", hex(seg.as_bytes())));
        }
    }
    out.push(')');
    out
}

fn call_op(ep: &EpDesc, texts: &Texts, body: (&str, usize), accept: &str) -> String {
    let h = |s: &str| hex(s.as_bytes());
    let mut args = String::from("(cargs");
    for (a, ts) in ep.args.iter().zip(&texts.0) {
        args.push_str(&format!(",(c,(a,{},{},{},{},{},{},{}),(v{}))", a.kind, a.dec, a.ty, h(&a.name), h(&a.log_as), h(&a.ident), a.safe as u8, ts.iter().map(|t| format!(",{}", hex(t))).collect::<String>()));
    }
    args.push(')');
    format!("call {} {} (x,{},{},{})", tmpl_sexp(&ep.template), args, body.0, body.1, accept)
}

fn show_request(c: &crate::loopback::Captured) -> String {
    let mut hs: Vec<String> = c.headers.iter().map(|(k, v)| format!("{}:{}", hex(k.as_bytes()), hex(v))).collect();
    hs.sort();
    format!("uri={} headers={}", hex(c.target.as_bytes()), if hs.is_empty() { "-".to_string() } else { hs.join(",") })
}

struct Run<'a> {
    cs: &'a mut Cases,
    eps: &'a [EpDesc],
}

/// outcome of one client call: Ok(debug rendering of the returned value) / Err(rendering of the error)
type Outcome = Result<String, String>;

impl<'a> Run<'a> {
    fn ep(&self, name: &str) -> &'a EpDesc {
        self.eps.iter().find(|e| e.name == name).unwrap()
    }

    /// `f` performs the call on a fresh loopback client and returns the client's result rendered; `expect_log` is
    /// what the handler must have recorded; `expect_ret` what the client must return
    #[allow(clippy::too_many_arguments)]
    fn check(&mut self, flavour: &str, name: &str, texts: Texts, body: (&str, usize), accept: &str, nontrivial: bool, client: &LoopClient, out: Result<Outcome, String>, expect_log: String, expect_ret: String, refusable: bool) {
        let ep = self.ep(name);
        let op = call_op(ep, &texts, body, accept);
        let caps = client.captured.lock().unwrap().clone();
        let calls = client.handler.calls();
        let class = format!("{}:{}", flavour, name);
        let real = match caps.first() {
            Some(c) => show_request(c),
            None => "client-error".to_string(),
        };
        let note = format!("{} {} -> {:?}", flavour, expect_log, out);
        self.cs.push(&class, op, real, nontrivial, note);
        let fail = |cs: &mut Cases, key: &str, what: String| cs.fail_last(&format!("{}:{}", name, key), format!("{} [{} call {}]", what, flavour, expect_log));
        match out {
            Err(p) => fail(self.cs, "panic", format!("the call panicked: {}", p)),
            Ok(Err(e)) => {
                if !refusable {
                    fail(self.cs, "call-failed", format!("the client call failed: {}; handler log {:?}", e, calls));
                } else if !calls.is_empty() {
                    fail(self.cs, "refused-after-delivery", format!("the call failed ({}) although the handler was invoked: {:?}", e, calls));
                }
            }
            Ok(Ok(ret)) => {
                if caps.len() != 1 {
                    fail(self.cs, "requests", format!("{} requests were sent", caps.len()));
                } else if caps[0].routed_to.as_deref() != Some(name) {
                    fail(self.cs, "misrouted", format!("the request {} {} was routed to {:?}", caps[0].method, caps[0].target, caps[0].routed_to));
                } else if !caps[0].has_endpoint_ext {
                    fail(self.cs, "no-endpoint-ext", "the request carries no Endpoint extension".to_string());
                } else if calls.len() != 1 {
                    fail(self.cs, "handler-count", format!("the handler was invoked {} times: {:?}", calls.len(), calls));
                } else if calls[0] != expect_log {
                    fail(self.cs, "args-differ", format!("the handler saw different arguments: {}", calls[0]));
                } else if ret != expect_ret {
                    fail(self.cs, "return-differs", format!("the client returned {} but the handler returned {}", ret, expect_ret));
                }
            }
        }
    }
}

impl<'a> Run<'a> {
    /// a call of a `#[conjure_client]` method whose `Accept` is `neg_accept(k)`: the status and Content-Type of the
    /// server's response against the model; handler invocation, arguments and returned value against the statement
    #[allow(clippy::too_many_arguments)]
    fn check_neg(&mut self, flavour: &str, k: u8, name: &str, collection: bool, is_default: bool, client: &LoopClient, out: Result<Outcome, String>, expect_log: String, expect_ret: String) {
        let caps = client.captured.lock().unwrap().clone();
        let calls = client.handler.calls();
        let class = format!("{}-macro-negotiated:{}", flavour, name);
        let op = format!("resp {} {} {}", neg_expected(k), if collection { "collection" } else { "std" }, is_default as u8);
        let real = match caps.first() {
            Some(c) => format!("{} {}", c.status.map(|s| s.to_string()).unwrap_or_else(|| "error".into()), c.response_ct.as_ref().map(|v| String::from_utf8_lossy(v).to_string()).unwrap_or_else(|| "none".into())),
            None => "client-error".to_string(),
        };
        let note = format!("{} macro client, Accept: {} — {} -> {:?}", flavour, neg_accept(k), expect_log, out);
        self.cs.push(&class, op, real, true, note);
        let fail = |cs: &mut Cases, key: &str, what: String| cs.fail_last(&format!("{}:negotiated:{}", name, key), format!("{} [{} macro call, Accept: {}, {}]", what, flavour, neg_accept(k), expect_log));
        match out {
            Err(p) => fail(self.cs, "panic", format!("the call panicked: {}", p)),
            Ok(Err(e)) => fail(self.cs, "call-failed", format!("the client call failed: {}; handler log {:?}; response {:?} {:?}", e, calls, caps.first().and_then(|c| c.status), caps.first().and_then(|c| c.response_ct.as_ref().map(|v| String::from_utf8_lossy(v).to_string())))),
            Ok(Ok(ret)) => {
                if caps.len() != 1 || caps[0].routed_to.as_deref() != Some(name) {
                    fail(self.cs, "misrouted", format!("{} requests, routed to {:?}", caps.len(), caps.first().and_then(|c| c.routed_to.clone())));
                } else if calls.len() != 1 {
                    fail(self.cs, "handler-count", format!("the handler was invoked {} times: {:?}", calls.len(), calls));
                } else if calls[0] != expect_log {
                    fail(self.cs, "args-differ", format!("the handler saw different arguments: {}", calls[0]));
                } else if ret != expect_ret {
                    fail(self.cs, "return-differs", format!("the client returned {} but the handler returned {}", ret, expect_ret));
                }
            }
        }
    }
}

macro_rules! both {
    ($run:expr, $rng:expr, $ret:expr, |$c:ident, $fl:ident| $body:block) => {{
        for $fl in ["sync", "async"] {
            let $c = LoopClient { chunk: [0usize, 1, 3, 7][$rng.below(4)], ..Default::default() };
            *$c.handler.ret.lock().unwrap() = $ret.clone();
            $body
        }
    }};
}

macro_rules! call {
    ($fl:ident, $client:ident, $method:ident ( $($arg:expr),* ), $render:expr) => {{
        let render = $render;
        guarded(|| {
            if $fl == "sync" {
                let c = VerifServiceClient::new($client.clone());
                c.$method($($arg),*).map(render).map_err(|e| format!("{:?}", e.cause().to_string()))
            } else {
                let c = VerifServiceAsyncClient::new($client.clone());
                block_on(c.$method($($arg),*)).map(render).map_err(|e| format!("{:?}", e.cause().to_string()))
            }
        })
    }};
}

fn interesting(s: &str) -> bool {
    s.is_empty() || !s.bytes().all(|b| b.is_ascii_alphanumeric())
}

fn ret(rng: &mut Rng) -> Ret {
    let doubles = [
        "{\"d\":1.0,\"da\":2.0,\"inner\":{\"x\":0.5}}".to_string(),
        "{\"d\":\"NaN\",\"od\":\"-Infinity\",\"ld\":[0.1,-0.0],\"md\":{\"k\":\"Infinity\"},\"da\":1e300,\"inner\":{\"x\":5e-324,\"y\":\"NaN\"},\"mk\":{\"NaN\":1.5},\"sd\":[1.5,\"NaN\"],\"lo\":[null,2.5],\"u\":{\"type\":\"b\",\"b\":[1.0]}}".to_string(),
    ];
    Ret {
        mixed: gen_str(rng),
        aliases: (0..rng.below(3)).map(|_| gen_str(rng)).collect(),
        set: (0..rng.below(3)).map(|_| gen_i32(rng)).collect(),
        bin: (0..rng.below(40)).map(|_| rng.below(256) as u8).collect(),
        map: (0..rng.below(3)).map(|_| (gen_str(rng), gen_i32(rng))).collect(),
        opt_str: if rng.chance(1, 2) { Some(gen_str(rng)) } else { None },
        doubles_json: doubles[rng.below(2)].clone(),
        list: (0..rng.below(3)).map(|_| gen_i32(rng)).collect(),
        dmap: (0..rng.below(3)).map(|_| (gen_str(rng), gen_f64(rng))).collect(),
    }
}

pub fn cases(seed: u64, tier: Tier) -> Cases {
    let mut cs = Cases::new("C04");
    let mut rng = Rng::new(seed ^ 0xC04);
    let eps = svc::descriptors();
    let n = if tier == Tier::Quick { 30 } else { 400 };
    let mut run = Run { cs: &mut cs, eps: &eps };
    for _ in 0..n {
        let r = ret(&mut rng);
        // mixed: header auth, path x3, query single/optional/list/set, header single/optional
        {
            let auth = gen_token(&mut rng);
            let (ps, pi, ty) = (gen_str(&mut rng), gen_i32(&mut rng), gen_rid(&mut rng));
            let q1 = gen_str(&mut rng);
            let qo = if rng.chance(1, 2) { Some(gen_i32(&mut rng)) } else { None };
            let ql: Vec<i32> = (0..rng.below(4)).map(|_| gen_i32(&mut rng)).collect();
            let qs: BTreeSet<String> = (0..rng.below(4)).map(|_| gen_str(&mut rng)).collect();
            let bad = rng.chance(1, 6);
            let sh = if bad { gen_bad_header_str(&mut rng) } else { gen_header_str(&mut rng) };
            let oh = if rng.chance(1, 2) { Some(gen_i32(&mut rng)) } else { None };
            let log = format!("mixed(auth={:?}, pathStr={:?}, pathInt={:?}, type={:?}, queryOne={:?}, queryOpt={:?}, queryList={:?}, querySet={:?}, safeHeader={:?}, optHeader={:?})", auth.as_str(), ps, pi, ty.to_string(), q1, qo, ql, qs, sh, oh);
            let nt = bad || interesting(&ps) || interesting(&q1) || qo.is_none() || ql.is_empty() || qs.is_empty() || qs.iter().any(|s| interesting(s)) || interesting(&sh);
            both!(run, rng, r, |c, fl| {
                let out = call!(fl, c, mixed(&auth, &ps, pi, &ty, &q1, qo, &ql, &qs, &sh, oh), |v: String| format!("{:?}", v));
                let texts = Texts(vec![vec![plain(&auth)], vec![plain(&ps)], vec![plain(&pi)], vec![plain(&ty)], vec![plain(&q1)], qo.iter().map(plain).collect(), ql.iter().map(plain).collect(), qs.iter().map(plain).collect(), vec![plain(&sh)], oh.iter().map(plain).collect()]);
                run.check(fl, "mixed", texts, ("none", 0), "json", nt, &c, out, log.clone(), format!("{:?}", r.mixed), bad);
            });
        }
        // aliases: alias / enum / optional-alias parameters, every PLAIN type
        {
            let p = StrAlias(gen_str(&mut rng));
            let qa = OptStrAlias(if rng.chance(1, 2) { Some(gen_str(&mut rng)) } else { None });
            let qc = gen_color(&mut rng);
            let qoa = OptAliasOfAlias(OptStrAlias(if rng.chance(1, 2) { Some(gen_str(&mut rng)) } else { None }));
            let hu = UuidAlias(gen_uuid(&mut rng));
            let qd = gen_f64(&mut rng);
            let qb = rng.chance(1, 2);
            let qsl = SafeLong::new(rng.range(-9007199254740991, 9007199254740991)).unwrap_or_default();
            let qdt = if rng.chance(2, 3) { Some(gen_dt(&mut rng)) } else { None };
            let qbt = if rng.chance(1, 2) { Some(gen_token(&mut rng)) } else { None };
            let hc = if rng.chance(1, 2) { Some(ColorAlias(gen_color(&mut rng))) } else { None };
            let log = format!("aliases(p={:?}, qa={:?}, qc={:?}, qoa={:?}, hu={:?}, qd={:?}, qb={:?}, qsl={:?}, qdt={:?}, qbt={:?}, hc={:?})", p, qa, qc, qoa, hu, qd.to_bits(), qb, qsl, qdt, qbt.as_ref().map(|t| t.as_str().to_string()), hc);
            both!(run, rng, r, |c, fl| {
                let out = call!(fl, c, aliases(&p, &qa, &qc, &qoa, hu.clone(), DblAlias(qd), qb, qsl, qdt.map(DateTimeAlias), qbt.as_ref(), hc.as_ref()), |v: Vec<String>| format!("{:?}", v));
                let texts = Texts(vec![vec![plain(&p)], qa.0.iter().map(plain).collect(), vec![plain(&qc)], (qoa.0).0.iter().map(plain).collect(), vec![plain(&hu)], vec![plain(&qd)], vec![plain(&qb)], vec![plain(&qsl)], qdt.iter().map(plain).collect(), qbt.iter().map(plain).collect(), hc.iter().map(plain).collect()]);
                run.check(fl, "aliases", texts, ("none", 0), "json", true, &c, out, log.clone(), format!("{:?}", r.aliases), false);
            });
        }
        // body: cookie auth + JSON body, echo
        {
            let auth = gen_token(&mut rng);
            let b = gen_simple(&mut rng);
            let log = format!("body(auth={:?}, body={:?})", auth.as_str(), b);
            let len = conjure_serde::json::to_vec(&b).unwrap().len();
            both!(run, rng, r, |c, fl| {
                let out = call!(fl, c, body(&auth, &b), |v: Simple| format!("{:?}", v));
                run.check(fl, "body", Texts(vec![vec![plain(&auth)], vec![]]), ("json", len), "json", interesting(b.b()), &c, out, log.clone(), format!("{:?}", b), false);
            });
        }
        // optBody / optAliasBody: optional JSON bodies
        {
            let b = if rng.chance(2, 3) { Some(gen_simple(&mut rng)) } else { None };
            let log = format!("optBody(body={:?})", b);
            let len = conjure_serde::json::to_vec(&b).unwrap().len();
            both!(run, rng, r, |c, fl| {
                let out = call!(fl, c, opt_body(b.as_ref()), |v: Option<Simple>| format!("{:?}", v));
                run.check(fl, "optBody", Texts(vec![vec![]]), ("json", len), "json", b.is_none(), &c, out, log.clone(), format!("{:?}", b), false);
            });
            let ab = OptObjAlias(b.clone());
            let log = format!("optAliasBody(theBody={:?})", ab);
            both!(run, rng, r, |c, fl| {
                let out = call!(fl, c, opt_alias_body(&ab), |v: BTreeSet<i32>| format!("{:?}", v));
                run.check(fl, "optAliasBody", Texts(vec![vec![]]), ("json", len), "json", b.is_none() || r.set.is_empty(), &c, out, log.clone(), format!("{:?}", r.set), false);
            });
        }
        // binary: streaming request and response bodies
        {
            let m = gen_i32(&mut rng);
            let bytes: Vec<u8> = (0..rng.below(60)).map(|_| rng.below(256) as u8).collect();
            let log = format!("binary(match={:?}, body={})", m, hex(&bytes));
            both!(run, rng, r, |c, fl| {
                let out = call!(fl, c, binary(m, SliceBody(bytes.clone())), |v| hex(&drain(v)));
                run.check(fl, "binary", Texts(vec![vec![plain(&m)], vec![]]), ("octet", 0), "octet", bytes.is_empty(), &c, out, log.clone(), hex(&bytes), false);
            });
            // the library's own body type for `binary` arguments, a byte slice, over a transport that takes a few
            // bytes per write
            {
                let c = LoopClient { chunk: 3, ..Default::default() };
                *c.handler.ret.lock().unwrap() = r.clone();
                let step = 1 + rng.below(9);
                let dc = crate::loopback::DribbleClient(c.clone(), step);
                let out = guarded(|| VerifServiceClient::new(dc.clone()).binary(m, &bytes[..]).map(|v| hex(&drain(v))).map_err(|e| format!("{:?}", e.cause().to_string())));
                run.check("sync", "binary", Texts(vec![vec![plain(&m)], vec![]]), ("octet", 0), "octet", bytes.len() > step, &c, out, log.clone(), hex(&bytes), false);
            }
        }
        // optBinary: optional streaming response
        {
            let auth = gen_token(&mut rng);
            let present = rng.chance(1, 2);
            let log = format!("optBinary(auth={:?}, present={:?})", auth.as_str(), present);
            both!(run, rng, r, |c, fl| {
                let out = call!(fl, c, opt_binary(&auth, present), |v: Option<_>| format!("{:?}", v.map(|b| hex(&drain(b)))));
                let want = format!("{:?}", if present { Some(hex(&r.bin)) } else { None });
                run.check(fl, "optBinary", Texts(vec![vec![plain(&auth)], vec![plain(&present)]]), ("none", 0), "octet", !present || r.bin.is_empty(), &c, out, log.clone(), want, false);
            });
        }
        // mapRet / noRet / ctx / safeBody / dblRet
        {
            let k = gen_i32(&mut rng);
            let ids: Vec<Uuid> = (0..rng.below(3)).map(|_| gen_uuid(&mut rng)).collect();
            let log = format!("mapRet(n={:?}, ids={:?})", k, ids);
            both!(run, rng, r, |c, fl| {
                let out = call!(fl, c, map_ret(k, &ids), |v: BTreeMap<String, i32>| format!("{:?}", v));
                run.check(fl, "mapRet", Texts(vec![vec![plain(&k)], ids.iter().map(plain).collect()]), ("none", 0), "json", r.map.is_empty() || ids.is_empty(), &c, out, log.clone(), format!("{:?}", r.map), false);
            });
            let a = if rng.chance(1, 2) { Some(gen_str(&mut rng)) } else { None };
            let bad = rng.chance(1, 6);
            let l = if bad { gen_bad_header_str(&mut rng) } else { gen_header_str(&mut rng) };
            let log = format!("noRet(async={:?}, loop={:?})", a, l);
            both!(run, rng, r, |c, fl| {
                let out = call!(fl, c, no_ret(a.as_deref(), &l), |_v: ()| "()".to_string());
                run.check(fl, "noRet", Texts(vec![a.iter().map(plain).collect(), vec![plain(&l)]]), ("none", 0), "json", true, &c, out, log.clone(), "()".to_string(), bad);
            });
            let f = gen_str(&mut rng);
            let ao = if rng.chance(1, 2) { Some(gen_str(&mut rng)) } else { None };
            let log = format!("ctx(fieldName={:?}, argOpt={:?})", f, ao);
            both!(run, rng, r, |c, fl| {
                let out = call!(fl, c, ctx(&f, ao.as_deref()), |v: Option<String>| format!("{:?}", v));
                // (the context argument has no client-side counterpart)
                run.check(fl, "ctx", Texts(vec![vec![plain(&f)], ao.iter().map(plain).collect(), vec![]]), ("none", 0), "json", true, &c, out, log.clone(), format!("{:?}", r.opt_str), false);
            });
            let sb = gen_i32(&mut rng);
            let log = format!("safeBody(safeBodyArg={:?})", sb);
            both!(run, rng, r, |c, fl| {
                let out = call!(fl, c, safe_body(sb), |v: i32| format!("{:?}", v));
                run.check(fl, "safeBody", Texts(vec![vec![]]), ("json", sb.to_string().len()), "json", sb <= 0, &c, out, log.clone(), format!("{:?}", sb), false);
            });
            // alias-of-collection return types (an empty value travels as 204 and must come back as the empty value)
            let k = gen_i32(&mut rng);
            let log = format!("listAliasRet(n={:?})", k);
            both!(run, rng, r, |c, fl| {
                let out = call!(fl, c, list_alias_ret(k), |v: ListAlias| format!("{:?}", v));
                run.check(fl, "listAliasRet", Texts(vec![vec![plain(&k)]]), ("none", 0), "json", r.list.is_empty(), &c, out, log.clone(), format!("{:?}", ListAlias(r.list.iter().map(|x| *x as f64 + 0.5).collect())), false);
            });
            let log = format!("optAliasRet(n={:?})", k);
            both!(run, rng, r, |c, fl| {
                let out = call!(fl, c, opt_alias_ret(k), |v: OptStrAlias| format!("{:?}", v));
                run.check(fl, "optAliasRet", Texts(vec![vec![plain(&k)]]), ("none", 0), "json", r.opt_str.is_none(), &c, out, log.clone(), format!("{:?}", OptStrAlias(r.opt_str.clone())), false);
            });
            let log = format!("mapAliasRet(n={:?})", k);
            both!(run, rng, r, |c, fl| {
                let out = call!(fl, c, map_alias_ret(k), |v: MapAlias| format!("{:?}", v));
                run.check(fl, "mapAliasRet", Texts(vec![vec![plain(&k)]]), ("none", 0), "json", r.dmap.is_empty(), &c, out, log.clone(), format!("{:?}", MapAlias(r.dmap.clone())), false);
            });
            let x = gen_f64(&mut rng);
            let weird = if rng.chance(2, 3) { Some(gen_str(&mut rng)) } else { None };
            // the generated client writes a query key as the definition spells it (keys of a definition are plain
            // words), the macro client percent-encodes it: only the macro client is given the reserved-character key
            let log = format!("dblRet(x={:?}, weird=None)", x.to_bits());
            let want: Doubles = conjure_serde::json::client_from_str(&r.doubles_json).unwrap();
            both!(run, rng, r, |c, fl| {
                let out = call!(fl, c, dbl_ret(x, None), |v: Doubles| format!("{:?}", v));
                run.check(fl, "dblRet", Texts(vec![vec![plain(&x)], vec![]]), ("none", 0), "json", !x.is_finite() || x == 0.0, &c, out, log.clone(), format!("{:?}", want), false);
            });
            // the same endpoints through `#[conjure_client]` clients that make the server negotiate Smile or JSON
            let xt = String::from_utf8(plain(&x)).unwrap();
            let log = format!("dblRet(x={:?}, weird={:?})", x.to_bits(), weird);
            neg_call!(run, rng, r, "dblRet", false, false, log, format!("{:?}", want), dbl_ret(&xt, weird.as_deref()), |v: Doubles| format!("{:?}", v));
            let sb = gen_i32(&mut rng);
            neg_call!(run, rng, r, "safeBody", false, false, format!("safeBody(safeBodyArg={:?})", sb), format!("{:?}", sb), safe_body(sb), |v: i32| format!("{:?}", v));
            let (auth, b) = (gen_token(&mut rng), gen_simple(&mut rng));
            neg_call!(run, rng, r, "body", false, false, format!("body(auth={:?}, body={:?})", auth.as_str(), b), format!("{:?}", b), body(&auth, &b), |v: Simple| format!("{:?}", v));
            neg_call!(run, rng, r, "listAliasRet", true, r.list.is_empty(), format!("listAliasRet(n={:?})", k), format!("{:?}", ListAlias(r.list.iter().map(|x| *x as f64 + 0.5).collect())), list_alias_ret(k), |v: ListAlias| format!("{:?}", v));
            neg_call!(run, rng, r, "optAliasRet", true, r.opt_str.is_none(), format!("optAliasRet(n={:?})", k), format!("{:?}", OptStrAlias(r.opt_str.clone())), opt_alias_ret(k), |v: OptStrAlias| format!("{:?}", v));
            neg_call!(run, rng, r, "mapAliasRet", true, r.dmap.is_empty(), format!("mapAliasRet(n={:?})", k), format!("{:?}", MapAlias(r.dmap.clone())), map_alias_ret(k), |v: MapAlias| format!("{:?}", v));
            let ids: Vec<Uuid> = (0..rng.below(3)).map(|_| gen_uuid(&mut rng)).collect();
            neg_call!(run, rng, r, "mapRet", true, r.map.is_empty(), format!("mapRet(n={:?}, ids={:?})", k, ids), format!("{:?}", r.map), map_ret(k, &ids), |v: BTreeMap<String, i32>| format!("{:?}", v));
        }
    }
    drop(run);
    crate::ops::emit::add(&mut cs, &mut rng, tier);
    // the requests `#[conjure_client]` derives from a spread of templates (a request without any path segment is C07's
    // finding and left to it)
    crate::ops::c07::macro_template_cases(&mut cs, &mut rng, tier, false);
    cs
}
