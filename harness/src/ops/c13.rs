//! C13 — the dynamic `any`: Any::new, deserialize_into, JSON in and out, against the model and the
//! losslessness oracles.  `AnyTree` mirrors `Any`'s private representation: serializing an `Any` into
//! the `Probe` serializer reveals which variant it holds; serializing an `AnyTree` into `Any::new`
//! builds an `Any` holding exactly that tree.
use crate::dynval::*;
use crate::run::{guarded, Cases, Tier};
use crate::util::{hex, Rng};
use conjure_object::Any;
use serde::de::DeserializeSeed;
use serde::ser::{self, Impossible, SerializeMap, SerializeSeq};
use serde::{Serialize, Serializer};
use std::fmt;

#[derive(Clone, Debug, PartialEq)]
pub enum AnyTree {
    Null,
    Bool(bool),
    Int(bool, u32, i128),
    F32(Dbl),
    F64(Dbl),
    Char(char),
    Str(String),
    Bytes(Vec<u8>),
    Seq(Vec<AnyTree>),
    Map(Vec<(AnyTree, AnyTree)>),
}

impl AnyTree {
    pub fn txt(&self) -> String {
        match self {
            AnyTree::Null => "(null)".into(),
            AnyTree::Bool(b) => format!("(b,{})", *b as u8),
            AnyTree::Int(s, b, n) => format!("(i,{},{},{})", if *s { "s" } else { "u" }, b, n),
            AnyTree::F32(d) => format!("(f,{})", d.txt()),
            AnyTree::F64(d) => format!("(d,{})", d.txt()),
            AnyTree::Char(c) => format!("(s,{})", hex(c.to_string().as_bytes())),
            AnyTree::Str(s) => format!("(s,{})", hex(s.as_bytes())),
            AnyTree::Bytes(b) => format!("(y,{})", hex(b)),
            AnyTree::Seq(xs) => format!("(seq{})", xs.iter().map(|x| format!(",{}", x.txt())).collect::<String>()),
            AnyTree::Map(es) => {
                let mut ps: Vec<(String, String)> = es.iter().map(|(k, v)| (k.txt(), v.txt())).collect();
                ps.sort_by(|a, b| a.0.cmp(&b.0));
                format!("(map{})", ps.iter().map(|(k, v)| format!(",(e,{},{})", k, v)).collect::<String>())
            }
        }
    }
}

impl Serialize for AnyTree {
    fn serialize<S: Serializer>(&self, s: S) -> Result<S::Ok, S::Error> {
        match self {
            AnyTree::Null => s.serialize_unit(),
            AnyTree::Bool(b) => s.serialize_bool(*b),
            AnyTree::Int(signed, bits, n) => match (signed, bits) {
                (true, 8) => s.serialize_i8(*n as i8),
                (true, 16) => s.serialize_i16(*n as i16),
                (true, 32) => s.serialize_i32(*n as i32),
                (true, 64) => s.serialize_i64(*n as i64),
                (true, _) => s.serialize_i128(*n),
                (false, 8) => s.serialize_u8(*n as u8),
                (false, 16) => s.serialize_u16(*n as u16),
                (false, 32) => s.serialize_u32(*n as u32),
                (false, 64) => s.serialize_u64(*n as u64),
                (false, _) => s.serialize_u128(*n as u128),
            },
            AnyTree::F32(d) => s.serialize_f32(d.f64() as f32),
            AnyTree::F64(d) => s.serialize_f64(d.f64()),
            AnyTree::Char(c) => s.serialize_char(*c),
            AnyTree::Str(x) => s.serialize_str(x),
            AnyTree::Bytes(b) => s.serialize_bytes(b),
            AnyTree::Seq(xs) => {
                let mut q = s.serialize_seq(Some(xs.len()))?;
                for x in xs {
                    q.serialize_element(x)?;
                }
                q.end()
            }
            AnyTree::Map(es) => {
                let mut q = s.serialize_map(Some(es.len()))?;
                for (k, v) in es {
                    q.serialize_entry(k, v)?;
                }
                q.end()
            }
        }
    }
}

#[derive(Debug)]
pub struct PErr(String);
impl fmt::Display for PErr {
    fn fmt(&self, f: &mut fmt::Formatter) -> fmt::Result {
        f.write_str(&self.0)
    }
}
impl std::error::Error for PErr {}
impl ser::Error for PErr {
    fn custom<T: fmt::Display>(m: T) -> Self {
        PErr(m.to_string())
    }
}

/// records which `Serializer` methods `Serialize for Any` calls
pub struct Probe;
pub struct ProbeSeq(Vec<AnyTree>);
pub struct ProbeMap(Vec<(AnyTree, AnyTree)>, Option<AnyTree>);

impl Serializer for Probe {
    type Ok = AnyTree;
    type Error = PErr;
    type SerializeSeq = ProbeSeq;
    type SerializeTuple = Impossible<AnyTree, PErr>;
    type SerializeTupleStruct = Impossible<AnyTree, PErr>;
    type SerializeTupleVariant = Impossible<AnyTree, PErr>;
    type SerializeMap = ProbeMap;
    type SerializeStruct = Impossible<AnyTree, PErr>;
    type SerializeStructVariant = Impossible<AnyTree, PErr>;
    fn serialize_bool(self, v: bool) -> Result<AnyTree, PErr> {
        Ok(AnyTree::Bool(v))
    }
    fn serialize_i8(self, v: i8) -> Result<AnyTree, PErr> {
        Ok(AnyTree::Int(true, 8, v as i128))
    }
    fn serialize_i16(self, v: i16) -> Result<AnyTree, PErr> {
        Ok(AnyTree::Int(true, 16, v as i128))
    }
    fn serialize_i32(self, v: i32) -> Result<AnyTree, PErr> {
        Ok(AnyTree::Int(true, 32, v as i128))
    }
    fn serialize_i64(self, v: i64) -> Result<AnyTree, PErr> {
        Ok(AnyTree::Int(true, 64, v as i128))
    }
    fn serialize_i128(self, v: i128) -> Result<AnyTree, PErr> {
        Ok(AnyTree::Int(true, 128, v))
    }
    fn serialize_u8(self, v: u8) -> Result<AnyTree, PErr> {
        Ok(AnyTree::Int(false, 8, v as i128))
    }
    fn serialize_u16(self, v: u16) -> Result<AnyTree, PErr> {
        Ok(AnyTree::Int(false, 16, v as i128))
    }
    fn serialize_u32(self, v: u32) -> Result<AnyTree, PErr> {
        Ok(AnyTree::Int(false, 32, v as i128))
    }
    fn serialize_u64(self, v: u64) -> Result<AnyTree, PErr> {
        Ok(AnyTree::Int(false, 64, v as i128))
    }
    fn serialize_u128(self, v: u128) -> Result<AnyTree, PErr> {
        Ok(AnyTree::Int(false, 128, v as i128))
    }
    fn serialize_f32(self, v: f32) -> Result<AnyTree, PErr> {
        Ok(AnyTree::F32(Dbl::of(v as f64)))
    }
    fn serialize_f64(self, v: f64) -> Result<AnyTree, PErr> {
        Ok(AnyTree::F64(Dbl::of(v)))
    }
    fn serialize_char(self, v: char) -> Result<AnyTree, PErr> {
        Ok(AnyTree::Char(v))
    }
    fn serialize_str(self, v: &str) -> Result<AnyTree, PErr> {
        Ok(AnyTree::Str(v.to_string()))
    }
    fn serialize_bytes(self, v: &[u8]) -> Result<AnyTree, PErr> {
        Ok(AnyTree::Bytes(v.to_vec()))
    }
    fn serialize_none(self) -> Result<AnyTree, PErr> {
        Ok(AnyTree::Null)
    }
    fn serialize_some<T: ?Sized + Serialize>(self, v: &T) -> Result<AnyTree, PErr> {
        v.serialize(Probe)
    }
    fn serialize_unit(self) -> Result<AnyTree, PErr> {
        Ok(AnyTree::Null)
    }
    fn serialize_unit_struct(self, _: &'static str) -> Result<AnyTree, PErr> {
        Err(PErr("unit_struct".into()))
    }
    fn serialize_unit_variant(self, _: &'static str, _: u32, _: &'static str) -> Result<AnyTree, PErr> {
        Err(PErr("unit_variant".into()))
    }
    fn serialize_newtype_struct<T: ?Sized + Serialize>(self, _: &'static str, v: &T) -> Result<AnyTree, PErr> {
        v.serialize(Probe)
    }
    fn serialize_newtype_variant<T: ?Sized + Serialize>(self, _: &'static str, _: u32, _: &'static str, _: &T) -> Result<AnyTree, PErr> {
        Err(PErr("newtype_variant".into()))
    }
    fn serialize_seq(self, _: Option<usize>) -> Result<ProbeSeq, PErr> {
        Ok(ProbeSeq(vec![]))
    }
    fn serialize_tuple(self, _: usize) -> Result<Self::SerializeTuple, PErr> {
        Err(PErr("tuple".into()))
    }
    fn serialize_tuple_struct(self, _: &'static str, _: usize) -> Result<Self::SerializeTupleStruct, PErr> {
        Err(PErr("tuple_struct".into()))
    }
    fn serialize_tuple_variant(self, _: &'static str, _: u32, _: &'static str, _: usize) -> Result<Self::SerializeTupleVariant, PErr> {
        Err(PErr("tuple_variant".into()))
    }
    fn serialize_map(self, _: Option<usize>) -> Result<ProbeMap, PErr> {
        Ok(ProbeMap(vec![], None))
    }
    fn serialize_struct(self, _: &'static str, _: usize) -> Result<Self::SerializeStruct, PErr> {
        Err(PErr("struct".into()))
    }
    fn serialize_struct_variant(self, _: &'static str, _: u32, _: &'static str, _: usize) -> Result<Self::SerializeStructVariant, PErr> {
        Err(PErr("struct_variant".into()))
    }
}
impl SerializeSeq for ProbeSeq {
    type Ok = AnyTree;
    type Error = PErr;
    fn serialize_element<T: ?Sized + Serialize>(&mut self, v: &T) -> Result<(), PErr> {
        self.0.push(v.serialize(Probe)?);
        Ok(())
    }
    fn end(self) -> Result<AnyTree, PErr> {
        Ok(AnyTree::Seq(self.0))
    }
}
impl SerializeMap for ProbeMap {
    type Ok = AnyTree;
    type Error = PErr;
    fn serialize_key<T: ?Sized + Serialize>(&mut self, k: &T) -> Result<(), PErr> {
        self.1 = Some(k.serialize(Probe)?);
        Ok(())
    }
    fn serialize_value<T: ?Sized + Serialize>(&mut self, v: &T) -> Result<(), PErr> {
        let k = self.1.take().ok_or_else(|| PErr("no key".into()))?;
        self.0.push((k, v.serialize(Probe)?));
        Ok(())
    }
    fn end(self) -> Result<AnyTree, PErr> {
        Ok(AnyTree::Map(self.0))
    }
}

pub fn probe(a: &Any) -> Result<AnyTree, String> {
    a.serialize(Probe).map_err(|e| e.0)
}

fn sort_val(v: &DynVal) -> String {
    // value text with map entries sorted by key text (matches Model/AnyIO.showValS)
    let list = |vs: &[DynVal]| vs.iter().map(|v| format!(",{}", sort_val(v))).collect::<String>();
    match v {
        DynVal::Some(v) => format!("(some,{})", sort_val(v)),
        DynVal::Seq(vs) => format!("(seq{})", list(vs)),
        DynVal::Tuple(vs) => format!("(tup{})", list(vs)),
        DynVal::Map(es) => {
            let mut ps: Vec<(String, String)> = es.iter().map(|(k, v)| (sort_val(k), sort_val(v))).collect();
            ps.sort_by(|a, b| a.0.cmp(&b.0));
            format!("(map{})", ps.iter().map(|(k, v)| format!(",(e,{},{})", k, v)).collect::<String>())
        }
        DynVal::Newtype(v) => format!("(nt,{})", sort_val(v)),
        DynVal::TupleStruct(vs) => format!("(ts{})", list(vs)),
        DynVal::Struct(vs) => format!("(st{})", list(vs)),
        DynVal::Variant(i, p) => format!("(var,{},{})", i, sort_val(p)),
        other => other.txt(),
    }
}

fn sort_tree(t: &Tree, ty: Option<&DynTy>) -> String {
    // document text with members sorted by key text (matches Model/AnyIO.showDocS); keys untyped
    let _ = ty;
    match t {
        Tree::Arr(xs) => format!("(arr{})", xs.iter().map(|x| format!(",{}", sort_tree(x, None))).collect::<String>()),
        Tree::Obj(ms) => {
            let mut ps: Vec<(String, String)> = ms.iter().map(|(k, v)| (format!("t{}", hex(k.as_bytes())), sort_tree(v, None))).collect();
            ps.sort_by(|a, b| a.0.cmp(&b.0));
            format!("(obj{})", ps.iter().map(|(k, v)| format!(",(m,{},{})", k, v)).collect::<String>())
        }
        other => other.txt(None),
    }
}

/// replaces `f<bits>` keys (model's opaque finite-double key) by their text on the model side is not
/// possible, so values with finite double keys are excluded from the JSON comparisons
fn has_finite_double_key(ty: &DynTy, v: &DynVal) -> bool {
    fn key_fin(t: &DynTy, v: &DynVal) -> bool {
        match (t, v) {
            (DynTy::F64, DynVal::F64(Dbl::Fin(_))) | (DynTy::F32, DynVal::F32(Dbl::Fin(_))) => true,
            (DynTy::Newtype(t), DynVal::Newtype(v)) => key_fin(t, v),
            _ => false,
        }
    }
    match (ty, v) {
        (DynTy::Opt(t), DynVal::Some(v)) | (DynTy::Newtype(t), DynVal::Newtype(v)) => has_finite_double_key(t, v),
        (DynTy::Seq(t), DynVal::Seq(vs)) => vs.iter().any(|v| has_finite_double_key(t, v)),
        (DynTy::Tuple(ts), DynVal::Tuple(vs)) | (DynTy::TupleStruct(ts), DynVal::TupleStruct(vs)) => ts.iter().zip(vs).any(|(t, v)| has_finite_double_key(t, v)),
        (DynTy::Struct(fs), DynVal::Struct(vs)) => fs.iter().zip(vs).any(|((_, t), v)| has_finite_double_key(t, v)),
        (DynTy::Map(kt, vt), DynVal::Map(es)) => es.iter().any(|(k, v)| key_fin(kt, k) || has_finite_double_key(vt, v)),
        (DynTy::Enum(vars), DynVal::Variant(i, p)) => has_finite_double_key(&vars[*i].2, p),
        _ => false,
    }
}

fn one_value(cs: &mut Cases, class: &str, ty: &DynTy, val: &DynVal) {
    // --- Any::new
    let (t2, v2) = (ty.clone(), val.clone());
    let r = guarded(move || Any::new(Typed(&t2, &v2)).map_err(|e| e.to_string()));
    let op = format!("any_new {} {}", ty.txt(), val.txt());
    let note = format!("Any::new({} : {})", val.txt(), ty.txt());
    let any = match r {
        Err(p) => {
            cs.push(class, op, "panic".into(), true, note);
            cs.fail_last("any:new-panic", p);
            return;
        }
        Ok(Err(e)) => {
            cs.push(class, op, "err".into(), true, note);
            cs.fail_last("any:new-failed", format!("Any::new failed on a serializable value: {}", e));
            return;
        }
        Ok(Ok(a)) => a,
    };
    let tree = match probe(&any) {
        Ok(t) => t,
        Err(e) => {
            cs.push(class, op, format!("probe-error {}", e), true, note);
            return;
        }
    };
    cs.push(class, op, tree.txt(), true, note);

    // --- back to the static type
    let (t2, a2) = (ty.clone(), any.clone());
    let r = guarded(move || Seed(&t2).deserialize(a2).map_err(|e| e.to_string()));
    let op = format!("any_into {} {}", ty.txt(), tree.txt());
    let note = format!("Any({}).deserialize_into::<{}>()", tree.txt(), ty.txt());
    match r {
        Err(p) => {
            cs.push(class, op, "panic".into(), true, note);
            cs.fail_last("any:into-panic", p);
        }
        Ok(r) => {
            let shown = match &r {
                Ok(v) => format!("ok {}", sort_val(v)),
                Err(_) => "err".into(),
            };
            cs.push(class, op, shown, true, note);
            match r {
                Ok(v) if sort_val(&v) == sort_val(val) => {}
                Ok(v) => cs.fail_last("any:roundtrip", format!("{} came back as {}", sort_val(val), sort_val(&v))),
                Err(e) => cs.fail_last(&format!("any:roundtrip-rejected:{}", reject_class(ty, val)), format!("Any::new({}) cannot be read back as its own type: {}", val.txt(), e)),
            }
        }
    }

    // --- JSON of the Any vs JSON of the value (128-bit integers do not survive the stock JSON reader used to
    //     canonicalise, so they are left to the round-trip check above)
    if !has_finite_double_key(ty, val) && reject_class(ty, val) != "128-bit-integer" {
        let a2 = any.clone();
        let r = guarded(move || conjure_serde::json::to_vec(&a2).map_err(|e| e.to_string()));
        let op = format!("any_json {}", tree.txt());
        let note = format!("json::to_vec(Any({}))", tree.txt());
        match r {
            Err(p) => {
                cs.push(class, op, "panic".into(), true, note);
                cs.fail_last("any:json-panic", p);
            }
            Ok(Err(e)) => {
                cs.push(class, op, "err".into(), true, note);
                // a map whose keys are not key-able cannot be JSON at all (also not directly)
                let direct = conjure_serde::json::to_vec(&Typed(ty, val));
                if direct.is_ok() {
                    cs.fail_last("any:json-failed", format!("the value serializes to JSON but its Any does not: {}", e));
                }
            }
            Ok(Ok(bytes)) => {
                let t = serde_json::from_slice::<Tree>(&bytes).unwrap_or(Tree::Null);
                cs.push(class, op, sort_tree(&t, None), true, note);
                match conjure_serde::json::to_vec(&Typed(ty, val)) {
                    Ok(direct) => {
                        let dt = serde_json::from_slice::<Tree>(&direct).unwrap_or(Tree::Null);
                        if sort_tree(&dt, None) != sort_tree(&t, None) {
                            cs.fail_last("any:json-differs", format!("JSON of the Any is {} but JSON of the value is {}", String::from_utf8_lossy(&bytes), String::from_utf8_lossy(&direct)));
                        }
                    }
                    Err(e) => cs.fail_last("any:json-differs", format!("the Any serializes but the value does not: {}", e)),
                }
            }
        }
    }
}

fn reject_class(ty: &DynTy, _v: &DynVal) -> &'static str {
    fn has(ty: &DynTy, f: &dyn Fn(&DynTy) -> bool) -> bool {
        if f(ty) {
            return true;
        }
        match ty {
            DynTy::Opt(t) | DynTy::Seq(t) | DynTy::Newtype(t) => has(t, f),
            DynTy::Tuple(ts) | DynTy::TupleStruct(ts) => ts.iter().any(|t| has(t, f)),
            DynTy::Map(k, v) => has(k, f) || has(v, f),
            DynTy::Struct(fs) => fs.iter().any(|x| has(&x.1, f)),
            DynTy::Enum(vs) => vs.iter().any(|x| has(&x.2, f)),
            _ => false,
        }
    }
    if has(ty, &|t| matches!(t, DynTy::Int(_, 128))) {
        "128-bit-integer"
    } else if has(ty, &|t| matches!(t, DynTy::Newtype(_))) {
        "newtype-struct"
    } else {
        "other"
    }
}

pub fn random_json(rng: &mut Rng, depth: u32) -> Tree {
    match rng.below(if depth == 0 { 8 } else { 11 }) {
        0 => Tree::Null,
        1 => Tree::Bool(rng.chance(1, 2)),
        2 => Tree::Int(*rng.pick(&[0i128, 1, -1, i64::MAX as i128, i64::MIN as i128, u64::MAX as i128, 1 << 53, -(1 << 53), 42])),
        3 => Tree::Int(rng.next() as i64 as i128),
        4 => match rng.below(3) {
            0 => Tree::Dbl(*rng.pick(&[Dbl::of(1.5), Dbl::of(-0.0), Dbl::of(1e300), Dbl::of(5e-324), Dbl::of(0.1)])),
            // doubles that need all 17 significant digits, of everyday and of arbitrary magnitude
            1 => Tree::Dbl(Dbl::of(100.0 + (rng.next() >> 11) as f64 / (1u64 << 53) as f64 * 100.0)),
            _ => {
                let x = f64::from_bits(rng.next());
                Tree::Dbl(Dbl::of(if x.is_finite() { x } else { 0.1 }))
            }
        },
        5 => Tree::Str(rng.pick(&["", "NaN", "Infinity", "-Infinity", "true", "1", "QUJD", "é😀", "a\"b", "null"]).to_string()),
        6 => Tree::Arr(vec![]),
        7 => Tree::Obj(vec![]),
        8 => Tree::Arr((0..rng.below(4)).map(|_| random_json(rng, depth - 1)).collect()),
        _ => {
            let mut ms: Vec<(String, Tree)> = vec![];
            for _ in 0..rng.below(4) {
                let k = rng.pick(&["a", "b", "type", "1", "true", "NaN", "", "zz", "A", "é"]).to_string();
                // now and then a key occurs twice: the later member is the one that counts, for `Any` as for every
                // other reader
                if !ms.iter().any(|m| m.0 == k) || rng.chance(1, 6) {
                    ms.push((k, random_json(rng, depth - 1)));
                }
            }
            Tree::Obj(ms)
        }
    }
}

fn has_object(t: &Tree) -> bool {
    match t {
        Tree::Obj(_) => true,
        Tree::Arr(xs) => xs.iter().any(has_object),
        _ => false,
    }
}

/// the document with every repeated key resolved as readers resolve it: the last member of that name stays (in the
/// place of the first)
pub fn last_wins(t: &Tree) -> Tree {
    match t {
        Tree::Arr(xs) => Tree::Arr(xs.iter().map(last_wins).collect()),
        Tree::Obj(ms) => {
            let mut out: Vec<(String, Tree)> = vec![];
            for (k, v) in ms {
                let v = last_wins(v);
                match out.iter_mut().find(|m| &m.0 == k) {
                    Some(m) => m.1 = v,
                    None => out.push((k.clone(), v)),
                }
            }
            Tree::Obj(out)
        }
        other => other.clone(),
    }
}

fn json_case(cs: &mut Cases, doc: &Tree) {
    let bytes = serde_json::to_vec(doc).unwrap();
    let b2 = bytes.clone();
    let r = guarded(move || conjure_serde::json::client_from_slice::<Any>(&b2).map_err(|e| e.to_string()));
    let op = format!("json_any {}", doc.txt(None));
    let note = format!("client_from_slice::<Any>({})", String::from_utf8_lossy(&bytes).chars().take(200).collect::<String>());
    match r {
        Err(p) => {
            cs.push("json", op, "panic".into(), true, note);
            cs.fail_last("any:from-json-panic", p);
        }
        Ok(Err(e)) => {
            cs.push("json", op, "err".into(), true, note);
            cs.fail_last("any:from-json-failed", format!("a JSON document cannot be parsed into Any: {}", e));
        }
        Ok(Ok(any)) => {
            let tree = probe(&any).unwrap_or(AnyTree::Null);
            cs.push("json", op, tree.txt(), true, note);
            // re-serialize
            let a2 = any.clone();
            let back = guarded(move || conjure_serde::json::to_vec(&a2).map_err(|e| e.to_string()));
            match back {
                Ok(Ok(b)) => {
                    let t = serde_json::from_slice::<Tree>(&b).unwrap_or(Tree::Null);
                    if sort_tree(&t, None) != sort_tree(&last_wins(doc), None) {
                        cs.fail_last("any:json-any-json", format!("{} re-serializes as {}", String::from_utf8_lossy(&bytes), String::from_utf8_lossy(&b)));
                    } else if !has_object(doc) && b != bytes {
                        // without objects there is no member order to allow for: the text itself must come back (every
                        // number was written in its shortest form, which a correct reader and writer reproduce)
                        cs.fail_last("any:json-any-json", format!("{} re-serializes as {}", String::from_utf8_lossy(&bytes), String::from_utf8_lossy(&b)));
                    }
                }
                other => cs.fail_last("any:json-any-json", format!("parsed Any does not serialize: {:?}", other)),
            }
        }
    }
}

/// json -> Any -> T versus json -> T
fn view_case(cs: &mut Cases, ty: &DynTy, val: &DynVal) {
    if has_finite_double_key(ty, val) {
        return;
    }
    let bytes = match conjure_serde::json::to_vec(&Typed(ty, val)) {
        Ok(b) => b,
        Err(_) => return,
    };
    let (t2, b2) = (ty.clone(), bytes.clone());
    let r = guarded(move || {
        let any = conjure_serde::json::client_from_slice::<Any>(&b2).map_err(|e| e.to_string())?;
        let tree = probe(&any)?;
        let via = Seed(&t2).deserialize(any).map_err(|e| e.to_string());
        let mut d = conjure_serde::json::ClientDeserializer::from_slice(&b2);
        let direct = Seed(&t2).deserialize(&mut d).map_err(|e| e.to_string());
        Ok::<_, String>((tree, via, direct))
    });
    match r {
        Ok(Ok((tree, via, direct))) => {
            let op = format!("any_into {} {}", ty.txt(), tree.txt());
            let shown = match &via {
                Ok(v) => format!("ok {}", sort_val(v)),
                Err(_) => "err".into(),
            };
            cs.push("view", op, shown, true, format!("json {} -> Any -> {}", String::from_utf8_lossy(&bytes).chars().take(160).collect::<String>(), ty.txt()));
            match (&via, &direct) {
                (Ok(a), Ok(b)) if sort_val(a) == sort_val(b) => {}
                (Err(_), Err(_)) => {}
                _ => cs.fail_last(&format!("any:view-differs:{}", reject_class(ty, val)), format!("via Any: {:?}; directly: {:?}", via.as_ref().map(sort_val), direct.as_ref().map(sort_val))),
            }
        }
        Ok(Err(e)) => {
            cs.push("view", format!("json_any {}", "(null)"), "(null)".into(), false, format!("skipped: {}", e));
        }
        Err(p) => {
            cs.push("view", format!("json_any {}", "(null)"), "panic".into(), true, p.clone());
            cs.fail_last("any:view-panic", p);
        }
    }
}

pub fn cases(seed: u64, tier: Tier) -> Cases {
    let mut rng = Rng::new(seed);
    let mut cs = Cases::new("C13");
    // every integer width, incl. 128 bits, at its extremes; floats; the other leaves; newtypes
    for (s, b) in [(true, 8u32), (true, 16), (true, 32), (true, 64), (true, 128), (false, 8), (false, 16), (false, 32), (false, 64), (false, 128)] {
        let (lo, hi): (i128, i128) = if s { (if b == 128 { i128::MIN } else { -(1i128 << (b - 1)) }, if b == 128 { i128::MAX } else { (1i128 << (b - 1)) - 1 }) } else { (0, if b >= 127 { i128::MAX } else { (1i128 << b) - 1 }) };
        for n in [lo, hi, 0, 1.min(hi)] {
            let ty = DynTy::Int(s, b);
            one_value(&mut cs, "integers", &ty, &DynVal::Int(n));
            one_value(&mut cs, "integers", &DynTy::Seq(Box::new(ty.clone())), &DynVal::Seq(vec![DynVal::Int(n)]));
            one_value(&mut cs, "integers", &DynTy::Newtype(Box::new(ty.clone())), &DynVal::Newtype(Box::new(DynVal::Int(n))));
            if b <= 64 {
                one_value(&mut cs, "integers", &DynTy::Map(Box::new(ty.clone()), Box::new(DynTy::Bool)), &DynVal::Map(vec![(DynVal::Int(n), DynVal::Bool(true))]));
            }
        }
    }
    for (t, v) in crate::ops::c01::systematic_values() {
        one_value(&mut cs, "systematic", &t, &v);
        view_case(&mut cs, &t, &v);
    }
    let (n, depth) = if tier == Tier::Quick { (1500, 4) } else { (25000, 6) };
    for i in 0..n {
        let d = 1 + (i as u32 % depth);
        let ty = random_ty(&mut rng, d, 3);
        let val = random_val(&mut rng, &ty, 3);
        one_value(&mut cs, "seeded", &ty, &val);
        view_case(&mut cs, &ty, &val);
    }
    for _ in 0..(if tier == Tier::Quick { 1500 } else { 25000 }) {
        let doc = random_json(&mut rng, 3);
        json_case(&mut cs, &doc);
    }
    // single-precision values that are not dyadic (outside the model, which carries f32 widened): the JSON of the
    // Any must be the JSON of the value, and the value must come back, alone and nested
    for x in [0.1f32, 0.2, 3.3, 1e-7, f32::MAX, f32::MIN_POSITIVE, 16777217.0, -0.3, 1.0e10, 2.5e-20] {
        #[derive(serde::Serialize, serde::Deserialize, PartialEq, Debug, Clone)]
        struct W {
            a: f32,
            l: Vec<f32>,
            o: Option<f32>,
        }
        let w = W { a: x, l: vec![x, -x], o: Some(x) };
        let r = guarded(|| {
            let any = conjure_object::Any::new(&w).map_err(|e| e.to_string())?;
            let j_any = conjure_serde::json::to_string(&any).map_err(|e| e.to_string())?;
            let j_val = conjure_serde::json::to_string(&w).map_err(|e| e.to_string())?;
            let back: W = any.deserialize_into().map_err(|e| e.to_string())?;
            Ok::<_, String>((j_any, j_val, back))
        });
        cs.push("f32", "noop".into(), "noop".into(), true, format!("Any::new({:?})", w));
        match r {
            Err(p) => cs.fail_last("any:f32:panic", p),
            Ok(Err(e)) => cs.fail_last("any:f32:failed", format!("{:?}: {}", w, e)),
            Ok(Ok((j_any, j_val, back))) => {
                if j_any != j_val {
                    cs.fail_last("any:json-differs:f32", format!("JSON of the Any is {} but JSON of the value is {}", j_any, j_val));
                } else if back != w {
                    cs.fail_last("any:roundtrip:f32", format!("{:?} came back as {:?}", w, back));
                }
            }
        }
    }
    // static types that themselves carry an `Any` made from a Rust value of some width (not from a document, where
    // every number is 64 bits wide): the carried Any must come back as it was, alone, in a list, in a map, in a field
    {
        use conjure_object::Any;
        use std::collections::BTreeMap;
        #[derive(serde::Serialize, serde::Deserialize, PartialEq, Debug, Clone)]
        struct WA {
            a: Any,
            l: Vec<Any>,
            m: BTreeMap<String, Any>,
            o: Option<Any>,
        }
        let mut inners: Vec<(String, Any)> = vec![];
        macro_rules! inner {
            ($($e:expr),*) => { $( if let Ok(a) = Any::new($e) { inners.push((stringify!($e).to_string(), a)); } )* };
        }
        inner!(0.1f32, -3.3f32, f32::MAX, 16777217.0f32, 0.1f64, 7u8, -7i8, 300u16, -300i16, 70000u32, -70000i32, u64::MAX, i64::MIN, 1u128 << 100, -(1i128 << 100), 'c', "s", true, (), Some(0.2f32), vec![0.3f32, 1.5f32], (1u8, 0.7f32));
        for (txt, inner) in inners {
            let wa = WA { a: inner.clone(), l: vec![inner.clone(), inner.clone()], m: [("k".to_string(), inner.clone())].into_iter().collect(), o: if txt == "()" { None } else { Some(inner.clone()) } }; // an optional holding the null Any is the empty optional
            let (wa2, inner2) = (wa.clone(), inner.clone());
            let r = guarded(move || {
                let any = Any::new(&wa2).map_err(|e| e.to_string())?;
                let j_any = conjure_serde::json::to_string(&any).map_err(|e| e.to_string())?;
                let j_val = conjure_serde::json::to_string(&wa2).map_err(|e| e.to_string())?;
                let back: WA = any.deserialize_into().map_err(|e| e.to_string())?;
                let bare: Any = Any::new(&inner2).map_err(|e| e.to_string())?.deserialize_into().map_err(|e| e.to_string())?;
                Ok::<_, String>((j_any, j_val, back, bare))
            });
            cs.push("carried-any", "noop".into(), "noop".into(), true, format!("a struct, list, map and option carrying Any::new({})", txt));
            match r {
                Err(p) => cs.fail_last("any:carried:panic", p),
                Ok(Err(e)) => cs.fail_last("any:carried:failed", format!("Any::new({}): {}", txt, e)),
                Ok(Ok((j_any, j_val, back, bare))) => {
                    if j_any != j_val {
                        cs.fail_last("any:json-differs:carried", format!("JSON of the Any is {} but JSON of the value is {}", j_any, j_val));
                    } else if back != wa {
                        cs.fail_last("any:roundtrip:carried", format!("{:?} came back as {:?}", wa, back));
                    } else if bare != inner {
                        cs.fail_last("any:roundtrip:carried", format!("Any::new({}) = {:?} read back as an Any is {:?}", txt, inner, bare));
                    }
                }
            }
        }
    }
    // generated enums and unions (listed and unlisted values, both member orders) viewed through an Any
    crate::ops::c10::via_any_cases(&mut cs);
    cs
}

pub const RULE: &str = "every integer width i8..u128 at min/max/0/1, bare, in a list, in a newtype and as a map key; the systematic and seeded typed values of C01 (all serde shapes, non-string keys, NaN/infinities, binary, uuid, options, all variant kinds). For each value: Any::new (its private representation is read back by serializing the Any into a recording serializer), deserialize_into its own type, JSON of the Any versus JSON of the value, and JSON -> Any -> type versus JSON -> type; plus seeded JSON documents (64-bit integer edges, nested objects/arrays, strings such as NaN, empty containers) parsed into Any and re-serialized. Maps and objects are compared up to member order. Values with a finite double in key position are left out of the JSON comparisons (opaque key text). All cases non-trivial except skipped views; distinct = distinct operation lines.";
