mod extract;
mod irgen;
mod dynval;
mod ops;
mod run;
mod svc;
mod loopback;
mod irrand;
mod util;

use run::{Cases, Tier};

fn arg_val(args: &[String], name: &str) -> Option<String> {
    args.iter().position(|a| a == name).and_then(|i| args.get(i + 1).cloned())
}

fn main() {
    let args: Vec<String> = std::env::args().collect();
    match args.get(1).map(|s| s.as_str()) {
        Some("extract") => {
            let out = args.get(2).cloned().unwrap_or_else(|| "/verif/lean/ConjureVerif/Gen".into());
            if let Err(e) = extract::run(std::path::Path::new(&out)) {
                eprintln!("extract failed: {}", e);
                std::process::exit(2);
            }
        }
        Some("gen") => {
            // child process of the C20 support runs: the library entry point
            std::process::exit(ops::c20::gen_main(&args[2..]));
        }
        Some("deep") => {
            // child process of the C06 / C18 deep-nesting probes: a stack overflow aborts the process, which only a
            // parent can observe
            std::process::exit(ops::c06::deep_main(&args[2..]));
        }
        Some("run") => {
            let prop = args.get(2).cloned().unwrap_or_default();
            let seed: u64 = arg_val(&args, "--seed").and_then(|s| s.parse().ok()).unwrap_or(1);
            let tier = match arg_val(&args, "--tier").as_deref() {
                Some("thorough") => Tier::Thorough,
                _ => Tier::Quick,
            };
            let driver = arg_val(&args, "--driver").unwrap_or_else(|| "/verif/lean/.lake/build/bin/driver".into());
            let out = arg_val(&args, "--out").unwrap_or_else(|| format!("/verif/work/{}", prop));
            // panics inside guarded() are expected outcomes; keep stderr quiet
            static LAST_PANIC: std::sync::Mutex<String> = std::sync::Mutex::new(String::new());
            if std::env::var("VERIF_PANIC").is_err() {
                std::panic::set_hook(Box::new(|info| {
                    if let Ok(mut l) = LAST_PANIC.lock() {
                        *l = info.location().map(|l| format!("{}:{}", l.file(), l.line())).unwrap_or_default();
                    }
                }));
            }
            let r = std::panic::catch_unwind(|| match prop.as_str() {
                "C15" => run::finish(ops::c15::cases(seed, tier), &driver, &out, seed, tier, ops::c15::RULE, serde_json::json!({})),
                "C16" => run::finish(ops::c16::cases(seed, tier), &driver, &out, seed, tier, ops::c16::RULE, serde_json::json!({})),
                "C12" => run::finish(ops::c12::cases(seed, tier), &driver, &out, seed, tier, ops::c12::RULE, serde_json::json!({})),
                "C11" => run::finish(ops::c11::cases(seed, tier), &driver, &out, seed, tier, ops::c11::RULE, serde_json::json!({})),
                "C06" => run::finish(ops::c06::cases(seed, tier, false), &driver, &out, seed, tier, ops::c06::RULE_SERVER, serde_json::json!({})),
                "C18" => run::finish(ops::c06::cases(seed, tier, true), &driver, &out, seed, tier, ops::c06::RULE_CLIENT, serde_json::json!({})),
                "C08" => run::finish(ops::c08::cases(seed, tier), &driver, &out, seed, tier, ops::c08::RULE, serde_json::json!({})),
                "C01" => {
                    let (cs, extra) = ops::c01::cases(seed, tier);
                    run::finish(cs, &driver, &out, seed, tier, ops::c01::RULE, extra)
                }
                "C05" => run::finish(ops::c05::cases(seed, tier), &driver, &out, seed, tier, ops::c05::RULE, serde_json::json!({})),
                "C13" => run::finish(ops::c13::cases(seed, tier), &driver, &out, seed, tier, ops::c13::RULE, serde_json::json!({})),
                "C17" => run::finish(ops::c17::cases(seed, tier), &driver, &out, seed, tier, ops::c17::RULE, serde_json::json!({})),
                "C10" => run::finish(ops::c10::cases(seed, tier), &driver, &out, seed, tier, ops::c10::RULE, serde_json::json!({})),
                "C19" => run::finish(ops::ep::cases("C19", seed, tier), &driver, &out, seed, tier, ops::ep::RULE_C19, serde_json::json!({})),
                "C09" => run::finish(ops::ep::cases("C09", seed, tier), &driver, &out, seed, tier, ops::ep::RULE_C09, serde_json::json!({})),
                "C04" => run::finish(ops::c04::cases(seed, tier), &driver, &out, seed, tier, ops::c04::RULE, serde_json::json!({})),
                "C20" => run::finish(ops::c20::cases(seed, tier), &driver, &out, seed, tier, ops::c20::RULE, serde_json::json!({})),
                "C02" => run::finish(ops::c02::cases(seed, tier), &driver, &out, seed, tier, ops::c02::RULE, serde_json::json!({})),
                "C03" => run::finish(ops::c03::cases(seed, tier), &driver, &out, seed, tier, ops::c03::RULE, serde_json::json!({})),
                "C14" => run::finish(ops::c14::cases(seed, tier), &driver, &out, seed, tier, ops::c14::RULE, serde_json::json!({})),
                "C07" => run::finish(ops::c07::cases(seed, tier), &driver, &out, seed, tier, ops::c07::RULE, serde_json::json!({})),
                _ => Err(format!("unknown property {}", prop)),
            });
            let r = match r {
                Ok(r) => r,
                Err(e) => {
                    // the harness itself was stopped by the implementation (a constructor refusing a valid value, a
                    // panic outside a guarded call): report it as a failure of this run instead of dying silently
                    let msg = e.downcast_ref::<&str>().map(|s| s.to_string()).or_else(|| e.downcast_ref::<String>().cloned()).unwrap_or_else(|| "panic".into());
                    let at = LAST_PANIC.lock().map(|l| l.clone()).unwrap_or_default();
                    let leaked: &'static str = Box::leak(prop.clone().into_boxed_str());
                    let mut cs = Cases::new(leaked);
                    cs.push("harness", "noop".into(), "noop".into(), true, format!("the harness run for {} (seed {}, tier {:?})", prop, seed, tier));
                    cs.fail_last("harness:stopped", format!("the run was stopped at {} by: {}", at, msg));
                    run::finish(cs, &driver, &out, seed, tier, "run stopped before the corpus was complete", serde_json::json!({}))
                }
            };
            if let Err(e) = r {
                eprintln!("run failed: {}", e);
                std::process::exit(2);
            }
        }
        _ => {
            eprintln!("usage: harness extract [dir] | harness run <Cxx> --seed N --tier quick|thorough --driver path --out dir");
            std::process::exit(2);
        }
    }
}
