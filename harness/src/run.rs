//! C: correspondence runner.  A property module produces `Case`s by executing the real code; the
//! same operation lines are piped to the compiled Lean driver; canonical outputs are diffed.
//! Independently of the model, each case may carry an *oracle failure*: the real code contradicting
//! the property's own statement on that input (this is what yields a concrete replay).
use crate::util::fnv;
use serde_json::{json, Value};
use std::collections::{BTreeMap, HashSet};
use std::io::Write;
use std::process::{Command, Stdio};

#[derive(Clone, Copy, PartialEq, Eq, Debug)]
pub enum Tier {
    Quick,
    Thorough,
}

pub struct Case {
    /// operation line sent to the model (without the property prefix)
    pub op: String,
    /// canonical output of the real implementation
    pub real: String,
    /// histogram bucket (route, constructor, error kind …)
    pub class: String,
    /// non-trivial by the property's stated rule
    pub nontrivial: bool,
    /// the real code contradicts the property statement on this input
    pub oracle: Option<OracleFailure>,
    /// human-readable rendering of the input, for samples and replays
    pub note: String,
}

#[derive(Clone)]
pub struct OracleFailure {
    /// stable key used to match known findings (names the specific input class, not the property)
    pub key: String,
    pub what: String,
}

pub struct Cases {
    pub prop: &'static str,
    pub cases: Vec<Case>,
}

impl Cases {
    pub fn new(prop: &'static str) -> Cases {
        Cases { prop, cases: vec![] }
    }
    pub fn push(&mut self, class: &str, op: String, real: String, nontrivial: bool, note: String) {
        self.cases.push(Case { op, real, class: class.to_string(), nontrivial, oracle: None, note });
    }
    pub fn fail_last(&mut self, key: &str, what: String) {
        if let Some(c) = self.cases.last_mut() {
            c.oracle = Some(OracleFailure { key: key.to_string(), what });
        }
    }
}

/// Runs `f`, turning a panic into `Err(message)`.
pub fn guarded<T>(f: impl FnOnce() -> T) -> Result<T, String> {
    std::panic::catch_unwind(std::panic::AssertUnwindSafe(f)).map_err(|e| {
        if let Some(s) = e.downcast_ref::<&str>() {
            s.to_string()
        } else if let Some(s) = e.downcast_ref::<String>() {
            s.clone()
        } else {
            "panic".to_string()
        }
    })
}

pub fn drive(driver: &str, prop: &str, cases: &[Case]) -> Result<Vec<String>, String> {
    let mut child = Command::new(driver)
        .stdin(Stdio::piped())
        .stdout(Stdio::piped())
        .spawn()
        .map_err(|e| format!("cannot start driver {}: {}", driver, e))?;
    let mut stdin = child.stdin.take().unwrap();
    let lines: Vec<String> = cases.iter().map(|c| format!("{} {}\n", prop, c.op)).collect();
    let writer = std::thread::spawn(move || {
        for l in lines {
            if stdin.write_all(l.as_bytes()).is_err() {
                break;
            }
        }
    });
    let out = child.wait_with_output().map_err(|e| e.to_string())?;
    let _ = writer.join();
    let text = String::from_utf8_lossy(&out.stdout).to_string();
    let v: Vec<String> = text.lines().map(|s| s.to_string()).collect();
    if v.len() != cases.len() {
        return Err(format!("driver produced {} lines for {} operations", v.len(), cases.len()));
    }
    Ok(v)
}

fn short(s: &str) -> String {
    if s.len() > 400 {
        format!("{}…[{} bytes, fnv {:016x}]", s.chars().take(300).collect::<String>(), s.len(), fnv(s))
    } else {
        s.to_string()
    }
}

pub fn finish(
    cs: Cases,
    driver: &str,
    out_dir: &str,
    seed: u64,
    tier: Tier,
    rule: &str,
    extra: Value,
) -> Result<(), String> {
    std::fs::create_dir_all(out_dir).map_err(|e| e.to_string())?;
    let model = drive(driver, cs.prop, &cs.cases)?;
    let mut classes: BTreeMap<String, u64> = BTreeMap::new();
    let mut distinct: HashSet<u64> = HashSet::new();
    let mut disagreements = vec![];
    let mut oracle_failures = vec![];
    // at most a few examples per failure key, so that one frequent (possibly known) failure cannot crowd out others
    let mut per_key: BTreeMap<String, u32> = BTreeMap::new();
    let mut n_dis = 0u64;
    let mut n_or = 0u64;
    let mut bad_ops = 0u64;
    for (c, m) in cs.cases.iter().zip(model.iter()) {
        *classes.entry(c.class.clone()).or_insert(0) += 1;
        if c.nontrivial {
            distinct.insert(fnv(&c.op));
        }
        if m == "bad-op" {
            bad_ops += 1;
        }
        if *m != c.real {
            n_dis += 1;
            if disagreements.len() < 20 {
                disagreements.push(json!({"op": short(&c.op), "input": short(&c.note), "real": short(&c.real), "model": short(m), "class": c.class}));
            }
        }
        if let Some(o) = &c.oracle {
            n_or += 1;
            let k = per_key.entry(o.key.clone()).or_insert(0);
            *k += 1;
            if *k <= 4 && oracle_failures.len() < 400 {
                oracle_failures.push(json!({"key": o.key, "what": short(&o.what), "op": short(&c.op), "input": short(&c.note), "real": short(&c.real), "class": c.class}));
            }
        }
    }
    // samples: first case of each class (up to 12)
    let mut seen = HashSet::new();
    let mut samples = vec![];
    for (c, m) in cs.cases.iter().zip(model.iter()) {
        if seen.insert(c.class.clone()) && samples.len() < 12 {
            samples.push(json!({"op": short(&format!("{} {}", cs.prop, c.op)), "input": short(&c.note), "real": short(&c.real), "model": short(m)}));
        }
    }
    let summary = json!({
        "property": cs.prop,
        "seed": seed,
        "tier": if tier == Tier::Quick { "quick" } else { "thorough" },
        "evaluations": cs.cases.len(),
        "distinct_nontrivial": distinct.len(),
        "rule": rule,
        "classes": classes,
        "samples": samples,
        "n_disagreements": n_dis,
        "disagreements": disagreements,
        "n_oracle_failures": n_or,
        "oracle_failures": oracle_failures,
        "bad_ops": bad_ops,
        "extra": extra,
    });
    let p = format!("{}/summary.json", out_dir);
    std::fs::write(&p, serde_json::to_string_pretty(&summary).unwrap()).map_err(|e| e.to_string())?;
    eprintln!(
        "run {}: {} cases, {} distinct non-trivial, {} disagreements, {} oracle failures, {} bad-ops",
        cs.prop,
        cs.cases.len(),
        distinct.len(),
        n_dis,
        n_or,
        bad_ops
    );
    Ok(())
}
