//! The generated `VerifService` (compiled from gen/ir/verif.json by /repo's generator): a recording handler for
//! the blocking and the async server traits, endpoint descriptors parsed from the generated source, and a runner
//! that drives one request through `Endpoint::handle` and reports everything observable.
use crate::irgen;
use crate::util::hex;
use bytes::Bytes;
use conjure_error::{Error, ErrorKind};
use conjure_http::server::{EndpointMetadata, AsyncEndpoint, AsyncResponseBody, AsyncService, AsyncWriteBody, ConjureRuntime, Endpoint, RequestContext, ResponseBody, Service, WriteBody};
use conjure_http::{PathParams, SafeParams};
use conjure_object::{BearerToken, DateTime, ResourceIdentifier, SafeLong, Utc};
use futures::Stream;
use http::{Extensions, HeaderName, HeaderValue, Request};
use std::collections::{BTreeMap, BTreeSet};
use std::pin::Pin;
use std::sync::{Arc, Mutex};
use std::task::{Context, Poll};
use verifgen::plain::*;

/// request body: a sequence of chunks, as an iterator (blocking) and a stream (async)
#[derive(Debug, Clone, PartialEq)]
pub struct RemoteBody(pub Vec<Vec<u8>>);

impl RemoteBody {
    pub fn drain(mut self) -> Vec<u8> {
        let mut out = vec![];
        for c in self.0.drain(..) {
            out.extend_from_slice(&c);
        }
        out
    }
}

impl Iterator for RemoteBody {
    type Item = Result<Bytes, Error>;
    fn next(&mut self) -> Option<Self::Item> {
        if self.0.is_empty() {
            None
        } else {
            Some(Ok(Bytes::from(self.0.remove(0))))
        }
    }
}

impl Stream for RemoteBody {
    type Item = Result<Bytes, Error>;
    fn poll_next(mut self: Pin<&mut Self>, _: &mut Context<'_>) -> Poll<Option<Self::Item>> {
        if self.0.is_empty() {
            Poll::Ready(None)
        } else {
            Poll::Ready(Some(Ok(Bytes::from(self.0.remove(0)))))
        }
    }
}

#[derive(Debug, Clone, PartialEq)]
pub struct StreamingBody(pub Vec<u8>);

impl WriteBody<Vec<u8>> for StreamingBody {
    fn write_body(self: Box<Self>, w: &mut Vec<u8>) -> Result<(), Error> {
        w.extend_from_slice(&self.0);
        Ok(())
    }
}

impl AsyncWriteBody<Vec<u8>> for StreamingBody {
    async fn write_body(self, mut w: Pin<&mut Vec<u8>>) -> Result<(), Error> {
        w.extend_from_slice(&self.0);
        Ok(())
    }
}

/// what the handler returns, per endpoint (set by the test before the call)
#[derive(Clone, Debug, Default)]
pub struct Ret {
    pub mixed: String,
    pub aliases: Vec<String>,
    pub set: BTreeSet<i32>,
    pub bin: Vec<u8>,
    pub map: BTreeMap<String, i32>,
    pub opt_str: Option<String>,
    pub doubles_json: String,
    pub list: Vec<i32>,
    pub dmap: BTreeMap<String, f64>,
}

#[derive(Clone, Default)]
pub struct Handler {
    /// one entry per invocation: `endpoint(arg=Debug, …)`
    pub log: Arc<Mutex<Vec<String>>>,
    pub ret: Arc<Mutex<Ret>>,
}

impl Handler {
    fn record(&self, s: String) {
        self.log.lock().unwrap().push(s);
    }
    fn ret(&self) -> Ret {
        self.ret.lock().unwrap().clone()
    }
    pub fn calls(&self) -> Vec<String> {
        self.log.lock().unwrap().clone()
    }
}

fn doubles(json: &str) -> Result<Doubles, Error> {
    conjure_serde::json::client_from_str(json).map_err(Error::internal)
}

macro_rules! handler_body {
    () => {
        type BinaryBody = StreamingBody;
        type OptBinaryBody = StreamingBody;
    };
}

impl Handler {
    #[allow(clippy::too_many_arguments)]
    fn do_mixed(&self, auth_: BearerToken, path_str: String, path_int: i32, type_: ResourceIdentifier, query_one: String, query_opt: Option<i32>, query_list: Vec<i32>, query_set: BTreeSet<String>, safe_header: String, opt_header: Option<i32>) -> Result<String, Error> {
        self.record(format!("mixed(auth={:?}, pathStr={:?}, pathInt={:?}, type={:?}, queryOne={:?}, queryOpt={:?}, queryList={:?}, querySet={:?}, safeHeader={:?}, optHeader={:?})", auth_.as_str(), path_str, path_int, type_.to_string(), query_one, query_opt, query_list, query_set, safe_header, opt_header));
        Ok(self.ret().mixed)
    }
    #[allow(clippy::too_many_arguments)]
    fn do_aliases(&self, p: StrAlias, qa: OptStrAlias, qc: Color, qoa: OptAliasOfAlias, hu: UuidAlias, qd: DblAlias, qb: bool, qsl: SafeLong, qdt: Option<DateTimeAlias>, qbt: Option<BearerToken>, hc: Option<ColorAlias>) -> Result<Vec<String>, Error> {
        self.record(format!("aliases(p={:?}, qa={:?}, qc={:?}, qoa={:?}, hu={:?}, qd={:?}, qb={:?}, qsl={:?}, qdt={:?}, qbt={:?}, hc={:?})", p, qa, qc, qoa, hu, qd.0.to_bits(), qb, qsl, qdt.map(|d| d.0), qbt.as_ref().map(|t| t.as_str().to_string()), hc));
        Ok(self.ret().aliases)
    }
    fn do_body(&self, auth_: BearerToken, body: Simple) -> Result<Simple, Error> {
        self.record(format!("body(auth={:?}, body={:?})", auth_.as_str(), body));
        Ok(body)
    }
    fn do_opt_body(&self, body: Option<Simple>) -> Result<Option<Simple>, Error> {
        self.record(format!("optBody(body={:?})", body));
        Ok(body)
    }
    fn do_opt_alias_body(&self, the_body: OptObjAlias) -> Result<BTreeSet<i32>, Error> {
        self.record(format!("optAliasBody(theBody={:?})", the_body));
        Ok(self.ret().set)
    }
    fn do_binary(&self, match_: i32, body: Vec<u8>) -> Result<StreamingBody, Error> {
        self.record(format!("binary(match={:?}, body={})", match_, hex(&body)));
        Ok(StreamingBody(body))
    }
    fn do_opt_binary(&self, auth_: BearerToken, present: bool) -> Result<Option<StreamingBody>, Error> {
        self.record(format!("optBinary(auth={:?}, present={:?})", auth_.as_str(), present));
        Ok(if present { Some(StreamingBody(self.ret().bin)) } else { None })
    }
    fn do_map_ret(&self, n: i32, ids: Vec<conjure_object::Uuid>) -> Result<BTreeMap<String, i32>, Error> {
        self.record(format!("mapRet(n={:?}, ids={:?})", n, ids));
        Ok(self.ret().map)
    }
    fn do_no_ret(&self, async_: Option<String>, loop_: String) -> Result<(), Error> {
        self.record(format!("noRet(async={:?}, loop={:?})", async_, loop_));
        Ok(())
    }
    fn do_ctx(&self, field_name: String, arg_opt: Option<String>) -> Result<Option<String>, Error> {
        self.record(format!("ctx(fieldName={:?}, argOpt={:?})", field_name, arg_opt));
        Ok(self.ret().opt_str)
    }
    fn do_safe_body(&self, safe_body_arg: i32) -> Result<i32, Error> {
        self.record(format!("safeBody(safeBodyArg={:?})", safe_body_arg));
        Ok(safe_body_arg)
    }
    fn do_list_alias_ret(&self, n: i32) -> Result<ListAlias, Error> {
        self.record(format!("listAliasRet(n={:?})", n));
        Ok(ListAlias(self.ret().list.iter().map(|x| *x as f64 + 0.5).collect()))
    }
    fn do_opt_alias_ret(&self, n: i32) -> Result<OptStrAlias, Error> {
        self.record(format!("optAliasRet(n={:?})", n));
        Ok(OptStrAlias(self.ret().opt_str))
    }
    fn do_map_alias_ret(&self, n: i32) -> Result<MapAlias, Error> {
        self.record(format!("mapAliasRet(n={:?})", n));
        Ok(MapAlias(self.ret().dmap))
    }
    fn do_dbl_ret(&self, x: f64, weird: Option<String>) -> Result<Doubles, Error> {
        self.record(format!("dblRet(x={:?}, weird={:?})", x.to_bits(), weird));
        doubles(&self.ret().doubles_json)
    }
}

impl VerifService<RemoteBody, Vec<u8>> for Handler {
    handler_body!();
    fn mixed(&self, auth_: BearerToken, path_str: String, path_int: i32, type_: ResourceIdentifier, query_one: String, query_opt: Option<i32>, query_list: Vec<i32>, query_set: BTreeSet<String>, safe_header: String, opt_header: Option<i32>) -> Result<String, Error> {
        self.do_mixed(auth_, path_str, path_int, type_, query_one, query_opt, query_list, query_set, safe_header, opt_header)
    }
    fn aliases(&self, p: StrAlias, qa: OptStrAlias, qc: Color, qoa: OptAliasOfAlias, hu: UuidAlias, qd: DblAlias, qb: bool, qsl: SafeLong, qdt: Option<DateTimeAlias>, qbt: Option<BearerToken>, hc: Option<ColorAlias>) -> Result<Vec<String>, Error> {
        self.do_aliases(p, qa, qc, qoa, hu, qd, qb, qsl, qdt, qbt, hc)
    }
    fn body(&self, auth_: BearerToken, body: Simple) -> Result<Simple, Error> {
        self.do_body(auth_, body)
    }
    fn opt_body(&self, body: Option<Simple>) -> Result<Option<Simple>, Error> {
        self.do_opt_body(body)
    }
    fn opt_alias_body(&self, the_body: OptObjAlias) -> Result<BTreeSet<i32>, Error> {
        self.do_opt_alias_body(the_body)
    }
    fn binary(&self, match_: i32, body: RemoteBody) -> Result<StreamingBody, Error> {
        self.do_binary(match_, body.drain())
    }
    fn opt_binary(&self, auth_: BearerToken, present: bool) -> Result<Option<StreamingBody>, Error> {
        self.do_opt_binary(auth_, present)
    }
    fn map_ret(&self, n: i32, ids: Vec<conjure_object::Uuid>) -> Result<BTreeMap<String, i32>, Error> {
        self.do_map_ret(n, ids)
    }
    fn no_ret(&self, async_: Option<String>, loop_: String) -> Result<(), Error> {
        self.do_no_ret(async_, loop_)
    }
    fn ctx(&self, field_name: String, arg_opt: Option<String>, _request_context_: RequestContext<'_>) -> Result<Option<String>, Error> {
        self.do_ctx(field_name, arg_opt)
    }
    fn safe_body(&self, safe_body_arg: i32) -> Result<i32, Error> {
        self.do_safe_body(safe_body_arg)
    }
    fn dbl_ret(&self, x: f64, weird: Option<String>) -> Result<Doubles, Error> {
        self.do_dbl_ret(x, weird)
    }
    fn list_alias_ret(&self, n: i32) -> Result<ListAlias, Error> {
        self.do_list_alias_ret(n)
    }
    fn opt_alias_ret(&self, n: i32) -> Result<OptStrAlias, Error> {
        self.do_opt_alias_ret(n)
    }
    fn map_alias_ret(&self, n: i32) -> Result<MapAlias, Error> {
        self.do_map_alias_ret(n)
    }
}

impl AsyncVerifService<RemoteBody, Vec<u8>> for Handler {
    handler_body!();
    async fn mixed(&self, auth_: BearerToken, path_str: String, path_int: i32, type_: ResourceIdentifier, query_one: String, query_opt: Option<i32>, query_list: Vec<i32>, query_set: BTreeSet<String>, safe_header: String, opt_header: Option<i32>) -> Result<String, Error> {
        self.do_mixed(auth_, path_str, path_int, type_, query_one, query_opt, query_list, query_set, safe_header, opt_header)
    }
    async fn aliases(&self, p: StrAlias, qa: OptStrAlias, qc: Color, qoa: OptAliasOfAlias, hu: UuidAlias, qd: DblAlias, qb: bool, qsl: SafeLong, qdt: Option<DateTimeAlias>, qbt: Option<BearerToken>, hc: Option<ColorAlias>) -> Result<Vec<String>, Error> {
        self.do_aliases(p, qa, qc, qoa, hu, qd, qb, qsl, qdt, qbt, hc)
    }
    async fn body(&self, auth_: BearerToken, body: Simple) -> Result<Simple, Error> {
        self.do_body(auth_, body)
    }
    async fn opt_body(&self, body: Option<Simple>) -> Result<Option<Simple>, Error> {
        self.do_opt_body(body)
    }
    async fn opt_alias_body(&self, the_body: OptObjAlias) -> Result<BTreeSet<i32>, Error> {
        self.do_opt_alias_body(the_body)
    }
    async fn binary(&self, match_: i32, body: RemoteBody) -> Result<StreamingBody, Error> {
        self.do_binary(match_, body.drain())
    }
    async fn opt_binary(&self, auth_: BearerToken, present: bool) -> Result<Option<StreamingBody>, Error> {
        self.do_opt_binary(auth_, present)
    }
    async fn map_ret(&self, n: i32, ids: Vec<conjure_object::Uuid>) -> Result<BTreeMap<String, i32>, Error> {
        self.do_map_ret(n, ids)
    }
    async fn no_ret(&self, async_: Option<String>, loop_: String) -> Result<(), Error> {
        self.do_no_ret(async_, loop_)
    }
    async fn ctx(&self, field_name: String, arg_opt: Option<String>, _request_context_: RequestContext<'_>) -> Result<Option<String>, Error> {
        self.do_ctx(field_name, arg_opt)
    }
    async fn safe_body(&self, safe_body_arg: i32) -> Result<i32, Error> {
        self.do_safe_body(safe_body_arg)
    }
    async fn dbl_ret(&self, x: f64, weird: Option<String>) -> Result<Doubles, Error> {
        self.do_dbl_ret(x, weird)
    }
    async fn list_alias_ret(&self, n: i32) -> Result<ListAlias, Error> {
        self.do_list_alias_ret(n)
    }
    async fn opt_alias_ret(&self, n: i32) -> Result<OptStrAlias, Error> {
        self.do_opt_alias_ret(n)
    }
    async fn map_alias_ret(&self, n: i32) -> Result<MapAlias, Error> {
        self.do_map_alias_ret(n)
    }
}

/// an argument as the generated `#[conjure_endpoints]` trait declares it
#[derive(Clone, Debug)]
pub struct ArgDesc {
    pub kind: String,
    pub dec: String,
    pub ty: String,
    /// path parameter name / query key / lower-case header name / cookie prefix
    pub name: String,
    pub log_as: String,
    pub ident: String,
    pub safe: bool,
    /// the declared name in the IR (None for auth / context)
    pub declared: Option<String>,
}

#[derive(Clone, Debug)]
pub struct EpDesc {
    pub name: String,
    pub method: String,
    pub http_method: String,
    pub template: String,
    pub produces: String,
    pub args: Vec<ArgDesc>,
}

fn attr_val(attr: &str, key: &str) -> Option<String> {
    // `key="value"` inside a whitespace-free attribute text
    let pat = format!("{}=\"", key);
    let i = attr.find(&pat)? + pat.len();
    let j = attr[i..].find('"')? + i;
    Some(attr[i..j].to_string())
}

/// PLAIN type class of a Rust type spelling, resolving the aliases of verif.json
fn pty(ty: &str, ir: &serde_json::Value) -> String {
    let mut t = ty.to_string();
    loop {
        let stripped = ["Option<", "Vec<", "std::collections::BTreeSet<"].iter().find_map(|p| t.strip_prefix(p).map(|r| r.trim_end_matches('>').to_string()));
        match stripped {
            Some(s) => t = s,
            None => break,
        }
    }
    let by_prim = |p: &str| -> String {
        match p {
            "STRING" => "str",
            "INTEGER" => "int",
            "BOOLEAN" => "bool",
            "UUID" => "uuid",
            "RID" => "rid",
            "BEARERTOKEN" => "token",
            "SAFELONG" => "safelong",
            "DATETIME" => "datetime",
            "DOUBLE" => "double",
            _ => "none",
        }
        .to_string()
    };
    fn resolve(name: &str, ir: &serde_json::Value) -> Option<serde_json::Value> {
        for t in ir["types"].as_array()? {
            let k = t["type"].as_str()?;
            if t[k]["typeName"]["name"].as_str()? == name {
                return Some(t.clone());
            }
        }
        None
    }
    fn of_type(t: &serde_json::Value, ir: &serde_json::Value, by_prim: &dyn Fn(&str) -> String) -> String {
        match t["type"].as_str().unwrap_or("") {
            "primitive" => by_prim(t["primitive"].as_str().unwrap_or("")),
            "optional" => of_type(&t["optional"]["itemType"], ir, by_prim),
            "list" => of_type(&t["list"]["itemType"], ir, by_prim),
            "set" => of_type(&t["set"]["itemType"], ir, by_prim),
            "reference" => match resolve(t["reference"]["name"].as_str().unwrap_or(""), ir) {
                Some(d) => match d["type"].as_str().unwrap_or("") {
                    "alias" => of_type(&d["alias"]["alias"], ir, by_prim),
                    "enum" => "enum".to_string(),
                    _ => "none".to_string(),
                },
                None => "none".to_string(),
            },
            _ => "none".to_string(),
        }
    }
    match t.as_str() {
        "String" => "str".into(),
        "i32" => "int".into(),
        "bool" => "bool".into(),
        "f64" => "double".into(),
        "conjure_object::ResourceIdentifier" => "rid".into(),
        "conjure_object::SafeLong" => "safelong".into(),
        "conjure_object::BearerToken" => "token".into(),
        "conjure_object::Uuid" => "uuid".into(),
        "conjure_object::DateTime<conjure_object::Utc>" | "conjure_object::DateTime<conjure_object::Utc" => "datetime".into(),
        other => match other.strip_prefix("super::") {
            Some(n) => of_type(&serde_json::json!({"type": "reference", "reference": {"name": n}}), ir, &by_prim),
            None => "none".into(),
        },
    }
}

/// descriptors of the blocking trait (the async trait is generated from the same definitions)
pub fn descriptors() -> Vec<EpDesc> {
    let ir: serde_json::Value = serde_json::from_str(verifgen::IR_SRC).unwrap();
    let mut tree = BTreeMap::new();
    tree.insert("verif_service.rs".to_string(), verifgen::SERVICE_SRC.to_string());
    let eps = irgen::endpoints(&tree).expect("generated service parses");
    let ir_eps = ir["services"][0]["endpoints"].as_array().unwrap().clone();
    let mut out = vec![];
    for e in eps.iter().filter(|e| e.trait_name == "VerifService") {
        let name = attr_val(&e.attr, "name").unwrap_or_default();
        let ir_ep = ir_eps.iter().find(|x| x["endpointName"] == name.as_str()).cloned().unwrap_or_default();
        let ir_args: Vec<String> = ir_ep["args"].as_array().map(|a| a.iter().map(|x| x["argName"].as_str().unwrap_or("").to_string()).collect()).unwrap_or_default();
        let mut k = 0usize;
        let mut args = vec![];
        for a in &e.args {
            let kind = if a.kind == "auth" && a.attr.contains("cookie_name") { "cookie".to_string() } else { a.kind.clone() };
            let dec = match kind.as_str() {
                "body" => {
                    if a.attr.contains("OptionalRequestDeserializer") {
                        "optional"
                    } else if a.attr.contains("BinaryRequestDeserializer") {
                        "binary"
                    } else {
                        "std"
                    }
                }
                "path" | "query" | "header" => {
                    if a.attr.contains("OptionDecoder") {
                        "opt"
                    } else if a.attr.contains("SeqDecoder") {
                        "seq"
                    } else {
                        "one"
                    }
                }
                _ => "one",
            }
            .to_string();
            let name_attr = attr_val(&a.attr, "name");
            let pname = match kind.as_str() {
                "path" => name_attr.clone().unwrap_or_else(|| a.ident.clone()),
                "query" => name_attr.clone().unwrap_or_default(),
                "header" => name_attr.clone().unwrap_or_default().to_ascii_lowercase(),
                "cookie" => format!("{}=", attr_val(&a.attr, "cookie_name").unwrap_or_default()),
                _ => String::new(),
            };
            let declared = if matches!(kind.as_str(), "path" | "query" | "header" | "body") {
                let d = ir_args.get(k).cloned();
                k += 1;
                d
            } else {
                None
            };
            args.push(ArgDesc {
                ty: if kind == "body" || kind == "auth" || kind == "cookie" || kind == "context" { "none".into() } else { pty(&a.ty, &ir) },
                kind,
                dec,
                name: pname,
                log_as: attr_val(&a.attr, "log_as").unwrap_or_else(|| a.ident.clone()),
                ident: a.ident.clone(),
                safe: a.safe,
                declared,
            });
        }
        out.push(EpDesc {
            name,
            method: e.method.clone(),
            http_method: e.attr.split("method=").nth(1).and_then(|s| s.split(',').next()).unwrap_or("").to_string(),
            template: attr_val(&e.attr, "path").unwrap_or_default(),
            produces: e.attr.split("produces=").nth(1).map(|s| s.trim_end_matches(")]").to_string()).unwrap_or_default(),
            args,
        });
    }
    out
}

impl EpDesc {
    /// the `(args,…)` S-expression of the model's line protocol
    pub fn spec(&self) -> String {
        let h = |s: &str| hex(s.as_bytes());
        format!(
            "(args{})",
            self.args
                .iter()
                .map(|a| format!(",(a,{},{},{},{},{},{},{})", a.kind, a.dec, a.ty, h(&a.name), h(&a.log_as), h(&a.ident), a.safe as u8))
                .collect::<String>()
        )
    }
}

/// a raw request as it reaches an endpoint after routing
#[derive(Clone, Debug, Default)]
pub struct RawReq {
    pub path_params: Vec<(String, String)>,
    /// path and optional `?query`, as an origin-form request target
    pub target: String,
    pub headers: Vec<(String, Vec<u8>)>,
    pub body: Vec<Vec<u8>>,
}

#[derive(Clone, Debug)]
pub struct ErrInfo {
    pub code: String,
    pub cause_safe: bool,
    pub cause: String,
    pub safe_params: Vec<(String, String)>,
    pub unsafe_params: Vec<(String, String)>,
    pub kind: String,
}

#[derive(Clone, Debug)]
pub struct RespInfo {
    pub status: u16,
    pub content_type: Option<Vec<u8>>,
    /// "empty" | "fixed" | "streaming"
    pub body_kind: String,
    pub body: Vec<u8>,
}

#[derive(Clone, Debug)]
pub struct Observed {
    pub result: Result<RespInfo, ErrInfo>,
    /// response-extension SafeParams, sorted by key; values as JSON text
    pub safe_params: Vec<(String, String)>,
    pub calls: Vec<String>,
}

fn err_info(e: &Error) -> ErrInfo {
    let (kind, code) = match e.kind() {
        ErrorKind::Service(s) => ("service".to_string(), format!("{:?}", s.error_code())),
        ErrorKind::Throttle(_) => ("throttle".to_string(), String::new()),
        ErrorKind::Unavailable(_) => ("unavailable".to_string(), String::new()),
        _ => ("other".to_string(), String::new()),
    };
    let params = |p: conjure_error::Params<'_>| {
        let mut v: Vec<(String, String)> = p.iter().map(|(k, v)| (k.to_string(), serde_json::to_string(v).unwrap_or_default())).collect();
        v.sort();
        v
    };
    let code = match code.as_str() {
        "InvalidArgument" => "INVALID_ARGUMENT".to_string(),
        "PermissionDenied" => "PERMISSION_DENIED".to_string(),
        other => other.to_string(),
    };
    ErrInfo { code, cause_safe: e.cause_safe(), cause: e.cause().to_string(), safe_params: params(e.safe_params()), unsafe_params: params(e.unsafe_params()), kind }
}

fn build_request(req: &RawReq) -> Result<Request<RemoteBody>, String> {
    let mut r = Request::new(RemoteBody(req.body.clone()));
    *r.uri_mut() = req.target.parse().map_err(|e| format!("bad request target {:?}: {}", req.target, e))?;
    for (k, v) in &req.headers {
        let name = HeaderName::from_bytes(k.as_bytes()).map_err(|e| format!("bad header name {:?}: {}", k, e))?;
        let val = HeaderValue::from_bytes(v).map_err(|e| format!("bad header value: {}", e))?;
        r.headers_mut().append(name, val);
    }
    let mut pp = PathParams::new();
    for (k, v) in &req.path_params {
        pp.insert(k.clone(), v.clone());
    }
    r.extensions_mut().insert(pp);
    Ok(r)
}

fn safe_params_of(ext: &mut Extensions) -> Vec<(String, String)> {
    let sp = ext.remove::<SafeParams>().unwrap_or_default();
    let mut v: Vec<(String, String)> = sp.iter().map(|(k, v)| (k.to_string(), serde_json::to_string(v).unwrap_or_default())).collect();
    v.sort();
    v
}

/// drives one request through the blocking endpoint `name`
pub fn call_sync(name: &str, req: &RawReq, ret: &Ret) -> Result<Observed, String> {
    let handler = Handler::default();
    *handler.ret.lock().unwrap() = ret.clone();
    let svc = VerifServiceEndpoints::new(handler.clone());
    let rt = Arc::new(ConjureRuntime::new());
    let ep = Service::<RemoteBody, Vec<u8>>::endpoints(&svc, &rt).into_iter().find(|e| e.name() == name).ok_or_else(|| format!("no endpoint {}", name))?;
    let request = build_request(req)?;
    let mut ext = Extensions::new();
    let result = match Endpoint::handle(&*ep, request, &mut ext) {
        Ok(resp) => {
            let status = resp.status().as_u16();
            let ct = resp.headers().get(http::header::CONTENT_TYPE).map(|v| v.as_bytes().to_vec());
            let (kind, body) = match resp.into_body() {
                ResponseBody::Empty => ("empty", vec![]),
                ResponseBody::Fixed(b) => ("fixed", b.to_vec()),
                ResponseBody::Streaming(w) => {
                    let mut buf = vec![];
                    w.write_body(&mut buf).map_err(|e| format!("write_body failed: {:?}", e))?;
                    ("streaming", buf)
                }
            };
            Ok(RespInfo { status, content_type: ct, body_kind: kind.to_string(), body })
        }
        Err(e) => Err(err_info(&e)),
    };
    Ok(Observed { result, safe_params: safe_params_of(&mut ext), calls: handler.calls() })
}

/// drives one request through the async endpoint `name`
pub fn call_async(name: &str, req: &RawReq, ret: &Ret) -> Result<Observed, String> {
    let handler = Handler::default();
    *handler.ret.lock().unwrap() = ret.clone();
    let svc = AsyncVerifServiceEndpoints::new(handler.clone());
    let rt = Arc::new(ConjureRuntime::new());
    let ep = AsyncService::<RemoteBody, Vec<u8>>::endpoints(&svc, &rt).into_iter().find(|e| e.name() == name).ok_or_else(|| format!("no endpoint {}", name))?;
    let request = build_request(req)?;
    let mut ext = Extensions::new();
    let result = futures::executor::block_on(async {
        match AsyncEndpoint::handle(&ep, request, &mut ext).await {
            Ok(resp) => {
                let status = resp.status().as_u16();
                let ct = resp.headers().get(http::header::CONTENT_TYPE).map(|v| v.as_bytes().to_vec());
                let (kind, body) = match resp.into_body() {
                    AsyncResponseBody::Empty => ("empty", vec![]),
                    AsyncResponseBody::Fixed(b) => ("fixed", b.to_vec()),
                    AsyncResponseBody::Streaming(w) => {
                        let mut buf = vec![];
                        w.write_body(Pin::new(&mut buf)).await.map_err(|e| format!("write_body failed: {:?}", e))?;
                        ("streaming", buf)
                    }
                };
                Ok::<_, String>(Ok(RespInfo { status, content_type: ct, body_kind: kind.to_string(), body }))
            }
            Err(e) => Ok(Err(err_info(&e))),
        }
    })?;
    Ok(Observed { result, safe_params: safe_params_of(&mut ext), calls: handler.calls() })
}
