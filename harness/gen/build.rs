// Runs the real generator (from /repo's working tree) over the fixed IR corpus in three
// configurations and emits a registry of the generated type names.
use std::env;
use std::fs;
use std::path::PathBuf;

fn main() {
    let out = PathBuf::from(env::var_os("OUT_DIR").unwrap());
    println!("cargo:rerun-if-changed=ir/verif.json");
    println!("cargo:rerun-if-changed=build.rs");
    let prefix = "com.palantir.verif".to_string();
    for (dir, exhaustive, empties) in [("plain", false, false), ("exhaustive", true, false), ("empties", false, true)] {
        let o = out.join(dir);
        let _ = fs::remove_dir_all(&o);
        conjure_codegen::Config::new()
            .strip_prefix(prefix.clone())
            .exhaustive(exhaustive)
            .serialize_empty_collections(empties)
            .generate_files("ir/verif.json", &o)
            .unwrap();
    }
    // the repository's own test IR, for services
    let test_ir = "/repo/conjure-test/test-ir.json";
    println!("cargo:rerun-if-changed={}", test_ir);
    let o = out.join("testir");
    let _ = fs::remove_dir_all(&o);
    conjure_codegen::Config::new().strip_prefix("com.palantir.conjure".to_string()).generate_files(test_ir, &o).unwrap();

    let ir: serde_json::Value = serde_json::from_str(&fs::read_to_string("ir/verif.json").unwrap()).unwrap();
    let mut reg = String::from("macro_rules! for_each_type { ($m:ident) => { $m! { ");
    for t in ir["types"].as_array().unwrap() {
        let kind = t["type"].as_str().unwrap();
        let name = t[kind]["typeName"]["name"].as_str().unwrap();
        reg.push_str(&format!("({}, {}), ", kind, name));
    }
    reg.push_str("} } }\n");
    fs::write(out.join("registry.rs"), reg).unwrap();
}
