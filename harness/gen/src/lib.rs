//! Generated Conjure types (by /repo's generator, at build time) and a by-name registry over them.
#![allow(dead_code, unused_imports, clippy::all)]
use serde::de::DeserializeOwned;
use serde::Serialize;
use std::collections::hash_map::DefaultHasher;
use std::collections::{BTreeSet, HashSet};
use std::fmt::Debug;
use std::hash::{Hash, Hasher};

pub mod plain {
    include!(concat!(env!("OUT_DIR"), "/plain/mod.rs"));
}
pub mod exhaustive {
    include!(concat!(env!("OUT_DIR"), "/exhaustive/mod.rs"));
}
pub mod empties {
    include!(concat!(env!("OUT_DIR"), "/empties/mod.rs"));
}
pub mod testir {
    include!(concat!(env!("OUT_DIR"), "/testir/mod.rs"));
}

include!(concat!(env!("OUT_DIR"), "/registry.rs"));

/// the generated service module, as text, for descriptor extraction
pub const SERVICE_SRC: &str = include_str!(concat!(env!("OUT_DIR"), "/plain/verif_service.rs"));
/// the IR the generated code was produced from
pub const IR_SRC: &str = include_str!("../ir/verif.json");

/// records every word written to the hasher: equal sequences mean equal hashes for *any* Hasher
#[derive(Default)]
pub struct Recorder(pub Vec<u8>);
impl Hasher for Recorder {
    fn finish(&self) -> u64 {
        0
    }
    fn write(&mut self, bytes: &[u8]) {
        self.0.push(0xfe);
        self.0.extend_from_slice(bytes);
    }
}

#[derive(Debug, Clone, PartialEq)]
pub struct Laws {
    pub eq: [[bool; 3]; 3],
    pub cmp: [[i8; 3]; 3],
    pub partial_is_cmp: bool,
    pub lt_le_consistent: bool,
    pub hash_eq: [[bool; 3]; 3],
    pub btree_finds: bool,
    pub hashset_finds: bool,
}

pub fn de<T: DeserializeOwned>(server: bool, doc: &[u8]) -> Result<T, String> {
    if server {
        conjure_serde::json::server_from_slice(doc).map_err(|e| e.to_string())
    } else {
        conjure_serde::json::client_from_slice(doc).map_err(|e| e.to_string())
    }
}

pub fn de_ser<T: DeserializeOwned + Serialize>(server: bool, doc: &[u8]) -> Result<String, String> {
    let v: T = de(server, doc)?;
    conjure_serde::json::to_string(&v).map_err(|e| format!("re-serialization failed: {}", e))
}

/// a value read from `doc`, written with the JSON and the Smile serializer and read back through every entry point of
/// both sides: each must give back an equal value
pub fn round<T: DeserializeOwned + Serialize + PartialEq + Debug>(doc: &[u8]) -> Result<(), String> {
    let v: T = conjure_serde::json::client_from_slice(doc).map_err(|e| format!("the document itself is rejected: {}", e))?;
    let j = conjure_serde::json::to_vec(&v).map_err(|e| format!("json::to_vec failed: {}", e))?;
    let js = String::from_utf8(j.clone()).map_err(|e| e.to_string())?;
    let s = conjure_serde::smile::to_vec(&v).map_err(|e| format!("smile::to_vec failed: {}", e))?;
    let mut s1 = s.clone();
    let mut s2 = s.clone();
    let reads: Vec<(&str, Result<T, String>)> = vec![
        ("json::client_from_slice", conjure_serde::json::client_from_slice(&j).map_err(|e| e.to_string())),
        ("json::client_from_str", conjure_serde::json::client_from_str(&js).map_err(|e| e.to_string())),
        ("json::client_from_reader", conjure_serde::json::client_from_reader(&j[..]).map_err(|e| e.to_string())),
        ("json::server_from_slice", conjure_serde::json::server_from_slice(&j).map_err(|e| e.to_string())),
        ("json::server_from_str", conjure_serde::json::server_from_str(&js).map_err(|e| e.to_string())),
        ("json::server_from_reader", conjure_serde::json::server_from_reader(&j[..]).map_err(|e| e.to_string())),
        ("smile::client_from_slice", conjure_serde::smile::client_from_slice(&s).map_err(|e| e.to_string())),
        ("smile::client_from_mut_slice", conjure_serde::smile::client_from_mut_slice(&mut s1).map_err(|e| e.to_string())),
        ("smile::client_from_reader", conjure_serde::smile::client_from_reader(std::io::BufReader::new(&s[..])).map_err(|e| e.to_string())),
        ("smile::server_from_slice", conjure_serde::smile::server_from_slice(&s).map_err(|e| e.to_string())),
        ("smile::server_from_mut_slice", conjure_serde::smile::server_from_mut_slice(&mut s2).map_err(|e| e.to_string())),
        ("smile::server_from_reader", conjure_serde::smile::server_from_reader(std::io::BufReader::new(&s[..])).map_err(|e| e.to_string())),
    ];
    for (how, r) in reads {
        match r {
            Err(e) => return Err(format!("{} rejects what the serializer wrote ({}): {}", how, if how.starts_with("json") { js.clone() } else { format!("{} Smile bytes", s.len()) }, e)),
            // equal as Conjure values: the same document again (an `any` holding 7 may come back as another integer
            // representation of 7; derived equality on `Any` would tell those apart)
            Ok(w) if w != v && conjure_serde::json::to_string(&w).ok() != Some(js.clone()) => return Err(format!("{} reads back {:?}, written from {:?}", how, w, v)),
            Ok(_) => {}
        }
    }
    Ok(())
}

pub fn laws<T: DeserializeOwned + Clone + Ord + Hash + Debug>(docs: [&[u8]; 3]) -> Result<Laws, String> {
    let vs: Vec<T> = docs.iter().map(|d| de::<T>(false, d)).collect::<Result<_, _>>()?;
    let mut l = Laws { eq: [[false; 3]; 3], cmp: [[0; 3]; 3], partial_is_cmp: true, lt_le_consistent: true, hash_eq: [[false; 3]; 3], btree_finds: true, hashset_finds: true };
    let words = |v: &T| {
        let mut r = Recorder::default();
        v.hash(&mut r);
        r.0
    };
    for i in 0..3 {
        for j in 0..3 {
            l.eq[i][j] = vs[i] == vs[j];
            l.cmp[i][j] = vs[i].cmp(&vs[j]) as i8;
            if vs[i].partial_cmp(&vs[j]) != Some(vs[i].cmp(&vs[j])) {
                l.partial_is_cmp = false;
            }
            let c = vs[i].cmp(&vs[j]);
            if (vs[i] < vs[j]) != (c == std::cmp::Ordering::Less) || (vs[i] <= vs[j]) != (c != std::cmp::Ordering::Greater) {
                l.lt_le_consistent = false;
            }
            l.hash_eq[i][j] = words(&vs[i]) == words(&vs[j]);
        }
    }
    let bs: BTreeSet<T> = vs.iter().cloned().collect();
    let hs: HashSet<T> = vs.iter().cloned().collect();
    for v in &vs {
        if !bs.contains(v) {
            l.btree_finds = false;
        }
        if !hs.contains(v) {
            l.hashset_finds = false;
        }
    }
    Ok(l)
}

/// inserts every document's value into a BTreeSet and a HashSet; reports (btree len, hashset len, every value
/// found in the btree set, every value found in the hash set, deserializing twice gives equal values)
pub fn set_probe<T: DeserializeOwned + Clone + Ord + Hash + Debug>(docs: &[&[u8]]) -> Result<(usize, usize, bool, bool, bool), String> {
    let vs: Vec<T> = docs.iter().map(|d| de::<T>(false, d)).collect::<Result<_, _>>()?;
    let again: Vec<T> = docs.iter().map(|d| de::<T>(false, d)).collect::<Result<_, _>>()?;
    let mut bs: BTreeSet<T> = BTreeSet::new();
    let mut hs: HashSet<T> = HashSet::new();
    for v in &vs {
        bs.insert(v.clone());
        hs.insert(v.clone());
    }
    let twice = vs.iter().zip(again.iter()).all(|(a, b)| a == b && a.cmp(b) == std::cmp::Ordering::Equal);
    Ok((bs.len(), hs.len(), again.iter().all(|v| bs.contains(v)), again.iter().all(|v| hs.contains(v)), twice))
}

pub struct Entry {
    pub kind: &'static str,
    pub name: &'static str,
    /// (configuration, server?, document) -> canonical re-serialization
    pub de_ser: fn(&str, bool, &[u8]) -> Result<String, String>,
    pub laws: fn([&[u8]; 3]) -> Result<Laws, String>,
    pub set_probe: fn(&[&[u8]]) -> Result<(usize, usize, bool, bool, bool), String>,
    /// (configuration, document) -> round trip through both serializers and all twelve entry points
    pub round: fn(&str, &[u8]) -> Result<(), String>,
}

macro_rules! make_registry {
    ($(($kind:ident, $name:ident),)*) => {
        pub fn registry() -> Vec<Entry> {
            vec![$(
                Entry {
                    kind: stringify!($kind),
                    name: stringify!($name),
                    de_ser: |cfg, server, doc| match cfg {
                        "exhaustive" => de_ser::<exhaustive::$name>(server, doc),
                        "empties" => de_ser::<empties::$name>(server, doc),
                        _ => de_ser::<plain::$name>(server, doc),
                    },
                    laws: |docs| laws::<plain::$name>(docs),
                    set_probe: |docs| set_probe::<plain::$name>(docs),
                    round: |cfg, doc| match cfg {
                        "exhaustive" => round::<exhaustive::$name>(doc),
                        "empties" => round::<empties::$name>(doc),
                        _ => round::<plain::$name>(doc),
                    },
                },
            )*]
        }
    };
}
for_each_type!(make_registry);
