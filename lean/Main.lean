import ConjureVerif.Model.SafeLong
import ConjureVerif.Model.Uri
import ConjureVerif.Model.Token
import ConjureVerif.Model.Rid
import ConjureVerif.Model.Plain
import ConjureVerif.Model.Negotiate
import ConjureVerif.Model.Body
import ConjureVerif.Model.LogSafety
import ConjureVerif.Model.WrapIO
import ConjureVerif.Model.AnyIO
import ConjureVerif.Model.ErrorM
import ConjureVerif.Model.EnumUnion
import ConjureVerif.Model.DoubleOps
import ConjureVerif.Model.Endpoint
import ConjureVerif.Model.Call
import ConjureVerif.Model.Idents
import ConjureVerif.Model.Wire
import ConjureVerif.Model.GenOrder
import ConjureVerif.Model.Emit
import ConjureVerif.Model.MacroEmit
import ConjureVerif.Model.TypePath
import ConjureVerif.Model.Boxing
import ConjureVerif.Model.RustType
/-
Line-protocol driver.  One operation per input line: `<property> <op> <args…>`; one output line per
operation.  Imports models only (no Mathlib, no proofs), so it links as a native executable.
-/
open ConjureVerif

def dispatch (line : String) : String :=
  match line.trimAscii.toString.splitOn " " with
  | [_, "noop"] => "noop"      -- an oracle-only case: nothing for the model to say
  | "C15" :: rest => SafeLong.handle rest
  | "C07" :: "macro" :: rest => MacroEmit.handle Gen.Uri.componentMacros ("macro" :: rest)
  | "C04" :: "macro" :: rest => MacroEmit.handle Gen.Uri.componentMacros ("macro" :: rest)
  | "C07" :: "emit" :: rest => Emit.handle Gen.Keywords.escaped ("emit" :: rest)
  | "C07" :: rest => Uri.handle rest
  | "C01" :: rest => WrapIO.handle rest
  | "C05" :: "canon" :: rest => Wire.handle ("canon" :: rest)
  | "C05" :: rest => WrapIO.handle rest
  | "C13" :: rest => AnyIO.handle rest
  | "C10" :: rest => EnumUnion.handle rest
  | "C14" :: rest => DoubleOps.handle rest
  | "C02" :: rest => Wire.handle rest
  | "C03" :: "typepath" :: rest => TypePath.handle ("typepath" :: rest)
  | "C03" :: "boxing" :: rest => Boxing.handle ("boxing" :: rest)
  | "C03" :: "rusttype" :: rest => RustType.handle ("rusttype" :: rest)
  | "C03" :: "builder" :: rest => RustType.handle ("builder" :: rest)
  | "C03" :: rest => Idents.handle rest
  | "C04" :: "emit" :: rest => Emit.handle Gen.Keywords.escaped ("emit" :: rest)
  | "C04" :: rest => Call.handle rest
  | "C20" :: rest => GenOrder.handle rest
  | "C19" :: "emit" :: rest => Emit.handle Gen.Keywords.escaped ("emit" :: rest)
  | "C19" :: rest => Endpoint.handle rest
  | "C09" :: rest => Endpoint.handle rest
  | "C17" :: rest => ErrorM.handle rest
  | "C06" :: "emit" :: rest => Emit.handle Gen.Keywords.escaped ("emit" :: rest)
  | "C06" :: rest => Body.handle rest
  | "C18" :: "emit" :: rest => Emit.handle Gen.Keywords.escaped ("emit" :: rest)
  | "C18" :: rest => Body.handle rest
  | "C08" :: rest => LogSafety.handle rest
  | "C11" :: rest => Negotiate.handle rest
  | "C12" :: rest => Plain.handle rest
  | "C16" :: "token" :: rest => Token.handle ("token" :: rest)
  | "C16" :: rest => Rid.handle rest
  | _ => "bad-op"

partial def loop (i o : IO.FS.Stream) : IO Unit := do
  let line ← i.getLine
  if line.isEmpty then return ()
  o.putStrLn (dispatch line)
  loop i o

def main : IO Unit := do
  let i ← IO.getStdin
  let o ← IO.getStdout
  loop i o
  o.flush
