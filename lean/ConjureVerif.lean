-- root of the library: every property module (each imports its models, generated tables and lemmas)
import ConjureVerif.Props.C01
import ConjureVerif.Props.C04
import ConjureVerif.Props.C05
import ConjureVerif.Props.C06
import ConjureVerif.Props.C07
import ConjureVerif.Props.C08
import ConjureVerif.Props.C09
import ConjureVerif.Props.C10
import ConjureVerif.Props.C11
import ConjureVerif.Props.C12
import ConjureVerif.Props.C13
import ConjureVerif.Props.C14
import ConjureVerif.Props.C15
import ConjureVerif.Props.C16
import ConjureVerif.Props.C17
import ConjureVerif.Props.C18
import ConjureVerif.Props.C19
