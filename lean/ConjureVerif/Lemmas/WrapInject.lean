import ConjureVerif.Lemmas.WrapRoundTrip
set_option linter.unusedSimpArgs false
namespace ConjureVerif.Wrap
open ConjureVerif.Data

theorem fieldIndex_none : ∀ (fs : Fields) (n : List Nat) (i0 : Nat), n ∉ fs.names → fieldIndex fs n i0 = none
  | .nil, _, _, _ => rfl
  | .cons m s fs, n, i0, h => by
    have hm : m ≠ n := fun e => h (by simp [Fields.names, e])
    have hr : n ∉ fs.names := fun e => h (by simp [Fields.names, e])
    simp only [fieldIndex, hm, if_false]; exact fieldIndex_none fs n _ hr

/-- `ms'` is `ms` with one extra member `k ↦ x` inserted at some position -/
inductive InsertM : Members → Members → List Nat → Doc → Prop
  | here (ms : Members) (k : List Nat) (x : Doc) : InsertM ms (.cons (.text k) x ms) k x
  | there (k0 : Key) (v0 : Doc) (ms ms' : Members) (k : List Nat) (x : Doc) :
      InsertM ms ms' k x → InsertM (.cons k0 v0 ms) (.cons k0 v0 ms') k x

mutual
  /-- `d'` is `d` with one extra member named `k` (holding any document) added to an object that the
      deserializer reads through `deserialize_struct` as a struct type not declaring `k` — at any depth
      below optionals, sequences, tuples, map values, newtypes, struct fields and variant payloads -/
  inductive Inject : Ty → Doc → Doc → List Nat → Prop
    | here (fs : Fields) (ms ms' : Members) (k : List Nat) (x : Doc) :
        k ∉ fs.names → InsertM ms ms' k x → Inject (.struct fs) (.obj ms) (.obj ms') k
    | option (t : Ty) (d d' : Doc) (k : List Nat) : Inject t d d' k → Inject (.option t) d d' k
    | newtype (t : Ty) (d d' : Doc) (k : List Nat) : Inject t d d' k → Inject (.newtype t) d d' k
    | seq (t : Ty) (xs xs' : Docs) (k : List Nat) : InjectL t xs xs' k → Inject (.seq t) (.arr xs) (.arr xs') k
    | tuple (ts : Tys) (xs xs' : Docs) (k : List Nat) : InjectT ts xs xs' k → Inject (.tuple ts) (.arr xs) (.arr xs') k
    | tupleStruct (ts : Tys) (xs xs' : Docs) (k : List Nat) :
        InjectT ts xs xs' k → Inject (.tupleStruct ts) (.arr xs) (.arr xs') k
    | mapValue (kt vt : Ty) (ms ms' : Members) (k : List Nat) :
        InjectMV vt ms ms' k → Inject (.map kt vt) (.obj ms) (.obj ms') k
    | structField (fs : Fields) (ms ms' : Members) (k : List Nat) :
        InjectF fs ms ms' k → Inject (.struct fs) (.obj ms) (.obj ms') k
    | variantPayload (vs : Variants) (s : List Nat) (i : Nat) (kind : VKind) (pty : Ty) (p p' : Doc) (k : List Nat) :
        vs.find? s 0 = some (i, kind, pty) → (kind = .newtype ∨ kind = .tuple) → Inject pty p p' k →
        Inject (.enum vs) (.obj (.cons (.text s) p .nil)) (.obj (.cons (.text s) p' .nil)) k
    | structVariantField (vs : Variants) (s : List Nat) (i : Nat) (fs : Fields) (ms ms' : Members) (k : List Nat) :
        vs.find? s 0 = some (i, .struct, .struct fs) → InjectF fs ms ms' k →
        Inject (.enum vs) (.obj (.cons (.text s) (.obj ms) .nil)) (.obj (.cons (.text s) (.obj ms') .nil)) k
  inductive InjectL : Ty → Docs → Docs → List Nat → Prop
    | here (t : Ty) (x x' : Doc) (xs : Docs) (k : List Nat) : Inject t x x' k → InjectL t (.cons x xs) (.cons x' xs) k
    | there (t : Ty) (x : Doc) (xs xs' : Docs) (k : List Nat) : InjectL t xs xs' k → InjectL t (.cons x xs) (.cons x xs') k
  inductive InjectT : Tys → Docs → Docs → List Nat → Prop
    | here (t : Ty) (ts : Tys) (x x' : Doc) (xs : Docs) (k : List Nat) :
        Inject t x x' k → InjectT (.cons t ts) (.cons x xs) (.cons x' xs) k
    | there (t : Ty) (ts : Tys) (x : Doc) (xs xs' : Docs) (k : List Nat) :
        InjectT ts xs xs' k → InjectT (.cons t ts) (.cons x xs) (.cons x xs') k
  inductive InjectMV : Ty → Members → Members → List Nat → Prop
    | here (vt : Ty) (key : Key) (x x' : Doc) (ms : Members) (k : List Nat) :
        Inject vt x x' k → InjectMV vt (.cons key x ms) (.cons key x' ms) k
    | there (vt : Ty) (key : Key) (x : Doc) (ms ms' : Members) (k : List Nat) :
        InjectMV vt ms ms' k → InjectMV vt (.cons key x ms) (.cons key x ms') k
  /-- inside the value of a declared field of `fs` -/
  inductive InjectF : Fields → Members → Members → List Nat → Prop
    | here (fs : Fields) (n : List Nat) (i : Nat) (t : Ty) (x x' : Doc) (ms : Members) (k : List Nat) :
        fieldIndex fs n 0 = some (i, t) → Inject t x x' k →
        InjectF fs (.cons (.text n) x ms) (.cons (.text n) x' ms) k
    | there (fs : Fields) (key : Key) (x : Doc) (ms ms' : Members) (k : List Nat) :
        InjectF fs ms ms' k → InjectF fs (.cons key x ms) (.cons key x ms') k
end

theorem Inject.not_null : ∀ {t : Ty} {d d' : Doc} {k : List Nat}, Inject t d d' k → d ≠ .null ∧ d' ≠ .null
  | _, _, _, _, .here .. => ⟨by simp, by simp⟩
  | _, _, _, _, .option _ _ _ _ h => h.not_null
  | _, _, _, _, .newtype _ _ _ _ h => h.not_null
  | _, _, _, _, .seq .. => ⟨by simp, by simp⟩
  | _, _, _, _, .tuple .. => ⟨by simp, by simp⟩
  | _, _, _, _, .tupleStruct .. => ⟨by simp, by simp⟩
  | _, _, _, _, .mapValue .. => ⟨by simp, by simp⟩
  | _, _, _, _, .structField .. => ⟨by simp, by simp⟩
  | _, _, _, _, .variantPayload .. => ⟨by simp, by simp⟩
  | _, _, _, _, .structVariantField .. => ⟨by simp, by simp⟩

/-! ### the struct reader on an object with one extra, undeclared member -/

/-- strict: the extra member is reported, by name, as soon as it is met -/
theorem deM_insert_strict (fmt : Fmt) (side : Side) (fs : Fields) (k : List Nat) (hk : k ∉ fs.names) :
    ∀ {ms ms' : Members} {x : Doc}, InsertM ms ms' k x → ∀ (acc r : List (Nat × Val)),
      deM fmt side true fs ms acc = .ok r → deM fmt side true fs ms' acc = .error (.unknownField k)
  | _, _, _, .here ms k x, acc, r, _ => by
    rw [deM, fieldIndex_none fs k 0 hk]; simp
  | _, _, _, .there k0 v0 ms ms' k x hi, acc, r, h => by
    cases k0 with
    | flt b => rw [deM] at h; cases h
    | text n =>
      rw [deM] at h ⊢
      cases hf : fieldIndex fs n 0 with
      | none => simp [hf] at h
      | some p =>
        obtain ⟨i, t⟩ := p
        simp only [hf] at h ⊢
        split at h
        · cases h
        · rename_i hdup
          simp only [hdup, if_false]
          cases hd : de fmt side t v0 with
          | error e => simp [hd] at h
          | ok v =>
            simp only [hd] at h ⊢
            exact deM_insert_strict fmt side fs k hk hi _ r h

/-- not strict: the extra member is skipped, whatever it holds -/
theorem deM_insert_lenient (fmt : Fmt) (side : Side) (fs : Fields) (k : List Nat) (hk : k ∉ fs.names) :
    ∀ {ms ms' : Members} {x : Doc}, InsertM ms ms' k x → ∀ (acc : List (Nat × Val)),
      deM fmt side false fs ms' acc = deM fmt side false fs ms acc
  | _, _, _, .here ms k x, acc => by
    rw [deM, fieldIndex_none fs k 0 hk]; simp
  | _, _, _, .there k0 v0 ms ms' k x hi, acc => by
    cases k0 with
    | flt b => rw [deM, deM]
    | text n =>
      rw [deM, deM]
      cases hf : fieldIndex fs n 0 with
      | none => simp only [Bool.false_eq_true, if_false]; exact deM_insert_lenient fmt side fs k hk hi acc
      | some p =>
        obtain ⟨i, t⟩ := p
        simp only
        split
        · rfl
        · cases hd : de fmt side t v0 with
          | error e => rfl
          | ok v => simp only; exact deM_insert_lenient fmt side fs k hk hi _

end ConjureVerif.Wrap
