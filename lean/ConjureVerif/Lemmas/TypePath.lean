import ConjureVerif.Model.TypePath
set_option linter.unusedSimpArgs false
namespace ConjureVerif.TypePath

theorem shared_le_left : ∀ (a b : List String), shared a b ≤ a.length
  | [], _ => by simp [shared]
  | _ :: _, [] => by simp [shared]
  | x :: xs, y :: ys => by
    have := shared_le_left xs ys
    simp only [shared]; split <;> simp <;> omega

theorem shared_take : ∀ (a b : List String), a.take (shared a b) = b.take (shared a b)
  | [], _ => by simp [shared]
  | _ :: _, [] => by simp [shared]
  | x :: xs, y :: ys => by
    simp only [shared]
    split
    · rename_i h; subst h; simp [shared_take xs ys]
    · simp

theorem resolve_names (cur : List String) : ∀ (ns : List String) (r : List PSeg),
    resolve cur (ns.map .name ++ r) = resolve (cur ++ ns) r
  | [], r => by simp
  | n :: ns, r => by
    simp only [List.map_cons, List.cons_append, resolve]
    rw [resolve_names (cur ++ [n]) ns r]; simp

theorem resolve_supers : ∀ (n : Nat) (cur : List String) (r : List PSeg), n ≤ cur.length →
    resolve cur (List.replicate n .super ++ r) = resolve (cur.take (cur.length - n)) r
  | 0, cur, r, _ => by simp
  | n + 1, cur, r, h => by
    have hne : cur.isEmpty = false := by cases cur <;> simp_all
    simp only [List.replicate_succ, List.cons_append, resolve, hne, Bool.false_eq_true, if_false]
    rw [resolve_supers n cur.dropLast r (by simp; omega)]
    congr 1
    rw [List.dropLast_eq_take, List.take_take]
    congr 1
    simp; omega

/-- **the path names the other type where its package re-exports it**: read from the referring type's own module
(`this ++ [m]`), it leads to the item `typeName` of the module `other` — for any two packages, any prefix
configuration, and whatever the modules are called -/
theorem typePath_resolves (this other : List String) (m typeName : String) :
    resolve (this ++ [m]) (typePath this other typeName) = some (other ++ [typeName]) := by
  have hk := shared_le_left this other
  have ht := shared_take this other
  unfold typePath
  simp only
  rw [show (PSeg.super :: List.replicate (this.length - shared this other) PSeg.super ++
      List.map PSeg.name (List.drop (shared this other) other) ++ [PSeg.name typeName]) =
      List.replicate (this.length - shared this other + 1) PSeg.super ++
        (List.map PSeg.name (List.drop (shared this other) other) ++ [PSeg.name typeName]) by
    simp [List.replicate_succ]]
  rw [resolve_supers _ _ _ (by simp), resolve_names]
  have : (this ++ [m]).take ((this ++ [m]).length - (this.length - shared this other + 1)) =
      this.take (shared this other) := by
    have : (this ++ [m]).length - (this.length - shared this other + 1) = shared this other := by simp; omega
    rw [this, List.take_append_of_le_length hk]
  rw [this, ht]
  simp [resolve, List.take_append_drop]

/-- it never climbs out of the generated tree: at most one `super` per module of the referring type's path, plus the
one out of its own module -/
theorem typePath_supers (this other : List String) (typeName : String) :
    ((typePath this other typeName).filter (· == .super)).length ≤ this.length + 1 := by
  unfold typePath
  have h2 : ∀ l : List String, ((l.map PSeg.name).filter (· == .super)) = [] := by
    intro l; rw [List.filter_eq_nil_iff]; intro a ha; simp only [List.mem_map] at ha
    obtain ⟨s, _, rfl⟩ := ha; simp
  have h3 : ∀ n : Nat, ((List.replicate n PSeg.super).filter (· == .super)).length = n := by
    intro n; induction n with
    | zero => rfl
    | succ n ih => rw [List.replicate_succ, List.filter_cons]; simp [ih]
  simp only [List.cons_append, List.filter_cons, List.filter_append, h2, h3, List.length_append, beq_self_eq_true,
    if_true, List.length_cons]
  simp

end ConjureVerif.TypePath
