import ConjureVerif.Model.Any
import ConjureVerif.Lemmas.WrapShape
set_option linter.unusedSimpArgs false
namespace ConjureVerif.AnyM
open ConjureVerif.Data ConjureVerif.Wrap

/-- a value whose `Any` is `null` also serializes to `null` (so an optional's payload, which never
    serializes to `null`, is never stored as `null`) -/
theorem ofVal_null : ∀ {t : Ty} {v : Val}, HasTy t v → ofVal t v = some .null → ∀ fmt, ser fmt t v = some .null
  | _, _, .bool _, h, _ => by simp [ofVal] at h
  | _, _, .int _ _ _, h, _ => by simp [ofVal] at h
  | _, _, .f64 _, h, _ => by simp [ofVal] at h
  | _, _, .f32 _, h, _ => by simp [ofVal] at h
  | _, _, .str _, h, _ => by simp [ofVal] at h
  | _, _, .bytes _ _, h, _ => by simp [ofVal] at h
  | _, _, .unit, _, _ => rfl
  | _, _, .uuid _ _ _, h, _ => by simp [ofVal] at h
  | _, _, .none _, _, _ => rfl
  | _, _, .some t v hv _, h, fmt => by simp only [ofVal] at h; simp only [ser]; exact ofVal_null hv h fmt
  | _, _, .seq _ _ _, h, _ => by simp [ofVal] at h
  | _, _, .tuple _ _ _, h, _ => by simp [ofVal] at h
  | _, _, .map _ _ _ _, h, _ => by simp [ofVal] at h
  | _, _, .unitStruct, _, _ => rfl
  | _, _, .newtype t v hv, h, fmt => by simp only [ofVal] at h; simp only [ser]; exact ofVal_null hv h fmt
  | _, _, .tupleStruct _ _ _, h, _ => by simp [ofVal] at h
  | _, _, .struct _ _ _ _, h, _ => by simp [ofVal] at h
  | _, _, .unitVariant vs i name pty hg _, h, _ => by simp [ofVal, hg] at h
  | _, _, .newtypeVariant vs i name pty p hg _ _, h, _ => by simp [ofVal, hg] at h
  | _, _, .tupleVariant vs i name ts ps hg _ _, h, _ => by simp [ofVal, hg] at h
  | _, _, .structVariant vs i name fs ps hg _ _ _, h, _ => by simp [ofVal, hg] at h

/-- keys: stored natively by `Any::new`, read back by `KeyDeserializer` -/
theorem toValKey_ofVal {kt : Ty} {k : Val} (h : KeyOk kt k) :
    ∃ a, ofVal kt k = some a ∧ toValKey kt a = .ok k ∧ anyKey a = serKey kt k := by
  induction h with
  | bool b => exact ⟨.bool b, rfl, by simp [toValKey], by cases b <;> rfl⟩
  | int w n hw => exact ⟨.int w n, rfl, by simp [toValKey, hw], rfl⟩
  | f64 d => exact ⟨.f64 d, rfl, by simp [toValKey, anyDbl], rfl⟩
  | f32 d => exact ⟨.f32 d, rfl, by simp [toValKey, anyDbl], rfl⟩
  | str s => exact ⟨.str s, rfl, rfl, rfl⟩
  | bytes bs hb => exact ⟨.bytes bs, rfl, by simp [toValKey, anyBytes], rfl⟩
  | uuid bs hl hb =>
    exact ⟨.str (Plain.uuidText bs), rfl, by simp [toValKey, C12.C12_roundtrip_uuid bs hl hb], rfl⟩
  | newtype t v _ ih =>
    obtain ⟨a, h1, h2, h3⟩ := ih
    exact ⟨a, by simp [ofVal, h1], by simp [toValKey, h2], by simp [serKey, h3]⟩
  | unitVariant vs i name pty hg hd =>
    exact ⟨.str name, by simp [ofVal, hg], by simp [toValKey, hd i name .unit pty hg], by simp [anyKey, serKey, hg]⟩

mutual
  /-- **lossless carrier**: `Any::new` then `deserialize_into` returns the original value -/
  theorem anyRt : ∀ {t : Ty} {v : Val}, HasTy t v → ∃ a, ofVal t v = some a ∧ toVal t a = .ok v
    | _, _, .bool b => ⟨.bool b, rfl, by simp [toVal]⟩
    | _, _, .int w n hw => ⟨.int w n, rfl, by simp [toVal, hw]⟩
    | _, _, .f64 d => ⟨.f64 d, rfl, by rw [toVal]; simp [anyDbl]⟩
    | _, _, .f32 d => ⟨.f32 d, rfl, by rw [toVal]; simp [anyDbl]⟩
    | _, _, .str s => ⟨.str s, rfl, by simp [toVal]⟩
    | _, _, .bytes bs _ => ⟨.bytes bs, rfl, by rw [toVal]; simp [anyBytes]⟩
    | _, _, .unit => ⟨.null, rfl, by simp [toVal]⟩
    | _, _, .uuid bs hl hb => ⟨.str (Plain.uuidText bs), rfl, by simp [toVal, C12.C12_roundtrip_uuid bs hl hb]⟩
    | _, _, .none t => ⟨.null, rfl, by simp [toVal]⟩
    | _, _, .some t v hv hn => by
      obtain ⟨a, h1, h2⟩ := anyRt hv
      refine ⟨a, by simp [ofVal, h1], ?_⟩
      have ha : a ≠ .null := fun e => hn .json (ofVal_null hv (by rw [h1, e]) .json)
      rw [toVal]
      · simp [h2]
      · intro x; exact ha x
    | _, _, .seq t vs hl => by
      obtain ⟨as, h1, h2⟩ := anyRtL hl
      exact ⟨.seq as, by simp [ofVal, h1], by rw [toVal]; simp [h2]⟩
    | _, _, .tuple ts vs ht => by
      obtain ⟨as, h1, h2⟩ := anyRtT ht
      exact ⟨.seq as, by simp [ofVal, h1], by rw [toVal]; simp [h2]⟩
    | _, _, .map kt vt es he => by
      obtain ⟨as, h1, h2⟩ := anyRtE he
      exact ⟨.map as, by simp [ofVal, h1], by rw [toVal]; simp [h2]⟩
    | _, _, .unitStruct => ⟨.null, rfl, by simp [toVal]⟩
    | _, _, .newtype t v hv => by
      obtain ⟨a, h1, h2⟩ := anyRt hv
      exact ⟨a, by simp [ofVal, h1], by rw [toVal]; simp [h2]⟩
    | _, _, .tupleStruct ts vs ht => by
      obtain ⟨as, h1, h2⟩ := anyRtT ht
      exact ⟨.seq as, by simp [ofVal, h1], by rw [toVal]; simp [h2]⟩
    | _, _, .struct fs vs hnd hf => by
      obtain ⟨es, h1, h2⟩ := anyRtM .nil hf (by simpa [Fields.append] using hnd) [] (by simp)
      refine ⟨.map es, by simp [ofVal, h1], ?_⟩
      rw [toVal]
      simp only [Fields.append] at h2
      rw [h2]
      simp only [List.nil_append, Fields.length]
      have := assemble_enumFrom fs vs 0 [] hf.sameLen (by simp)
      simp only [List.nil_append] at this
      simp [this]
    | _, _, .unitVariant vs i name pty hg hd => by
      refine ⟨.str name, by simp [ofVal, hg], ?_⟩
      rw [toVal]; simp [hd i name .unit pty hg]
    | _, _, .newtypeVariant vs i name pty p hg hd hp => by
      obtain ⟨a, h1, h2⟩ := anyRt hp
      refine ⟨.map (.cons (.str name) a .nil), by simp [ofVal, hg, h1], ?_⟩
      rw [toVal]; simp [hd i name .newtype pty hg, h2]
    | _, _, .tupleVariant vs i name ts ps hg hd ht => by
      obtain ⟨as, h1, h2⟩ := anyRtT ht
      refine ⟨.map (.cons (.str name) (.seq as) .nil), by simp [ofVal, hg, h1], ?_⟩
      have hde : toVal (.tuple ts) (.seq as) = .ok (.tuple ps) := by rw [toVal]; simp [h2]
      rw [toVal]; simp [hd i name .tuple (.tuple ts) hg, hde]
    | _, _, .structVariant vs i name fs ps hg hd hnd hf => by
      obtain ⟨es, h1, h2⟩ := anyRtM .nil hf (by simpa [Fields.append] using hnd) [] (by simp)
      refine ⟨.map (.cons (.str name) (.map es) .nil), by simp [ofVal, hg, h1], ?_⟩
      simp only [Fields.append] at h2
      have := assemble_enumFrom fs ps 0 [] hf.sameLen (by simp)
      simp only [List.nil_append] at this
      rw [toVal]
      simp [hd i name .struct (.struct fs) hg, h2, Fields.length, this]
  theorem anyRtL : ∀ {t : Ty} {vs : Vals}, HasTyL t vs → ∃ as, ofValL t vs = some as ∧ toValL t as = .ok vs
    | _, _, .nil t => ⟨.nil, rfl, by simp [toValL]⟩
    | _, _, .cons t v vs hv hl => by
      obtain ⟨a, h1, h2⟩ := anyRt hv
      obtain ⟨as, h3, h4⟩ := anyRtL hl
      exact ⟨.cons a as, by simp [ofValL, h1, h3], by rw [toValL]; simp [h2, h4]⟩
  theorem anyRtT : ∀ {ts : Tys} {vs : Vals}, HasTyT ts vs → ∃ as, ofValT ts vs = some as ∧ toValT ts as = .ok vs
    | _, _, .nil => ⟨.nil, rfl, by simp [toValT]⟩
    | _, _, .cons t ts v vs hv ht => by
      obtain ⟨a, h1, h2⟩ := anyRt hv
      obtain ⟨as, h3, h4⟩ := anyRtT ht
      exact ⟨.cons a as, by simp [ofValT, h1, h3], by rw [toValT]; simp [h2, h4]⟩
  theorem anyRtE : ∀ {kt vt : Ty} {es : Entries}, HasTyE kt vt es →
      ∃ as, ofValE kt vt es = some as ∧ toValE kt vt as = .ok es
    | _, _, _, .nil kt vt => ⟨.nil, rfl, by simp [toValE]⟩
    | _, _, _, .cons kt vt k v es hk hv he => by
      obtain ⟨ka, k1, k2, _⟩ := toValKey_ofVal hk
      obtain ⟨a, h1, h2⟩ := anyRt hv
      obtain ⟨as, h3, h4⟩ := anyRtE he
      exact ⟨.cons ka a as, by simp [ofValE, k1, h1, h3], by rw [toValE]; simp [k2, h2, h4]⟩
  theorem anyRtM : ∀ (pre : Fields) {fs : Fields} {vs : FVals},
      HasTyF fs vs → (pre.append fs).names.Nodup → ∀ (acc : List (Nat × Val)), (∀ p ∈ acc, p.1 < pre.length) →
      ∃ es, ofValF fs vs = some es ∧ toValM (pre.append fs) es acc = .ok (acc ++ enumFrom pre.length vs)
    | pre, _, _, .nil, _, acc, _ => ⟨.nil, rfl, by simp [toValM, enumFrom]⟩
    | pre, _, _, .cons n t fs v vs hv hf, hnd, acc, hacc => by
      obtain ⟨a, h1, h2⟩ := anyRt hv
      have hn : n ∉ pre.names := by
        rw [Fields.names_append] at hnd
        intro hm
        exact (List.nodup_append.mp hnd).2.2 n hm n (by simp [Fields.names]) rfl
      have hnd' : ((pre.snoc n t).append fs).names.Nodup := by rw [Fields.append_snoc]; exact hnd
      obtain ⟨es, h3, h4⟩ := anyRtM (pre.snoc n t) hf hnd' (acc ++ [(pre.length, v)]) (by
        intro p hp
        rw [Fields.length_snoc]
        rcases List.mem_append.mp hp with h | h
        · have := hacc p h; omega
        · simp at h; subst h; simp)
      refine ⟨.cons (.str n) a es, by simp [ofValF, h1, h3], ?_⟩
      rw [toValM]
      rw [fieldIndex_append pre n t fs 0 hn]
      simp only [Nat.zero_add, lookup_lt hacc, Option.isSome_none, Bool.false_eq_true, if_false, h2]
      rw [Fields.append_snoc, Fields.length_snoc] at h4
      rw [h4]
      simp [enumFrom]
end

mutual
  /-- **same document**: the JSON of `Any::new(v)` is the JSON of `v` -/
  theorem anyJson : ∀ {t : Ty} {v : Val}, HasTy t v → ∀ a, ofVal t v = some a → toJson a = ser .json t v
    | _, _, .bool b, a, h => by simp [ofVal] at h; subst h; rfl
    | _, _, .int w n _, a, h => by simp [ofVal] at h; subst h; rfl
    | _, _, .f64 d, a, h => by simp [ofVal] at h; subst h; rfl
    | _, _, .f32 d, a, h => by simp [ofVal] at h; subst h; rfl
    | _, _, .str s, a, h => by simp [ofVal] at h; subst h; rfl
    | _, _, .bytes bs _, a, h => by simp [ofVal] at h; subst h; rfl
    | _, _, .unit, a, h => by simp [ofVal] at h; subst h; rfl
    | _, _, .uuid bs _ _, a, h => by simp [ofVal] at h; subst h; rfl
    | _, _, .none t, a, h => by simp [ofVal] at h; subst h; rfl
    | _, _, .some t v hv _, a, h => by simp only [ofVal] at h; simp only [ser]; exact anyJson hv a h
    | _, _, .seq t vs hl, a, h => by
      simp only [ofVal, Option.map_eq_some_iff] at h
      obtain ⟨as, h1, rfl⟩ := h
      simp only [toJson, ser, anyJsonL hl as h1]
    | _, _, .tuple ts vs ht, a, h => by
      simp only [ofVal, Option.map_eq_some_iff] at h
      obtain ⟨as, h1, rfl⟩ := h
      simp only [toJson, ser, anyJsonT ht as h1]
    | _, _, .map kt vt es he, a, h => by
      simp only [ofVal, Option.map_eq_some_iff] at h
      obtain ⟨as, h1, rfl⟩ := h
      simp only [toJson, ser, anyJsonE he as h1]
    | _, _, .unitStruct, a, h => by simp [ofVal] at h; subst h; rfl
    | _, _, .newtype t v hv, a, h => by simp only [ofVal] at h; simp only [ser]; exact anyJson hv a h
    | _, _, .tupleStruct ts vs ht, a, h => by
      simp only [ofVal, Option.map_eq_some_iff] at h
      obtain ⟨as, h1, rfl⟩ := h
      simp only [toJson, ser, anyJsonT ht as h1]
    | _, _, .struct fs vs _ hf, a, h => by
      simp only [ofVal, Option.map_eq_some_iff] at h
      obtain ⟨as, h1, rfl⟩ := h
      simp only [toJson, ser, anyJsonF hf as h1]
    | _, _, .unitVariant vs i name pty hg _, a, h => by
      simp [ofVal, hg] at h; subst h; simp [toJson, ser, hg]
    | _, _, .newtypeVariant vs i name pty p hg _ hp, a, h => by
      simp only [ofVal, hg, Option.map_eq_some_iff] at h
      obtain ⟨x, h1, rfl⟩ := h
      simp [toJson, toJsonE, anyKey, ser, hg, anyJson hp x h1]
      cases ser .json pty p <;> rfl
    | _, _, .tupleVariant vs i name ts ps hg _ ht, a, h => by
      simp only [ofVal, hg, Option.map_eq_some_iff] at h
      obtain ⟨x, ⟨as, h1, rfl⟩, rfl⟩ := h
      simp [toJson, toJsonE, anyKey, ser, hg, anyJsonT ht as h1]
      cases serT .json ts ps <;> rfl
    | _, _, .structVariant vs i name fs ps hg _ _ hf, a, h => by
      simp only [ofVal, hg, Option.map_eq_some_iff] at h
      obtain ⟨x, ⟨as, h1, rfl⟩, rfl⟩ := h
      simp [toJson, toJsonE, anyKey, ser, hg, anyJsonF hf as h1]
      cases serF .json fs ps <;> rfl
  theorem anyJsonL : ∀ {t : Ty} {vs : Vals}, HasTyL t vs → ∀ as, ofValL t vs = some as → toJsonL as = serL .json t vs
    | _, _, .nil t, as, h => by simp [ofValL] at h; subst h; rfl
    | _, _, .cons t v vs hv hl, as, h => by
      simp only [ofValL] at h
      cases e1 : ofVal t v <;> cases e2 : ofValL t vs <;> simp [e1, e2] at h
      subst h
      simp only [toJsonL, serL, anyJson hv _ e1, anyJsonL hl _ e2]
      try rfl
  theorem anyJsonT : ∀ {ts : Tys} {vs : Vals}, HasTyT ts vs → ∀ as, ofValT ts vs = some as → toJsonL as = serT .json ts vs
    | _, _, .nil, as, h => by simp [ofValT] at h; subst h; rfl
    | _, _, .cons t ts v vs hv ht, as, h => by
      simp only [ofValT] at h
      cases e1 : ofVal t v <;> cases e2 : ofValT ts vs <;> simp [e1, e2] at h
      subst h
      simp only [toJsonL, serT, anyJson hv _ e1, anyJsonT ht _ e2]
      try rfl
  theorem anyJsonE : ∀ {kt vt : Ty} {es : Entries}, HasTyE kt vt es → ∀ as, ofValE kt vt es = some as →
      toJsonE as = serE .json kt vt es
    | _, _, _, .nil kt vt, as, h => by simp [ofValE] at h; subst h; rfl
    | _, _, _, .cons kt vt k v es hk hv he, as, h => by
      obtain ⟨ka, k1, _, k3⟩ := toValKey_ofVal hk
      simp only [ofValE, k1] at h
      cases e1 : ofVal vt v <;> cases e2 : ofValE kt vt es <;> simp [e1, e2] at h
      subst h
      simp only [toJsonE, serE, k3, anyJson hv _ e1, anyJsonE he _ e2]
      try rfl
  theorem anyJsonF : ∀ {fs : Fields} {vs : FVals}, HasTyF fs vs → ∀ as, ofValF fs vs = some as →
      toJsonE as = serF .json fs vs
    | _, _, .nil, as, h => by simp [ofValF] at h; subst h; rfl
    | _, _, .cons n t fs v vs hv hf, as, h => by
      simp only [ofValF] at h
      cases e1 : ofVal t v <;> cases e2 : ofValF fs vs <;> simp [e1, e2] at h
      subst h
      simp only [toJsonE, serF, anyKey, anyJson hv _ e1, anyJsonF hf _ e2]
      cases ser .json t v <;> cases serF .json fs vs <;> rfl
end

def membersHaveText (k : List Nat) : Members → Bool
  | .nil => false
  | .cons (.text k') _ ms => k' == k || membersHaveText k ms
  | .cons _ _ ms => membersHaveText k ms

mutual
  /-- no object of the document names a member twice -/
  def DistinctKeys : Doc → Prop
    | .arr xs => DistinctKeysL xs
    | .obj ms => DistinctKeysM ms
    | _ => True
  def DistinctKeysL : Docs → Prop
    | .nil => True
    | .cons x xs => DistinctKeys x ∧ DistinctKeysL xs
  def DistinctKeysM : Members → Prop
    | .nil => True
    | .cons (.text k) v ms => membersHaveText k ms = false ∧ DistinctKeys v ∧ DistinctKeysM ms
    | .cons _ v ms => DistinctKeys v ∧ DistinctKeysM ms
end

theorem entriesHaveStr_ofJsonM (k : List Nat) : ∀ (ms : Members) (as : AnyEntries), ofJsonM ms = some as →
    entriesHaveStr k as = membersHaveText k ms
  | .nil, as, h => by simp [ofJsonM] at h; subst h; rfl
  | .cons (.text k') v ms, as, h => by
    simp only [ofJsonM] at h
    cases e1 : ofJson v <;> cases e2 : ofJsonM ms <;> simp [e1, e2] at h
    rename_i a as'
    have ih := entriesHaveStr_ofJsonM k ms as' e2
    subst h
    simp only [membersHaveText]
    split
    · rename_i hh
      rw [ih]
      by_cases hk : k' = k
      · subst hk
        have := entriesHaveStr_ofJsonM k' ms as' e2
        rw [hh] at this
        simp [← this]
      · simp [hk]
    · simp [entriesHaveStr, ih]
  | .cons (.flt _) v ms, as, h => by simp [ofJsonM] at h

mutual
  /-- **JSON in, JSON out**: a JSON document (no object naming a member twice) parsed into the dynamic value
  re-serializes to itself -/
  theorem jsonAnyJson : ∀ (d : Doc), JsonClean d → DistinctKeys d → ∀ a, ofJson d = some a → toJson a = some d
    | .null, _, _, a, h => by simp [ofJson] at h; subst h; rfl
    | .bool b, _, _, a, h => by simp [ofJson] at h; subst h; rfl
    | .int n, _, _, a, h => by simp [ofJson] at h; subst h; rfl
    | .dbl (.fin b), _, _, a, h => by simp [ofJson] at h; subst h; rfl
    | .dbl .nan, hc, _, _, _ => by simp [JsonClean] at hc
    | .dbl .posInf, hc, _, _, _ => by simp [JsonClean] at hc
    | .dbl .negInf, hc, _, _, _ => by simp [JsonClean] at hc
    | .str s, _, _, a, h => by simp [ofJson] at h; subst h; rfl
    | .bin _, _, _, a, h => by simp [ofJson] at h
    | .arr xs, hc, hd, a, h => by
      simp only [ofJson, Option.map_eq_some_iff] at h
      obtain ⟨as, h1, rfl⟩ := h
      simp only [JsonClean] at hc
      simp only [DistinctKeys] at hd
      simp [toJson, jsonAnyJsonL xs hc hd as h1]
    | .obj ms, hc, hd, a, h => by
      simp only [ofJson, Option.map_eq_some_iff] at h
      obtain ⟨as, h1, rfl⟩ := h
      simp only [JsonClean] at hc
      simp only [DistinctKeys] at hd
      simp [toJson, jsonAnyJsonM ms hc hd as h1]
  theorem jsonAnyJsonL : ∀ (xs : Docs), JsonCleanL xs → DistinctKeysL xs → ∀ as, ofJsonL xs = some as → toJsonL as = some xs
    | .nil, _, _, as, h => by simp [ofJsonL] at h; subst h; rfl
    | .cons x xs, hc, hd, as, h => by
      simp only [ofJsonL] at h
      simp only [JsonCleanL] at hc
      simp only [DistinctKeysL] at hd
      cases e1 : ofJson x <;> cases e2 : ofJsonL xs <;> simp [e1, e2] at h
      subst h
      simp [toJsonL, jsonAnyJson x hc.1 hd.1 _ e1, jsonAnyJsonL xs hc.2 hd.2 _ e2]
  theorem jsonAnyJsonM : ∀ (ms : Members), JsonCleanM ms → DistinctKeysM ms → ∀ as, ofJsonM ms = some as → toJsonE as = some ms
    | .nil, _, _, as, h => by simp [ofJsonM] at h; subst h; rfl
    | .cons (.text k) v ms, hc, hd, as, h => by
      simp only [ofJsonM] at h
      simp only [JsonCleanM] at hc
      simp only [DistinctKeysM] at hd
      cases e1 : ofJson v <;> cases e2 : ofJsonM ms <;> simp [e1, e2] at h
      rename_i a as'
      have hk : entriesHaveStr k as' = false := by rw [entriesHaveStr_ofJsonM k ms as' e2]; exact hd.1
      rw [hk] at h
      simp at h
      subst h
      simp [toJsonE, anyKey, jsonAnyJson v hc.1 hd.2.1 _ e1, jsonAnyJsonM ms hc.2 hd.2.2 _ e2]
    | .cons (.flt _) v ms, _, _, as, h => by simp [ofJsonM] at h
end

end ConjureVerif.AnyM
