import ConjureVerif.Model.Emit
import ConjureVerif.Model.Uri
/-
The generator's six type predicates are six separately written recursions over aliases and imported types; here each
is shown to be a view of one function, `dealiased`, so that they can never disagree about a type.
-/
set_option linter.unusedSimpArgs false
namespace ConjureVerif.Emit

def optView : ITy → Option ITy
  | .optional t => some t
  | _ => none
def listView : ITy → Bool
  | .list _ => true
  | _ => false
def setView : ITy → Bool
  | .set _ => true
  | _ => false
def mapView : ITy → Bool
  | .map _ _ => true
  | _ => false
def iterView : ITy → Bool
  | .optional _ | .list _ | .set _ | .map _ _ => true
  | _ => false
def binView : ITy → Bool
  | .prim b => b
  | _ => false

theorem isOptional_view (defs : Defs) : ∀ (f : Nat) (t : ITy), isOptional defs (f + 1) t = optView (dealiased defs f t)
  | 0, t => by
    cases t <;> simp [isOptional, dealiased, optView]
    rename_i n; cases defs[n]? with
    | none => rfl
    | some d => cases d <;> simp [isOptional]
  | f + 1, t => by
    cases t with
    | ref n =>
      rw [isOptional, dealiased]
      cases h : defs[n]? with
      | none => simp [optView]
      | some d => cases d with
        | alias a => simp only; exact isOptional_view defs f a
        | other => simp [optView]
    | ext fb => rw [isOptional, dealiased]; exact isOptional_view defs f fb
    | _ => simp [isOptional, dealiased, optView]

theorem isList_view (defs : Defs) : ∀ (f : Nat) (t : ITy), isList defs (f + 1) t = listView (dealiased defs f t)
  | 0, t => by
    cases t <;> simp [isList, dealiased, listView]
    rename_i n; cases defs[n]? with
    | none => rfl
    | some d => cases d <;> simp [isList]
  | f + 1, t => by
    cases t with
    | ref n =>
      rw [isList, dealiased]
      cases h : defs[n]? with
      | none => simp [listView]
      | some d => cases d with
        | alias a => simp only; exact isList_view defs f a
        | other => simp [listView]
    | ext fb => rw [isList, dealiased]; exact isList_view defs f fb
    | _ => simp [isList, dealiased, listView]

theorem isSet_view (defs : Defs) : ∀ (f : Nat) (t : ITy), isSet defs (f + 1) t = setView (dealiased defs f t)
  | 0, t => by
    cases t <;> simp [isSet, dealiased, setView]
    rename_i n; cases defs[n]? with
    | none => rfl
    | some d => cases d <;> simp [isSet]
  | f + 1, t => by
    cases t with
    | ref n =>
      rw [isSet, dealiased]
      cases h : defs[n]? with
      | none => simp [setView]
      | some d => cases d with
        | alias a => simp only; exact isSet_view defs f a
        | other => simp [setView]
    | ext fb => rw [isSet, dealiased]; exact isSet_view defs f fb
    | _ => simp [isSet, dealiased, setView]

theorem isIterable_view (defs : Defs) : ∀ (f : Nat) (t : ITy), isIterable defs (f + 1) t = iterView (dealiased defs f t)
  | 0, t => by
    cases t <;> simp [isIterable, dealiased, iterView]
    rename_i n; cases defs[n]? with
    | none => rfl
    | some d => cases d <;> simp [isIterable]
  | f + 1, t => by
    cases t with
    | ref n =>
      rw [isIterable, dealiased]
      cases h : defs[n]? with
      | none => simp [iterView]
      | some d => cases d with
        | alias a => simp only; exact isIterable_view defs f a
        | other => simp [iterView]
    | ext fb => rw [isIterable, dealiased]; exact isIterable_view defs f fb
    | _ => simp [isIterable, dealiased, iterView]

theorem isBinary_view (defs : Defs) : ∀ (f : Nat) (t : ITy), isBinary defs (f + 1) t = binView (dealiased defs f t)
  | 0, t => by
    cases t <;> simp [isBinary, dealiased, binView]
    rename_i n; cases defs[n]? with
    | none => rfl
    | some d => cases d <;> simp [isBinary]
  | f + 1, t => by
    cases t with
    | ref n =>
      rw [isBinary, dealiased]
      cases h : defs[n]? with
      | none => simp [binView]
      | some d => cases d with
        | alias a => simp only; exact isBinary_view defs f a
        | other => simp [binView]
    | ext fb => rw [isBinary, dealiased]; exact isBinary_view defs f fb
    | _ => simp [isBinary, dealiased, binView]

/-- the views of one type are related as the shapes are: iterable = optional, list, set or map; each excludes the
others and binary -/
theorem views_consistent (t : ITy) :
    iterView t = ((optView t).isSome || listView t || setView t || mapView t) ∧
    ((optView t).isSome = true → listView t = false ∧ setView t = false ∧ mapView t = false ∧ binView t = false) ∧
    (listView t = true → setView t = false ∧ mapView t = false ∧ binView t = false) ∧
    (setView t = true → mapView t = false ∧ binView t = false) ∧
    (mapView t = true → binView t = false) := by
  cases t <;> simp [iterView, optView, listView, setView, mapView, binView]

/-! ### cardinalities: how many values a client call sends, how many a server decoder takes -/
inductive Card | one | opt | seq deriving DecidableEq, Repr

def QPush.card : QPush → Card
  | .one => .one
  | .optional => .opt
  | .list | .set => .seq

def Dec.card : Dec → Card
  | .one => .one
  | .opt _ => .opt
  | .seq => .seq

theorem queryPush_card (defs : Defs) (f : Nat) (t : ITy) (hm : mapView (dealiased defs f t) = false) :
    (queryPush defs (f + 1) t).card =
      if (isOptional defs (f + 1) t).isSome then .opt else if isIterable defs (f + 1) t then .seq else .one := by
  unfold queryPush
  rw [isOptional_view, isList_view, isSet_view, isIterable_view]
  have hc := views_consistent (dealiased defs f t)
  cases ho : (optView (dealiased defs f t)).isSome
  · simp only [Bool.false_eq_true, if_false]
    cases hl : listView (dealiased defs f t)
    · cases hs : setView (dealiased defs f t)
      · simp [QPush.card, hc.1, ho, hl, hs, hm]
      · simp [QPush.card, hc.1, ho, hl, hs, hm]
    · simp [QPush.card, hc.1, ho, hl, hm]
  · simp [QPush.card]

/-- the bytes a path-building call appends to the URI (`push_literal` appends its argument; `push_path_parameter`
a `/` and the percent-encoded PLAIN text of its argument) -/
def callBuf (tbl : List Nat) (txt : Option String → Bytes) : Call → Bytes
  | .lit s => s
  | .pathParam i => 47 :: Uri.encode tbl (txt i)
  | _ => []

def segBuf (tbl : List Nat) (txtOf : Bytes → Bytes) : Seg → Bytes
  | .lit l => 47 :: l
  | .param n => 47 :: Uri.encode tbl (txtOf n)

/-- the path the generated client builds is the template, segment by segment, with every parameter (`{name}` or
`{name:regex}`) replaced by the encoded text of the path argument of that name -/
theorem pathCalls_buf (tbl : List Nat) (kw : List String) (args : List Arg) (txt : Option String → Bytes) :
    ∀ (segs : List Seg) (cur : Bytes),
      (pathCalls kw args segs cur).flatMap (callBuf tbl txt) =
        cur ++ segs.flatMap (segBuf tbl (fun n => txt ((args.find? (fun a => a.kind == .path && a.name == n)).map (ident kw))))
  | [], cur => by
    unfold pathCalls
    split
    · rename_i h; simp [List.isEmpty_iff.mp h]
    · simp [callBuf]
  | .lit l :: r, cur => by
    unfold pathCalls
    rw [pathCalls_buf tbl kw args txt r]
    simp [segBuf, List.append_assoc]
  | .param n :: r, cur => by
    unfold pathCalls
    rw [List.flatMap_append, pathCalls_buf tbl kw args txt r]
    split
    · rename_i h; simp [List.isEmpty_iff.mp h, callBuf, segBuf]
    · simp [callBuf, segBuf, List.append_assoc]


theorem pathCalls_mem (kw : List String) (args : List Arg) : ∀ (segs : List Seg) (cur : Bytes) (c : Call),
    c ∈ pathCalls kw args segs cur → (∃ s, c = .lit s) ∨ (∃ i, c = .pathParam i)
  | [], cur, c, h => by
    unfold pathCalls at h
    split at h
    · cases h
    · simp at h; exact Or.inl ⟨_, h⟩
  | .lit l :: r, cur, c, h => by
    unfold pathCalls at h; exact pathCalls_mem kw args r _ c h
  | .param n :: r, cur, c, h => by
    unfold pathCalls at h
    simp only [List.mem_append] at h
    rcases h with h | h
    · split at h
      · simp at h; exact Or.inr ⟨_, h⟩
      · simp at h; rcases h with h | h
        · exact Or.inl ⟨_, h⟩
        · exact Or.inr ⟨_, h⟩
    · exact pathCalls_mem kw args r _ c h


end ConjureVerif.Emit
