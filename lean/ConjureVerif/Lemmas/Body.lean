import ConjureVerif.Model.Body
set_option linter.unusedSimpArgs false
namespace ConjureVerif.Body

def oks (bss : List (List Nat)) : List Chunk := bss.map Chunk.ok

theorem within_zero (limit : Option Nat) : within limit 0 = true := by
  cases limit <;> simp [within]

theorem within_mono {limit : Option Nat} {n m : Nat} (h : within limit m = true) (hnm : n ≤ m) :
    within limit n = true := by
  cases limit with
  | none => rfl
  | some l => simp [within] at *; omega

theorem within_false_mono {limit : Option Nat} {n m : Nat} (h : within limit n = false) (hnm : n ≤ m) :
    within limit m = false := by
  cases hm : within limit m with
  | false => rfl
  | true => rw [within_mono hm hnm] at h; cases h

/-- the loop on error-free chunks: everything is appended, or the limit trips -/
theorem readLoop_oks (limit : Option Nat) (bss : List (List Nat)) (buf : List Nat)
    (hb : within limit buf.length = true) :
    readLoop limit buf (oks bss) =
      if within limit (buf ++ bss.flatten).length then .ok (buf ++ bss.flatten) else .tooLarge := by
  induction bss generalizing buf with
  | nil => simp [oks, readLoop, hb]
  | cons b rest ih =>
    simp only [oks, List.map_cons, readLoop, List.flatten_cons]
    cases hw : within limit (buf ++ b).length with
    | true =>
      simp only [if_true]
      have := ih (buf ++ b) hw
      simp only [oks] at this
      rw [this, List.append_assoc]
    | false =>
      have : within limit (buf ++ (b ++ rest.flatten)).length = false :=
        within_false_mono hw (by simp only [List.length_append]; omega)
      simp only [this, Bool.false_eq_true, if_false, Bool.not_false, if_true]

/-- the loop with a stream error after error-free chunks -/
theorem readLoop_err (limit : Option Nat) (pre : List (List Nat)) (e : Nat) (post : List Chunk)
    (buf : List Nat) (hb : within limit buf.length = true) :
    readLoop limit buf (oks pre ++ Chunk.err e :: post) =
      if within limit (buf ++ pre.flatten).length then .err e else .tooLarge := by
  induction pre generalizing buf with
  | nil => simp [oks, readLoop, hb]
  | cons b rest ih =>
    simp only [oks, List.map_cons, List.cons_append, readLoop, List.flatten_cons]
    cases hw : within limit (buf ++ b).length with
    | true =>
      simp only [if_true]
      have := ih (buf ++ b) hw
      simp only [oks] at this
      rw [this, List.append_assoc]
    | false =>
      have : within limit (buf ++ (b ++ rest.flatten)).length = false :=
        within_false_mono hw (by simp only [List.length_append]; omega)
      simp only [this, Bool.false_eq_true, if_false, Bool.not_false, if_true]

/-- **reassembly**: error-free chunks are concatenated in order, or the body is too large — the
    result depends only on the concatenation, not on how it was split -/
theorem readBody_oks (limit : Option Nat) (bss : List (List Nat)) :
    readBody limit (oks bss) =
      if within limit bss.flatten.length then .ok bss.flatten else .tooLarge := by
  match bss with
  | [] => simp [oks, readBody, within_zero]
  | [a] =>
    simp only [oks, List.map_cons, List.map_nil, readBody, List.flatten_cons, List.flatten_nil,
      List.append_nil]
    cases within limit a.length <;> simp
  | a :: b :: rest =>
    simp only [oks, List.map_cons, readBody, List.flatten_cons]
    cases ha : within limit a.length with
    | false =>
      have : within limit (a ++ (b ++ rest.flatten)).length = false :=
        within_false_mono ha (by simp only [List.length_append]; omega)
      simp only [this, Bool.false_eq_true, if_false, Bool.not_false, if_true]
    | true =>
      simp only [Bool.not_true, Bool.false_eq_true, if_false]
      cases hab : within limit (a ++ b).length with
      | false =>
        have : within limit (a ++ (b ++ rest.flatten)).length = false :=
          within_false_mono hab (by simp only [List.length_append]; omega)
        simp only [this, Bool.false_eq_true, if_false, Bool.not_false, if_true]
      | true =>
        simp only [Bool.not_true, Bool.false_eq_true, if_false]
        have := readLoop_oks limit rest (a ++ b) hab
        simp only [oks] at this
        rw [this, List.append_assoc]

/-- **stream errors**: an error after error-free chunks surfaces as that error, unless the bytes
    before it already exceed the limit -/
theorem readBody_err (limit : Option Nat) (pre : List (List Nat)) (e : Nat) (post : List Chunk) :
    readBody limit (oks pre ++ Chunk.err e :: post) =
      if within limit pre.flatten.length then .err e else .tooLarge := by
  match pre with
  | [] => simp [oks, readBody, within_zero]
  | [a] =>
    simp only [oks, List.map_cons, List.map_nil, List.cons_append, List.nil_append, readBody,
      List.flatten_cons, List.flatten_nil, List.append_nil]
    cases within limit a.length <;> simp
  | a :: b :: rest =>
    simp only [oks, List.map_cons, List.cons_append, readBody, List.flatten_cons]
    cases ha : within limit a.length with
    | false =>
      have : within limit (a ++ (b ++ rest.flatten)).length = false :=
        within_false_mono ha (by simp only [List.length_append]; omega)
      simp only [this, Bool.false_eq_true, if_false, Bool.not_false, if_true]
    | true =>
      simp only [Bool.not_true, Bool.false_eq_true, if_false]
      cases hab : within limit (a ++ b).length with
      | false =>
        have : within limit (a ++ (b ++ rest.flatten)).length = false :=
          within_false_mono hab (by simp only [List.length_append]; omega)
        simp only [this, Bool.false_eq_true, if_false, Bool.not_false, if_true]
      | true =>
        simp only [Bool.not_true, Bool.false_eq_true, if_false]
        have := readLoop_err limit rest e post (a ++ b) hab
        simp only [oks] at this
        rw [this, List.append_assoc]

/-- every chunk list is error-free, or error-free up to a first error -/
theorem chunks_split (cs : List Chunk) :
    (∃ bss, cs = oks bss) ∨ (∃ pre e post, cs = oks pre ++ Chunk.err e :: post) := by
  induction cs with
  | nil => exact .inl ⟨[], rfl⟩
  | cons c rest ih =>
    cases c with
    | err e => exact .inr ⟨[], e, rest, rfl⟩
    | ok b =>
      rcases ih with ⟨bss, h⟩ | ⟨pre, e, post, h⟩
      · exact .inl ⟨b :: bss, by simp [oks, h]⟩
      · exact .inr ⟨b :: pre, e, post, by simp [oks, h]⟩

theorem oks_inj {a b : List (List Nat)} (h : oks a = oks b) : a = b := by
  induction a generalizing b with
  | nil => cases b <;> simp_all [oks]
  | cons x xs ih =>
    cases b with
    | nil => simp [oks] at h
    | cons y ys =>
      simp only [oks, List.map_cons, List.cons.injEq, Chunk.ok.injEq] at h
      rw [h.1, ih (by simpa [oks] using h.2)]

theorem err_not_mem_oks (e : Nat) (bss : List (List Nat)) : Chunk.err e ∉ oks bss := by
  simp [oks]

theorem within_some (l n : Nat) : within (some l) n = decide (n ≤ l) := rfl

theorem std_oks (limit : Nat) (bss : List (List Nat)) (parse : List Nat → Parse) :
    stdDeserialize true limit (oks bss) parse =
      if bss.flatten.length ≤ limit then Outcome.ofParse (parse bss.flatten) else .invalidArgument := by
  unfold stdDeserialize
  rw [readBody_oks, within_some]
  by_cases h : bss.flatten.length ≤ limit
  · rw [if_pos h, decide_eq_true h]; rfl
  · rw [if_neg h, decide_eq_false h]; rfl

theorem std_err (limit : Nat) (pre : List (List Nat)) (e : Nat) (post : List Chunk) (parse : List Nat → Parse) :
    stdDeserialize true limit (oks pre ++ Chunk.err e :: post) parse =
      if pre.flatten.length ≤ limit then .streamError e else .invalidArgument := by
  unfold stdDeserialize
  rw [readBody_err, within_some]
  by_cases h : pre.flatten.length ≤ limit
  · rw [if_pos h, decide_eq_true h]; rfl
  · rw [if_neg h, decide_eq_false h]; rfl

theorem ser_oks (bss : List (List Nat)) (parse : List Nat → Parse) :
    decodeSerializable true (oks bss) parse = ClientResult.ofParse (parse bss.flatten) := by
  unfold decodeSerializable
  rw [readBody_oks]; simp [within]

theorem ser_err (pre : List (List Nat)) (e : Nat) (post : List Chunk) (parse : List Nat → Parse) :
    decodeSerializable true (oks pre ++ Chunk.err e :: post) parse = .streamError e := by
  unfold decodeSerializable
  rw [readBody_err]; simp [within]

theorem ofParse_handler (p : Parse) (v : Option Nat) :
    Outcome.ofParse p = .handler v ↔ ∃ w, v = some w ∧ p = .value w true := by
  cases p with
  | invalid => simp [Outcome.ofParse]
  | value w b =>
    cases b
    · simp [Outcome.ofParse]
    · simp only [Outcome.ofParse, Outcome.handler.injEq, Parse.value.injEq, and_true]
      constructor
      · intro h; exact ⟨w, h.symm, rfl⟩
      · rintro ⟨w', h1, h2⟩; rw [h1, h2]

theorem clientOfParse_value (p : Parse) (v : Nat) :
    ClientResult.ofParse p = .value v ↔ p = .value v true := by
  cases p with
  | invalid => simp [ClientResult.ofParse]
  | value w b => cases b <;> simp [ClientResult.ofParse]

end ConjureVerif.Body
