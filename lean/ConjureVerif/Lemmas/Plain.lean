import ConjureVerif.Model.Plain
import ConjureVerif.Lemmas.Dec
import ConjureVerif.Lemmas.Uri
import ConjureVerif.Lemmas.Base64
set_option linter.unusedSimpArgs false
namespace ConjureVerif.Plain
open ConjureVerif

/-! ### hex -/

theorem unhexD_hexLower (n : Nat) (h : n < 16) : Uri.unhexD (hexLower n) = some n := by
  unfold Uri.unhexD hexLower
  split
  · rw [if_pos (by omega)]; congr 1; omega
  · rw [if_neg (by omega), if_neg (by omega), if_pos (by omega)]; congr 1; omega

theorem hexLower_ne_hyphen (n : Nat) (h : n < 16) : hexLower n ≠ 45 := by
  unfold hexLower; split <;> omega

theorem unhexPairs_hexEnc (bs : List Nat) (h : ∀ b ∈ bs, b < 256) : unhexPairs (hexEnc bs) = some bs := by
  induction bs with
  | nil => simp [hexEnc, unhexPairs]
  | cons b bs ih =>
    have hb : b < 256 := h b List.mem_cons_self
    have ih' := ih (fun x hx => h x (List.mem_cons_of_mem _ hx))
    simp only [hexEnc, List.flatMap_cons, List.cons_append, List.nil_append] at ih' ⊢
    rw [unhexPairs, unhexD_hexLower _ (by omega), unhexD_hexLower _ (by omega), ih']
    simp; omega

theorem hyphen_not_mem_hexEnc (bs : List Nat) (h : ∀ b ∈ bs, b < 256) : 45 ∉ hexEnc bs := by
  induction bs with
  | nil => simp [hexEnc]
  | cons b bs ih =>
    have hb : b < 256 := h b List.mem_cons_self
    have ih' := ih (fun x hx => h x (List.mem_cons_of_mem _ hx))
    simp only [hexEnc, List.flatMap_cons, List.mem_append, List.mem_cons, List.not_mem_nil, or_false] at ih' ⊢
    rintro ((h1 | h1) | h1)
    · exact hexLower_ne_hyphen _ (by omega) h1.symm
    · exact hexLower_ne_hyphen _ (by omega) h1.symm
    · exact ih' h1

theorem hexEnc_length (bs : List Nat) : (hexEnc bs).length = 2 * bs.length := by
  induction bs with
  | nil => simp [hexEnc]
  | cons b bs ih => simp only [hexEnc, List.flatMap_cons, List.length_append, List.length_cons, List.length_nil] at ih ⊢; omega

theorem splitOn_joinHyphen (ps : List (List Nat)) (hne : ps ≠ []) (h : ∀ p ∈ ps, 45 ∉ p) :
    Uri.splitOn 45 (joinHyphen ps) = ps := by
  induction ps with
  | nil => exact absurd rfl hne
  | cons p rest ih =>
    have hp : 45 ∉ p := h p List.mem_cons_self
    cases rest with
    | nil => simp [joinHyphen, Uri.splitOn_not_mem 45 p hp]
    | cons q qs =>
      have := ih (by simp) (fun x hx => h x (List.mem_cons_of_mem _ hx))
      simp only [joinHyphen]
      rw [Uri.splitOn_append 45 p _ hp, this]

/-! ### fixed-width decimal fields -/

theorem padN_length (n v : Nat) : (padN n v).length = n := by
  induction n generalizing v with
  | zero => simp [padN]
  | succ n ih => simp [padN, ih]

theorem padN_all_digit (n v : Nat) : ∀ c ∈ padN n v, Dec.isDigit c = true := by
  induction n generalizing v with
  | zero => simp [padN]
  | succ n ih =>
    intro c hc
    simp only [padN, List.mem_append, List.mem_cons, List.not_mem_nil, or_false] at hc
    rcases hc with h | h
    · exact ih _ c h
    · subst h; simp [Dec.isDigit]; omega

theorem readN_padN (n v : Nat) (rest : List Nat) (hv : v < 10 ^ n) :
    readN n (padN n v ++ rest) = some (v, rest) := by
  induction n generalizing v rest with
  | zero => simp [readN, padN] ; simp at hv; omega
  | succ n ih =>
    have h10 : v / 10 < 10 ^ n := by
      rw [Nat.pow_succ] at hv
      exact Nat.div_lt_of_lt_mul (by rw [Nat.mul_comm]; exact hv)
    simp only [padN, List.append_assoc, List.cons_append, List.nil_append, readN]
    rw [ih (v / 10) _ h10]
    have hd : Dec.isDigit (48 + v % 10) = true := by simp [Dec.isDigit]; omega
    simp only [hd, if_true]
    congr 2; omega

theorem digitsVal_padN (n v : Nat) (hv : v < 10 ^ n) : Dec.digitsVal (padN n v) = v := by
  induction n generalizing v with
  | zero => simp [padN, Dec.digitsVal]; simp at hv; omega
  | succ n ih =>
    have h10 : v / 10 < 10 ^ n := by
      rw [Nat.pow_succ] at hv
      exact Nat.div_lt_of_lt_mul (by rw [Nat.mul_comm]; exact hv)
    simp only [padN]
    rw [Dec.digitsVal_append, ih _ h10]; omega

theorem digitsVal_append_zeros (a : List Nat) (k : Nat) :
    Dec.digitsVal (a ++ List.replicate k 48) = Dec.digitsVal a * 10 ^ k := by
  induction k with
  | zero => simp
  | succ k ih =>
    rw [List.replicate_succ', ← List.append_assoc, Dec.digitsVal_append, ih, Nat.pow_succ]
    simp [Nat.mul_assoc]

theorem takeDigits_padN (n v : Nat) (c : Nat) (rest : List Nat) (hc : Dec.isDigit c = false) :
    takeDigits (padN n v ++ c :: rest) = (padN n v, c :: rest) := by
  have : ∀ (ds : List Nat), (∀ x ∈ ds, Dec.isDigit x = true) →
      takeDigits (ds ++ c :: rest) = (ds, c :: rest) := by
    intro ds
    induction ds with
    | nil => intro _; simp [takeDigits, hc]
    | cons d ds ih =>
      intro h
      have hd := h d List.mem_cons_self
      have := ih (fun x hx => h x (List.mem_cons_of_mem _ hx))
      simp [takeDigits, hd, this]
  exact this _ (padN_all_digit n v)

theorem take9 (k x : Nat) (hk : k ≤ 9) :
    (padN k x ++ List.replicate 9 48).take 9 = padN k x ++ List.replicate (9 - k) 48 := by
  have hlen := padN_length k x
  rw [List.take_append, hlen, List.take_of_length_le (by rw [hlen]; exact hk), List.take_replicate]
  congr 2; omega

theorem fracVal_padN (k x : Nat) (hk : k ≤ 9) (hx : x < 10 ^ k) :
    fracVal (padN k x) = x * 10 ^ (9 - k) := by
  unfold fracVal
  simp only [take9 k x hk]
  rw [digitsVal_append_zeros, digitsVal_padN _ _ hx]

end ConjureVerif.Plain
