import ConjureVerif.Model.Endpoint
set_option linter.unusedSimpArgs false
namespace ConjureVerif.Endpoint

/-! ### what makes one argument fail to decode -/

theorem decodeParam_one_ok (ext : Bytes → Bool) (i : Nat) (ty : PTy) (vals : List Bytes) :
    decodeParam ext i .one ty vals = .ok () ↔ ∃ v, vals = [v] ∧ parses ext ty v = true := by
  unfold decodeParam
  match vals with
  | [] => simp
  | [v] => by_cases h : parses ext ty v = true <;> simp [h]
  | _ :: _ :: _ => simp

theorem decodeParam_opt_ok (ext : Bytes → Bool) (i : Nat) (ty : PTy) (vals : List Bytes) :
    decodeParam ext i .opt ty vals = .ok () ↔ vals = [] ∨ ∃ v, vals = [v] ∧ parses ext ty v = true := by
  unfold decodeParam
  match vals with
  | [] => simp
  | [v] => by_cases h : parses ext ty v = true <;> simp [h]
  | _ :: _ :: _ => simp

theorem decodeParam_seq_ok (ext : Bytes → Bool) (i : Nat) (ty : PTy) (vals : List Bytes) :
    decodeParam ext i .seq ty vals = .ok () ↔ ∀ v ∈ vals, parses ext ty v = true := by
  unfold decodeParam
  by_cases h : vals.all (parses ext ty) = true
  · simp [h]; simpa using h
  · simp [h]; simpa using h

theorem decodeHeader_one_ok (ext : Bytes → Bool) (i : Nat) (ty : PTy) (vals : List Bytes) :
    decodeHeader ext i .one ty vals = .ok () ↔ ∃ v, vals = [v] ∧ toStrOk v = true ∧ parses ext ty v = true := by
  unfold decodeHeader
  match vals with
  | [] => simp
  | [v] => by_cases h1 : toStrOk v = true <;> by_cases h2 : parses ext ty v = true <;> simp [h1, h2]
  | _ :: _ :: _ => simp

theorem decodeHeader_opt_ok (ext : Bytes → Bool) (i : Nat) (ty : PTy) (vals : List Bytes) :
    decodeHeader ext i .opt ty vals = .ok () ↔
      vals = [] ∨ ∃ v, vals = [v] ∧ toStrOk v = true ∧ parses ext ty v = true := by
  unfold decodeHeader
  match vals with
  | [] => simp
  | [v] => by_cases h1 : toStrOk v = true <;> by_cases h2 : parses ext ty v = true <;> simp [h1, h2]
  | _ :: _ :: _ => simp

theorem decodeAuth_ok (pfx : Bytes) (vals : List Bytes) :
    decodeAuth pfx vals = .ok () ↔
      ∃ v rest t, vals = v :: rest ∧ toStrOk v = true ∧ stripPrefix pfx v = some t ∧ Token.isValid t = true := by
  unfold decodeAuth
  match vals with
  | [] => simp
  | v :: rest =>
    by_cases h1 : toStrOk v = true
    · cases h2 : stripPrefix pfx v with
      | none => simp [h1, h2]
      | some t => by_cases h3 : Token.isValid t = true <;> simp [h1, h2, h3]
    · simp [h1]

/-! ### the shape of every decode error -/

theorem decodeParam_err (ext : Bytes → Bool) (i : Nat) (dec : Dec) (ty : PTy) (vals : List Bytes) (e : Err)
    (h : decodeParam ext i dec ty vals = .error e) :
    e.code = .invalidArgument ∧ e.param = none ∧ (e.causeSafe = true → e.cause = .const) ∧
      (e.cause = .const ∨ e.cause = .arg i) := by
  unfold decodeParam at h
  have hc : ∀ n, (cardErr n).code = .invalidArgument ∧ (cardErr n).param = none ∧
      ((cardErr n).causeSafe = true → (cardErr n).cause = .const) ∧
      ((cardErr n).cause = .const ∨ (cardErr n).cause = .arg i) := by intro n; simp [cardErr]
  have hv : (valueErr i).code = .invalidArgument ∧ (valueErr i).param = none ∧
      ((valueErr i).causeSafe = true → (valueErr i).cause = .const) ∧
      ((valueErr i).cause = .const ∨ (valueErr i).cause = .arg i) := by simp [valueErr]
  have single : ∀ v, (if parses ext ty v = true then Except.ok () else Except.error (valueErr i)) = Except.error e →
      e = valueErr i := by
    intro v hh
    by_cases hp : parses ext ty v = true
    · simp [hp] at hh
    · simp [hp] at hh; exact hh.symm
  have many : (if vals.all (parses ext ty) = true then Except.ok () else Except.error (valueErr i)) = Except.error e →
      e = valueErr i := by
    intro hh
    by_cases hp : vals.all (parses ext ty) = true
    · simp [hp] at hh
    · rw [if_neg hp] at hh; cases hh; rfl
  cases dec <;> simp only at h
  case one =>
    match vals, h with
    | [], h => cases h; exact hc _
    | [v], h => rw [single v h]; exact hv
    | _ :: _ :: _, h => cases h; exact hc _
  case opt =>
    match vals, h with
    | [], h => cases h
    | [v], h => rw [single v h]; exact hv
    | _ :: _ :: _, h => cases h; exact hc _
  all_goals (rw [many h]; exact hv)

theorem decodeHeader_err (ext : Bytes → Bool) (i : Nat) (dec : Dec) (ty : PTy) (vals : List Bytes) (e : Err)
    (h : decodeHeader ext i dec ty vals = .error e) :
    e.code = .invalidArgument ∧ e.param = none ∧ (e.causeSafe = true → e.cause = .const) ∧
      (e.cause = .const ∨ e.cause = .arg i) := by
  unfold decodeHeader at h
  have hc : ∀ n, (cardErr n).code = .invalidArgument ∧ (cardErr n).param = none ∧
      ((cardErr n).causeSafe = true → (cardErr n).cause = .const) ∧
      ((cardErr n).cause = .const ∨ (cardErr n).cause = .arg i) := by intro n; simp [cardErr]
  have hv : (valueErr i).code = .invalidArgument ∧ (valueErr i).param = none ∧
      ((valueErr i).causeSafe = true → (valueErr i).cause = .const) ∧
      ((valueErr i).cause = .const ∨ (valueErr i).cause = .arg i) := by simp [valueErr]
  have one : ∀ v, (if (!toStrOk v) = true then Except.error (valueErr i)
      else if parses ext ty v = true then Except.ok () else Except.error (valueErr i)) = Except.error e →
      e = valueErr i := by
    intro v hh
    by_cases h1 : (!toStrOk v) = true
    · rw [if_pos h1] at hh; cases hh; rfl
    · rw [if_neg h1] at hh
      by_cases h2 : parses ext ty v = true
      · rw [if_pos h2] at hh; cases hh
      · rw [if_neg h2] at hh; cases hh; rfl
  cases dec <;> simp only at h
  case opt =>
    match vals, h with
    | [], h => cases h
    | [v], h => rw [one v h]; exact hv
    | _ :: _ :: _, h => cases h; exact hc _
  all_goals
    match vals, h with
    | [], h => cases h; exact hc _
    | [v], h => rw [one v h]; exact hv
    | _ :: _ :: _, h => cases h; exact hc _

theorem decodeAuth_err (pfx : Bytes) (vals : List Bytes) (e : Err) (h : decodeAuth pfx vals = .error e) :
    e.code = .permissionDenied ∧ e.param = none ∧ e.causeSafe = true ∧ e.cause = .const ∧ e.actual = none := by
  unfold decodeAuth at h
  match vals, h with
  | [], h => cases h; simp
  | v :: rest, h =>
    simp only at h
    split at h
    · cases h; simp
    · split at h
      · cases h; simp
      · split at h <;> cases h; simp

theorem decodeBody_err (i : Nat) (dec : Dec) (ct : CtClass) (p : Payload) (e : Err)
    (h : decodeBody i dec ct p = .error e) :
    e.code = .invalidArgument ∧ e.param = none ∧ (e.causeSafe = true → e.cause = .const) ∧
      (e.cause = .const ∨ e.cause = .arg i) := by
  have hs : bodySafeErr.code = .invalidArgument ∧ bodySafeErr.param = none ∧
      (bodySafeErr.causeSafe = true → bodySafeErr.cause = .const) ∧
      (bodySafeErr.cause = .const ∨ bodySafeErr.cause = .arg i) := by simp [bodySafeErr]
  have hv : (valueErr i).code = .invalidArgument ∧ (valueErr i).param = none ∧
      ((valueErr i).causeSafe = true → (valueErr i).cause = .const) ∧
      ((valueErr i).cause = .const ∨ (valueErr i).cause = .arg i) := by simp [valueErr]
  have std : ∀ e, decodeStdBody i ct p = .error e → e = bodySafeErr ∨ e = valueErr i := by
    intro e h
    unfold decodeStdBody at h
    cases ct <;> cases p <;> simp at h <;> simp [h]
  unfold decodeBody at h
  cases dec <;> simp only at h
  case optional =>
    split at h
    · cases h
    · rcases std e h with r | r <;> rw [r] <;> assumption
  case binary =>
    split at h
    · cases h
    · cases h; exact hs
  all_goals (rcases std e h with r | r <;> rw [r] <;> assumption)

/-- every error of `decodeArg`: its code by kind, the reported name, and that a cause flagged safe is constant -/
theorem decodeArg_err (r : Request) (i : Nat) (a : ArgSpec) (e : Err) (h : decodeArg r i a = .error e) :
    (e.code = if a.kind = .auth ∨ a.kind = .cookie then .permissionDenied else .invalidArgument) ∧
    (e.param = if a.kind = .auth ∨ a.kind = .cookie then none else reportedName a) ∧
    (e.causeSafe = true → e.cause = .const) ∧ (e.cause = .const ∨ e.cause = .arg i) := by
  unfold decodeArg at h
  have named : ∀ (x : Except Err Unit) (e : Err),
      (match x with | .ok u => Except.ok u | .error e => Except.error { e with param := reportedName a }) = .error e →
      ∃ e0, x = .error e0 ∧ e = { e0 with param := reportedName a } := by
    intro x e hx
    cases x with
    | ok u => cases hx
    | error e0 => cases hx; exact ⟨e0, rfl, rfl⟩
  cases hk : a.kind <;> simp only [hk] at h
  case path =>
    obtain ⟨e0, h0, rfl⟩ := named _ _ h
    have := decodeParam_err _ _ _ _ _ _ h0
    simp [hk, this.1, this.2.2.2]
    exact this.2.2.1
  case query =>
    obtain ⟨e0, h0, rfl⟩ := named _ _ h
    have := decodeParam_err _ _ _ _ _ _ h0
    simp [hk, this.1, this.2.2.2]
    exact this.2.2.1
  case header =>
    obtain ⟨e0, h0, rfl⟩ := named _ _ h
    have := decodeHeader_err _ _ _ _ _ _ h0
    simp [hk, this.1, this.2.2.2]
    exact this.2.2.1
  case body =>
    obtain ⟨e0, h0, rfl⟩ := named _ _ h
    have := decodeBody_err _ _ _ _ _ h0
    simp [hk, this.1, this.2.2.2]
    exact this.2.2.1
  case auth =>
    have := decodeAuth_err _ _ _ h
    simp [hk, this.1, this.2.1, this.2.2.1, this.2.2.2.1]
  case cookie =>
    have := decodeAuth_err _ _ _ h
    simp [hk, this.1, this.2.1, this.2.2.1, this.2.2.2.1]
  case context => cases h

/-! ### the run over the argument list -/

theorem run_all_ok (r : Request) : ∀ (args : List ArgSpec) (i : Nat) (logged : List (Bytes × Nat)),
    (∀ k a, args[k]? = some a → decodeArg r (i + k) a = .ok ()) → (run r i args logged).error = none
  | [], _, _, _ => rfl
  | a :: rest, i, logged, h => by
    have h0 : decodeArg r i a = .ok () := by simpa using h 0 a rfl
    simp only [run, h0]
    apply run_all_ok r rest (i + 1)
    intro k b hb
    have := h (k + 1) b (by simpa using hb)
    rw [show i + 1 + k = i + (k + 1) by omega]; exact this

theorem run_first_failure (r : Request) : ∀ (pre : List ArgSpec) (a : ArgSpec) (post : List ArgSpec) (i : Nat)
    (logged : List (Bytes × Nat)) (e : Err),
    (∀ k b, pre[k]? = some b → decodeArg r (i + k) b = .ok ()) →
    decodeArg r (i + pre.length) a = .error e →
    (run r i (pre ++ a :: post) logged).error = some e
  | [], a, post, i, logged, e, _, he => by
    simp only [List.nil_append, run]
    rw [show i + ([] : List ArgSpec).length = i by simp] at he
    rw [he]
  | b :: pre, a, post, i, logged, e, hpre, he => by
    have h0 : decodeArg r i b = .ok () := by simpa using hpre 0 b rfl
    simp only [List.cons_append, run, h0]
    apply run_first_failure r pre a post (i + 1)
    · intro k c hc
      have := hpre (k + 1) c (by simpa using hc)
      rw [show i + 1 + k = i + (k + 1) by omega]; exact this
    · rw [show i + 1 + pre.length = i + (b :: pre).length by simp; omega]; exact he

theorem run_error_ok_iff (r : Request) : ∀ (args : List ArgSpec) (i : Nat) (logged : List (Bytes × Nat)),
    (run r i args logged).error = none ↔ ∀ k a, args[k]? = some a → decodeArg r (i + k) a = .ok ()
  | [], _, _ => by simp [run]
  | a :: rest, i, logged => by
    constructor
    · intro h k b hb
      simp only [run] at h
      cases h0 : decodeArg r i a with
      | error e => simp [h0] at h
      | ok u =>
        simp only [h0] at h
        cases k with
        | zero => simp at hb; subst hb; simpa using h0
        | succ k =>
          have := (run_error_ok_iff r rest (i + 1) _).mp h k b (by simpa using hb)
          rw [show i + (k + 1) = i + 1 + k by omega]; exact this
    · exact run_all_ok r (a :: rest) i logged

/-- invariant of the safe-parameter log: every entry either was there before or belongs to a declared-safe
argument of this endpoint, under that argument's key -/
theorem run_logged (r : Request) : ∀ (args : List ArgSpec) (i : Nat) (logged : List (Bytes × Nat)) (k : Bytes) (j : Nat),
    (k, j) ∈ (run r i args logged).logged →
    (k, j) ∈ logged ∨ (i ≤ j ∧ ∃ a, args[j - i]? = some a ∧ a.safe = true ∧ k = safeKey a)
  | [], _, logged, k, j, h => Or.inl (by simpa [run] using h)
  | a :: rest, i, logged, k, j, h => by
    simp only [run] at h
    cases h0 : decodeArg r i a with
    | error e => simp only [h0] at h; exact Or.inl h
    | ok u =>
      simp only [h0] at h
      rcases run_logged r rest (i + 1) _ k j h with h1 | ⟨hle, b, hb, hs, hk⟩
      · by_cases hsafe : a.safe = true
        · simp only [hsafe, if_true, List.mem_append, List.mem_singleton, Prod.mk.injEq] at h1
          rcases h1 with h1 | ⟨rfl, rfl⟩
          · exact Or.inl h1
          · exact Or.inr ⟨Nat.le_refl _, a, by simp, hsafe, rfl⟩
        · simp only [hsafe] at h1; exact Or.inl (by simpa using h1)
      · refine Or.inr ⟨by omega, b, ?_, hs, hk⟩
        have : j - i = (j - (i + 1)) + 1 := by omega
        rw [this]; simpa using hb

/-- a declared-safe argument that decoded is in the log from then on, whatever happens later -/
theorem run_keeps (r : Request) : ∀ (args : List ArgSpec) (i : Nat) (logged : List (Bytes × Nat)) (x : Bytes × Nat),
    x ∈ logged → x ∈ (run r i args logged).logged
  | [], _, _, _, h => by simpa [run] using h
  | a :: rest, i, logged, x, h => by
    simp only [run]
    cases h0 : decodeArg r i a with
    | error e => exact h
    | ok u =>
      apply run_keeps r rest (i + 1)
      by_cases hsafe : a.safe = true
      · simp [hsafe, h]
      · simp [hsafe, h]

theorem run_records (r : Request) : ∀ (pre : List ArgSpec) (a : ArgSpec) (post : List ArgSpec) (i : Nat)
    (logged : List (Bytes × Nat)),
    (∀ k b, pre[k]? = some b → decodeArg r (i + k) b = .ok ()) →
    decodeArg r (i + pre.length) a = .ok () → a.safe = true →
    (safeKey a, i + pre.length) ∈ (run r i (pre ++ a :: post) logged).logged
  | [], a, post, i, logged, _, ha, hs => by
    simp only [List.nil_append, run]
    rw [show i + ([] : List ArgSpec).length = i by simp] at ha ⊢
    rw [ha]
    apply run_keeps
    simp [hs]
  | b :: pre, a, post, i, logged, hpre, ha, hs => by
    have h0 : decodeArg r i b = .ok () := by simpa using hpre 0 b rfl
    simp only [List.cons_append, run, h0]
    have := run_records r pre a post (i + 1) (if b.safe then logged ++ [(safeKey b, i)] else logged)
      (by intro k c hc
          have := hpre (k + 1) c (by simpa using hc)
          rw [show i + 1 + k = i + (k + 1) by omega]; exact this)
      (by rw [show i + 1 + pre.length = i + (b :: pre).length by simp; omega]; exact ha) hs
    rw [show i + (b :: pre).length = i + 1 + pre.length by simp; omega]; exact this

theorem run_error_from (r : Request) : ∀ (args : List ArgSpec) (i : Nat) (logged : List (Bytes × Nat)) (e : Err),
    (run r i args logged).error = some e → ∃ k a, args[k]? = some a ∧ decodeArg r (i + k) a = .error e ∧
      ∀ k' b, k' < k → args[k']? = some b → decodeArg r (i + k') b = .ok ()
  | [], _, _, _, h => by simp [run] at h
  | a :: rest, i, logged, e, h => by
    simp only [run] at h
    cases h0 : decodeArg r i a with
    | error e0 =>
      simp only [h0] at h; cases h
      exact ⟨0, a, rfl, by simpa using h0, by intro k' b hk; omega⟩
    | ok u =>
      simp only [h0] at h
      obtain ⟨k, b, hb, he, hpre⟩ := run_error_from r rest (i + 1) _ e h
      refine ⟨k + 1, b, by simpa using hb, by rw [show i + (k + 1) = i + 1 + k by omega]; exact he, ?_⟩
      intro k' c hk' hc
      cases k' with
      | zero => simp at hc; subst hc; simpa using h0
      | succ k' =>
        have := hpre k' c (by omega) (by simpa using hc)
        rw [show i + (k' + 1) = i + 1 + k' by omega]; exact this

end ConjureVerif.Endpoint
