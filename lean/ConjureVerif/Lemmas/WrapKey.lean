import ConjureVerif.Lemmas.WrapBase
import ConjureVerif.Props.C12
set_option linter.unusedSimpArgs false
namespace ConjureVerif.Wrap
open ConjureVerif.Data

/-- variant names identify variants: looking a variant's name up finds that variant -/
def Distinct (vs : Variants) : Prop :=
  ∀ i name k p, vs.get? i = some (name, k, p) → vs.find? name 0 = some (i, k, p)

/-- values that may be map keys, with the side conditions under which their text parses back -/
inductive KeyOk : Ty → Val → Prop
  | bool (b : Bool) : KeyOk .bool (.bool b)
  | int (w : IntW) (n : Int) : w.contains n = true → KeyOk (.int w) (.int n)
  | f64 (d : Dbl) : KeyOk .f64 (.f64 d)
  | f32 (d : Dbl) : KeyOk .f32 (.f32 d)
  | str (s : List Nat) : KeyOk .str (.str s)
  | bytes (bs : List Nat) : Bytes bs → KeyOk .bytes (.bytes bs)
  | uuid (bs : List Nat) : bs.length = 16 → Bytes bs → KeyOk .uuid (.uuid bs)
  | newtype (t : Ty) (v : Val) : KeyOk t v → KeyOk (.newtype t) (.newtype v)
  | unitVariant (vs : Variants) (i : Nat) (name : List Nat) (pty : Ty) :
      vs.get? i = some (name, .unit, pty) → Distinct vs → KeyOk (.enum vs) (.variant i .unit)

theorem deKey_dblKey_f64 (d : Dbl) : deKey .f64 (dblKey d) = .ok (.f64 d) := by
  cases d <;> simp [dblKey, deKey, txtNaN, txtInf, txtNegInf]

theorem deKey_dblKey_f32 (d : Dbl) : deKey .f32 (dblKey d) = .ok (.f32 d) := by
  cases d <;> simp [dblKey, deKey, txtNaN, txtInf, txtNegInf]

/-- **keys**: every key-able value is written as a string that parses back to it -/
theorem deKey_serKey {kt : Ty} {k : Val} (h : KeyOk kt k) :
    ∃ key, serKey kt k = some key ∧ deKey kt key = .ok k := by
  induction h with
  | bool b => cases b <;> exact ⟨_, rfl, by simp [deKey, txtTrue, txtFalse]⟩
  | int w n hw =>
    refine ⟨.text (Dec.showInt n), rfl, ?_⟩
    simp [deKey, Dec.parseJson_showInt, hw]
  | f64 d => exact ⟨dblKey d, rfl, deKey_dblKey_f64 d⟩
  | f32 d => exact ⟨dblKey d, rfl, deKey_dblKey_f32 d⟩
  | str s => exact ⟨.text s, rfl, rfl⟩
  | bytes bs hb =>
    refine ⟨.text (Base64.encode bs), rfl, ?_⟩
    simp [deKey, Base64.decode_encode bs hb]
  | uuid bs hl hb =>
    refine ⟨.text (Plain.uuidText bs), rfl, ?_⟩
    simp [deKey, C12.C12_roundtrip_uuid bs hl hb]
  | newtype t v _ ih =>
    obtain ⟨key, h1, h2⟩ := ih
    exact ⟨key, by simp [serKey, h1], by simp [deKey, h2]⟩
  | unitVariant vs i name pty hg hd =>
    refine ⟨.text name, by simp [serKey, hg], ?_⟩
    simp [deKey, hd i name .unit pty hg]

end ConjureVerif.Wrap
