import ConjureVerif.Lemmas.WrapKey
set_option linter.unusedSimpArgs false
namespace ConjureVerif.Wrap
open ConjureVerif.Data

mutual
  /-- `v` is a value of serde type `t` (with the side conditions Conjure's data model guarantees:
      integers fit their width, bytes are bytes, an optional's payload never serializes to `null`,
      field and variant names are distinct, map keys are key-able) -/
  inductive HasTy : Ty → Val → Prop
    | bool (b : Bool) : HasTy .bool (.bool b)
    | int (w : IntW) (n : Int) : w.contains n = true → HasTy (.int w) (.int n)
    | f64 (d : Dbl) : HasTy .f64 (.f64 d)
    | f32 (d : Dbl) : HasTy .f32 (.f32 d)
    | str (s : List Nat) : HasTy .str (.str s)
    | bytes (bs : List Nat) : Bytes bs → HasTy .bytes (.bytes bs)
    | unit : HasTy .unit .unit
    | uuid (bs : List Nat) : bs.length = 16 → Bytes bs → HasTy .uuid (.uuid bs)
    | none (t : Ty) : HasTy (.option t) .none
    | some (t : Ty) (v : Val) : HasTy t v → (∀ fmt, ser fmt t v ≠ some .null) → HasTy (.option t) (.some v)
    | seq (t : Ty) (vs : Vals) : HasTyL t vs → HasTy (.seq t) (.seq vs)
    | tuple (ts : Tys) (vs : Vals) : HasTyT ts vs → HasTy (.tuple ts) (.tuple vs)
    | map (kt vt : Ty) (es : Entries) : HasTyE kt vt es → HasTy (.map kt vt) (.map es)
    | unitStruct : HasTy .unitStruct .unitStruct
    | newtype (t : Ty) (v : Val) : HasTy t v → HasTy (.newtype t) (.newtype v)
    | tupleStruct (ts : Tys) (vs : Vals) : HasTyT ts vs → HasTy (.tupleStruct ts) (.tupleStruct vs)
    | struct (fs : Fields) (vs : FVals) : fs.names.Nodup → HasTyF fs vs → HasTy (.struct fs) (.struct vs)
    | unitVariant (vs : Variants) (i : Nat) (name : List Nat) (pty : Ty) :
        vs.get? i = some (name, .unit, pty) → Distinct vs → HasTy (.enum vs) (.variant i .unit)
    | newtypeVariant (vs : Variants) (i : Nat) (name : List Nat) (pty : Ty) (p : Val) :
        vs.get? i = some (name, .newtype, pty) → Distinct vs → HasTy pty p → HasTy (.enum vs) (.variant i p)
    | tupleVariant (vs : Variants) (i : Nat) (name : List Nat) (ts : Tys) (ps : Vals) :
        vs.get? i = some (name, .tuple, .tuple ts) → Distinct vs → HasTyT ts ps →
        HasTy (.enum vs) (.variant i (.tuple ps))
    | structVariant (vs : Variants) (i : Nat) (name : List Nat) (fs : Fields) (ps : FVals) :
        vs.get? i = some (name, .struct, .struct fs) → Distinct vs → fs.names.Nodup → HasTyF fs ps →
        HasTy (.enum vs) (.variant i (.struct ps))
  inductive HasTyL : Ty → Vals → Prop
    | nil (t : Ty) : HasTyL t .nil
    | cons (t : Ty) (v : Val) (vs : Vals) : HasTy t v → HasTyL t vs → HasTyL t (.cons v vs)
  inductive HasTyT : Tys → Vals → Prop
    | nil : HasTyT .nil .nil
    | cons (t : Ty) (ts : Tys) (v : Val) (vs : Vals) : HasTy t v → HasTyT ts vs → HasTyT (.cons t ts) (.cons v vs)
  inductive HasTyF : Fields → FVals → Prop
    | nil : HasTyF .nil .nil
    | cons (n : List Nat) (t : Ty) (fs : Fields) (v : Val) (vs : FVals) :
        HasTy t v → HasTyF fs vs → HasTyF (.cons n t fs) (.cons v vs)
  inductive HasTyE : Ty → Ty → Entries → Prop
    | nil (kt vt : Ty) : HasTyE kt vt .nil
    | cons (kt vt : Ty) (k v : Val) (es : Entries) :
        KeyOk kt k → HasTy vt v → HasTyE kt vt es → HasTyE kt vt (.cons k v es)
end

theorem HasTyF.sameLen : ∀ {fs : Fields} {vs : FVals}, HasTyF fs vs → SameLen fs vs
  | _, _, .nil => trivial
  | _, _, .cons _ _ _ _ _ _ h => by simp only [SameLen]; exact HasTyF.sameLen h

end ConjureVerif.Wrap
