import ConjureVerif.Model.Call
import ConjureVerif.Props.C07
set_option linter.unusedSimpArgs false
namespace ConjureVerif.Call
open ConjureVerif ConjureVerif.Endpoint ConjureVerif.Uri ConjureVerif.C07

/-- a call the generator can emit: literal template segments contain none of `/ ? #`, every text and key is a
byte string -/
structure CallWF (tmpl : List TSeg) (args : List CArg) : Prop where
  lits : ∀ s, TSeg.lit s ∈ tmpl → 47 ∉ s ∧ 63 ∉ s ∧ 35 ∉ s
  texts : ∀ a ∈ args, ∀ t ∈ a.texts, Bytes t
  keys : ∀ a ∈ args, Bytes a.spec.name

theorem pathText_bytes {tmpl : List TSeg} {args : List CArg} (wf : CallWF tmpl args) (n : Endpoint.Bytes) :
    Bytes (pathText args n) := by
  unfold pathText
  cases h : args.find? (fun a => a.spec.kind == .path && a.spec.name == n) with
  | none => intro b hb; cases hb
  | some a =>
    have ha := List.mem_of_find?_eq_some h
    simp only
    cases ht : a.texts with
    | nil => intro b hb; simp [List.headD] at hb
    | cons t ts => simp only [List.headD]; exact wf.texts a ha t (by simp [ht])

theorem uriReq_wf {tmpl : List TSeg} {args : List CArg} (wf : CallWF tmpl args) : WF (uriReq tmpl args) where
  lits := by
    intro s hs
    simp only [uriReq, List.mem_map] at hs
    obtain ⟨sg, hsg, he⟩ := hs
    cases sg with
    | lit s' => simp at he; subst he; exact wf.lits _ hsg
    | param n => simp at he
  params := by
    intro v hv
    simp only [uriReq, List.mem_map] at hv
    obtain ⟨sg, hsg, he⟩ := hv
    cases sg with
    | lit s' => simp at he
    | param n => simp at he; subst he; exact pathText_bytes wf n
  keys := by
    intro kv hkv
    simp only [uriReq, queryPairs, List.mem_flatMap, List.mem_filter, List.mem_map] at hkv
    obtain ⟨a, ⟨ha, -⟩, t, ht, rfl⟩ := hkv
    exact ⟨wf.keys a ha, wf.texts a ha t ht⟩

/-- the path parameters the router extracts for this call -/
def routed (tbl : List Nat) (tmpl : List TSeg) (args : List CArg) : List (Endpoint.Bytes × Endpoint.Bytes) :=
  tmpl.filterMap (fun s => match s with
    | .lit _ => none
    | .param n => some (n, encode tbl (pathText args n)))

theorem route_self (tbl : List Nat) (args : List CArg) : ∀ tmpl : List TSeg,
    route tmpl ((tmpl.map (fun s => match s with
      | .lit s => Seg.lit s
      | .param n => Seg.param (pathText args n))).map (Seg.raw tbl)) = some (routed tbl tmpl args)
  | [] => rfl
  | .lit s :: ts => by
    simp only [List.map_cons, Seg.raw, route, beq_self_eq_true, if_true]
    rw [route_self tbl args ts]; simp [routed]
  | .param n :: ts => by
    simp only [List.map_cons, Seg.raw, route]
    rw [route_self tbl args ts]; simp [routed]

/-- **routing**: the router accepts the URI the client built and hands each template parameter the escaped text -/
theorem route_uri (tbl : List Nat) (g : Good tbl) (tmpl : List TSeg) (args : List CArg) (wf : CallWF tmpl args) :
    route tmpl (rawSegments (uriBytes tbl tmpl args)) = some (routed tbl tmpl args) := by
  unfold uriBytes
  rw [C07_segments tbl g (uriReq tmpl args) (uriReq_wf wf)]
  exact route_self tbl args tmpl

theorem routed_lookup (tbl : List Nat) (args : List CArg) (n : Endpoint.Bytes) : ∀ tmpl : List TSeg,
    TSeg.param n ∈ tmpl → (routed tbl tmpl args).lookup n = some (encode tbl (pathText args n))
  | [], h => by cases h
  | .lit s :: ts, h => by
    have : TSeg.param n ∈ ts := by simpa using h
    simpa [routed] using routed_lookup tbl args n ts this
  | .param m :: ts, h => by
    by_cases hm : n = m
    · subst hm; simp [routed, List.lookup]
    · have : TSeg.param n ∈ ts := by
        rcases List.mem_cons.mp h with h | h
        · cases h; exact absurd rfl hm
        · exact h
      have ih := routed_lookup tbl args n ts this
      simp only [routed, List.filterMap_cons, List.lookup]
      have : (n == m) = false := by simpa using hm
      rw [this]; exact ih

/-! ### query -/

theorem filter_flatMap_key (args : List CArg) (key : Endpoint.Bytes) :
    ((args.flatMap (fun a => a.texts.map (fun t => (a.spec.name, t)))).filter (fun kv => kv.1 == key)).map (·.2) =
    (args.filter (fun a => a.spec.name == key)).flatMap (·.texts) := by
  induction args with
  | nil => rfl
  | cons a rest ih =>
    simp only [List.flatMap_cons, List.filter_append, List.map_append, ih]
    by_cases h : a.spec.name == key
    · have : (a.texts.map (fun t => (a.spec.name, t))).filter (fun kv => kv.1 == key) = a.texts.map (fun t => (a.spec.name, t)) := by
        apply List.filter_eq_self.mpr; intro kv hkv
        simp only [List.mem_map] at hkv; obtain ⟨t, -, rfl⟩ := hkv; exact h
      rw [this]; simp [List.filter_cons, h, Function.comp_def]
    · have : (a.texts.map (fun t => (a.spec.name, t))).filter (fun kv => kv.1 == key) = [] := by
        apply List.filter_eq_nil_iff.mpr; intro kv hkv
        simp only [List.mem_map] at hkv; obtain ⟨t, -, rfl⟩ := hkv; exact h
      rw [this]; simp [List.filter_cons, h]

/-- the values the server finds under `key` are the supplied texts of the query arguments with that key, in order -/
theorem query_values (tbl : List Nat) (g : Good tbl) (tmpl : List TSeg) (args : List CArg) (wf : CallWF tmpl args)
    (r : Request) (hq : r.query = queryOf (uriBytes tbl tmpl args)) (key : Endpoint.Bytes) :
    queryVals r key =
      ((args.filter (fun a => a.spec.kind == .query)).filter (fun a => a.spec.name == key)).flatMap (·.texts) := by
  have hp := C07_pairs tbl g (uriReq tmpl args) (uriReq_wf wf)
  unfold queryVals
  rw [hq]
  unfold uriBytes
  by_cases hne : (uriReq tmpl args).query = []
  · rw [hp.1 hne]
    have : queryPairs args = [] := hne
    rw [← filter_flatMap_key]
    unfold queryPairs at this
    rw [this]; rfl
  · obtain ⟨q, h1, h2⟩ := hp.2 hne
    rw [h1]
    simp only
    rw [h2]
    exact filter_flatMap_key _ key

/-! ### headers -/

theorem clientHeaders_vals : ∀ (args : List CArg) (hs : List (Endpoint.Bytes × Endpoint.Bytes)) (name : Endpoint.Bytes),
    clientHeaders args = some hs → name ≠ authorization → name ≠ cookie →
    (hs.filter (fun h => h.1 == name)).map (·.2) =
      ((args.filter (fun a => a.spec.kind == .header)).filter (fun a => a.spec.name == name)).flatMap (·.texts)
  | [], hs, name, h, _, _ => by simp [clientHeaders] at h; subst h; rfl
  | a :: rest, hs, name, h, ha, hc => by
    unfold clientHeaders at h
    cases hk : a.spec.kind <;> simp only [hk] at h
    case header =>
      split at h
      · cases hr : clientHeaders rest with
        | none => simp [hr] at h
        | some hs' =>
          simp only [hr, Option.map_some, Option.some.injEq] at h
          subst h
          have ih := clientHeaders_vals rest hs' name hr ha hc
          simp only [List.filter_append, List.map_append, ih]
          by_cases hn : a.spec.name == name
          · have : (a.texts.map (fun t => (a.spec.name, t))).filter (fun h => h.1 == name) = a.texts.map (fun t => (a.spec.name, t)) := by
              apply List.filter_eq_self.mpr; intro kv hkv
              simp only [List.mem_map] at hkv; obtain ⟨t, -, rfl⟩ := hkv; exact hn
            rw [this]; simp [List.filter_cons, hk, hn, Function.comp_def]
          · have : (a.texts.map (fun t => (a.spec.name, t))).filter (fun h => h.1 == name) = [] := by
              apply List.filter_eq_nil_iff.mpr; intro kv hkv
              simp only [List.mem_map] at hkv; obtain ⟨t, -, rfl⟩ := hkv; exact hn
            rw [this]; simp [List.filter_cons, hk, hn]
      · cases h
    case auth =>
      cases hr : clientHeaders rest with
      | none => simp [hr] at h
      | some hs' =>
        simp only [hr, Option.map_some, Option.some.injEq] at h
        subst h
        have ih := clientHeaders_vals rest hs' name hr ha hc
        have : (authorization == name) = false := by
          cases hh : authorization == name
          · rfl
          · exact absurd (by simpa using hh : authorization = name).symm ha
        simp [List.filter_cons, this, hk, ih]
    case cookie =>
      cases hr : clientHeaders rest with
      | none => simp [hr] at h
      | some hs' =>
        simp only [hr, Option.map_some, Option.some.injEq] at h
        subst h
        have ih := clientHeaders_vals rest hs' name hr ha hc
        have : (cookie == name) = false := by
          cases hh : cookie == name
          · rfl
          · exact absurd (by simpa using hh : cookie = name).symm hc
        simp [List.filter_cons, this, hk, ih]
    all_goals
      have ih := clientHeaders_vals rest hs name h ha hc
      simp [List.filter_cons, hk, ih]

/-- the client refuses exactly when some header text holds a byte `HeaderValue` cannot carry -/
theorem clientHeaders_none_iff : ∀ args : List CArg,
    clientHeaders args = none ↔ ∃ a ∈ args, a.spec.kind = .header ∧ ∃ t ∈ a.texts, headerValueOk t = false
  | [] => by simp [clientHeaders]
  | a :: rest => by
    have ih := clientHeaders_none_iff rest
    unfold clientHeaders
    cases hk : a.spec.kind <;> simp only [hk]
    case header =>
      by_cases hall : a.texts.all headerValueOk = true
      · simp only [hall, if_true, Option.map_eq_none_iff, ih]
        constructor
        · rintro ⟨b, hb, h⟩; exact ⟨b, List.mem_cons_of_mem _ hb, h⟩
        · rintro ⟨b, hb, hbk, t, ht, hf⟩
          rcases List.mem_cons.mp hb with rfl | hb
          · have := List.all_eq_true.mp hall t ht; rw [hf] at this; cases this
          · exact ⟨b, hb, hbk, t, ht, hf⟩
      · simp only [hall, Bool.false_eq_true, if_false, true_iff]
        have : ∃ t ∈ a.texts, headerValueOk t = false := by
          have hf : a.texts.all headerValueOk = false := by simpa using hall
          obtain ⟨t, ht, hf⟩ := List.all_eq_false.mp hf
          exact ⟨t, ht, by simpa using hf⟩
        exact ⟨a, by simp, hk, this⟩
    all_goals
      simp only [Option.map_eq_none_iff, ih]
      constructor
      · rintro ⟨b, hb, h⟩; exact ⟨b, List.mem_cons_of_mem _ hb, h⟩
      · rintro ⟨b, hb, hbk, h⟩
        rcases List.mem_cons.mp hb with rfl | hb
        · rw [hk] at hbk; cases hbk
        · exact ⟨b, hb, hbk, h⟩

end ConjureVerif.Call

namespace ConjureVerif.Call
open ConjureVerif ConjureVerif.Endpoint ConjureVerif.Uri ConjureVerif.C07

theorem authorization_ne_cookie : authorization ≠ cookie := by decide

/-- the `Authorization` values the client emits are exactly those of the auth arguments -/
theorem clientHeaders_auth_vals : ∀ (args : List CArg) (hs : List (Endpoint.Bytes × Endpoint.Bytes)),
    clientHeaders args = some hs →
    (∀ a ∈ args, a.spec.kind = .header → a.spec.name ≠ authorization) →
    (hs.filter (fun h => h.1 == authorization)).map (·.2) =
      (args.filter (fun a => a.spec.kind == .auth)).map (fun a => bearer ++ a.texts.headD [])
  | [], hs, h, _ => by simp [clientHeaders] at h; subst h; rfl
  | a :: rest, hs, h, hres => by
    unfold clientHeaders at h
    have hres' : ∀ b ∈ rest, b.spec.kind = .header → b.spec.name ≠ authorization :=
      fun b hb => hres b (List.mem_cons_of_mem _ hb)
    cases hk : a.spec.kind <;> simp only [hk] at h
    case header =>
      split at h
      · cases hr : clientHeaders rest with
        | none => simp [hr] at h
        | some hs' =>
          simp only [hr, Option.map_some, Option.some.injEq] at h
          subst h
          have ih := clientHeaders_auth_vals rest hs' hr hres'
          have hn : (a.spec.name == authorization) = false := by
            cases hh : a.spec.name == authorization
            · rfl
            · exact absurd (eq_of_beq hh) (hres a (by simp) hk)
          have : (a.texts.map (fun t => (a.spec.name, t))).filter (fun h => h.1 == authorization) = [] := by
            apply List.filter_eq_nil_iff.mpr; intro kv hkv
            simp only [List.mem_map] at hkv; obtain ⟨t, -, rfl⟩ := hkv; simp [hn]
          simp only [List.filter_append, List.map_append, this, List.map_nil, List.nil_append, ih]
          simp [List.filter_cons, hk]
      · cases h
    case auth =>
      cases hr : clientHeaders rest with
      | none => simp [hr] at h
      | some hs' =>
        simp only [hr, Option.map_some, Option.some.injEq] at h
        subst h
        have ih := clientHeaders_auth_vals rest hs' hr hres'
        simp [List.filter_cons, hk, ih]
    case cookie =>
      cases hr : clientHeaders rest with
      | none => simp [hr] at h
      | some hs' =>
        simp only [hr, Option.map_some, Option.some.injEq] at h
        subst h
        have ih := clientHeaders_auth_vals rest hs' hr hres'
        have : (cookie == authorization) = false := by decide
        simp [List.filter_cons, this, hk, ih]
    all_goals
      have ih := clientHeaders_auth_vals rest hs h hres'
      simp [List.filter_cons, hk, ih]

/-- and likewise the `Cookie` values are those of the cookie-auth arguments -/
theorem clientHeaders_cookie_vals : ∀ (args : List CArg) (hs : List (Endpoint.Bytes × Endpoint.Bytes)),
    clientHeaders args = some hs →
    (∀ a ∈ args, a.spec.kind = .header → a.spec.name ≠ cookie) →
    (hs.filter (fun h => h.1 == cookie)).map (·.2) =
      (args.filter (fun a => a.spec.kind == .cookie)).map (fun a => a.spec.name ++ a.texts.headD [])
  | [], hs, h, _ => by simp [clientHeaders] at h; subst h; rfl
  | a :: rest, hs, h, hres => by
    unfold clientHeaders at h
    have hres' : ∀ b ∈ rest, b.spec.kind = .header → b.spec.name ≠ cookie :=
      fun b hb => hres b (List.mem_cons_of_mem _ hb)
    cases hk : a.spec.kind <;> simp only [hk] at h
    case header =>
      split at h
      · cases hr : clientHeaders rest with
        | none => simp [hr] at h
        | some hs' =>
          simp only [hr, Option.map_some, Option.some.injEq] at h
          subst h
          have ih := clientHeaders_cookie_vals rest hs' hr hres'
          have hn : (a.spec.name == cookie) = false := by
            cases hh : a.spec.name == cookie
            · rfl
            · exact absurd (eq_of_beq hh) (hres a (by simp) hk)
          have : (a.texts.map (fun t => (a.spec.name, t))).filter (fun h => h.1 == cookie) = [] := by
            apply List.filter_eq_nil_iff.mpr; intro kv hkv
            simp only [List.mem_map] at hkv; obtain ⟨t, -, rfl⟩ := hkv; simp [hn]
          simp only [List.filter_append, List.map_append, this, List.map_nil, List.nil_append, ih]
          simp [List.filter_cons, hk]
      · cases h
    case auth =>
      cases hr : clientHeaders rest with
      | none => simp [hr] at h
      | some hs' =>
        simp only [hr, Option.map_some, Option.some.injEq] at h
        subst h
        have ih := clientHeaders_cookie_vals rest hs' hr hres'
        have : (authorization == cookie) = false := by decide
        simp [List.filter_cons, this, hk, ih]
    case cookie =>
      cases hr : clientHeaders rest with
      | none => simp [hr] at h
      | some hs' =>
        simp only [hr, Option.map_some, Option.some.injEq] at h
        subst h
        have ih := clientHeaders_cookie_vals rest hs' hr hres'
        simp [List.filter_cons, hk, ih]
    all_goals
      have ih := clientHeaders_cookie_vals rest hs h hres'
      simp [List.filter_cons, hk, ih]

end ConjureVerif.Call
