import ConjureVerif.Lemmas.WrapRoundTrip
set_option linter.unusedSimpArgs false
namespace ConjureVerif.Wrap
open ConjureVerif.Data

mutual
  /-- a document that plain JSON can carry: no native binary, no non-finite number -/
  def JsonClean : Doc → Prop
    | .bin _ => False
    | .dbl .nan => False
    | .dbl .posInf => False
    | .dbl .negInf => False
    | .arr xs => JsonCleanL xs
    | .obj ms => JsonCleanM ms
    | _ => True
  def JsonCleanL : Docs → Prop
    | .nil => True
    | .cons x xs => JsonClean x ∧ JsonCleanL xs
  def JsonCleanM : Members → Prop
    | .nil => True
    | .cons _ v ms => JsonClean v ∧ JsonCleanM ms
end

mutual
  /-- all member names of a document, in document order -/
  def keysOf : Doc → List Key
    | .arr xs => keysOfL xs
    | .obj ms => keysOfM ms
    | _ => []
  def keysOfL : Docs → List Key
    | .nil => []
    | .cons x xs => keysOf x ++ keysOfL xs
  def keysOfM : Members → List Key
    | .nil => []
    | .cons k v ms => k :: (keysOf v ++ keysOfM ms)
end

theorem jsonClean_serDbl (d : Dbl) : JsonClean (serDbl .json d) := by
  cases d <;> simp [serDbl, JsonClean]

theorem keysOf_serDbl (fmt : Fmt) (d : Dbl) : keysOf (serDbl fmt d) = [] := by
  cases fmt <;> cases d <;> simp [serDbl, keysOf]

theorem keysOf_serBytes (fmt : Fmt) (bs : List Nat) : keysOf (serBytes fmt bs) = [] := by
  cases fmt <;> simp [serBytes, keysOf]

mutual
  theorem clean (fmt : Fmt) (hf : fmt = .json) : ∀ {t : Ty} {v : Val}, HasTy t v → ∀ d, ser fmt t v = some d → JsonClean d
    | _, _, .bool b, d, h => by simp [ser] at h; subst h; simp [JsonClean]
    | _, _, .int w n _, d, h => by simp [ser] at h; subst h; simp [JsonClean]
    | _, _, .f64 x, d, h => by subst hf; simp [ser] at h; subst h; exact jsonClean_serDbl x
    | _, _, .f32 x, d, h => by subst hf; simp [ser] at h; subst h; exact jsonClean_serDbl x
    | _, _, .str s, d, h => by simp [ser] at h; subst h; simp [JsonClean]
    | _, _, .bytes bs _, d, h => by subst hf; simp [ser, serBytes] at h; subst h; simp [JsonClean]
    | _, _, .unit, d, h => by simp [ser] at h; subst h; simp [JsonClean]
    | _, _, .uuid bs _ _, d, h => by subst hf; simp [ser] at h; subst h; simp [JsonClean]
    | _, _, .none t, d, h => by simp [ser] at h; subst h; simp [JsonClean]
    | _, _, .some t v hv _, d, h => by simp only [ser] at h; exact clean fmt hf hv d h
    | _, _, .seq t vs hl, d, h => by
      simp only [ser, Option.map_eq_some_iff] at h
      obtain ⟨ds, h1, rfl⟩ := h
      simp only [JsonClean]; exact cleanL fmt hf hl ds h1
    | _, _, .tuple ts vs ht, d, h => by
      simp only [ser, Option.map_eq_some_iff] at h
      obtain ⟨ds, h1, rfl⟩ := h
      simp only [JsonClean]; exact cleanT fmt hf ht ds h1
    | _, _, .map kt vt es he, d, h => by
      simp only [ser, Option.map_eq_some_iff] at h
      obtain ⟨ms, h1, rfl⟩ := h
      simp only [JsonClean]; exact cleanE fmt hf he ms h1
    | _, _, .unitStruct, d, h => by simp [ser] at h; subst h; simp [JsonClean]
    | _, _, .newtype t v hv, d, h => by simp only [ser] at h; exact clean fmt hf hv d h
    | _, _, .tupleStruct ts vs ht, d, h => by
      simp only [ser, Option.map_eq_some_iff] at h
      obtain ⟨ds, h1, rfl⟩ := h
      simp only [JsonClean]; exact cleanT fmt hf ht ds h1
    | _, _, .struct fs vs _ hfs, d, h => by
      simp only [ser, Option.map_eq_some_iff] at h
      obtain ⟨ms, h1, rfl⟩ := h
      simp only [JsonClean]; exact cleanF fmt hf hfs ms h1
    | _, _, .unitVariant vs i name pty hg _, d, h => by
      simp [ser, hg] at h; subst h; simp [JsonClean]
    | _, _, .newtypeVariant vs i name pty p hg _ hp, d, h => by
      simp only [ser, hg, Option.map_eq_some_iff] at h
      obtain ⟨x, h1, rfl⟩ := h
      simp only [JsonClean, JsonCleanM, and_true]; exact clean fmt hf hp x h1
    | _, _, .tupleVariant vs i name ts ps hg _ ht, d, h => by
      simp only [ser, hg, Option.map_eq_some_iff] at h
      obtain ⟨x, h1, rfl⟩ := h
      obtain ⟨ds, h2, rfl⟩ := h1
      simp only [JsonClean, JsonCleanM, and_true]; exact cleanT fmt hf ht ds h2
    | _, _, .structVariant vs i name fs ps hg _ _ hfs, d, h => by
      simp only [ser, hg, Option.map_eq_some_iff] at h
      obtain ⟨x, h1, rfl⟩ := h
      obtain ⟨ms, h2, rfl⟩ := h1
      simp only [JsonClean, JsonCleanM, and_true]; exact cleanF fmt hf hfs ms h2
  theorem cleanL (fmt : Fmt) (hf : fmt = .json) : ∀ {t : Ty} {vs : Vals}, HasTyL t vs → ∀ ds, serL fmt t vs = some ds → JsonCleanL ds
    | _, _, .nil t, ds, h => by simp [serL] at h; subst h; simp [JsonCleanL]
    | _, _, .cons t v vs hv hl, ds, h => by
      simp only [serL] at h
      cases h1 : ser fmt t v with
      | none => simp [h1] at h
      | some d =>
        cases h2 : serL fmt t vs with
        | none => simp [h1, h2] at h
        | some ds' =>
          simp [h1, h2] at h; subst h
          exact ⟨clean fmt hf hv d h1, cleanL fmt hf hl ds' h2⟩
  theorem cleanT (fmt : Fmt) (hf : fmt = .json) : ∀ {ts : Tys} {vs : Vals}, HasTyT ts vs → ∀ ds, serT fmt ts vs = some ds → JsonCleanL ds
    | _, _, .nil, ds, h => by simp [serT] at h; subst h; simp [JsonCleanL]
    | _, _, .cons t ts v vs hv ht, ds, h => by
      simp only [serT] at h
      cases h1 : ser fmt t v with
      | none => simp [h1] at h
      | some d =>
        cases h2 : serT fmt ts vs with
        | none => simp [h1, h2] at h
        | some ds' =>
          simp [h1, h2] at h; subst h
          exact ⟨clean fmt hf hv d h1, cleanT fmt hf ht ds' h2⟩
  theorem cleanE (fmt : Fmt) (hf : fmt = .json) : ∀ {kt vt : Ty} {es : Entries}, HasTyE kt vt es → ∀ ms, serE fmt kt vt es = some ms → JsonCleanM ms
    | _, _, _, .nil kt vt, ms, h => by simp [serE] at h; subst h; simp [JsonCleanM]
    | _, _, _, .cons kt vt k v es _ hv he, ms, h => by
      simp only [serE] at h
      cases h0 : serKey kt k with
      | none => simp [h0] at h
      | some key =>
        cases h1 : ser fmt vt v with
        | none => simp [h0, h1] at h
        | some d =>
          cases h2 : serE fmt kt vt es with
          | none => simp [h0, h1, h2] at h
          | some ms' =>
            simp [h0, h1, h2] at h; subst h
            exact ⟨clean fmt hf hv d h1, cleanE fmt hf he ms' h2⟩
  theorem cleanF (fmt : Fmt) (hf : fmt = .json) : ∀ {fs : Fields} {vs : FVals}, HasTyF fs vs → ∀ ms, serF fmt fs vs = some ms → JsonCleanM ms
    | _, _, .nil, ms, h => by simp [serF] at h; subst h; simp [JsonCleanM]
    | _, _, .cons n t fs v vs hv hfs, ms, h => by
      simp only [serF] at h
      cases h1 : ser fmt t v with
      | none => simp [h1] at h
      | some d =>
        cases h2 : serF fmt fs vs with
        | none => simp [h1, h2] at h
        | some ms' =>
          simp [h1, h2] at h; subst h
          exact ⟨clean fmt hf hv d h1, cleanF fmt hf hfs ms' h2⟩
end

mutual
  /-- the Smile document has the same member names as the JSON document, in the same order -/
  theorem sameKeys : ∀ {t : Ty} {v : Val}, HasTy t v → ∀ dj ds, ser .json t v = some dj → ser .smile t v = some ds →
      keysOf dj = keysOf ds
    | _, _, .bool b, dj, ds, h1, h2 => by simp [ser] at h1 h2; subst h1 h2; rfl
    | _, _, .int w n _, dj, ds, h1, h2 => by simp [ser] at h1 h2; subst h1 h2; rfl
    | _, _, .f64 x, dj, ds, h1, h2 => by simp [ser] at h1 h2; subst h1 h2; simp [keysOf_serDbl]
    | _, _, .f32 x, dj, ds, h1, h2 => by simp [ser] at h1 h2; subst h1 h2; simp [keysOf_serDbl]
    | _, _, .str s, dj, ds, h1, h2 => by simp [ser] at h1 h2; subst h1 h2; rfl
    | _, _, .bytes bs _, dj, ds, h1, h2 => by simp [ser] at h1 h2; subst h1 h2; simp [keysOf_serBytes]
    | _, _, .unit, dj, ds, h1, h2 => by simp [ser] at h1 h2; subst h1 h2; rfl
    | _, _, .uuid bs _ _, dj, ds, h1, h2 => by simp [ser] at h1 h2; subst h1 h2; simp [keysOf]
    | _, _, .none t, dj, ds, h1, h2 => by simp [ser] at h1 h2; subst h1 h2; rfl
    | _, _, .some t v hv _, dj, ds, h1, h2 => by simp only [ser] at h1 h2; exact sameKeys hv dj ds h1 h2
    | _, _, .seq t vs hl, dj, ds, h1, h2 => by
      simp only [ser, Option.map_eq_some_iff] at h1 h2
      obtain ⟨a, ha, rfl⟩ := h1; obtain ⟨b, hb, rfl⟩ := h2
      simp only [keysOf]; exact sameKeysL hl a b ha hb
    | _, _, .tuple ts vs ht, dj, ds, h1, h2 => by
      simp only [ser, Option.map_eq_some_iff] at h1 h2
      obtain ⟨a, ha, rfl⟩ := h1; obtain ⟨b, hb, rfl⟩ := h2
      simp only [keysOf]; exact sameKeysT ht a b ha hb
    | _, _, .map kt vt es he, dj, ds, h1, h2 => by
      simp only [ser, Option.map_eq_some_iff] at h1 h2
      obtain ⟨a, ha, rfl⟩ := h1; obtain ⟨b, hb, rfl⟩ := h2
      simp only [keysOf]; exact sameKeysE he a b ha hb
    | _, _, .unitStruct, dj, ds, h1, h2 => by simp [ser] at h1 h2; subst h1 h2; rfl
    | _, _, .newtype t v hv, dj, ds, h1, h2 => by simp only [ser] at h1 h2; exact sameKeys hv dj ds h1 h2
    | _, _, .tupleStruct ts vs ht, dj, ds, h1, h2 => by
      simp only [ser, Option.map_eq_some_iff] at h1 h2
      obtain ⟨a, ha, rfl⟩ := h1; obtain ⟨b, hb, rfl⟩ := h2
      simp only [keysOf]; exact sameKeysT ht a b ha hb
    | _, _, .struct fs vs _ hfs, dj, ds, h1, h2 => by
      simp only [ser, Option.map_eq_some_iff] at h1 h2
      obtain ⟨a, ha, rfl⟩ := h1; obtain ⟨b, hb, rfl⟩ := h2
      simp only [keysOf]; exact sameKeysF hfs a b ha hb
    | _, _, .unitVariant vs i name pty hg _, dj, ds, h1, h2 => by
      simp [ser, hg] at h1 h2; subst h1 h2; rfl
    | _, _, .newtypeVariant vs i name pty p hg _ hp, dj, ds, h1, h2 => by
      simp only [ser, hg, Option.map_eq_some_iff] at h1 h2
      obtain ⟨a, ha, rfl⟩ := h1; obtain ⟨b, hb, rfl⟩ := h2
      simp only [keysOf, keysOfM, List.append_nil]; rw [sameKeys hp a b ha hb]
    | _, _, .tupleVariant vs i name ts ps hg _ ht, dj, ds, h1, h2 => by
      simp only [ser, hg, Option.map_eq_some_iff] at h1 h2
      obtain ⟨a, ⟨a', ha, rfl⟩, rfl⟩ := h1; obtain ⟨b, ⟨b', hb, rfl⟩, rfl⟩ := h2
      simp only [keysOf, keysOfM, List.append_nil]; rw [sameKeysT ht a' b' ha hb]
    | _, _, .structVariant vs i name fs ps hg _ _ hfs, dj, ds, h1, h2 => by
      simp only [ser, hg, Option.map_eq_some_iff] at h1 h2
      obtain ⟨a, ⟨a', ha, rfl⟩, rfl⟩ := h1; obtain ⟨b, ⟨b', hb, rfl⟩, rfl⟩ := h2
      simp only [keysOf, keysOfM, List.append_nil]; rw [sameKeysF hfs a' b' ha hb]
  theorem sameKeysL : ∀ {t : Ty} {vs : Vals}, HasTyL t vs → ∀ a b, serL .json t vs = some a → serL .smile t vs = some b →
      keysOfL a = keysOfL b
    | _, _, .nil t, a, b, h1, h2 => by simp [serL] at h1 h2; subst h1 h2; rfl
    | _, _, .cons t v vs hv hl, a, b, h1, h2 => by
      simp only [serL] at h1 h2
      cases e1 : ser .json t v <;> cases e2 : serL .json t vs <;> simp [e1, e2] at h1
      cases e3 : ser .smile t v <;> cases e4 : serL .smile t vs <;> simp [e3, e4] at h2
      subst h1 h2
      simp only [keysOfL]; rw [sameKeys hv _ _ e1 e3, sameKeysL hl _ _ e2 e4]
  theorem sameKeysT : ∀ {ts : Tys} {vs : Vals}, HasTyT ts vs → ∀ a b, serT .json ts vs = some a → serT .smile ts vs = some b →
      keysOfL a = keysOfL b
    | _, _, .nil, a, b, h1, h2 => by simp [serT] at h1 h2; subst h1 h2; rfl
    | _, _, .cons t ts v vs hv ht, a, b, h1, h2 => by
      simp only [serT] at h1 h2
      cases e1 : ser .json t v <;> cases e2 : serT .json ts vs <;> simp [e1, e2] at h1
      cases e3 : ser .smile t v <;> cases e4 : serT .smile ts vs <;> simp [e3, e4] at h2
      subst h1 h2
      simp only [keysOfL]; rw [sameKeys hv _ _ e1 e3, sameKeysT ht _ _ e2 e4]
  theorem sameKeysE : ∀ {kt vt : Ty} {es : Entries}, HasTyE kt vt es → ∀ a b, serE .json kt vt es = some a → serE .smile kt vt es = some b →
      keysOfM a = keysOfM b
    | _, _, _, .nil kt vt, a, b, h1, h2 => by simp [serE] at h1 h2; subst h1 h2; rfl
    | _, _, _, .cons kt vt k v es _ hv he, a, b, h1, h2 => by
      simp only [serE] at h1 h2
      cases e0 : serKey kt k <;> cases e1 : ser .json vt v <;> cases e2 : serE .json kt vt es <;> simp [e0, e1, e2] at h1
      cases e3 : ser .smile vt v <;> cases e4 : serE .smile kt vt es <;> simp [e0, e3, e4] at h2
      subst h1 h2
      simp only [keysOfM]; rw [sameKeys hv _ _ e1 e3, sameKeysE he _ _ e2 e4]
  theorem sameKeysF : ∀ {fs : Fields} {vs : FVals}, HasTyF fs vs → ∀ a b, serF .json fs vs = some a → serF .smile fs vs = some b →
      keysOfM a = keysOfM b
    | _, _, .nil, a, b, h1, h2 => by simp [serF] at h1 h2; subst h1 h2; rfl
    | _, _, .cons n t fs v vs hv hfs, a, b, h1, h2 => by
      simp only [serF] at h1 h2
      cases e1 : ser .json t v <;> cases e2 : serF .json fs vs <;> simp [e1, e2] at h1
      cases e3 : ser .smile t v <;> cases e4 : serF .smile fs vs <;> simp [e3, e4] at h2
      subst h1 h2
      simp only [keysOfM]; rw [sameKeys hv _ _ e1 e3, sameKeysF hfs _ _ e2 e4]
end

end ConjureVerif.Wrap
