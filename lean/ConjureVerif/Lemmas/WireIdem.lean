import ConjureVerif.Model.Wire
set_option linter.unusedSimpArgs false
namespace ConjureVerif.Wire
open ConjureVerif ConjureVerif.Data

theorem docsList_ofDocs : ∀ l : List Doc, docsList (ofDocs l) = l
  | [] => rfl
  | x :: xs => by simp [ofDocs, docsList, docsList_ofDocs xs]

theorem members_ofMembers : ∀ l : List (Key × Doc), members (ofMembers l) = l
  | [] => rfl
  | (k, v) :: r => by simp [ofMembers, members, members_ofMembers r]

theorem allSome_map_idem {α : Type} (f : α → Option α) : ∀ (xs ys : List α),
    allSome (xs.map f) = some ys → (∀ x ∈ xs, ∀ y, f x = some y → f y = some y) → allSome (ys.map f) = some ys
  | [], ys, h, _ => by simp [allSome] at h; subst h; rfl
  | x :: xs, ys, h, hf => by
    simp only [List.map_cons] at h
    cases hx : f x with
    | none => simp [allSome, hx] at h
    | some y =>
      simp only [hx, allSome] at h
      cases hr : allSome (xs.map f) with
      | none => simp [hr] at h
      | some ys' =>
        simp only [hr, Option.map_some, Option.some.injEq] at h
        subst h
        have ih := allSome_map_idem f xs ys' hr (fun x hx' => hf x (List.mem_cons_of_mem _ hx'))
        simp [allSome, hf x (by simp) y hx, ih]

/-- the canonical form of a list / set is a fixed point when the canonical forms of its items are -/
theorem canon_list_idem (defs : Defs) (cfg : Cfg) (fuel : Nat) (t : CTy) (xs : Docs) (d' : Doc)
    (ih : ∀ d y, canon defs cfg fuel t d = some y → canon defs cfg fuel t y = some y)
    (h : canon defs cfg (fuel + 1) (.list t) (.arr xs) = some d') :
    canon defs cfg (fuel + 1) (.list t) d' = some d' := by
  simp only [canon] at h
  cases ha : allSome ((docsList xs).map (canon defs cfg fuel t)) with
  | none => simp [ha] at h
  | some ys =>
    simp only [ha, Option.map_some, Option.some.injEq] at h
    subst h
    simp only [canon, docsList_ofDocs]
    rw [allSome_map_idem _ _ _ ha (fun x _ y hy => ih x y hy)]
    rfl

theorem canon_set_idem (defs : Defs) (cfg : Cfg) (fuel : Nat) (t : CTy) (xs : Docs) (d' : Doc)
    (ih : ∀ d y, canon defs cfg fuel t d = some y → canon defs cfg fuel t y = some y)
    (h : canon defs cfg (fuel + 1) (.set t) (.arr xs) = some d') :
    canon defs cfg (fuel + 1) (.set t) d' = some d' := by
  simp only [canon] at h
  cases ha : allSome ((docsList xs).map (canon defs cfg fuel t)) with
  | none => simp [ha] at h
  | some ys =>
    simp only [ha, Option.map_some, Option.some.injEq] at h
    subst h
    simp only [canon, docsList_ofDocs]
    rw [allSome_map_idem _ _ _ ha (fun x _ y hy => ih x y hy)]
    rfl

/-- primitives, enums and aliases: canonical forms are fixed points (the enum clause includes the object spelling
`{"V": null}` that the code accepts: it canonicalises to the string, which is a fixed point) -/
theorem primCanon_of_ok (p : Prim) (d : Doc) (h : primOk p d = true) : primCanon p d = some d := by
  unfold primCanon
  split
  · simp [primOk] at h
  · simp [h]

theorem primCanon_cases (p : Prim) (d d' : Doc) (h : primCanon p d = some d') :
    (primOk p d = true ∧ d' = d) ∨
    (∃ n, p = .double ∧ d = .int n ∧ safeInt n = true ∧ d' = .dbl (.fin (intBits n))) := by
  unfold primCanon at h
  split at h
  · rename_i n
    by_cases hs : safeInt n = true
    · rw [if_pos hs] at h; cases h; exact Or.inr ⟨n, rfl, rfl, hs, rfl⟩
    · rw [if_neg hs] at h; cases h
  · by_cases hp : primOk p d = true
    · rw [if_pos hp] at h; cases h; exact Or.inl ⟨hp, rfl⟩
    · rw [if_neg hp] at h; cases h

/-- the canonical form of a primitive is in its specified encoding -/
theorem primCanon_ok (p : Prim) (d d' : Doc) (h : primCanon p d = some d') : primOk p d' = true := by
  rcases primCanon_cases p d d' h with ⟨hp, rfl⟩ | ⟨n, rfl, rfl, -, rfl⟩
  · exact hp
  · rfl

theorem canon_prim_idem (defs : Defs) (cfg : Cfg) (fuel : Nat) (p : Prim) (d d' : Doc)
    (h : canon defs cfg (fuel + 1) (.prim p) d = some d') : canon defs cfg (fuel + 1) (.prim p) d' = some d' := by
  simp only [canon] at h ⊢
  exact primCanon_of_ok p d' (primCanon_ok p d d' h)

theorem canon_enum_idem (defs : Defs) (cfg : Cfg) (fuel n : Nat) (values : List Bytes) (d d' : Doc)
    (hd : defs[n]? = some (.enum values))
    (h : canon defs cfg (fuel + 1) (.ref n) d = some d') : canon defs cfg (fuel + 1) (.ref n) d' = some d' := by
  simp only [canon, hd] at h ⊢
  cases d with
  | str s =>
    simp only at h
    by_cases h1 : values.contains s = true
    · rw [if_pos h1] at h; cases h; simp only; rw [if_pos h1]
    · rw [if_neg h1] at h
      by_cases h2 : (!cfg.exhaustive && validVariant s) = true
      · rw [if_pos h2] at h; cases h; simp only; rw [if_neg h1, if_pos h2]
      · rw [if_neg h2] at h; cases h
  | obj ms =>
    cases ms with
    | nil => simp at h
    | cons k v rest =>
      cases k with
      | flt b => simp at h
      | text s =>
        cases v <;> simp at h
        cases rest with
        | cons _ _ _ => simp at h
        | nil =>
          by_cases h1 : values.contains s = true
          · have hm : s ∈ values := List.contains_iff_mem.mp h1
            simp only [hm, true_and, if_true, Option.some.injEq] at h
            subst h; simp only; rw [if_pos h1]
          · have hm : s ∉ values := fun hc => h1 (List.contains_iff_mem.mpr hc)
            simp [hm] at h
  | null => simp at h
  | bool _ => simp at h
  | int _ => simp at h
  | dbl _ => simp at h
  | bin _ => simp at h
  | arr _ => simp at h

theorem canon_alias_idem (defs : Defs) (cfg : Cfg) (fuel n : Nat) (t : CTy) (d d' : Doc)
    (hd : defs[n]? = some (.alias t))
    (ih : ∀ d y, canon defs cfg fuel t d = some y → canon defs cfg fuel t y = some y)
    (h : canon defs cfg (fuel + 1) (.ref n) d = some d') : canon defs cfg (fuel + 1) (.ref n) d' = some d' := by
  simp only [canon, hd] at h ⊢
  exact ih d d' h

theorem canon_optional_idem (defs : Defs) (cfg : Cfg) (fuel : Nat) (t : CTy) (d d' : Doc)
    (ih : ∀ d y, canon defs cfg fuel t d = some y → canon defs cfg fuel t y = some y)
    (h : canon defs cfg (fuel + 1) (.optional t) d = some d') :
    canon defs cfg (fuel + 1) (.optional t) d' = some d' := by
  have hnull : canon defs cfg (fuel + 1) (.optional t) .null = some .null := by simp [canon]
  cases d with
  | null => simp [canon] at h; subst h; exact hnull
  | _ =>
    simp only [canon] at h
    have := ih _ _ h
    cases d' with
    | null => exact hnull
    | _ => simpa [canon] using this

end ConjureVerif.Wire

namespace ConjureVerif.Wire
open ConjureVerif ConjureVerif.Data

/-- one entry of a map document -/
def mapEntry (defs : Defs) (cfg : Cfg) (fuel : Nat) (k v : CTy) (m : Key × Doc) : Option (Key × Doc) :=
  match m.1 with
  | .text s => if keyTy defs fuel k s then (canon defs cfg fuel v m.2).map (fun v' => (m.1, v')) else none
  | .flt _ => none

theorem canon_map_eq (defs : Defs) (cfg : Cfg) (fuel : Nat) (k v : CTy) (ms : Members) :
    canon defs cfg (fuel + 1) (.map k v) (.obj ms) =
      (allSome ((members ms).map (mapEntry defs cfg fuel k v))).map (fun ms' => .obj (ofMembers ms')) := by
  simp only [canon]; rfl

theorem mapEntry_idem (defs : Defs) (cfg : Cfg) (fuel : Nat) (k v : CTy)
    (ih : ∀ d y, canon defs cfg fuel v d = some y → canon defs cfg fuel v y = some y)
    (m y : Key × Doc) (hm : mapEntry defs cfg fuel k v m = some y) : mapEntry defs cfg fuel k v y = some y := by
  obtain ⟨mk, mv⟩ := m
  cases mk with
  | flt b => simp [mapEntry] at hm
  | text s =>
    simp only [mapEntry] at hm
    by_cases hk : keyTy defs fuel k s = true
    · rw [if_pos hk] at hm
      cases hc : canon defs cfg fuel v mv with
      | none => simp [hc] at hm
      | some v' =>
        simp only [hc, Option.map_some, Option.some.injEq] at hm
        subst hm
        simp only [mapEntry]
        rw [if_pos hk, ih mv v' hc]; rfl
    · rw [if_neg hk] at hm; cases hm

theorem canon_map_idem (defs : Defs) (cfg : Cfg) (fuel : Nat) (k v : CTy) (ms : Members) (d' : Doc)
    (ih : ∀ d y, canon defs cfg fuel v d = some y → canon defs cfg fuel v y = some y)
    (h : canon defs cfg (fuel + 1) (.map k v) (.obj ms) = some d') :
    canon defs cfg (fuel + 1) (.map k v) d' = some d' := by
  rw [canon_map_eq] at h
  cases ha : allSome ((members ms).map (mapEntry defs cfg fuel k v)) with
  | none => simp [ha] at h
  | some ys =>
    simp only [ha, Option.map_some, Option.some.injEq] at h
    subst h
    rw [canon_map_eq, members_ofMembers,
      allSome_map_idem _ _ _ ha (fun x _ y hy => mapEntry_idem defs cfg fuel k v ih x y hy)]
    rfl

/-- a value of a type that is not optional (through aliases) is never written as `null` -/
theorem canon_nonoptional_nonnull (defs : Defs) (cfg : Cfg) : ∀ (fuel : Nat) (t : CTy) (d d' : Doc),
    (∀ i, shape defs fuel t ≠ .optional i) → canon defs cfg fuel t d = some d' → d' ≠ .null
  | 0, _, _, _, _, h => by simp [canon] at h
  | fuel + 1, .prim p, d, d', _, h => by
    simp only [canon] at h
    have hp := primCanon_ok p d d' h
    intro hn; subst hn; cases p <;> simp [primOk] at hp
  | fuel + 1, .optional t, _, _, hs, _ => by exact absurd rfl (hs t)
  | fuel + 1, .list t, d, d', _, h => by
    intro hn; subst hn
    cases d <;> simp [canon] at h
  | fuel + 1, .set t, d, d', _, h => by
    intro hn; subst hn
    cases d <;> simp [canon] at h
  | fuel + 1, .map k v, d, d', _, h => by
    intro hn; subst hn
    cases d <;> simp [canon] at h
  | fuel + 1, .ref n, d, d', hs, h => by
    simp only [canon] at h
    cases hd : defs[n]? with
    | none => simp [hd] at h
    | some df =>
      simp only [hd] at h
      cases df with
      | alias t =>
        simp only [shape, hd] at hs
        exact canon_nonoptional_nonnull defs cfg fuel t d d' hs h
      | enum values =>
        intro hn; subst hn
        cases d with
        | str s =>
          simp only at h
          by_cases h1 : values.contains s = true
          · rw [if_pos h1] at h; cases h
          · rw [if_neg h1] at h
            by_cases h2 : (!cfg.exhaustive && validVariant s) = true
            · rw [if_pos h2] at h; cases h
            · rw [if_neg h2] at h; cases h
        | obj ms =>
          cases ms with
          | nil => simp at h
          | cons k v rest =>
            cases k with
            | flt b => simp at h
            | text s =>
              cases v <;> simp at h
              cases rest with
              | cons _ _ _ => simp at h
              | nil => simp at h
        | null => simp at h
        | bool _ => simp at h
        | int _ => simp at h
        | dbl _ => simp at h
        | bin _ => simp at h
        | arr _ => simp at h
      | object fields =>
        intro hn; subst hn
        cases d <;> simp at h
      | union variants =>
        intro hn; subst hn
        cases d <;> simp at h
        split at h <;> try (cases h)
        split at h <;> try (cases h)
        split at h
        · simp at h
        · split at h <;> simp at h

end ConjureVerif.Wire

namespace ConjureVerif.Wire
open ConjureVerif ConjureVerif.Data

theorem unionPick_canonical (name : Bytes) (p : Doc) :
    unionPick typeKey (.str name) (.text name) p = some (name, p) := by
  simp [unionPick]

theorem canon_union_idem (defs : Defs) (cfg : Cfg) (fuel n : Nat) (variants : List (Bytes × CTy)) (d d' : Doc)
    (hd : defs[n]? = some (.union variants))
    (ih : ∀ t d y, canon defs cfg fuel t d = some y → canon defs cfg fuel t y = some y)
    (h : canon defs cfg (fuel + 1) (.ref n) d = some d') : canon defs cfg (fuel + 1) (.ref n) d' = some d' := by
  simp only [canon, hd] at h
  cases d with
  | obj ms =>
    simp only at h
    match hm : members ms, h with
    | [(k1, v1), (k2, v2)], h =>
      simp only at h
      cases hp : unionPick k1 v1 k2 v2 with
      | none => simp [hp] at h
      | some np =>
        obtain ⟨name, payload⟩ := np
        simp only [hp] at h
        cases hl : variants.lookup name with
        | some t =>
          simp only [hl] at h
          cases hc : canon defs cfg fuel t payload with
          | none => simp [hc] at h
          | some p' =>
            simp only [hc, Option.map_some, Option.some.injEq] at h
            subst h
            simp only [canon, hd, members, unionPick_canonical, hl, ih t payload p' hc, Option.map_some]
        | none =>
          simp only [hl] at h
          by_cases he : cfg.exhaustive = true
          · simp [he] at h
          · simp only [he, Bool.false_eq_true, if_false, Option.some.injEq] at h
            subst h
            simp only [canon, hd, members, unionPick_canonical, hl, he, Bool.false_eq_true, if_false]
    | [], h => simp at h
    | [_], h => simp at h
    | _ :: _ :: _ :: _, h => simp at h
  | null => simp at h
  | bool _ => simp at h
  | int _ => simp at h
  | dbl _ => simp at h
  | str _ => simp at h
  | bin _ => simp at h
  | arr _ => simp at h

/-- the empty collection is a canonical value of every type whose field shape is `collection` -/
theorem canon_empty_collection (defs : Defs) (cfg : Cfg) : ∀ (fuel : Nat) (t : CTy) (isMap : Bool),
    shape defs fuel t = .collection isMap →
    canon defs cfg (fuel + 1) t (if isMap then Doc.obj .nil else Doc.arr .nil) =
      some (if isMap then Doc.obj .nil else Doc.arr .nil)
  | _, .prim _, _, hs => by simp [shape] at hs
  | _, .optional _, _, hs => by simp [shape] at hs
  | _, .list t, isMap, hs => by
    simp only [shape, Shape.collection.injEq] at hs; subst hs
    simp [canon, docsList, allSome, ofDocs]
  | _, .set t, isMap, hs => by
    simp only [shape, Shape.collection.injEq] at hs; subst hs
    simp [canon, docsList, allSome, ofDocs]
  | _, .map k v, isMap, hs => by
    simp only [shape, Shape.collection.injEq] at hs; subst hs
    simp [canon, members, allSome, ofMembers]
  | 0, .ref _, _, hs => by simp [shape] at hs
  | fuel + 1, .ref n, isMap, hs => by
    simp only [shape] at hs
    cases hd : defs[n]? with
    | none => simp [hd] at hs
    | some df =>
      cases df with
      | alias t =>
        simp only [hd] at hs
        have := canon_empty_collection defs cfg fuel t isMap hs
        simp only [canon, hd]
        exact this
      | enum _ => simp [hd] at hs
      | object _ => simp [hd] at hs
      | union _ => simp [hd] at hs

end ConjureVerif.Wire

namespace ConjureVerif.Wire
open ConjureVerif ConjureVerif.Data

def emptyColl (isMap : Bool) : Doc := if isMap then Doc.obj .nil else Doc.arr .nil

/-- what the field-level argument needs to know about the sub-canonicaliser of a field of shape `sh` -/
structure SubOk (sh : Shape) (sub : Doc → Option Doc) : Prop where
  idem : ∀ v v', sub v = some v' → sub v' = some v'
  nonnull : (∀ i, sh ≠ .optional i) → ∀ v v', sub v = some v' → v' ≠ .null
  empty : ∀ isMap, sh = .collection isMap → ∀ e, sub (emptyColl isMap) = some e → e = emptyColl isMap
  /-- a canonical value of a collection-shaped type is the empty collection of its kind or is not empty -/
  kind : ∀ isMap, sh = .collection isMap → ∀ v v', sub v = some v' → v' = emptyColl isMap ∨ isEmptyColl v' = false

def isNull : Doc → Bool
  | .null => true
  | _ => false

theorem isNull_iff (v : Doc) : isNull v = true ↔ v = .null := by cases v <;> simp [isNull]

def optPart (cfg : Cfg) (name : Bytes) (v' : Doc) : List (Key × Doc) :=
  if isNull v' then (if cfg.serializeEmpty then [(Key.text name, Doc.null)] else []) else [(Key.text name, v')]

def collPart (cfg : Cfg) (name : Bytes) (v' : Doc) : List (Key × Doc) :=
  if isEmptyColl v' && !cfg.serializeEmpty then [] else [(Key.text name, v')]

def absentOpt (cfg : Cfg) (name : Bytes) : List (Key × Doc) :=
  if cfg.serializeEmpty then [(Key.text name, Doc.null)] else []

theorem fp_required_some (cfg : Cfg) (name : Bytes) (v : Doc) (sub : Doc → Option Doc) (hv : v ≠ .null) :
    fieldPart cfg .required name (some v) sub = (sub v).map (fun v' => [(Key.text name, v')]) := by
  cases v <;> first | exact absurd rfl hv | rfl

theorem fp_optional_some (cfg : Cfg) (i : CTy) (name : Bytes) (v : Doc) (sub : Doc → Option Doc) (hv : v ≠ .null) :
    fieldPart cfg (.optional i) name (some v) sub = (sub v).map (optPart cfg name) := by
  cases v <;> first | exact absurd rfl hv | rfl

theorem fp_optional_absent (cfg : Cfg) (i : CTy) (name : Bytes) (sub : Doc → Option Doc) :
    fieldPart cfg (.optional i) name none sub = some (absentOpt cfg name) ∧
    fieldPart cfg (.optional i) name (some .null) sub = some (absentOpt cfg name) := ⟨rfl, rfl⟩

theorem fp_collection_some (cfg : Cfg) (m : Bool) (name : Bytes) (v : Doc) (sub : Doc → Option Doc) (hv : v ≠ .null) :
    fieldPart cfg (.collection m) name (some v) sub = (sub v).map (collPart cfg name) := by
  cases v <;> first | exact absurd rfl hv | rfl

theorem fp_collection_absent (cfg : Cfg) (m : Bool) (name : Bytes) (sub : Doc → Option Doc) :
    fieldPart cfg (.collection m) name none sub =
      (sub (emptyColl m)).map (fun e => if cfg.serializeEmpty then [(Key.text name, e)] else []) := rfl

theorem lookup_singleton_self (k : Key) (v : Doc) : List.lookup k [(k, v)] = some v := by
  simp [List.lookup]

theorem fieldPart_keys (cfg : Cfg) (sh : Shape) (name : Bytes) (given : Option Doc) (sub : Doc → Option Doc)
    (part : List (Key × Doc)) (h : fieldPart cfg sh name given sub = some part) :
    (∀ kv ∈ part, kv.1 = Key.text name) ∧ part.length ≤ 1 := by
  have single : ∀ w : Doc, (∀ kv ∈ [(Key.text name, w)], kv.1 = Key.text name) ∧ [(Key.text name, w)].length ≤ 1 := by
    intro w; simp
  have nil : (∀ kv ∈ ([] : List (Key × Doc)), kv.1 = Key.text name) ∧ ([] : List (Key × Doc)).length ≤ 1 := by simp
  cases sh with
  | required =>
    cases given with
    | none => simp [fieldPart] at h
    | some v =>
      by_cases hv : v = .null
      · subst hv; simp [fieldPart] at h
      · rw [fp_required_some cfg name v sub hv] at h
        obtain ⟨a, -, rfl⟩ := Option.map_eq_some_iff.mp h
        exact single a
  | optional i =>
    have habs : (∀ kv ∈ absentOpt cfg name, kv.1 = Key.text name) ∧ (absentOpt cfg name).length ≤ 1 := by
      unfold absentOpt; split <;> simp
    cases given with
    | none => rw [(fp_optional_absent cfg i name sub).1] at h; cases h; exact habs
    | some v =>
      by_cases hv : v = .null
      · subst hv; rw [(fp_optional_absent cfg i name sub).2] at h; cases h; exact habs
      · rw [fp_optional_some cfg i name v sub hv] at h
        obtain ⟨a, -, rfl⟩ := Option.map_eq_some_iff.mp h
        unfold optPart; split
        · exact habs
        · exact single a
  | collection m =>
    cases given with
    | none =>
      rw [fp_collection_absent] at h
      obtain ⟨a, -, rfl⟩ := Option.map_eq_some_iff.mp h
      split
      · exact single a
      · exact nil
    | some v =>
      by_cases hv : v = .null
      · subst hv; simp [fieldPart] at h
      · rw [fp_collection_some cfg m name v sub hv] at h
        obtain ⟨a, -, rfl⟩ := Option.map_eq_some_iff.mp h
        unfold collPart; split
        · exact nil
        · exact single a

/-- running a field again on what it produced gives the same members -/
theorem fieldPart_idem (cfg : Cfg) (sh : Shape) (name : Bytes) (given : Option Doc) (sub : Doc → Option Doc)
    (ok : SubOk sh sub) (part : List (Key × Doc)) (h : fieldPart cfg sh name given sub = some part) :
    fieldPart cfg sh name (part.lookup (Key.text name)) sub = some part := by
  cases sh with
  | required =>
    have hnn := ok.nonnull (by intro i; simp)
    cases given with
    | none => simp [fieldPart] at h
    | some v =>
      by_cases hv : v = .null
      · subst hv; simp [fieldPart] at h
      · rw [fp_required_some cfg name v sub hv] at h
        obtain ⟨a, ha, rfl⟩ := Option.map_eq_some_iff.mp h
        rw [lookup_singleton_self, fp_required_some cfg name a sub (hnn v a ha), ok.idem v a ha]; rfl
  | optional i =>
    have settle : fieldPart cfg (.optional i) name ((absentOpt cfg name).lookup (Key.text name)) sub =
        some (absentOpt cfg name) := by
      unfold absentOpt
      by_cases he : cfg.serializeEmpty = true
      · simp only [he, if_true, lookup_singleton_self]
        rw [(fp_optional_absent cfg i name sub).2]; simp [absentOpt, he]
      · simp only [he, Bool.false_eq_true, if_false, List.lookup]
        rw [(fp_optional_absent cfg i name sub).1]; simp [absentOpt, he]
    cases given with
    | none => rw [(fp_optional_absent cfg i name sub).1] at h; cases h; exact settle
    | some v =>
      by_cases hv : v = .null
      · subst hv; rw [(fp_optional_absent cfg i name sub).2] at h; cases h; exact settle
      · rw [fp_optional_some cfg i name v sub hv] at h
        obtain ⟨a, ha, rfl⟩ := Option.map_eq_some_iff.mp h
        unfold optPart
        by_cases hn : isNull a = true
        · rw [if_pos hn]; exact settle
        · rw [if_neg hn, lookup_singleton_self]
          have hane : a ≠ .null := fun hc => hn ((isNull_iff a).mpr hc)
          rw [fp_optional_some cfg i name a sub hane, ok.idem v a ha]
          simp [optPart, hn]
  | collection m =>
    have hnn := ok.nonnull (by intro i; simp)
    have hem := ok.empty m rfl
    have hec : isEmptyColl (emptyColl m) = true := by cases m <;> rfl
    have hne : emptyColl m ≠ .null := by cases m <;> simp [emptyColl]
    -- once the empty collection has a canonical form at all, an absent field stays absent
    have absent_again : cfg.serializeEmpty = false → sub (emptyColl m) = some (emptyColl m) →
        fieldPart cfg (.collection m) name (([] : List (Key × Doc)).lookup (Key.text name)) sub = some [] := by
      intro he hs; simp only [List.lookup]; rw [fp_collection_absent, hs]; simp [he]
    cases given with
    | none =>
      rw [fp_collection_absent] at h
      obtain ⟨e, he0, rfl⟩ := Option.map_eq_some_iff.mp h
      have hee := hem e he0
      subst hee
      by_cases he : cfg.serializeEmpty = true
      · simp only [he, if_true, lookup_singleton_self]
        rw [fp_collection_some cfg m name _ sub hne, he0]
        simp [collPart, he]
      · have he' : cfg.serializeEmpty = false := by simpa using he
        simp only [he', Bool.false_eq_true, if_false]; exact absent_again he' he0
    | some v =>
      by_cases hv : v = .null
      · subst hv; simp [fieldPart] at h
      · rw [fp_collection_some cfg m name v sub hv] at h
        obtain ⟨a, ha, rfl⟩ := Option.map_eq_some_iff.mp h
        unfold collPart
        by_cases hc : (isEmptyColl a && !cfg.serializeEmpty) = true
        · rw [if_pos hc]
          simp only [Bool.and_eq_true, Bool.not_eq_eq_eq_not, Bool.not_true] at hc
          -- `a` is empty and is its own canonical form; if it is the empty collection of this field's kind the
          -- field stays absent; the other kind cannot be a canonical value of this shape (`kind`)
          have haa := ok.idem v a ha
          have hak := ok.kind m rfl v a ha
          cases hak with
          | inl hk => rw [hk] at haa; exact absent_again hc.2 haa
          | inr hk => exact absurd hc.1 (by rw [hk]; simp)
        · rw [if_neg hc, lookup_singleton_self, fp_collection_some cfg m name a sub (hnn v a ha), ok.idem v a ha]
          simp [collPart, hc]

end ConjureVerif.Wire

namespace ConjureVerif.Wire
open ConjureVerif ConjureVerif.Data

/-- the members one declared field contributes, given all members of the document -/
def objPart (defs : Defs) (cfg : Cfg) (fuel : Nat) (ms : List (Key × Doc)) (f : Bytes × CTy) : Option (List (Key × Doc)) :=
  fieldPart cfg (shape defs fuel f.2) f.1 (ms.lookup (Key.text f.1)) (canon defs cfg fuel f.2)

theorem canon_object_eq (defs : Defs) (cfg : Cfg) (fuel n : Nat) (fields : List (Bytes × CTy)) (ms0 : Members)
    (hd : defs[n]? = some (.object fields)) :
    canon defs cfg (fuel + 1) (.ref n) (.obj ms0) =
      if fields.any (fun f => countKey (members ms0) (.text f.1) > 1) then none
      else if cfg.server && (members ms0).any (fun m => !(fields.map (fun f => Key.text f.1)).contains m.1) then none
      else (allSome (fields.map (objPart defs cfg fuel (members ms0)))).map (fun parts => .obj (ofMembers parts.flatten)) := by
  simp only [canon, hd]; rfl

theorem allSome_cons {α : Type} (x : Option α) (xs : List (Option α)) (r : List α) (h : allSome (x :: xs) = some r) :
    ∃ a as, x = some a ∧ allSome xs = some as ∧ r = a :: as := by
  cases x with
  | none => simp [allSome] at h
  | some a =>
    simp only [allSome] at h
    cases hr : allSome xs with
    | none => simp [hr] at h
    | some as => simp only [hr, Option.map_some, Option.some.injEq] at h; exact ⟨a, as, rfl, rfl, h.symm⟩

theorem lookup_none_of_keys (l : List (Key × Doc)) (k : Key) (h : ∀ kv ∈ l, kv.1 ≠ k) : l.lookup k = none := by
  induction l with
  | nil => rfl
  | cons x xs ih =>
    obtain ⟨xk, xv⟩ := x
    have hx : (k == xk) = false := by
      have := h (xk, xv) (by simp)
      cases hh : k == xk
      · rfl
      · exact absurd (eq_of_beq hh).symm this
    simp only [List.lookup, hx]
    exact ih (fun kv hkv => h kv (List.mem_cons_of_mem _ hkv))

/-- every member of the canonical object belongs to a declared field -/
theorem parts_keys (defs : Defs) (cfg : Cfg) (fuel : Nat) (ms : List (Key × Doc)) :
    ∀ (fields : List (Bytes × CTy)) (parts : List (List (Key × Doc))),
    allSome (fields.map (objPart defs cfg fuel ms)) = some parts →
    ∀ kv ∈ parts.flatten, ∃ g ∈ fields, kv.1 = Key.text g.1
  | [], parts, h, kv, hkv => by simp [allSome] at h; subst h; simp at hkv
  | f :: rest, parts, h, kv, hkv => by
    obtain ⟨p, ps, hp, hps, rfl⟩ := allSome_cons _ _ _ (by simpa using h)
    simp only [List.flatten_cons, List.mem_append] at hkv
    rcases hkv with hkv | hkv
    · exact ⟨f, by simp, (fieldPart_keys _ _ _ _ _ _ hp).1 kv hkv⟩
    · obtain ⟨g, hg, hk⟩ := parts_keys defs cfg fuel ms rest ps hps kv hkv
      exact ⟨g, List.mem_cons_of_mem _ hg, hk⟩

theorem text_injective {a b : Bytes} (h : Key.text a = Key.text b) : a = b := by cases h; rfl

/-- re-running every field over the members the first run produced gives the same members -/
theorem parts_again (defs : Defs) (cfg : Cfg) (fuel : Nat) (ms : List (Key × Doc)) :
    ∀ (fields : List (Bytes × CTy)) (parts : List (List (Key × Doc))),
    (fields.map (·.1)).Nodup →
    (∀ f ∈ fields, SubOk (shape defs fuel f.2) (canon defs cfg fuel f.2)) →
    allSome (fields.map (objPart defs cfg fuel ms)) = some parts →
    ∀ pre : List (Key × Doc), (∀ f ∈ fields, pre.lookup (Key.text f.1) = none) →
    allSome (fields.map (objPart defs cfg fuel (pre ++ parts.flatten))) = some parts
  | [], parts, _, _, h, _, _ => by simp [allSome] at h ⊢; exact h
  | f :: rest, parts, hnd, hok, h, pre, hpre => by
    obtain ⟨p, ps, hp, hps, rfl⟩ := allSome_cons _ _ _ (by simpa using h)
    simp only [List.map_cons, List.nodup_cons] at hnd
    have hkeys := fieldPart_keys _ _ _ _ _ _ hp
    -- members of later fields never carry this field's name
    have hlater : (ps.flatten).lookup (Key.text f.1) = none := by
      apply lookup_none_of_keys
      intro kv hkv hk
      obtain ⟨g, hg, hkg⟩ := parts_keys defs cfg fuel ms rest ps hps kv hkv
      rw [hk] at hkg
      exact hnd.1 (List.mem_map.mpr ⟨g, hg, (text_injective hkg).symm⟩)
    have hlook : (pre ++ (p :: ps).flatten).lookup (Key.text f.1) = p.lookup (Key.text f.1) := by
      simp only [List.flatten_cons, List.lookup_append, hpre f (by simp), Option.none_or]
      cases hpl : p.lookup (Key.text f.1) with
      | none => simp [hlater]
      | some v => simp
    have hthis : objPart defs cfg fuel (pre ++ (p :: ps).flatten) f = some p := by
      unfold objPart
      rw [hlook]
      exact fieldPart_idem cfg _ f.1 _ _ (hok f (by simp)) p hp
    have hrest := parts_again defs cfg fuel ms rest ps hnd.2 (fun g hg => hok g (List.mem_cons_of_mem _ hg)) hps
      (pre ++ p) (by
        intro g hg
        rw [List.lookup_append, hpre g (List.mem_cons_of_mem _ hg), Option.none_or]
        apply lookup_none_of_keys
        intro kv hkv hk
        have := hkeys.1 kv hkv
        rw [hk] at this
        exact hnd.1 (List.mem_map.mpr ⟨g, hg, text_injective this⟩))
    simp only [List.map_cons, allSome, hthis]
    have : pre ++ (p :: ps).flatten = pre ++ p ++ ps.flatten := by simp
    rw [this, hrest]; rfl

theorem countKey_append (a b : List (Key × Doc)) (k : Key) : countKey (a ++ b) k = countKey a k + countKey b k := by
  simp [countKey, List.filter_append]

/-- no declared field occurs twice in the canonical object -/
theorem parts_count (defs : Defs) (cfg : Cfg) (fuel : Nat) (ms : List (Key × Doc)) :
    ∀ (fields : List (Bytes × CTy)) (parts : List (List (Key × Doc))),
    (fields.map (·.1)).Nodup →
    allSome (fields.map (objPart defs cfg fuel ms)) = some parts →
    ∀ k, countKey parts.flatten k ≤ 1 ∧ ((∀ g ∈ fields, Key.text g.1 ≠ k) → countKey parts.flatten k = 0)
  | [], parts, _, h, k => by simp [allSome] at h; subst h; simp [countKey]
  | f :: rest, parts, hnd, h, k => by
    obtain ⟨p, ps, hp, hps, rfl⟩ := allSome_cons _ _ _ (by simpa using h)
    simp only [List.map_cons, List.nodup_cons] at hnd
    have hkeys := fieldPart_keys _ _ _ _ _ _ hp
    have ih := parts_count defs cfg fuel ms rest ps hnd.2 hps k
    have hp1 : countKey p k ≤ 1 := by
      unfold countKey
      exact Nat.le_trans (List.length_filter_le _ _) hkeys.2
    have hp0 : Key.text f.1 ≠ k → countKey p k = 0 := by
      intro hne
      unfold countKey
      rw [List.filter_eq_nil_iff.mpr]; rfl
      intro kv hkv hk
      exact hne ((hkeys.1 kv hkv).symm.trans (eq_of_beq hk))
    simp only [List.flatten_cons, countKey_append]
    constructor
    · by_cases hk : Key.text f.1 = k
      · have : countKey ps.flatten k = 0 := ih.2 (by
          intro g hg hgk
          exact hnd.1 (List.mem_map.mpr ⟨g, hg, text_injective (hgk.trans hk.symm)⟩))
        omega
      · have := hp0 hk; omega
    · intro hall
      have h1 := hp0 (hall f (by simp))
      have h2 := ih.2 (fun g hg => hall g (List.mem_cons_of_mem _ hg))
      omega

/-- **objects**: the canonical form of an object document is a fixed point, given that the canonical forms of its
fields' values are -/
theorem canon_object_idem (defs : Defs) (cfg : Cfg) (fuel n : Nat) (fields : List (Bytes × CTy)) (d d' : Doc)
    (hd : defs[n]? = some (.object fields)) (hnd : (fields.map (·.1)).Nodup)
    (hok : ∀ f ∈ fields, SubOk (shape defs fuel f.2) (canon defs cfg fuel f.2))
    (h : canon defs cfg (fuel + 1) (.ref n) d = some d') : canon defs cfg (fuel + 1) (.ref n) d' = some d' := by
  cases d with
  | obj ms0 =>
    rw [canon_object_eq defs cfg fuel n fields ms0 hd] at h
    split at h
    · cases h
    · split at h
      · cases h
      · cases ha : allSome (fields.map (objPart defs cfg fuel (members ms0))) with
        | none => simp [ha] at h
        | some parts =>
          simp only [ha, Option.map_some, Option.some.injEq] at h
          subst h
          rw [canon_object_eq defs cfg fuel n fields _ hd, members_ofMembers]
          have hcount := parts_count defs cfg fuel (members ms0) fields parts hnd ha
          have h1 : fields.any (fun f => countKey parts.flatten (.text f.1) > 1) = false := by
            rw [List.any_eq_false]
            intro f _
            have := (hcount (.text f.1)).1
            simp only [gt_iff_lt, decide_eq_true_eq]; omega
          have h2 : (cfg.server && parts.flatten.any (fun m => !(fields.map (fun f => Key.text f.1)).contains m.1)) = false := by
            have hany : parts.flatten.any (fun m => !(fields.map (fun f => Key.text f.1)).contains m.1) = false := by
              rw [List.any_eq_false]
              intro kv hkv
              obtain ⟨g, hg, hk⟩ := parts_keys defs cfg fuel (members ms0) fields parts ha kv hkv
              have : (fields.map (fun f => Key.text f.1)).contains kv.1 = true := by
                rw [List.contains_iff_mem]; exact List.mem_map.mpr ⟨g, hg, hk.symm⟩
              rw [this]; decide
            rw [hany]; simp
          have h3 := parts_again defs cfg fuel (members ms0) fields parts hnd hok ha [] (by intro f _; rfl)
          simp only [List.nil_append] at h3
          simp only [h1, h2, h3, Bool.false_eq_true, if_false, Option.map_some]
  | null => simp [canon, hd] at h
  | bool _ => simp [canon, hd] at h
  | int _ => simp [canon, hd] at h
  | dbl _ => simp [canon, hd] at h
  | str _ => simp [canon, hd] at h
  | bin _ => simp [canon, hd] at h
  | arr _ => simp [canon, hd] at h

end ConjureVerif.Wire

namespace ConjureVerif.Wire
open ConjureVerif ConjureVerif.Data

theorem isEmptyColl_ofDocs (ys : List Doc) : Doc.arr (ofDocs ys) = emptyColl false ∨ isEmptyColl (Doc.arr (ofDocs ys)) = false := by
  cases ys with
  | nil => left; rfl
  | cons y r => right; rfl

theorem isEmptyColl_ofMembers (ms : List (Key × Doc)) :
    Doc.obj (ofMembers ms) = emptyColl true ∨ isEmptyColl (Doc.obj (ofMembers ms)) = false := by
  cases ms with
  | nil => left; rfl
  | cons m r => obtain ⟨k, v⟩ := m; right; rfl

theorem canon_collection_kind (defs : Defs) (cfg : Cfg) : ∀ (fuel : Nat) (t : CTy) (m : Bool) (v v' : Doc),
    shape defs fuel t = .collection m → canon defs cfg fuel t v = some v' →
    v' = emptyColl m ∨ isEmptyColl v' = false
  | 0, _, _, _, _, _, h => by simp [canon] at h
  | _ + 1, .prim _, _, _, _, hs, _ => by simp [shape] at hs
  | _ + 1, .optional _, _, _, _, hs, _ => by simp [shape] at hs
  | fuel + 1, .list t, m, v, v', hs, h => by
    simp only [shape, Shape.collection.injEq] at hs; subst hs
    cases v <;> simp only [canon] at h <;> try (cases h)
    obtain ⟨ys, -, rfl⟩ := Option.map_eq_some_iff.mp h
    exact isEmptyColl_ofDocs ys
  | fuel + 1, .set t, m, v, v', hs, h => by
    simp only [shape, Shape.collection.injEq] at hs; subst hs
    cases v <;> simp only [canon] at h <;> try (cases h)
    obtain ⟨ys, -, rfl⟩ := Option.map_eq_some_iff.mp h
    exact isEmptyColl_ofDocs ys
  | fuel + 1, .map k t, m, v, v', hs, h => by
    simp only [shape, Shape.collection.injEq] at hs; subst hs
    cases v with
    | obj ms =>
      rw [canon_map_eq] at h
      obtain ⟨ys, -, rfl⟩ := Option.map_eq_some_iff.mp h
      exact isEmptyColl_ofMembers ys
    | _ => simp [canon] at h
  | fuel + 1, .ref n, m, v, v', hs, h => by
    simp only [shape] at hs
    cases hd : defs[n]? with
    | none => simp [hd] at hs
    | some df =>
      cases df with
      | alias t =>
        simp only [hd] at hs
        simp only [canon, hd] at h
        exact canon_collection_kind defs cfg fuel t m v v' hs h
      | enum _ => simp [hd] at hs
      | object _ => simp [hd] at hs
      | union _ => simp [hd] at hs

theorem canon_empty_fix (defs : Defs) (cfg : Cfg) : ∀ (fuel : Nat) (t : CTy) (m : Bool) (e : Doc),
    shape defs fuel t = .collection m → canon defs cfg fuel t (emptyColl m) = some e → e = emptyColl m
  | 0, _, _, _, _, h => by simp [canon] at h
  | _ + 1, .prim _, _, _, hs, _ => by simp [shape] at hs
  | _ + 1, .optional _, _, _, hs, _ => by simp [shape] at hs
  | fuel + 1, .list t, m, e, hs, h => by
    simp only [shape, Shape.collection.injEq] at hs; subst hs
    simp [canon, emptyColl, docsList, allSome, ofDocs] at h; exact h.symm
  | fuel + 1, .set t, m, e, hs, h => by
    simp only [shape, Shape.collection.injEq] at hs; subst hs
    simp [canon, emptyColl, docsList, allSome, ofDocs] at h; exact h.symm
  | fuel + 1, .map k t, m, e, hs, h => by
    simp only [shape, Shape.collection.injEq] at hs; subst hs
    simp [canon, emptyColl, members, allSome, ofMembers] at h; exact h.symm
  | fuel + 1, .ref n, m, e, hs, h => by
    simp only [shape] at hs
    cases hd : defs[n]? with
    | none => simp [hd] at hs
    | some df =>
      cases df with
      | alias t =>
        simp only [hd] at hs
        simp only [canon, hd] at h
        exact canon_empty_fix defs cfg fuel t m e hs h
      | enum _ => simp [hd] at hs
      | object _ => simp [hd] at hs
      | union _ => simp [hd] at hs

/-- definitions are well formed when the fields of every object have pairwise distinct names -/
def DefsWF (defs : Defs) : Prop :=
  ∀ (n : Nat) (fields : List (Bytes × CTy)), defs[n]? = some (Def.object fields) → (fields.map (·.1)).Nodup

/-- **the canonical form is a fixed point**: whatever `canon` returns, `canon` returns it unchanged -/
theorem canon_idempotent (defs : Defs) (cfg : Cfg) (wf : DefsWF defs) : ∀ (fuel : Nat) (t : CTy) (d d' : Doc),
    canon defs cfg fuel t d = some d' → canon defs cfg fuel t d' = some d'
  | 0, _, _, _, h => by simp [canon] at h
  | fuel + 1, .prim p, d, d', h => canon_prim_idem defs cfg fuel p d d' h
  | fuel + 1, .optional t, d, d', h =>
    canon_optional_idem defs cfg fuel t d d' (fun d y => canon_idempotent defs cfg wf fuel t d y) h
  | fuel + 1, .list t, d, d', h => by
    cases d with
    | arr xs => exact canon_list_idem defs cfg fuel t xs d' (fun d y => canon_idempotent defs cfg wf fuel t d y) h
    | _ => simp [canon] at h
  | fuel + 1, .set t, d, d', h => by
    cases d with
    | arr xs => exact canon_set_idem defs cfg fuel t xs d' (fun d y => canon_idempotent defs cfg wf fuel t d y) h
    | _ => simp [canon] at h
  | fuel + 1, .map k v, d, d', h => by
    cases d with
    | obj ms => exact canon_map_idem defs cfg fuel k v ms d' (fun d y => canon_idempotent defs cfg wf fuel v d y) h
    | _ => simp [canon] at h
  | fuel + 1, .ref n, d, d', h => by
    cases hd : defs[n]? with
    | none => simp [canon, hd] at h
    | some df =>
      cases df with
      | alias t => exact canon_alias_idem defs cfg fuel n t d d' hd (fun d y => canon_idempotent defs cfg wf fuel t d y) h
      | enum values => exact canon_enum_idem defs cfg fuel n values d d' hd h
      | union variants =>
        exact canon_union_idem defs cfg fuel n variants d d' hd (fun t d y => canon_idempotent defs cfg wf fuel t d y) h
      | object fields =>
        refine canon_object_idem defs cfg fuel n fields d d' hd (wf n fields hd) ?_ h
        intro f _
        exact {
          idem := fun v v' hv => canon_idempotent defs cfg wf fuel f.2 v v' hv
          nonnull := fun hs v v' hv => canon_nonoptional_nonnull defs cfg fuel f.2 v v' hs hv
          empty := fun m hs e he => canon_empty_fix defs cfg fuel f.2 m e hs he
          kind := fun m hs v v' hv => canon_collection_kind defs cfg fuel f.2 m v v' hs hv }

end ConjureVerif.Wire
