import ConjureVerif.Model.GenOrder
/-
Lemmas about the module trie: the renaming of a type's module always reaches a name no submodule has; what a rendered
path is made of, through any sequence of insertions.
-/
set_option linter.unusedSimpArgs false
namespace ConjureVerif.GenOrder

/-! ### `type_module_name` -/

theorem fresh_form : ∀ (n : Nat) (taken : List String) (t : String), ∃ k, fresh n taken t = t ++ us k
  | 0, _, t => ⟨0, by apply String.ext_iff.mpr; simp [fresh, us]⟩
  | n + 1, taken, t => by
    unfold fresh
    split
    · obtain ⟨k, hk⟩ := fresh_form n taken (t ++ "_")
      refine ⟨k + 1, ?_⟩
      rw [hk]; apply String.ext_iff.mpr
      simp [us, List.replicate_succ]
    · exact ⟨0, by apply String.ext_iff.mpr; simp [us]⟩

/-- how many of the taken names are at least as long as `t` -/
def longer : List String → String → Nat
  | [], _ => 0
  | s :: r, t => (if t.length ≤ s.length then 1 else 0) + longer r t

theorem longer_le_length : ∀ (taken : List String) (t : String), longer taken t ≤ taken.length
  | [], _ => by simp [longer]
  | s :: r, t => by
    have := longer_le_length r t
    simp only [longer, List.length_cons]
    split <;> omega

theorem longer_mono : ∀ (taken : List String) (t : String), longer taken (t ++ "_") ≤ longer taken t
  | [], _ => by simp [longer]
  | s :: r, t => by
    have := longer_mono r t
    have hl : (t ++ "_").length = t.length + 1 := by
      have : ("_" : String).length = 1 := by decide
      simp [this]
    simp only [longer, hl]
    split <;> split <;> omega

theorem longer_lt : ∀ (taken : List String) (t : String), t ∈ taken → longer taken (t ++ "_") < longer taken t
  | [], _, h => by cases h
  | s :: r, t, h => by
    have hl : (t ++ "_").length = t.length + 1 := by
      have : ("_" : String).length = 1 := by decide
      simp [this]
    rcases List.mem_cons.mp h with rfl | h
    · have := longer_mono r t
      simp only [longer, hl]
      rw [if_neg (by omega), if_pos (Nat.le_refl _)]; omega
    · have := longer_lt r t h
      simp only [longer, hl]
      split <;> split <;> omega

theorem fresh_not_mem : ∀ (n : Nat) (taken : List String) (t : String), longer taken t < n → fresh n taken t ∉ taken
  | 0, _, _, h => by omega
  | n + 1, taken, t, h => by
    unfold fresh
    split
    · rename_i hc
      have hm : t ∈ taken := List.contains_iff_mem.mp hc
      have := longer_lt taken t hm
      exact fresh_not_mem n taken (t ++ "_") (by omega)
    · rename_i hc
      intro hm; exact hc (List.contains_iff_mem.mpr hm)

/-- **the module a type is written to is never the name of a submodule beside it** -/
theorem typeModule_not_mem (subs : List String) (t : String) : typeModule subs t ∉ subs :=
  fresh_not_mem _ subs t (by have := longer_le_length subs t; omega)

theorem typeModule_form (subs : List String) (t : String) : ∃ k, typeModule subs t = t ++ us k :=
  fresh_form _ subs t

/-- a name that collides with nothing is kept -/
theorem typeModule_eq (subs : List String) (t : String) (h : t ∉ subs) : typeModule subs t = t := by
  unfold typeModule fresh
  rw [if_neg (by intro hc; exact h (List.contains_iff_mem.mp hc))]

/-! ### what a rendered path is made of -/

/-- a component of a rendered path: the root file, a submodule, or a type's module file (possibly renamed) -/
def IsComponent (t : Trie) (c : String) : Prop :=
  c = "mod.rs" ∨ c ∈ t.modNames ∨ ∃ n ∈ t.typeNames, ∃ k, c = n ++ us k ++ ".rs"

def IsComponentS (s : Subs) (c : String) : Prop :=
  c = "mod.rs" ∨ c ∈ s.modNames ∨ ∃ n ∈ s.typeNames, ∃ k, c = n ++ us k ++ ".rs"

mutual
theorem render_beneath : ∀ (t : Trie) (dir : List String) (p : List String × String), p ∈ t.render dir →
    ∃ comps, p.1 = dir ++ comps ∧ comps ≠ [] ∧ ∀ c ∈ comps, IsComponent t c
  | .node types subs, dir, p, hp => by
    simp only [Trie.render, List.mem_append, List.mem_map, List.mem_singleton] at hp
    rcases hp with (⟨ty, hty, rfl⟩ | hs) | rfl
    · refine ⟨[typeModule (Subs.names subs) ty.1 ++ ".rs"], rfl, by simp, ?_⟩
      intro c hc
      rw [List.mem_singleton] at hc; subst hc
      obtain ⟨k, hk⟩ := typeModule_form (Subs.names subs) ty.1
      refine Or.inr (Or.inr ⟨ty.1, ?_, k, by rw [hk]⟩)
      simp only [Trie.typeNames, List.mem_append, List.mem_map]
      exact Or.inl ⟨ty, hty, rfl⟩
    · obtain ⟨comps, h1, h2, h3⟩ := renderSubs_beneath subs dir p hs
      refine ⟨comps, h1, h2, fun c hc => ?_⟩
      rcases h3 c hc with h | h | ⟨n, hn, k, hk⟩
      · exact Or.inl h
      · exact Or.inr (Or.inl (by simpa [Trie.modNames] using h))
      · exact Or.inr (Or.inr ⟨n, by simp only [Trie.typeNames, List.mem_append]; exact Or.inr hn, k, hk⟩)
    · exact ⟨["mod.rs"], rfl, by simp, fun c hc => Or.inl (by simpa using hc)⟩
theorem renderSubs_beneath : ∀ (s : Subs) (dir : List String) (p : List String × String), p ∈ s.render dir →
    ∃ comps, p.1 = dir ++ comps ∧ comps ≠ [] ∧ ∀ c ∈ comps, IsComponentS s c
  | .nil, _, _, hp => by simp [Subs.render] at hp
  | .cons name t rest, dir, p, hp => by
    simp only [Subs.render, List.mem_append] at hp
    rcases hp with h | h
    · obtain ⟨comps, h1, _, h3⟩ := render_beneath t (dir ++ [name]) p h
      refine ⟨name :: comps, by rw [h1]; simp, by simp, ?_⟩
      intro c hc
      rcases List.mem_cons.mp hc with rfl | hc
      · exact Or.inr (Or.inl (by simp [Subs.modNames]))
      · rcases h3 c hc with h | h | ⟨n, hn, k, hk⟩
        · exact Or.inl h
        · exact Or.inr (Or.inl (by simp [Subs.modNames, h]))
        · exact Or.inr (Or.inr ⟨n, by simp [Subs.typeNames, hn], k, hk⟩)
    · obtain ⟨comps, h1, h2, h3⟩ := renderSubs_beneath rest dir p h
      refine ⟨comps, h1, h2, fun c hc => ?_⟩
      rcases h3 c hc with h | h | ⟨n, hn, k, hk⟩
      · exact Or.inl h
      · exact Or.inr (Or.inl (by simp [Subs.modNames, h]))
      · exact Or.inr (Or.inr ⟨n, by simp [Subs.typeNames, hn], k, hk⟩)
end

mutual
theorem insert_typeNames : ∀ (path : List String) (ty : String × String) (t : Trie) (n : String),
    n ∈ (Trie.insert path ty t).typeNames → n ∈ t.typeNames ∨ n = ty.1
  | [], ty, .node types subs, n, h => by
    simp only [Trie.insert, Trie.typeNames, List.map_append, List.mem_append, List.map_cons, List.map_nil,
      List.mem_singleton] at h ⊢
    rcases h with (h | h) | h
    · exact Or.inl (Or.inl h)
    · exact Or.inr h
    · exact Or.inl (Or.inr h)
  | m :: rest, ty, .node types subs, n, h => by
    simp only [Trie.insert, Trie.typeNames, List.mem_append] at h ⊢
    rcases h with h | h
    · exact Or.inl (Or.inl h)
    · rcases insertSubs_typeNames m rest ty subs n h with h | h
      · exact Or.inl (Or.inr h)
      · exact Or.inr h
theorem insertSubs_typeNames : ∀ (m : String) (rest : List String) (ty : String × String) (s : Subs) (n : String),
    n ∈ (Subs.insert m rest ty s).typeNames → n ∈ s.typeNames ∨ n = ty.1
  | m, rest, ty, .nil, n, h => by
    simp only [Subs.insert, Subs.typeNames, List.append_nil] at h
    rcases insert_typeNames rest ty (.node [] .nil) n h with h | h
    · simp [Trie.typeNames, Subs.typeNames] at h
    · exact Or.inr h
  | m, rest, ty, .cons k t more, n, h => by
    simp only [Subs.insert] at h
    split at h
    · simp only [Subs.typeNames, List.mem_append] at h ⊢
      rcases h with h | h
      · rcases insert_typeNames rest ty (.node [] .nil) n h with h | h
        · simp [Trie.typeNames, Subs.typeNames] at h
        · exact Or.inr h
      · exact Or.inl h
    · split at h
      · simp only [Subs.typeNames, List.mem_append] at h ⊢
        rcases h with h | h
        · rcases insert_typeNames rest ty t n h with h | h
          · exact Or.inl (Or.inl h)
          · exact Or.inr h
        · exact Or.inl (Or.inr h)
      · simp only [Subs.typeNames, List.mem_append] at h ⊢
        rcases h with h | h
        · exact Or.inl (Or.inl h)
        · rcases insertSubs_typeNames m rest ty more n h with h | h
          · exact Or.inl (Or.inr h)
          · exact Or.inr h
end

mutual
theorem insert_modNames : ∀ (path : List String) (ty : String × String) (t : Trie) (c : String),
    c ∈ (Trie.insert path ty t).modNames → c ∈ t.modNames ∨ c ∈ path
  | [], ty, .node types subs, c, h => by
    simp only [Trie.insert, Trie.modNames] at h ⊢; exact Or.inl h
  | m :: rest, ty, .node types subs, c, h => by
    simp only [Trie.insert, Trie.modNames] at h ⊢
    exact insertSubs_modNames m rest ty subs c h
theorem insertSubs_modNames : ∀ (m : String) (rest : List String) (ty : String × String) (s : Subs) (c : String),
    c ∈ (Subs.insert m rest ty s).modNames → c ∈ s.modNames ∨ c ∈ m :: rest
  | m, rest, ty, .nil, c, h => by
    simp only [Subs.insert, Subs.modNames, List.append_nil, List.mem_cons] at h
    rcases h with rfl | h
    · exact Or.inr (by simp)
    · rcases insert_modNames rest ty (.node [] .nil) c h with h | h
      · simp [Trie.modNames, Subs.modNames] at h
      · exact Or.inr (List.mem_cons_of_mem _ h)
  | m, rest, ty, .cons k t more, c, h => by
    simp only [Subs.insert] at h
    have e1 := insert_modNames rest ty (.node [] .nil) c
    have e2 := insert_modNames rest ty t c
    have e3 := insertSubs_modNames m rest ty more c
    simp only [Trie.modNames, Subs.modNames, List.not_mem_nil, false_or] at e1
    split at h
    · simp only [Subs.modNames, List.mem_cons, List.mem_append] at h e3 ⊢
      grind
    · split at h
      · simp only [Subs.modNames, List.mem_cons, List.mem_append] at h e3 ⊢
        grind
      · simp only [Subs.modNames, List.mem_cons, List.mem_append] at h e3 ⊢
        grind
end

theorem fold_names {κ ν : Type} [BEq κ] (get : κ → Option ν) (emit : (κ → Option ν) → Item → String) :
    ∀ (items : List Item) (t : Trie),
      (∀ n ∈ (items.foldl (fun t it => Trie.insert it.modulePath (it.name, emit get it) t) t).typeNames,
        n ∈ t.typeNames ∨ ∃ it ∈ items, n = it.name) ∧
      (∀ c ∈ (items.foldl (fun t it => Trie.insert it.modulePath (it.name, emit get it) t) t).modNames,
        c ∈ t.modNames ∨ ∃ it ∈ items, c ∈ it.modulePath)
  | [], t => ⟨fun n h => Or.inl h, fun c h => Or.inl h⟩
  | it :: rest, t => by
    simp only [List.foldl_cons]
    obtain ⟨h1, h2⟩ := fold_names get emit rest (Trie.insert it.modulePath (it.name, emit get it) t)
    constructor
    · intro n hn
      rcases h1 n hn with h | ⟨it', hit', h⟩
      · rcases insert_typeNames _ _ t n h with h | h
        · exact Or.inl h
        · exact Or.inr ⟨it, by simp, h⟩
      · exact Or.inr ⟨it', List.mem_cons_of_mem _ hit', h⟩
    · intro c hc
      rcases h2 c hc with h | ⟨it', hit', h⟩
      · rcases insert_modNames _ _ t c h with h | h
        · exact Or.inl h
        · exact Or.inr ⟨it, by simp, h⟩
      · exact Or.inr ⟨it', List.mem_cons_of_mem _ hit', h⟩

/-! ### safe components -/

theorem underscores_safe : ∀ k : Nat, (List.replicate k '_').any badChar = false
  | 0 => rfl
  | k + 1 => by rw [List.replicate_succ, List.any_cons, underscores_safe k]; decide

/-- a module name whose characters are harmless stays a safe file name however many underscores are appended -/
theorem safe_renamed (n : String) (hn : n.toList.any badChar = false) (k : Nat) :
    safeComponent (n ++ us k ++ ".rs") = true := by
  have hl : (n ++ us k ++ ".rs").toList = n.toList ++ (List.replicate k '_' ++ ['.', 'r', 's']) := by
    simp [us]
  unfold safeComponent
  rw [hl]
  have h1 : (n.toList ++ (List.replicate k '_' ++ ['.', 'r', 's'])).isEmpty = false := by
    cases n.toList <;> cases k <;> simp [List.replicate_succ]
  have hlen : (n.toList ++ (List.replicate k '_' ++ ['.', 'r', 's'])).length ≥ 3 := by simp; omega
  have h2 : (n.toList ++ (List.replicate k '_' ++ ['.', 'r', 's'])) ≠ ['.'] := by
    intro h; rw [h] at hlen; simp at hlen
  have h3 : (n.toList ++ (List.replicate k '_' ++ ['.', 'r', 's'])) ≠ ['.', '.'] := by
    intro h; rw [h] at hlen; simp at hlen
  have h4 : (n.toList ++ (List.replicate k '_' ++ ['.', 'r', 's'])).any badChar = false := by
    rw [List.any_append, hn, List.any_append, underscores_safe]; decide
  simp [h1, h2, h3, h4]

/-! ### renamed modules of different types stay different -/

/-- a name without its trailing underscores -/
def core (s : String) : List Char := (s.toList.reverse.dropWhile (· == '_')).reverse

theorem dropWhile_underscores (l : List Char) : ∀ k : Nat,
    (List.replicate k '_' ++ l).dropWhile (· == '_') = l.dropWhile (· == '_')
  | 0 => by simp
  | k + 1 => by
    rw [List.replicate_succ, List.cons_append, List.dropWhile_cons]
    simp [dropWhile_underscores l k]

theorem core_append_us (t : String) (k : Nat) : core (t ++ us k) = core t := by
  unfold core
  have : (t ++ us k).toList.reverse = List.replicate k '_' ++ t.toList.reverse := by simp [us]
  rw [this, dropWhile_underscores]

theorem core_typeModule (subs : List String) (t : String) : core (typeModule subs t) = core t := by
  obtain ⟨k, hk⟩ := typeModule_form subs t
  rw [hk, core_append_us]

/-- **two types whose module names differ by more than trailing underscores are written to different modules** -/
theorem typeModule_injective (subs : List String) (t1 t2 : String) (h : core t1 ≠ core t2) :
    typeModule subs t1 ≠ typeModule subs t2 := by
  intro he
  apply h
  rw [← core_typeModule subs t1, ← core_typeModule subs t2, he]

end ConjureVerif.GenOrder

