import ConjureVerif.Model.Boxing
/-
The by-value relation between generated types has no cycle: a rank that every by-value edge strictly lowers.
-/
set_option linter.unusedSimpArgs false
namespace ConjureVerif.Boxing

theorem needsBoxT_congr (r r' : Nat → Bool) : ∀ (t : BTy), (∀ m ∈ aliasRefs t, r m = r' m) →
    needsBoxT r t = needsBoxT r' t
  | .prim, _ => rfl
  | .coll, _ => rfl
  | .optional t, h => by simp only [needsBoxT]; exact needsBoxT_congr r r' t (by simpa [aliasRefs] using h)
  | .ref n, h => by simp only [needsBoxT]; exact h n (by simp [aliasRefs])
  | .ext fb, h => by simp only [needsBoxT]; exact needsBoxT_congr r r' fb (by simpa [aliasRefs] using h)

/-- through optionals and fallbacks, the answer for a type is the answer for the one reference it holds -/
theorem needsBoxT_of_mem (r : Nat → Bool) : ∀ (t : BTy) (m : Nat), m ∈ aliasRefs t → needsBoxT r t = r m
  | .prim, _, h => by simp [aliasRefs] at h
  | .coll, _, h => by simp [aliasRefs] at h
  | .optional t, m, h => by simp only [needsBoxT]; exact needsBoxT_of_mem r t m (by simpa [aliasRefs] using h)
  | .ref n, m, h => by simp [aliasRefs] at h; subst h; rfl
  | .ext fb, m, h => by simp only [needsBoxT]; exact needsBoxT_of_mem r fb m (by simpa [aliasRefs] using h)

theorem inlineRefs_unboxed (defs : Defs) (fuel : Nat) (u : Bool) : ∀ (t : BTy) (m : Nat),
    m ∈ inlineRefs defs fuel u t → refBoxed defs fuel u m = false
  | .prim, _, h => by simp [inlineRefs] at h
  | .coll, _, h => by simp [inlineRefs] at h
  | .optional t, m, h => inlineRefs_unboxed defs fuel u t m (by simpa [inlineRefs] using h)
  | .ref n, m, h => by
    simp only [inlineRefs] at h
    split at h
    · cases h
    · simp at h; subst h; simpa using ‹¬refBoxed defs fuel u m = true›
  | .ext fb, m, h => inlineRefs_unboxed defs fuel u fb m (by simpa [inlineRefs] using h)

/-- what is not an alias gets its answer without fuel -/
theorem needsBoxN_nonalias (defs : Defs) (n : Nat) (h : ∀ t, defs[n]? ≠ some (.alias t)) (f g : Nat) :
    needsBoxN defs f n = needsBoxN defs g n := by
  cases f <;> cases g <;> simp only [needsBoxN] <;> (cases hd : defs[n]? with
    | none => rfl
    | some d => cases d with
      | alias t => exact absurd hd (h t)
      | _ => rfl)

/-- the conditions under which the recursion through aliases is well founded: a Conjure compiler rule (no alias
cycle), here as a depth that every alias-to-alias step lowers -/
structure AliasWF (defs : Defs) (depth : Nat → Nat) (D : Nat) : Prop where
  bound : ∀ n, depth n < D
  step : ∀ n t, defs[n]? = some (.alias t) → ∀ m ∈ aliasRefs t, ∀ t', defs[m]? = some (.alias t') → depth m < depth n

/-- with enough fuel the answer no longer depends on the fuel -/
theorem needsBoxN_stable (defs : Defs) (depth : Nat → Nat) (D : Nat) (wf : AliasWF defs depth D) :
    ∀ (k n : Nat), depth n = k → ∀ f g, depth n < f → depth n < g → needsBoxN defs f n = needsBoxN defs g n := by
  intro k
  induction k using Nat.strongRecOn with
  | _ k ih =>
    intro n hk f g hf hg
    cases hd : defs[n]? with
    | none => exact needsBoxN_nonalias defs n (by simp [hd]) f g
    | some d =>
      cases d with
      | alias t =>
        obtain ⟨f', rfl⟩ : ∃ f', f = f' + 1 := ⟨f - 1, by omega⟩
        obtain ⟨g', rfl⟩ : ∃ g', g = g' + 1 := ⟨g - 1, by omega⟩
        simp only [needsBoxN, hd]
        apply needsBoxT_congr
        intro m hm
        by_cases ha : ∃ t', defs[m]? = some (.alias t')
        · obtain ⟨t', ht'⟩ := ha
          have hlt := wf.step n t hd m hm t' ht'
          exact ih (depth m) (by omega) m rfl f' g' (by omega) (by omega)
        · exact needsBoxN_nonalias defs m (fun t' h => ha ⟨t', h⟩) f' g'
      | enum => exact needsBoxN_nonalias defs n (by simp [hd]) f g
      | object fs => exact needsBoxN_nonalias defs n (by simp [hd]) f g
      | union fs => exact needsBoxN_nonalias defs n (by simp [hd]) f g

/-- the rank: enums lowest, then aliases of unboxed things by depth, then objects, unions, and aliases of boxed
things by depth -/
def rank (defs : Defs) (fuel : Nat) (depth : Nat → Nat) (D : Nat) (n : Nat) : Nat :=
  match defs[n]? with
  | some (.alias t) => if needsBoxT (needsBoxN defs fuel) t then D + 3 + depth n else 1 + depth n
  | some (.object _) => D + 1
  | some (.union _) => D + 2
  | _ => 0

theorem rank_of_unboxed (defs : Defs) (fuel : Nat) (depth : Nat → Nat) (D : Nat) (wf : AliasWF defs depth D)
    (u : Bool) (m : Nat) (h : refBoxed defs fuel u m = false) :
    rank defs fuel depth D m ≤ D ∨ (u = true ∧ rank defs fuel depth D m = D + 1) := by
  unfold refBoxed at h
  unfold rank
  cases hd : defs[m]? with
  | none => simp
  | some d =>
    cases d with
    | alias t => simp only [hd] at h; simp only [h]; left; have := wf.bound m; simp; omega
    | enum => simp
    | object fs => simp only [hd] at h; right; simpa using h
    | union fs => simp [hd] at h

/-- **every by-value edge lowers the rank** -/
theorem succ_rank (defs : Defs) (fuel : Nat) (depth : Nat → Nat) (D : Nat) (wf : AliasWF defs depth D)
    (hfuel : D < fuel) (n m : Nat) (h : m ∈ succ defs fuel n) :
    rank defs fuel depth D m < rank defs fuel depth D n := by
  unfold succ at h
  cases hd : defs[n]? with
  | none => simp [hd] at h
  | some d =>
    cases d with
    | enum => simp [hd] at h
    | object fs =>
      simp only [hd, List.mem_flatMap] at h
      obtain ⟨f, _, hm⟩ := h
      have hu := inlineRefs_unboxed defs fuel false f m hm
      have hr : rank defs fuel depth D n = D + 1 := by simp [rank, hd]
      rcases rank_of_unboxed defs fuel depth D wf false m hu with h1 | ⟨h1, _⟩
      · omega
      · cases h1
    | union fs =>
      simp only [hd, List.mem_flatMap] at h
      obtain ⟨f, _, hm⟩ := h
      have hu := inlineRefs_unboxed defs fuel true f m hm
      have hr : rank defs fuel depth D n = D + 2 := by simp [rank, hd]
      rcases rank_of_unboxed defs fuel depth D wf true m hu with h1 | ⟨_, h1⟩ <;> omega
    | alias t =>
      simp only [hd] at h
      have hkey := needsBoxT_of_mem (needsBoxN defs fuel) t m h
      have hrn : rank defs fuel depth D n =
          if needsBoxN defs fuel m then D + 3 + depth n else 1 + depth n := by
        simp [rank, hd, hkey]
      rw [hrn]
      have hbn := wf.bound n
      have hbm := wf.bound m
      cases hdm : defs[m]? with
      | none =>
        have : rank defs fuel depth D m = 0 := by simp [rank, hdm]
        rw [this]; split <;> omega
      | some dm =>
        cases dm with
        | enum =>
          have : rank defs fuel depth D m = 0 := by simp [rank, hdm]
          rw [this]; split <;> omega
        | object fs =>
          have h1 : rank defs fuel depth D m = D + 1 := by simp [rank, hdm]
          have h2 : needsBoxN defs fuel m = true := by cases fuel <;> simp [needsBoxN, hdm]
          rw [h1, h2]; simp; omega
        | union fs =>
          have h1 : rank defs fuel depth D m = D + 2 := by simp [rank, hdm]
          have h2 : needsBoxN defs fuel m = true := by cases fuel <;> simp [needsBoxN, hdm]
          rw [h1, h2]; simp; omega
        | alias t' =>
          have hlt := wf.step n t hd m h t' hdm
          -- the answer for `m` at this fuel is the answer the rank of `m` uses
          obtain ⟨f', rfl⟩ : ∃ f', fuel = f' + 1 := ⟨fuel - 1, by omega⟩
          have hnb : needsBoxN defs (f' + 1) m = needsBoxT (needsBoxN defs (f' + 1)) t' := by
            simp only [needsBoxN, hdm]
            apply needsBoxT_congr
            intro k hk
            by_cases ha : ∃ t'', defs[k]? = some (.alias t'')
            · obtain ⟨t'', ht''⟩ := ha
              have := wf.step m t' hdm k hk t'' ht''
              exact needsBoxN_stable defs depth D wf (depth k) k rfl f' (f' + 1) (by omega) (by omega)
            · exact needsBoxN_nonalias defs k (fun t'' h => ha ⟨t'', h⟩) f' (f' + 1)
          have hrm : rank defs (f' + 1) depth D m =
              if needsBoxN defs (f' + 1) m then D + 3 + depth m else 1 + depth m := by
            simp [rank, hdm, hnb]
          rw [hrm]
          split <;> omega

/-- a chain of by-value containments -/
inductive Holds (defs : Defs) (fuel : Nat) : Nat → Nat → Prop
  | direct {n m : Nat} : m ∈ succ defs fuel n → Holds defs fuel n m
  | step {n m k : Nat} : m ∈ succ defs fuel n → Holds defs fuel m k → Holds defs fuel n k

theorem holds_rank (defs : Defs) (fuel : Nat) (depth : Nat → Nat) (D : Nat) (wf : AliasWF defs depth D)
    (hfuel : D < fuel) {n m : Nat} (h : Holds defs fuel n m) :
    rank defs fuel depth D m < rank defs fuel depth D n := by
  induction h with
  | direct h => exact succ_rank defs fuel depth D wf hfuel _ _ h
  | step h _ ih => have := succ_rank defs fuel depth D wf hfuel _ _ h; omega

end ConjureVerif.Boxing
