import ConjureVerif.Model.DoubleOps
set_option linter.unusedSimpArgs false
namespace ConjureVerif.DoubleOps

/-- the laws of a total order consistent with equality and hashing -/
structure Lawful {α : Type} (o : Ops α) : Prop where
  cmp_refl : ∀ a, o.cmp a a = .eq
  cmp_swap : ∀ a b, o.cmp b a = (o.cmp a b).swap
  lt_trans : ∀ a b c, o.cmp a b = .lt → o.cmp b c = .lt → o.cmp a c = .lt
  eq_congr : ∀ a b c, o.cmp a b = .eq → o.cmp a c = o.cmp b c
  eq_iff : ∀ a b, o.cmp a b = .eq ↔ o.eq a b = true
  hash_eq : ∀ a b, o.eq a b = true → o.hash a = o.hash b

theorem icmp_refl (x : Int) : icmp x x = .eq := by simp [icmp]
theorem icmp_swap (x y : Int) : icmp y x = (icmp x y).swap := by
  rcases Int.lt_trichotomy x y with h | h | h
  · have h1 : ¬ y < x := by omega
    have h2 : ¬ y = x := by omega
    simp [icmp, h, h1, h2, Ordering.swap]
  · subst h; simp [icmp, Ordering.swap]
  · have h1 : ¬ x < y := by omega
    have h2 : ¬ x = y := by omega
    simp [icmp, h, h1, h2, Ordering.swap]
theorem icmp_lt {x y : Int} : icmp x y = .lt ↔ x < y := by
  unfold icmp; split <;> (try split) <;> simp <;> omega
theorem icmp_eq {x y : Int} : icmp x y = .eq ↔ x = y := by
  unfold icmp; split <;> (try split) <;> simp <;> omega
theorem icmp_gt {x y : Int} : icmp x y = .gt ↔ y < x := by
  unfold icmp; split <;> (try split) <;> simp <;> omega

theorem lawful_f64 : Lawful f64Ops where
  cmp_refl a := by cases a <;> simp [f64Ops, icmp_refl]
  cmp_swap a b := by
    cases a <;> cases b <;> simp [f64Ops, Ordering.swap]
    exact icmp_swap _ _
  lt_trans a b c h1 h2 := by
    cases a <;> cases b <;> cases c <;> simp [f64Ops] at h1 h2 ⊢
    rw [icmp_lt] at h1 h2 ⊢; omega
  eq_congr a b c h := by
    cases a <;> cases b <;> simp [f64Ops] at h
    · rfl
    · rw [icmp_eq] at h; subst h; rfl
  eq_iff a b := by
    cases a <;> cases b <;> simp [f64Ops, icmp_eq]
  hash_eq a b h := by simp [f64Ops] at h; subst h; rfl

theorem lawful_opt {α : Type} {o : Ops α} (h : Lawful o) : Lawful (optOps o) where
  cmp_refl a := by cases a <;> simp [optOps, h.cmp_refl]
  cmp_swap a b := by
    cases a <;> cases b <;> simp [optOps, Ordering.swap]
    exact h.cmp_swap _ _
  lt_trans a b c h1 h2 := by
    cases a <;> cases b <;> cases c <;> simp [optOps] at h1 h2 ⊢
    exact h.lt_trans _ _ _ h1 h2
  eq_congr a b c hab := by
    cases a <;> cases b <;> simp [optOps] at hab
    · rfl
    · cases c <;> simp [optOps]; exact h.eq_congr _ _ _ hab
  eq_iff a b := by cases a <;> cases b <;> simp [optOps, h.eq_iff]
  hash_eq a b hab := by
    cases a <;> cases b <;> simp [optOps] at hab ⊢
    exact h.hash_eq _ _ hab

theorem vecCmp_refl {α : Type} {o : Ops α} (h : Lawful o) : ∀ a : List α, vecCmp o a a = .eq
  | [] => rfl
  | x :: xs => by simp [vecCmp, h.cmp_refl, vecCmp_refl h xs]

theorem vecCmp_swap {α : Type} {o : Ops α} (h : Lawful o) : ∀ a b : List α, vecCmp o b a = (vecCmp o a b).swap
  | [], [] => rfl
  | [], _ :: _ => rfl
  | _ :: _, [] => rfl
  | x :: xs, y :: ys => by
    simp only [vecCmp]
    rw [h.cmp_swap x y]
    cases hc : o.cmp x y <;> simp [Ordering.swap, vecCmp_swap h xs ys]

theorem vecCmp_lt_trans {α : Type} {o : Ops α} (h : Lawful o) : ∀ a b c : List α,
    vecCmp o a b = .lt → vecCmp o b c = .lt → vecCmp o a c = .lt
  | [], [], _, h1, _ => by simp [vecCmp] at h1
  | [], _ :: _, [], _, h2 => by simp [vecCmp] at h2
  | [], _ :: _, _ :: _, _, _ => rfl
  | _ :: _, [], _, h1, _ => by simp [vecCmp] at h1
  | _ :: _, _ :: _, [], _, h2 => by simp [vecCmp] at h2
  | x :: xs, y :: ys, z :: zs, h1, h2 => by
    simp only [vecCmp] at h1 h2 ⊢
    cases hxy : o.cmp x y with
    | gt => simp [hxy] at h1
    | lt =>
      cases hyz : o.cmp y z with
      | gt => simp [hyz] at h2
      | lt => simp [h.lt_trans x y z hxy hyz]
      | eq =>
        have : o.cmp x z = .lt := by
          have e := h.eq_congr y z x hyz
          rw [h.cmp_swap x y, h.cmp_swap x z] at e
          rw [hxy] at e; simp [Ordering.swap] at e
          cases hxz : o.cmp x z <;> simp [hxz, Ordering.swap] at e ⊢
        simp [this]
    | eq =>
      simp only [hxy] at h1
      rw [h.eq_congr x y z hxy]
      cases hyz : o.cmp y z with
      | gt => simp [hyz] at h2
      | lt => rfl
      | eq => simp only [hyz] at h2 ⊢; exact vecCmp_lt_trans h xs ys zs h1 h2

theorem vecCmp_eq_congr {α : Type} {o : Ops α} (h : Lawful o) : ∀ a b c : List α,
    vecCmp o a b = .eq → vecCmp o a c = vecCmp o b c
  | [], [], _, _ => rfl
  | [], _ :: _, _, hab => by simp [vecCmp] at hab
  | _ :: _, [], _, hab => by simp [vecCmp] at hab
  | x :: xs, y :: ys, [], _ => rfl
  | x :: xs, y :: ys, z :: zs, hab => by
    simp only [vecCmp] at hab ⊢
    cases hxy : o.cmp x y with
    | lt => simp [hxy] at hab
    | gt => simp [hxy] at hab
    | eq =>
      simp only [hxy] at hab
      rw [h.eq_congr x y z hxy]
      cases o.cmp y z <;> simp
      exact vecCmp_eq_congr h xs ys zs hab

theorem vecCmp_eq_iff {α : Type} {o : Ops α} (h : Lawful o) : ∀ a b : List α,
    vecCmp o a b = .eq ↔ vecEq o a b = true
  | [], [] => by simp [vecCmp, vecEq]
  | [], _ :: _ => by simp [vecCmp, vecEq]
  | _ :: _, [] => by simp [vecCmp, vecEq]
  | x :: xs, y :: ys => by
    simp only [vecCmp, vecEq, Bool.and_eq_true]
    rw [← h.eq_iff x y, ← vecCmp_eq_iff h xs ys]
    cases o.cmp x y <;> simp

theorem vecEq_length {α : Type} {o : Ops α} : ∀ a b : List α, vecEq o a b = true → a.length = b.length
  | [], [], _ => rfl
  | [], _ :: _, h => by simp [vecEq] at h
  | _ :: _, [], h => by simp [vecEq] at h
  | _ :: xs, _ :: ys, h => by
    simp only [vecEq, Bool.and_eq_true] at h
    simp [vecEq_length xs ys h.2]

theorem vecEq_hash {α : Type} {o : Ops α} (h : Lawful o) : ∀ a b : List α, vecEq o a b = true →
    a.flatMap o.hash = b.flatMap o.hash
  | [], [], _ => rfl
  | [], _ :: _, hab => by simp [vecEq] at hab
  | _ :: _, [], hab => by simp [vecEq] at hab
  | x :: xs, y :: ys, hab => by
    simp only [vecEq, Bool.and_eq_true] at hab
    simp [List.flatMap_cons, h.hash_eq x y hab.1, vecEq_hash h xs ys hab.2]

theorem lawful_vec {α : Type} {o : Ops α} (h : Lawful o) : Lawful (vecOps o) where
  cmp_refl := vecCmp_refl h
  cmp_swap := vecCmp_swap h
  lt_trans := vecCmp_lt_trans h
  eq_congr := vecCmp_eq_congr h
  eq_iff := vecCmp_eq_iff h
  hash_eq a b hab := by
    simp only [vecOps] at hab ⊢
    rw [vecEq_length a b hab, vecEq_hash h a b hab]

theorem lawful_pair {α : Type} {o : Ops α} (h : Lawful o) : Lawful (pairOps o) where
  cmp_refl a := by simp [pairOps, icmp_refl, h.cmp_refl]
  cmp_swap a b := by
    simp only [pairOps]
    rw [icmp_swap a.1 b.1, h.cmp_swap a.2 b.2]
    cases icmp a.1 b.1 <;> simp [Ordering.swap]
  lt_trans a b c h1 h2 := by
    simp only [pairOps] at h1 h2 ⊢
    cases hab : icmp a.1 b.1 with
    | gt => simp [hab] at h1
    | lt =>
      cases hbc : icmp b.1 c.1 with
      | gt => simp [hbc] at h2
      | lt => have : icmp a.1 c.1 = .lt := by rw [icmp_lt] at hab hbc ⊢; omega
              simp [this]
      | eq => have : icmp a.1 c.1 = .lt := by rw [icmp_lt] at hab ⊢; rw [icmp_eq] at hbc; omega
              simp [this]
    | eq =>
      simp only [hab] at h1
      cases hbc : icmp b.1 c.1 with
      | gt => simp [hbc] at h2
      | lt => have : icmp a.1 c.1 = .lt := by rw [icmp_lt] at hbc ⊢; rw [icmp_eq] at hab; omega
              simp [this]
      | eq =>
        simp only [hbc] at h2
        have : icmp a.1 c.1 = .eq := by rw [icmp_eq] at hab hbc ⊢; omega
        simp only [this]; exact h.lt_trans _ _ _ h1 h2
  eq_congr a b c hab := by
    simp only [pairOps] at hab ⊢
    cases h1 : icmp a.1 b.1 with
    | lt => simp [h1] at hab
    | gt => simp [h1] at hab
    | eq =>
      simp only [h1] at hab
      have e : a.1 = b.1 := icmp_eq.mp h1
      rw [e, h.eq_congr a.2 b.2 c.2 hab]
  eq_iff a b := by
    simp only [pairOps, Bool.and_eq_true, decide_eq_true_eq]
    rw [← h.eq_iff, ← icmp_eq]
    cases icmp a.1 b.1 <;> simp
  hash_eq a b hab := by
    simp only [pairOps, Bool.and_eq_true, decide_eq_true_eq] at hab ⊢
    rw [hab.1, h.hash_eq _ _ hab.2]

theorem lawful_map {α : Type} {o : Ops α} (h : Lawful o) : Lawful (mapOps o) := lawful_vec (lawful_pair h)

theorem lawful_prod {α β : Type} {oa : Ops α} {ob : Ops β} (ha : Lawful oa) (hb : Lawful ob) :
    Lawful (prodOps oa ob) where
  cmp_refl a := by simp [prodOps, ha.cmp_refl, hb.cmp_refl]
  cmp_swap a b := by
    simp only [prodOps]
    rw [ha.cmp_swap a.1 b.1, hb.cmp_swap a.2 b.2]
    cases oa.cmp a.1 b.1 <;> simp [Ordering.swap]
  lt_trans a b c h1 h2 := by
    simp only [prodOps] at h1 h2 ⊢
    cases hab : oa.cmp a.1 b.1 with
    | gt => simp [hab] at h1
    | lt =>
      cases hbc : oa.cmp b.1 c.1 with
      | gt => simp [hbc] at h2
      | lt => simp [ha.lt_trans _ _ _ hab hbc]
      | eq =>
        have e := ha.eq_congr b.1 c.1 a.1 hbc
        rw [ha.cmp_swap a.1 b.1, ha.cmp_swap a.1 c.1, hab] at e
        cases hac : oa.cmp a.1 c.1 <;> simp [hac, Ordering.swap] at e ⊢
    | eq =>
      simp only [hab] at h1
      rw [ha.eq_congr a.1 b.1 c.1 hab]
      cases hbc : oa.cmp b.1 c.1 with
      | gt => simp [hbc] at h2
      | lt => rfl
      | eq => simp only [hbc] at h2 ⊢; exact hb.lt_trans _ _ _ h1 h2
  eq_congr a b c hab := by
    simp only [prodOps] at hab ⊢
    cases h1 : oa.cmp a.1 b.1 with
    | lt => simp [h1] at hab
    | gt => simp [h1] at hab
    | eq =>
      simp only [h1] at hab
      rw [ha.eq_congr a.1 b.1 c.1 h1, hb.eq_congr a.2 b.2 c.2 hab]
  eq_iff a b := by
    simp only [prodOps, Bool.and_eq_true]
    rw [← ha.eq_iff, ← hb.eq_iff]
    cases oa.cmp a.1 b.1 <;> simp
  hash_eq a b hab := by
    simp only [prodOps, Bool.and_eq_true] at hab ⊢
    rw [ha.hash_eq _ _ hab.1, hb.hash_eq _ _ hab.2]

theorem lawful_sum {α β : Type} {oa : Ops α} {ob : Ops β} (ha : Lawful oa) (hb : Lawful ob) :
    Lawful (sumOps oa ob) where
  cmp_refl a := by cases a <;> simp [sumOps, ha.cmp_refl, hb.cmp_refl]
  cmp_swap a b := by
    cases a <;> cases b <;> simp [sumOps, Ordering.swap]
    · exact ha.cmp_swap _ _
    · exact hb.cmp_swap _ _
  lt_trans a b c h1 h2 := by
    cases a <;> cases b <;> cases c <;> simp [sumOps] at h1 h2 ⊢
    · exact ha.lt_trans _ _ _ h1 h2
    · exact hb.lt_trans _ _ _ h1 h2
  eq_congr a b c hab := by
    cases a <;> cases b <;> simp [sumOps] at hab
    · cases c <;> simp [sumOps]; exact ha.eq_congr _ _ _ hab
    · cases c <;> simp [sumOps]; exact hb.eq_congr _ _ _ hab
  eq_iff a b := by cases a <;> cases b <;> simp [sumOps, ha.eq_iff, hb.eq_iff]
  hash_eq a b hab := by
    cases a <;> cases b <;> simp [sumOps] at hab ⊢
    · exact ha.hash_eq _ _ hab
    · exact hb.hash_eq _ _ hab

/-! consequences in the familiar form -/
theorem Lawful.eq_refl {α : Type} {o : Ops α} (h : Lawful o) (a : α) : o.eq a a = true :=
  (h.eq_iff a a).mp (h.cmp_refl a)

theorem Lawful.le_trans {α : Type} {o : Ops α} (h : Lawful o) (a b c : α)
    (h1 : o.cmp a b ≠ .gt) (h2 : o.cmp b c ≠ .gt) : o.cmp a c ≠ .gt := by
  cases hab : o.cmp a b with
  | gt => exact absurd hab h1
  | eq => rw [h.eq_congr a b c hab]; exact h2
  | lt =>
    cases hbc : o.cmp b c with
    | gt => exact absurd hbc h2
    | lt => rw [h.lt_trans a b c hab hbc]; simp
    | eq =>
      have e := h.eq_congr b c a hbc
      rw [h.cmp_swap a b, h.cmp_swap a c, hab] at e
      cases hac : o.cmp a c <;> simp [hac, Ordering.swap] at e ⊢

theorem lawful_key : Lawful keyOps where
  cmp_refl a := icmp_refl a
  cmp_swap a b := icmp_swap a b
  lt_trans a b c h1 h2 := by
    simp only [keyOps] at h1 h2 ⊢; rw [icmp_lt] at h1 h2 ⊢; omega
  eq_congr a b c h := by
    simp only [keyOps] at h ⊢; rw [icmp_eq] at h; subst h; rfl
  eq_iff a b := by simp [keyOps, icmp_eq]
  hash_eq a b h := by simp [keyOps] at h; subst h; rfl

theorem Lawful.lt_of_lt_of_le {α : Type} {o : Ops α} (h : Lawful o) (a b c : α)
    (h1 : o.cmp a b = .lt) (h2 : o.cmp b c ≠ .gt) : o.cmp a c = .lt := by
  cases hbc : o.cmp b c with
  | gt => exact absurd hbc h2
  | lt => exact h.lt_trans a b c h1 hbc
  | eq =>
    have e := h.eq_congr b c a hbc
    rw [h.cmp_swap a b, h.cmp_swap a c, h1] at e
    cases hac : o.cmp a c <;> simp [hac, Ordering.swap] at e ⊢

theorem Lawful.gt_iff_lt {α : Type} {o : Ops α} (h : Lawful o) (a b : α) : o.cmp a b = .gt ↔ o.cmp b a = .lt := by
  rw [h.cmp_swap a b]; cases o.cmp a b <;> simp [Ordering.swap]

/-! ### sorted-set lookups (`BTreeSet`/`BTreeMap` use `Ord::cmp` only) -/
def Sorted {α : Type} (o : Ops α) (l : List α) : Prop := l.Pairwise (fun a b => o.cmp a b = .lt)

theorem sfind_sins_self {α : Type} {o : Ops α} (h : Lawful o) (x : α) : ∀ l : List α, sfind o x (sins o x l) = true
  | [] => by simp [sins, sfind, h.cmp_refl]
  | y :: ys => by
    simp only [sins]
    cases hc : o.cmp x y with
    | lt => simp [sfind, h.cmp_refl]
    | eq => simp [sfind, hc]
    | gt => simp [sfind, hc, sfind_sins_self h x ys]

theorem mem_sins {α : Type} {o : Ops α} (x z : α) : ∀ l : List α, z ∈ sins o x l → z = x ∨ z ∈ l
  | [], hz => by simp [sins] at hz; exact Or.inl hz
  | y :: ys, hz => by
    simp only [sins] at hz
    cases hc : o.cmp x y with
    | lt => rw [hc] at hz; simp at hz ⊢; exact hz
    | eq => rw [hc] at hz; exact Or.inr hz
    | gt =>
      rw [hc] at hz; simp at hz ⊢
      rcases hz with hz | hz
      · exact Or.inr (Or.inl hz)
      · rcases mem_sins x z ys hz with e | e
        · exact Or.inl e
        · exact Or.inr (Or.inr e)

theorem sins_sorted {α : Type} {o : Ops α} (h : Lawful o) (x : α) : ∀ l : List α, Sorted o l → Sorted o (sins o x l)
  | [], _ => by simp [sins, Sorted]
  | y :: ys, hs => by
    have hs' := List.pairwise_cons.mp hs
    simp only [sins]
    cases hc : o.cmp x y with
    | lt =>
      refine List.pairwise_cons.mpr ⟨?_, hs⟩
      intro z hz
      rcases List.mem_cons.mp hz with e | e
      · subst e; exact hc
      · exact h.lt_trans x y z hc (hs'.1 z e)
    | eq => exact hs
    | gt =>
      refine List.pairwise_cons.mpr ⟨?_, sins_sorted h x ys hs'.2⟩
      intro z hz
      rcases mem_sins x z ys hz with e | e
      · subst e; exact (h.gt_iff_lt _ _).mp hc
      · exact hs'.1 z e

theorem sfind_sins_other {α : Type} {o : Ops α} (h : Lawful o) (x z : α) : ∀ l : List α, Sorted o l →
    sfind o z l = true → sfind o z (sins o x l) = true
  | [], _, hf => by simp [sfind] at hf
  | y :: ys, hs, hf => by
    have hs' := List.pairwise_cons.mp hs
    simp only [sins]
    cases hc : o.cmp x y with
    | eq => exact hf
    | lt =>
      have hzy : o.cmp y z ≠ .gt := by
        intro hg
        have := (h.gt_iff_lt y z).mp hg
        simp [sfind, this] at hf
      have hxz := h.lt_of_lt_of_le x y z hc hzy
      have hzx : o.cmp z x = .gt := (h.gt_iff_lt z x).mpr hxz
      simp only [sfind, hzx]; exact hf
    | gt =>
      simp only [sfind] at hf ⊢
      cases hzy : o.cmp z y with
      | lt => simp [hzy] at hf
      | eq => rfl
      | gt => simp only [hzy] at hf ⊢; exact sfind_sins_other h x z ys hs'.2 hf

theorem sfind_congr {α : Type} {o : Ops α} (h : Lawful o) (z z' : α) (he : o.eq z z' = true) :
    ∀ l : List α, sfind o z l = sfind o z' l
  | [] => rfl
  | y :: ys => by
    have hc := h.eq_congr z z' y ((h.eq_iff z z').mpr he)
    simp only [sfind, hc, sfind_congr h z z' he ys]

/-- the set built by inserting a whole list one element at a time -/
def buildSet {α : Type} (o : Ops α) (l : List α) : List α := l.foldl (fun acc y => sins o y acc) []

theorem foldl_sins_sorted {α : Type} {o : Ops α} (h : Lawful o) : ∀ (l acc : List α), Sorted o acc →
    Sorted o (l.foldl (fun acc y => sins o y acc) acc)
  | [], _, hs => hs
  | y :: ys, acc, hs => foldl_sins_sorted h ys (sins o y acc) (sins_sorted h y acc hs)

theorem foldl_sins_keeps {α : Type} {o : Ops α} (h : Lawful o) (z : α) : ∀ (l acc : List α), Sorted o acc →
    sfind o z acc = true → sfind o z (l.foldl (fun acc y => sins o y acc) acc) = true
  | [], _, _, hf => hf
  | y :: ys, acc, hs, hf =>
    foldl_sins_keeps h z ys (sins o y acc) (sins_sorted h y acc hs) (sfind_sins_other h y z acc hs hf)

theorem foldl_sins_finds {α : Type} {o : Ops α} (h : Lawful o) (z : α) : ∀ (l acc : List α), Sorted o acc →
    z ∈ l → sfind o z (l.foldl (fun acc y => sins o y acc) acc) = true
  | [], _, _, hz => by simp at hz
  | y :: ys, acc, hs, hz => by
    rcases List.mem_cons.mp hz with e | e
    · subst e
      exact foldl_sins_keeps h z ys (sins o z acc) (sins_sorted h z acc hs) (sfind_sins_self h z acc)
    · exact foldl_sins_finds h z ys (sins o y acc) (sins_sorted h y acc hs) e

end ConjureVerif.DoubleOps
