import ConjureVerif.Model.Negotiate
set_option linter.unusedSimpArgs false
namespace ConjureVerif.Negotiate

theorem before_refl (a : Range) : before a a := by unfold before; omega
theorem before_total (a b : Range) : before a b ∨ before b a := by unfold before; omega
theorem before_trans {a b c : Range} (h1 : before a b) (h2 : before b c) : before a c := by
  unfold before at *; omega

theorem mem_insertSorted (x y : Range) (l : List Range) : y ∈ insertSorted x l ↔ y = x ∨ y ∈ l := by
  induction l with
  | nil => simp [insertSorted]
  | cons z zs ih =>
    unfold insertSorted
    split
    · simp
    · simp only [List.mem_cons, ih]
      constructor
      · rintro (h | h | h)
        · exact .inr (.inl h)
        · exact .inl h
        · exact .inr (.inr h)
      · rintro (h | h | h)
        · exact .inr (.inl h)
        · exact .inl h
        · exact .inr (.inr h)

theorem mem_sortRanges (y : Range) (l : List Range) : y ∈ sortRanges l ↔ y ∈ l := by
  induction l with
  | nil => simp [sortRanges]
  | cons x xs ih =>
    have : sortRanges (x :: xs) = insertSorted x (sortRanges xs) := rfl
    rw [this, mem_insertSorted, ih]; simp

theorem pairwise_insertSorted (x : Range) (l : List Range) (h : l.Pairwise before) :
    (insertSorted x l).Pairwise before := by
  induction l with
  | nil => simp [insertSorted]
  | cons z zs ih =>
    have hz := List.pairwise_cons.mp h
    unfold insertSorted
    split
    · rename_i hb
      refine List.pairwise_cons.mpr ⟨?_, h⟩
      intro y hy
      rcases List.mem_cons.mp hy with e | e
      · rw [e]; exact hb
      · exact before_trans hb (hz.1 y e)
    · rename_i hb
      have hzx : before z x := (before_total x z).resolve_left hb
      refine List.pairwise_cons.mpr ⟨?_, ih hz.2⟩
      intro y hy
      rcases (mem_insertSorted x y zs).mp hy with e | e
      · rw [e]; exact hzx
      · exact hz.1 y e

theorem pairwise_sortRanges (l : List Range) : (sortRanges l).Pairwise before := by
  induction l with
  | nil => simp [sortRanges]
  | cons x xs ih => exact pairwise_insertSorted x _ ih

/-- in a list sorted by `before`, the first element satisfying `p` comes `before` every other one -/
theorem find_sorted_dominates (p : Range → Bool) :
    ∀ (l : List Range), l.Pairwise before → ∀ x, l.find? p = some x →
      x ∈ l ∧ p x = true ∧ ∀ y ∈ l, p y = true → before x y
  | [], _, x, h => by simp at h
  | a :: as, hs, x, h => by
    have hs' := List.pairwise_cons.mp hs
    by_cases hpa : p a = true
    · simp [List.find?, hpa] at h
      subst h
      refine ⟨List.mem_cons_self, hpa, ?_⟩
      intro y hy _
      rcases List.mem_cons.mp hy with e | e
      · rw [e]; exact before_refl _
      · exact hs'.1 y e
    · simp [List.find?, hpa] at h
      obtain ⟨h1, h2, h3⟩ := find_sorted_dominates p as hs'.2 x h
      refine ⟨List.mem_cons_of_mem _ h1, h2, ?_⟩
      intro y hy hpy
      rcases List.mem_cons.mp hy with e | e
      · rw [e] at hpy; exact absurd hpy hpa
      · exact h3 y e hpy

theorem better_refl (a : Nat × Nat) : better a a := by unfold better; omega
theorem better_trans {a b c : Nat × Nat} (h1 : better a b) (h2 : better b c) : better a c := by
  unfold better at *; omega
theorem better_total (a b : Nat × Nat) : better a b ∨ better b a := by unfold better; omega

theorem maxFold_cons {α : Type} (key : α → Nat × Nat) (x y : α) (ys : List α) :
    maxFold key x (y :: ys) = maxFold key (if better (key x) (key y) then y else x) ys := rfl

/-- fold of `max_by`: the result is in the list (or the seed), dominates everything, and every
    element after its last occurrence is strictly worse -/
theorem maxFold_spec {α : Type} (key : α → Nat × Nat) (xs : List α) (x : α) :
    (maxFold key x xs = x ∨ maxFold key x xs ∈ xs) ∧ better (key x) (key (maxFold key x xs)) ∧
    (∀ y ∈ xs, better (key y) (key (maxFold key x xs))) ∧
    (∃ pre post, x :: xs = pre ++ maxFold key x xs :: post ∧
      ∀ y ∈ post, ¬ better (key (maxFold key x xs)) (key y)) := by
  induction xs generalizing x with
  | nil => exact ⟨.inl rfl, better_refl _, by simp, [], [], rfl, by simp⟩
  | cons y ys ih =>
    rw [maxFold_cons]
    by_cases hb : better (key x) (key y)
    · rw [if_pos hb]
      obtain ⟨h1, h2, h3, pre, post, h4, h5⟩ := ih y
      refine ⟨?_, better_trans hb h2, ?_, x :: pre, post, ?_, h5⟩
      · rcases h1 with e | e
        · right; rw [e]; exact List.mem_cons_self
        · exact .inr (List.mem_cons_of_mem _ e)
      · intro z hz
        rcases List.mem_cons.mp hz with e | e
        · rw [e]; exact h2
        · exact h3 z e
      · rw [h4]; rfl
    · rw [if_neg hb]
      obtain ⟨h1, h2, h3, pre, post, h4, h5⟩ := ih x
      have hyx : better (key y) (key x) := (better_total (key x) (key y)).resolve_left hb
      refine ⟨?_, h2, ?_, ?_⟩
      · rcases h1 with e | e
        · exact .inl e
        · exact .inr (List.mem_cons_of_mem _ e)
      · intro z hz
        rcases List.mem_cons.mp hz with e | e
        · rw [e]; exact better_trans hyx h2
        · exact h3 z e
      · cases pre with
        | nil =>
          have e1 : x = maxFold key x ys := by
            have := congrArg List.head? h4; simpa using this
          have e2 : ys = post := by
            have := congrArg List.tail h4; simpa using this
          refine ⟨[], y :: post, ?_, ?_⟩
          · rw [← e1, ← e2]; rfl
          · intro z hz
            rcases List.mem_cons.mp hz with e | e
            · rw [e, ← e1]; exact hb
            · exact h5 z e
        | cons p ps =>
          have e1 : x = p := by
            have := congrArg List.head? h4; simpa using this
          have e2 : ys = ps ++ maxFold key x ys :: post := by
            have := congrArg List.tail h4; simpa using this
          refine ⟨x :: y :: ps, post, ?_, h5⟩
          show x :: y :: ys = x :: y :: ps ++ maxFold key x ys :: post
          rw [List.cons_append, List.cons_append, ← e2]

theorem maxByLast_spec {α : Type} (key : α → Nat × Nat) (l : List α) (m : α) (h : maxByLast key l = some m) :
    m ∈ l ∧ (∀ y ∈ l, better (key y) (key m)) ∧
    (∃ pre post, l = pre ++ m :: post ∧ ∀ y ∈ post, ¬ better (key m) (key y)) := by
  cases l with
  | nil => simp [maxByLast] at h
  | cons x xs =>
    have hm : maxFold key x xs = m := by simpa [maxByLast] using h
    obtain ⟨h1, h2, h3, h4⟩ := maxFold_spec key xs x
    rw [hm] at h1 h2 h3 h4
    refine ⟨?_, ?_, h4⟩
    · rcases h1 with e | e
      · rw [e]; exact List.mem_cons_self
      · exact List.mem_cons_of_mem _ e
    · intro y hy
      rcases List.mem_cons.mp hy with e | e
      · rw [e]; exact h2
      · exact h3 y e

theorem maxByLast_none {α : Type} (key : α → Nat × Nat) (l : List α) : maxByLast key l = none ↔ l = [] := by
  cases l <;> simp [maxByLast]

end ConjureVerif.Negotiate
