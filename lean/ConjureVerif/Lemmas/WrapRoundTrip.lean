import ConjureVerif.Lemmas.WrapTyping
set_option linter.unusedSimpArgs false
namespace ConjureVerif.Wrap
open ConjureVerif.Data

theorem deDbl_serDbl (fmt : Fmt) (d : Dbl) : deDbl fmt (serDbl fmt d) = .ok d := by
  cases fmt <;> cases d <;> simp [serDbl, deDbl, txtNaN, txtInf, txtNegInf]

theorem deBytes_serBytes (fmt : Fmt) (bs : List Nat) (h : Bytes bs) : deBytes fmt (serBytes fmt bs) = .ok bs := by
  cases fmt <;> simp [serBytes, deBytes, Base64.decode_encode bs h]

theorem de_uuid (fmt : Fmt) (side : Side) (bs : List Nat) (hl : bs.length = 16) (hb : Bytes bs) :
    de fmt side .uuid (match fmt with | .json => Doc.str (Plain.uuidText bs) | .smile => Doc.bin bs) = .ok (.uuid bs) := by
  cases fmt
  · simp [de, C12.C12_roundtrip_uuid bs hl hb]
  · simp [de, hl]

mutual
  /-- round trip of one value, in either format, through either deserializer -/
  theorem rt (fmt : Fmt) (side : Side) : ∀ {t : Ty} {v : Val}, HasTy t v →
      ∃ d, ser fmt t v = some d ∧ de fmt side t d = .ok v
    | _, _, .bool b => ⟨.bool b, rfl, by simp [de]⟩
    | _, _, .int w n hw => ⟨.int n, rfl, by simp [de, hw]⟩
    | _, _, .f64 d => ⟨serDbl fmt d, rfl, by rw [de]; simp [deDbl_serDbl]⟩
    | _, _, .f32 d => ⟨serDbl fmt d, rfl, by rw [de]; simp [deDbl_serDbl]⟩
    | _, _, .str s => ⟨.str s, rfl, by simp [de]⟩
    | _, _, .bytes bs hb => ⟨serBytes fmt bs, rfl, by rw [de]; simp [deBytes_serBytes fmt bs hb]⟩
    | _, _, .unit => ⟨.null, rfl, by simp [de]⟩
    | _, _, .uuid bs hl hb => ⟨_, rfl, de_uuid fmt side bs hl hb⟩
    | _, _, .none t => ⟨.null, rfl, by simp [de]⟩
    | _, _, .some t v hv hn => by
      obtain ⟨d, h1, h2⟩ := rt fmt side hv
      refine ⟨d, by simp [ser, h1], ?_⟩
      have hd : d ≠ .null := fun e => hn fmt (by rw [h1, e])
      rw [de]
      · simp [h2]
      · intro x; exact hd x
    | _, _, .seq t vs hl => by
      obtain ⟨ds, h1, h2⟩ := rtL fmt side hl
      exact ⟨.arr ds, by simp [ser, h1], by rw [de]; simp [h2]⟩
    | _, _, .tuple ts vs ht => by
      obtain ⟨ds, h1, h2⟩ := rtT fmt side ht
      exact ⟨.arr ds, by simp [ser, h1], by rw [de]; simp [h2]⟩
    | _, _, .map kt vt es he => by
      obtain ⟨ms, h1, h2⟩ := rtE fmt side he
      exact ⟨.obj ms, by simp [ser, h1], by rw [de]; simp [h2]⟩
    | _, _, .unitStruct => ⟨.null, rfl, by simp [de]⟩
    | _, _, .newtype t v hv => by
      obtain ⟨d, h1, h2⟩ := rt fmt side hv
      exact ⟨d, by simp [ser, h1], by rw [de]; simp [h2]⟩
    | _, _, .tupleStruct ts vs ht => by
      obtain ⟨ds, h1, h2⟩ := rtT fmt side ht
      exact ⟨.arr ds, by simp [ser, h1], by rw [de]; simp [h2]⟩
    | _, _, .struct fs vs hnd hf => by
      obtain ⟨ms, h1, h2⟩ := rtM fmt side (side == .server) .nil hf (by simpa [Fields.append] using hnd) [] (by simp)
      refine ⟨.obj ms, by simp [ser, h1], ?_⟩
      rw [de]
      simp only [Fields.append] at h2
      rw [h2]
      simp only [List.nil_append, Fields.length]
      have := assemble_enumFrom fs vs 0 [] hf.sameLen (by simp)
      simp only [List.nil_append] at this
      simp [this]
    | _, _, .unitVariant vs i name pty hg hd => by
      refine ⟨.str name, by simp [ser, hg], ?_⟩
      rw [de]; simp [hd i name .unit pty hg]
    | _, _, .newtypeVariant vs i name pty p hg hd hp => by
      obtain ⟨d, h1, h2⟩ := rt fmt side hp
      refine ⟨.obj (.cons (.text name) d .nil), by simp [ser, hg, h1], ?_⟩
      rw [de]; simp [hd i name .newtype pty hg, h2]
    | _, _, .tupleVariant vs i name ts ps hg hd ht => by
      obtain ⟨ds, h1, h2⟩ := rtT fmt side ht
      refine ⟨.obj (.cons (.text name) (.arr ds) .nil), by simp [ser, hg, h1], ?_⟩
      have hde : de fmt side (.tuple ts) (.arr ds) = .ok (.tuple ps) := by rw [de]; simp [h2]
      rw [de]; simp [hd i name .tuple (.tuple ts) hg, hde]
    | _, _, .structVariant vs i name fs ps hg hd hnd hf => by
      obtain ⟨ms, h1, h2⟩ := rtM fmt side false .nil hf (by simpa [Fields.append] using hnd) [] (by simp)
      refine ⟨.obj (.cons (.text name) (.obj ms) .nil), by simp [ser, hg, h1], ?_⟩
      simp only [Fields.append] at h2
      have := assemble_enumFrom fs ps 0 [] hf.sameLen (by simp)
      simp only [List.nil_append] at this
      rw [de]
      simp [hd i name .struct (.struct fs) hg, h2, Fields.length, this]
  theorem rtL (fmt : Fmt) (side : Side) : ∀ {t : Ty} {vs : Vals}, HasTyL t vs →
      ∃ ds, serL fmt t vs = some ds ∧ deL fmt side t ds = .ok vs
    | _, _, .nil t => ⟨.nil, rfl, by simp [deL]⟩
    | _, _, .cons t v vs hv hl => by
      obtain ⟨d, h1, h2⟩ := rt fmt side hv
      obtain ⟨ds, h3, h4⟩ := rtL fmt side hl
      exact ⟨.cons d ds, by simp [serL, h1, h3], by rw [deL]; simp [h2, h4]⟩
  theorem rtT (fmt : Fmt) (side : Side) : ∀ {ts : Tys} {vs : Vals}, HasTyT ts vs →
      ∃ ds, serT fmt ts vs = some ds ∧ deT fmt side ts ds = .ok vs
    | _, _, .nil => ⟨.nil, rfl, by simp [deT]⟩
    | _, _, .cons t ts v vs hv ht => by
      obtain ⟨d, h1, h2⟩ := rt fmt side hv
      obtain ⟨ds, h3, h4⟩ := rtT fmt side ht
      exact ⟨.cons d ds, by simp [serT, h1, h3], by rw [deT]; simp [h2, h4]⟩
  theorem rtE (fmt : Fmt) (side : Side) : ∀ {kt vt : Ty} {es : Entries}, HasTyE kt vt es →
      ∃ ms, serE fmt kt vt es = some ms ∧ deE fmt side kt vt ms = .ok es
    | _, _, _, .nil kt vt => ⟨.nil, rfl, by simp [deE]⟩
    | _, _, _, .cons kt vt k v es hk hv he => by
      obtain ⟨key, k1, k2⟩ := deKey_serKey hk
      obtain ⟨d, h1, h2⟩ := rt fmt side hv
      obtain ⟨ms, h3, h4⟩ := rtE fmt side he
      exact ⟨.cons key d ms, by simp [serE, k1, h1, h3], by rw [deE]; simp [k2, h2, h4]⟩
  /-- the members written for the fields `fs` (a suffix of the struct's fields `pre ++ fs`) are read
      back, in order, as the field indices `|pre|, |pre|+1, …` with the original values -/
  theorem rtM (fmt : Fmt) (side : Side) (strict : Bool) : ∀ (pre : Fields) {fs : Fields} {vs : FVals},
      HasTyF fs vs → (pre.append fs).names.Nodup → ∀ (acc : List (Nat × Val)), (∀ p ∈ acc, p.1 < pre.length) →
      ∃ ms, serF fmt fs vs = some ms ∧
        deM fmt side strict (pre.append fs) ms acc = .ok (acc ++ enumFrom pre.length vs)
    | pre, _, _, .nil, _, acc, _ => ⟨.nil, rfl, by simp [deM, enumFrom]⟩
    | pre, _, _, .cons n t fs v vs hv hf, hnd, acc, hacc => by
      obtain ⟨d, h1, h2⟩ := rt fmt side hv
      have hn : n ∉ pre.names := by
        rw [Fields.names_append] at hnd
        intro hm
        exact (List.nodup_append.mp hnd).2.2 n hm n (by simp [Fields.names]) rfl
      have hnd' : ((pre.snoc n t).append fs).names.Nodup := by rw [Fields.append_snoc]; exact hnd
      obtain ⟨ms, h3, h4⟩ := rtM fmt side strict (pre.snoc n t) hf hnd' (acc ++ [(pre.length, v)]) (by
        intro p hp
        rw [Fields.length_snoc]
        rcases List.mem_append.mp hp with h | h
        · have := hacc p h; omega
        · simp at h; subst h; simp)
      refine ⟨.cons (.text n) d ms, by simp [serF, h1, h3], ?_⟩
      rw [deM]
      rw [fieldIndex_append pre n t fs 0 hn]
      simp only [Nat.zero_add, lookup_lt hacc, Option.isSome_none, Bool.false_eq_true, if_false, h2]
      rw [Fields.append_snoc, Fields.length_snoc] at h4
      rw [h4]
      simp [enumFrom]
end

end ConjureVerif.Wrap
