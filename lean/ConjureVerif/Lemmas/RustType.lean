import ConjureVerif.Model.RustType
set_option linter.unusedSimpArgs false
namespace ConjureVerif.RustType

/-- in a key position every type the generator writes is totally ordered -/
theorem ordOk_key : ∀ t : CTy, ordOk (rustType true t) = true
  | .prim p => by cases p <;> simp [rustType, ordOk]
  | .optional t => by simp [rustType, ordOk, ordOk_key t]
  | .list t => by simp [rustType, ordOk, ordOk_key t]
  | .set t => by simp [rustType, ordOk, ordOk_key t]
  | .map k v => by simp [rustType, ordOk, ordOk_key k, ordOk_key v]
  | .ref n => by simp [rustType, ordOk]
  | .ext fb => by simp [rustType, ordOk_key fb]

/-- **every set item and map key is `Ord`, at any depth, in any position** -/
theorem usable_rustType : ∀ (key : Bool) (t : CTy), usable (rustType key t) = true
  | key, .prim p => by cases p <;> cases key <;> simp [rustType, usable]
  | key, .optional t => by simp [rustType, usable, usable_rustType key t]
  | key, .list t => by simp [rustType, usable, usable_rustType key t]
  | key, .set t => by simp [rustType, usable, ordOk_key t, usable_rustType true t]
  | key, .map k v => by simp [rustType, usable, ordOk_key k, usable_rustType true k, usable_rustType key v]
  | key, .ref n => by simp [rustType, usable]
  | key, .ext fb => by simp [rustType, usable_rustType key fb]

/-- the rule before the repair (map values always written as in a value position): a set of maps to doubles is a
set of something that has no order -/
def rustTypeOld (key : Bool) : CTy → RTy
  | .prim .double => if key then .doubleKey else .f64
  | .prim p => .leaf (primName p)
  | .optional t => .option (rustTypeOld key t)
  | .list t => .vec (rustTypeOld key t)
  | .set t => .set (rustTypeOld true t)
  | .map k v => .map (rustTypeOld true k) (rustTypeOld false v)
  | .ref n => .leaf n
  | .ext fb => rustTypeOld key fb

theorem old_rule_unusable :
    usable (rustTypeOld false (.set (.map (.prim .string) (.prim .double)))) = false := by decide

end ConjureVerif.RustType
