import ConjureVerif.Model.RustType
set_option linter.unusedSimpArgs false
namespace ConjureVerif.RustType

/-- in a key position every type the generator writes is totally ordered -/
theorem ordOk_key : ∀ t : CTy, ordOk (rustType true t) = true
  | .prim p => by cases p <;> simp [rustType, ordOk]
  | .optional t => by simp [rustType, ordOk, ordOk_key t]
  | .list t => by simp [rustType, ordOk, ordOk_key t]
  | .set t => by simp [rustType, ordOk, ordOk_key t]
  | .map k v => by simp [rustType, ordOk, ordOk_key k, ordOk_key v]
  | .ref n => by simp [rustType, ordOk]
  | .ext fb => by simp [rustType, ordOk_key fb]

/-- **every set item and map key is `Ord`, at any depth, in any position** -/
theorem usable_rustType : ∀ (key : Bool) (t : CTy), usable (rustType key t) = true
  | key, .prim p => by cases p <;> cases key <;> simp [rustType, usable]
  | key, .optional t => by simp [rustType, usable, usable_rustType key t]
  | key, .list t => by simp [rustType, usable, usable_rustType key t]
  | key, .set t => by simp [rustType, usable, ordOk_key t, usable_rustType true t]
  | key, .map k v => by simp [rustType, usable, ordOk_key k, usable_rustType true k, usable_rustType key v]
  | key, .ref n => by simp [rustType, usable]
  | key, .ext fb => by simp [rustType, usable_rustType key fb]

/-- a field that does not get the `DoubleOps` methods has a type with an order of its own (no bare `f64` in it): the
derived comparison, equality and hash of that field exist -/
theorem isDouble_false_ord : ∀ t : CTy, isDouble t = false → ordOk (rustType false t) = true
  | .prim p, h => by cases p <;> simp_all [rustType, ordOk, isDouble]
  | .optional t, h => by simp only [rustType, ordOk]; exact isDouble_false_ord t (by simpa [isDouble] using h)
  | .list t, h => by simp only [rustType, ordOk]; exact isDouble_false_ord t (by simpa [isDouble] using h)
  | .set t, _ => by simp [rustType, ordOk, ordOk_key t]
  | .map k v, h => by
    simp only [rustType, ordOk, ordOk_key k, Bool.true_and]
    exact isDouble_false_ord v (by simpa [isDouble] using h)
  | .ref n, _ => by simp [rustType, ordOk]
  | .ext fb, h => by simp only [rustType]; exact isDouble_false_ord fb (by simpa [isDouble] using h)

/-- a field that gets the `DoubleOps` methods has a type they are implemented for -/
theorem isDouble_true_ops : ∀ t : CTy, isDouble t = true → doubleOpsOk (rustType false t) = true
  | .prim p, h => by cases p <;> simp_all [rustType, doubleOpsOk, isDouble]
  | .optional t, h => by simp only [rustType, doubleOpsOk]; exact isDouble_true_ops t (by simpa [isDouble] using h)
  | .list t, h => by simp only [rustType, doubleOpsOk]; exact isDouble_true_ops t (by simpa [isDouble] using h)
  | .set t, h => by simp [isDouble] at h
  | .map k v, h => by simp only [rustType, doubleOpsOk]; exact isDouble_true_ops v (by simpa [isDouble] using h)
  | .ref n, h => by simp [isDouble] at h
  | .ext fb, h => by simp only [rustType]; exact isDouble_true_ops fb (by simpa [isDouble] using h)

/-- the item a setter stores is an element of the field, in a value position and in a key position alike -/
theorem builderItem_fits : ∀ (key : Bool) (t : CTy), fits (builderItem key t) (rustType key t) = true
  | key, .prim p => by cases p <;> cases key <;> simp [builderItem, fits, rustType, primName]
  | key, .optional t => by simp [builderItem, fits, rustType]
  | key, .list t => by simp [builderItem, fits, rustType]
  | key, .set t => by simp [builderItem, fits, rustType]
  | key, .map k v => by simp [builderItem, fits, rustType]
  | key, .ref n => by simp [builderItem, fits, rustType]
  | key, .ext fb => by simp only [builderItem, rustType]; exact builderItem_fits key fb

/-- the element types of a collection field's Rust type -/
def elems : RTy → List RTy
  | .vec t => [t]
  | .set t => [t]
  | .map k v => [k, v]
  | _ => []

def fieldFits : FieldCfg → RTy → Bool
  | .list i, .vec t => fits i t
  | .set i, .set t => fits i t
  | .map k v, .map a b => fits k a && fits v b
  | .other, _ => true
  | _, _ => false

theorem builderField_fits : ∀ t : CTy, fieldFits (builderField t) (rustType false t) = true
  | .prim p => by cases p <;> simp [builderField, fieldFits]
  | .optional t => by simp [builderField, fieldFits]
  | .list t => by simp [builderField, fieldFits, rustType, builderItem_fits false t]
  | .set t => by simp [builderField, fieldFits, rustType, builderItem_fits true t]
  | .map k v => by simp [builderField, fieldFits, rustType, builderItem_fits true k, builderItem_fits false v]
  | .ref n => by simp [builderField, fieldFits]
  | .ext fb => by simp only [builderField, rustType]; exact builderField_fits fb

/-- the rule before the repair (map values always written as in a value position): a set of maps to doubles is a
set of something that has no order -/
def rustTypeOld (key : Bool) : CTy → RTy
  | .prim .double => if key then .doubleKey else .f64
  | .prim p => .leaf (primName p)
  | .optional t => .option (rustTypeOld key t)
  | .list t => .vec (rustTypeOld key t)
  | .set t => .set (rustTypeOld true t)
  | .map k v => .map (rustTypeOld true k) (rustTypeOld false v)
  | .ref n => .leaf n
  | .ext fb => rustTypeOld key fb

theorem old_rule_unusable :
    usable (rustTypeOld false (.set (.map (.prim .string) (.prim .double)))) = false := by decide

end ConjureVerif.RustType
