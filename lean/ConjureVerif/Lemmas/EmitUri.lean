import ConjureVerif.Lemmas.Emit
import ConjureVerif.Lemmas.Call
/-
The URI a generated client method builds (its `UriBuilder` calls, Model/Emit.lean) is the URI the request model of
C04 starts from (`Call.uriBytes`): so the theorems about that model speak about the generated code of every endpoint.
-/
set_option linter.unusedSimpArgs false
namespace ConjureVerif.EmitUri
open ConjureVerif ConjureVerif.Emit

/-- what one client call does to the `UriBuilder`, given the PLAIN texts of each argument (by identifier):
`push_literal`, `push_path_parameter`, and one `push_*query_parameter` per supplied value -/
def pushesOf (tbl : List Nat) (txt : String → List Bytes) : Emit.Call → List Uri.Push
  | .lit (47 :: s) => [Uri.Push.literal [s]]
  | .pathParam (some i) => [Uri.Push.pathParam ((txt i).headD [])]
  | .query _ k i => (txt i).map (fun t => Uri.Push.queryParam (Uri.encode tbl k) t)
  | _ => []

/-- the request model's view of the same endpoint: its template … -/
def tmplOf (e : Endpoint) : List Call.TSeg :=
  (parsePath e.path).map (fun s => match s with | .lit l => Call.TSeg.lit l | .param n => Call.TSeg.param n)

/-- the decoder cardinality the generated server trait names for the argument (`serverArg`), in the endpoint model's
terms -/
def decOfAttr : SAttr → Endpoint.Dec
  | .query _ .one _ _ | .header _ .one _ _ => .one
  | .query _ (.opt _) _ _ | .header _ (.opt _) _ _ => .opt
  | .query _ .seq _ _ | .header _ .seq _ _ => .seq
  | .body .std _ _ => .std
  | .body (.opt _) _ _ => .optional
  | .body .binary _ _ => .binary
  | _ => .one

/-- … and its arguments with their texts, described as the generated server trait describes them (decoder, names);
the PLAIN type and the safety of each argument are parameters -/
def cargOf (defs : Defs) (f : Nat) (ty : Arg → Endpoint.PTy) (safe : Arg → Bool) (kw : List String) (txt : String → List Bytes) (a : Arg) : Call.CArg :=
  { spec := { kind := match a.kind with | .path => .path | .query _ => .query | .header _ => .header | .body => .body,
              dec := decOfAttr (serverArg defs f kw a), ty := ty a,
              name := match a.kind with | .path => a.name | .query id => id | .header id => id.map lower | .body => [],
              logName := a.name, ident := strBytes (ident kw a), safe := safe a },
    texts := match a.kind with
      | .path => [(txt (ident kw a)).headD []]
      | _ => txt (ident kw a) }

/-- the text the client writes for a template parameter: that of the path argument it names -/
def ptxt (txt : String → List Bytes) : Option String → Bytes
  | some i => (txt i).headD []
  | none => []

theorem foldl_pathCalls' (tbl : List Nat) (txt : String → List Bytes) :
    ∀ (calls : List Emit.Call) (b : Uri.Builder),
      (∀ c ∈ calls, (∃ s, c = .lit (47 :: s)) ∨ (∃ i, c = .pathParam (some i))) →
      (calls.flatMap (pushesOf tbl txt)).foldl (Uri.Builder.push tbl) b =
        { buf := b.buf ++ calls.flatMap (callBuf tbl (ptxt txt)), inPath := b.inPath }
  | [], b, _ => by simp
  | c :: rest, b, h => by
    have hc := h c (by simp)
    have hr := foldl_pathCalls' tbl txt rest
    rcases hc with ⟨s, rfl⟩ | ⟨i, rfl⟩
    · simp only [List.flatMap_cons, pushesOf, List.foldl_append, List.foldl_cons, List.foldl_nil]
      rw [hr _ (fun c hc => h c (List.mem_cons_of_mem _ hc))]
      simp [Uri.Builder.push, Uri.joinSegs, callBuf, List.append_assoc]
    · simp only [List.flatMap_cons, pushesOf, List.foldl_append, List.foldl_cons, List.foldl_nil]
      rw [hr _ (fun c hc => h c (List.mem_cons_of_mem _ hc))]
      simp [Uri.Builder.push, callBuf, ptxt, List.append_assoc]

/-- the calls for the path: literals start with `/`, and a parameter that names a path argument pushes it -/
theorem pathCalls_shape (kw : List String) (args : List Arg) : ∀ (segs : List Seg) (cur : Bytes),
    (cur = [] ∨ ∃ s, cur = 47 :: s) →
    (∀ n, Seg.param n ∈ segs → (args.find? (fun a => a.kind == .path && a.name == n)).isSome = true) →
    ∀ c ∈ pathCalls kw args segs cur, (∃ s, c = .lit (47 :: s)) ∨ (∃ i, c = .pathParam (some i))
  | [], cur, hcur, _, c, hc => by
    unfold pathCalls at hc
    split at hc
    · cases hc
    · rename_i hne
      simp only [List.mem_singleton] at hc
      rcases hcur with rfl | ⟨s, rfl⟩
      · simp at hne
      · exact Or.inl ⟨s, hc⟩
  | .lit l :: r, cur, hcur, hp, c, hc => by
    unfold pathCalls at hc
    refine pathCalls_shape kw args r (cur ++ 47 :: l) ?_ (fun n hn => hp n (List.mem_cons_of_mem _ hn)) c hc
    rcases hcur with rfl | ⟨s, rfl⟩
    · exact Or.inr ⟨l, rfl⟩
    · exact Or.inr ⟨s ++ 47 :: l, rfl⟩
  | .param n :: r, cur, hcur, hp, c, hc => by
    unfold pathCalls at hc
    simp only [List.mem_append] at hc
    have hsome := hp n (by simp)
    obtain ⟨a, ha⟩ := Option.isSome_iff_exists.mp hsome
    rcases hc with hc | hc
    · split at hc
      · simp only [List.mem_singleton] at hc
        exact Or.inr ⟨ident kw a, by rw [hc, ha]; rfl⟩
      · simp only [List.mem_cons, List.mem_singleton, List.not_mem_nil, or_false] at hc
        rcases hc with hc | hc
        · rcases hcur with rfl | ⟨s, rfl⟩
          · rename_i hne; simp at hne
          · exact Or.inl ⟨s, hc⟩
        · exact Or.inr ⟨ident kw a, by rw [hc, ha]; rfl⟩
    · exact pathCalls_shape kw args r [] (Or.inl rfl) (fun n hn => hp n (List.mem_cons_of_mem _ hn)) c hc


theorem find_cargOf (defs : Defs) (f : Nat) (ty : Arg → Endpoint.PTy) (safe : Arg → Bool) (kw : List String) (txt : String → List Bytes) (args : List Arg) (n : Bytes) :
    ((args.map (cargOf defs f ty safe kw txt)).find? (fun a => a.spec.kind == .path && a.spec.name == n)) =
      (args.find? (fun a => a.kind == .path && a.name == n)).map (cargOf defs f ty safe kw txt) := by
  induction args with
  | nil => rfl
  | cons a rest ih =>
    simp only [List.map_cons, List.find?_cons]
    have hk : ((cargOf defs f ty safe kw txt a).spec.kind == Endpoint.Kind.path && (cargOf defs f ty safe kw txt a).spec.name == n) =
        (a.kind == PKind.path && a.name == n) := by
      unfold cargOf
      cases a.kind <;> simp <;> rfl
    rw [hk]
    cases a.kind == PKind.path && a.name == n
    · simpa using ih
    · rfl

theorem pathText_cargOf (defs : Defs) (f : Nat) (ty : Arg → Endpoint.PTy) (safe : Arg → Bool) (kw : List String) (txt : String → List Bytes) (args : List Arg) (n : Bytes) :
    Call.pathText (args.map (cargOf defs f ty safe kw txt)) n =
      ptxt txt ((args.find? (fun a => a.kind == .path && a.name == n)).map (ident kw)) := by
  unfold Call.pathText
  rw [find_cargOf]
  cases h : args.find? (fun a => a.kind == .path && a.name == n) with
  | none => rfl
  | some a =>
    have hk : a.kind = .path := by
      have := List.find?_some h
      simp only [Bool.and_eq_true, beq_iff_eq] at this
      exact this.1
    simp [cargOf, hk, ptxt]

theorem pathBytes_tmpl (tbl : List Nat) (defs : Defs) (f : Nat) (ty : Arg → Endpoint.PTy) (safe : Arg → Bool) (kw : List String) (txt : String → List Bytes) (e : Endpoint) :
    Uri.pathBytes tbl (Call.uriReq (tmplOf e) (e.args.map (cargOf defs f ty safe kw txt))).segs =
      (parsePath e.path).flatMap (segBuf tbl (fun n => ptxt txt ((e.args.find? (fun a => a.kind == .path && a.name == n)).map (ident kw)))) := by
  unfold Uri.pathBytes Call.uriReq tmplOf Uri.joinSegs
  simp only [List.map_map]
  induction parsePath e.path with
  | nil => rfl
  | cons s rest ih =>
    simp only [List.map_cons, List.flatten_cons, List.flatMap_cons]
    rw [ih]
    cases s with
    | lit l => simp [segBuf, Uri.Seg.raw]
    | param n => simp [segBuf, Uri.Seg.raw, pathText_cargOf]

theorem query_pushes (tbl : List Nat) (defs : Defs) (f : Nat) (ty : Arg → Endpoint.PTy) (safe : Arg → Bool) (kw : List String) (txt : String → List Bytes) (args : List Arg) :
    (queryCalls defs f kw args).flatMap (pushesOf tbl txt) =
      (Call.queryPairs (args.map (cargOf defs f ty safe kw txt))).map (fun kv => Uri.Push.queryParam (Uri.encode tbl kv.1) kv.2) := by
  unfold queryCalls Call.queryPairs
  induction args with
  | nil => rfl
  | cons a rest ih =>
    simp only [List.filterMap_cons, List.map_cons, List.filter_cons]
    cases hk : a.kind with
    | query id =>
      have : ((cargOf defs f ty safe kw txt a).spec.kind == Endpoint.Kind.query) = true := by simp [cargOf, hk]
      simp only [this, if_true, List.flatMap_cons, List.map_append, pushesOf]
      rw [ih]
      simp [cargOf, hk, List.map_map, Function.comp_def]
    | path =>
      have : ((cargOf defs f ty safe kw txt a).spec.kind == Endpoint.Kind.query) = false := by simp [cargOf, hk]
      simp only [this]; exact ih
    | header id =>
      have : ((cargOf defs f ty safe kw txt a).spec.kind == Endpoint.Kind.query) = false := by simp [cargOf, hk]
      simp only [this]; exact ih
    | body =>
      have : ((cargOf defs f ty safe kw txt a).spec.kind == Endpoint.Kind.query) = false := by simp [cargOf, hk]
      simp only [this]; exact ih

theorem no_pushes_header (tbl : List Nat) (defs : Defs) (f : Nat) (kw : List String) (txt : String → List Bytes)
    (auth : Auth) (args : List Arg) : (headerCalls defs f kw auth args).flatMap (pushesOf tbl txt) = [] := by
  rw [List.flatMap_eq_nil_iff]
  intro c hc
  unfold headerCalls at hc
  rw [List.mem_append] at hc
  rcases hc with hc | hc
  · cases auth <;> simp at hc <;> subst hc <;> rfl
  · obtain ⟨a, -, ha⟩ := List.mem_filterMap.mp hc
    cases hk : a.kind <;> simp [hk] at ha
    subst ha; rfl

/-- **the generated client's URI is the model's**: for an endpoint every one of whose template parameters names a
path argument, the `UriBuilder` calls of the generated client method, performed with the arguments' PLAIN texts,
produce exactly the bytes `Call.uriBytes` assigns to the template and the arguments — the starting point of
`C04_path_arg` / `C04_query_arg` / `C04_handler_runs` -/
theorem emit_uri (tbl : List Nat) (defs : Defs) (f : Nat) (ty : Arg → Endpoint.PTy) (safe : Arg → Bool) (kw : List String) (txt : String → List Bytes) (e : Endpoint)
    (hp : ∀ n, Seg.param n ∈ parsePath e.path → (e.args.find? (fun a => a.kind == .path && a.name == n)).isSome = true) :
    Uri.buildBuf tbl ((clientCalls defs f kw e).flatMap (pushesOf tbl txt)) =
      Call.uriBytes tbl (tmplOf e) (e.args.map (cargOf defs f ty safe kw txt)) := by
  unfold Call.uriBytes
  rw [Uri.buildBuf_eq]
  unfold clientCalls
  simp only [List.flatMap_append, List.flatMap_cons, List.flatMap_nil, List.append_nil]
  have h0 : pushesOf tbl txt (setupRequest defs f kw e.args) = [] := by
    unfold setupRequest; split
    · split <;> rfl
    · rfl
  rw [h0, no_pushes_header, query_pushes tbl defs f ty safe kw txt]
  simp only [pushesOf, List.nil_append, List.append_nil]
  unfold Uri.buildBuf
  rw [List.foldl_append, foldl_pathCalls' tbl txt _ _ (pathCalls_shape kw e.args _ [] (Or.inl rfl) hp)]
  rw [Uri.foldl_query _ _ _ rfl]
  simp only [List.nil_append]
  rw [pathCalls_buf, pathBytes_tmpl tbl defs f ty safe kw txt]
  simp [Call.uriReq]


/-! ### headers -/

/-- the endpoint's auth argument as the request model sees it -/
def authCargs (auth : Auth) (tok : Bytes) : List Call.CArg :=
  match auth with
  | .none => []
  | .header => [{ spec := { kind := .auth, dec := .one, ty := .token, name := [], logName := [], ident := [], safe := false }, texts := [tok] }]
  | .cookie n => [{ spec := { kind := .cookie, dec := .one, ty := .token, name := n ++ [61], logName := [], ident := [], safe := false }, texts := [tok] }]

/-- what the header-writing calls of a client method produce: `encode_header_auth` / `encode_cookie_auth` /
`encode_header` / `encode_optional_header`, in order; `none`: a value HTTP cannot carry, the call is refused -/
def headersOf (txt : String → List Bytes) (tok : Bytes) : List Emit.Call → Option (List (Bytes × Bytes))
  | [] => some []
  | .headerAuth :: r => (headersOf txt tok r).map (fun hs => (Endpoint.authorization, Endpoint.bearer ++ tok) :: hs)
  | .cookieAuth p :: r => (headersOf txt tok r).map (fun hs => (Endpoint.cookie, p ++ tok) :: hs)
  | .header _ name i :: r =>
    if (txt i).all Call.headerValueOk then (headersOf txt tok r).map (fun hs => (txt i).map (fun t => (name, t)) ++ hs)
    else none
  | _ :: r => headersOf txt tok r

theorem headersOf_skip (txt : String → List Bytes) (tok : Bytes) (pre rest : List Emit.Call)
    (h : ∀ c ∈ pre, c ≠ .headerAuth ∧ (∀ p, c ≠ .cookieAuth p) ∧ ∀ o n i, c ≠ .header o n i) :
    headersOf txt tok (pre ++ rest) = headersOf txt tok rest := by
  induction pre with
  | nil => rfl
  | cons c cs ih =>
    have hc := h c (by simp)
    have := ih (fun c hc => h c (List.mem_cons_of_mem _ hc))
    cases c with
    | headerAuth => exact absurd rfl hc.1
    | cookieAuth p => exact absurd rfl (hc.2.1 p)
    | header o n i => exact absurd rfl (hc.2.2 o n i)
    | _ => simpa [headersOf] using this

theorem headerCalls_cons (defs : Defs) (f : Nat) (kw : List String) (a : Arg) (rest : List Arg) :
    headerCalls defs f kw .none (a :: rest) =
      (match a.kind with
        | .header id => [Emit.Call.header (isOptional defs f a.ty).isSome (id.map lower) (ident kw a)]
        | _ => []) ++ headerCalls defs f kw .none rest := by
  unfold headerCalls
  simp only [List.nil_append, List.filterMap_cons]
  cases a.kind <;> rfl

theorem headers_args (defs : Defs) (f : Nat) (ty : Arg → Endpoint.PTy) (safe : Arg → Bool) (kw : List String) (txt : String → List Bytes) (tok : Bytes) :
    ∀ (args : List Arg) (tail : List Emit.Call), headersOf txt tok tail = some [] →
      headersOf txt tok (headerCalls defs f kw .none args ++ tail) = Call.clientHeaders (args.map (cargOf defs f ty safe kw txt))
  | [], tail, ht => by simpa [Call.clientHeaders, headerCalls] using ht
  | a :: rest, tail, ht => by
    have ih := headers_args defs f ty safe kw txt tok rest tail ht
    rw [headerCalls_cons, List.map_cons, Call.clientHeaders]
    cases hk : a.kind with
    | header id =>
      simp only [List.cons_append, List.nil_append, headersOf, cargOf, hk]
      rw [ih]
    | path => simp only [List.nil_append, cargOf, hk]; exact ih
    | query id => simp only [List.nil_append, cargOf, hk]; exact ih
    | body => simp only [List.nil_append, cargOf, hk]; exact ih

theorem headerCalls_auth (defs : Defs) (f : Nat) (kw : List String) (args : List Arg) :
    headerCalls defs f kw .header args = .headerAuth :: headerCalls defs f kw .none args ∧
    ∀ n, headerCalls defs f kw (.cookie n) args = .cookieAuth (n ++ [61]) :: headerCalls defs f kw .none args := by
  constructor
  · unfold headerCalls; rfl
  · intro n; unfold headerCalls; rfl

/-- **the generated client's headers are the model's**: the `Authorization` / `Cookie` value for the endpoint's auth
argument, then one header per supplied header value, under the lower-cased name; the call is refused exactly when
the model says so -/
theorem emit_headers (defs : Defs) (f : Nat) (ty : Arg → Endpoint.PTy) (safe : Arg → Bool) (kw : List String) (txt : String → List Bytes) (tok : Bytes) (e : Endpoint) :
    headersOf txt tok (clientCalls defs f kw e) =
      Call.clientHeaders (authCargs e.auth tok ++ e.args.map (cargOf defs f ty safe kw txt)) := by
  unfold clientCalls
  have hpre : ∀ c ∈ [setupRequest defs f kw e.args] ++ pathCalls kw e.args (parsePath e.path) [] ++ queryCalls defs f kw e.args,
      c ≠ .headerAuth ∧ (∀ p, c ≠ .cookieAuth p) ∧ ∀ o n i, c ≠ .header o n i := by
    intro c hc
    simp only [List.mem_append, List.mem_singleton] at hc
    rcases hc with (hc | hc) | hc
    · subst hc; unfold setupRequest; split
      · split <;> simp
      · simp
    · rcases pathCalls_mem kw e.args _ _ c hc with ⟨s, rfl⟩ | ⟨i, rfl⟩ <;> simp
    · unfold queryCalls at hc
      obtain ⟨a, -, ha⟩ := List.mem_filterMap.mp hc
      cases hk : a.kind <;> simp [hk] at ha
      subst ha; simp
  have hshape : [setupRequest defs f kw e.args] ++ pathCalls kw e.args (parsePath e.path) [] ++ queryCalls defs f kw e.args ++
      headerCalls defs f kw e.auth e.args ++
      [Emit.Call.accept (acceptOf (returnType defs f e.returns)), .ext e.name e.path, .decode (decodeOf defs f (returnType defs f e.returns))] =
      ([setupRequest defs f kw e.args] ++ pathCalls kw e.args (parsePath e.path) [] ++ queryCalls defs f kw e.args) ++
      (headerCalls defs f kw e.auth e.args ++
      [Emit.Call.accept (acceptOf (returnType defs f e.returns)), .ext e.name e.path, .decode (decodeOf defs f (returnType defs f e.returns))]) := by
    simp only [List.append_assoc]
  rw [hshape, headersOf_skip txt tok _ _ hpre]
  have htail : headersOf txt tok [Emit.Call.accept (acceptOf (returnType defs f e.returns)), .ext e.name e.path,
      .decode (decodeOf defs f (returnType defs f e.returns))] = some [] := by simp [headersOf]
  cases ha : e.auth with
  | none =>
    simp only [List.nil_append, authCargs]
    exact headers_args defs f ty safe kw txt tok e.args _ htail
  | header =>
    rw [(headerCalls_auth defs f kw e.args).1]
    simp only [List.cons_append, List.nil_append, authCargs, headersOf]
    rw [headers_args defs f ty safe kw txt tok e.args _ htail, Call.clientHeaders]
    simp [List.headD]
  | cookie n =>
    rw [(headerCalls_auth defs f kw e.args).2 n]
    simp only [List.cons_append, List.nil_append, authCargs, headersOf]
    rw [headers_args defs f ty safe kw txt tok e.args _ htail, Call.clientHeaders]
    simp [List.headD]


/-- the auth argument takes no part in the URI -/
theorem uriBytes_auth (tbl : List Nat) (tmpl : List Call.TSeg) (auth : Auth) (tok : Bytes) (cs : List Call.CArg) :
    Call.uriBytes tbl tmpl (authCargs auth tok ++ cs) = Call.uriBytes tbl tmpl cs := by
  have h : Call.uriReq tmpl (authCargs auth tok ++ cs) = Call.uriReq tmpl cs := by
    unfold Call.uriReq
    have hq : Call.queryPairs (authCargs auth tok ++ cs) = Call.queryPairs cs := by
      unfold Call.queryPairs authCargs
      cases auth <;> simp [List.filter_cons]
    have hp : ∀ n, Call.pathText (authCargs auth tok ++ cs) n = Call.pathText cs n := by
      intro n; unfold Call.pathText authCargs
      cases auth <;> simp [List.find?_cons]
    rw [hq]
    congr 1
    apply List.map_congr_left
    intro s _
    cases s with
    | lit l => rfl
    | param n => simp [hp]
  unfold Call.uriBytes
  rw [h]

/-- **the request of the generated client is the model's request**: URI bytes and headers, for the endpoint's auth
argument and all its arguments together -/
theorem emit_request (tbl : List Nat) (defs : Defs) (f : Nat) (ty : Arg → Endpoint.PTy) (safe : Arg → Bool) (kw : List String) (txt : String → List Bytes) (tok : Bytes)
    (e : Endpoint)
    (hp : ∀ n, Seg.param n ∈ parsePath e.path → (e.args.find? (fun a => a.kind == .path && a.name == n)).isSome = true) :
    Uri.buildBuf tbl ((clientCalls defs f kw e).flatMap (pushesOf tbl txt)) =
      Call.uriBytes tbl (tmplOf e) (authCargs e.auth tok ++ e.args.map (cargOf defs f ty safe kw txt)) ∧
    headersOf txt tok (clientCalls defs f kw e) =
      Call.clientHeaders (authCargs e.auth tok ++ e.args.map (cargOf defs f ty safe kw txt)) := by
  rw [uriBytes_auth]
  exact ⟨emit_uri tbl defs f ty safe kw txt e hp, emit_headers defs f ty safe kw txt tok e⟩


/-! ### the server half: the argument descriptors the expanded handler works from -/

/-- one attribute of the generated trait method as the endpoint model's argument descriptor (what
`#[conjure_endpoints]` reads from it) -/
def specOfAttr (ty : Endpoint.PTy) (safe : Bool) : SAttr → Option Endpoint.ArgSpec
  | .endpoint .. => none
  | .auth none => some { kind := .auth, dec := .one, ty := .token, name := [], logName := [], ident := [], safe := false }
  | .auth (some c) => some { kind := .cookie, dec := .one, ty := .token, name := c ++ [61], logName := [], ident := [], safe := false }
  | a@(.path n i l) => some { kind := .path, dec := decOfAttr a, ty, name := n, logName := l.getD (strBytes i), ident := strBytes i, safe }
  | a@(.query id _ i l) => some { kind := .query, dec := decOfAttr a, ty, name := id, logName := l.getD (strBytes i), ident := strBytes i, safe }
  | a@(.header id _ i l) => some { kind := .header, dec := decOfAttr a, ty, name := id.map lower, logName := l.getD (strBytes i), ident := strBytes i, safe }
  | a@(.body _ i l) => some { kind := .body, dec := decOfAttr a, ty, name := [], logName := l.getD (strBytes i), ident := strBytes i, safe }
  | .context => some { kind := .context, dec := .one, ty := .str, name := [], logName := [], ident := [], safe := false }

theorem logAs_getD (kw : List String) (a : Arg) : (logAs kw a).getD (strBytes (ident kw a)) = a.name := by
  unfold logAs
  by_cases hi : strBytes (ident kw a) = a.name <;> simp [hi]

/-- the descriptor the handler has for an argument is the one the client-side model uses for it -/
theorem spec_of_serverArg (defs : Defs) (f : Nat) (ty : Arg → Endpoint.PTy) (safe : Arg → Bool) (kw : List String)
    (txt : String → List Bytes) (a : Arg) :
    specOfAttr (ty a) (safe a) (serverArg defs f kw a) = some (cargOf defs f ty safe kw txt a).spec := by
  have hl := logAs_getD kw a
  unfold cargOf
  cases hk : a.kind <;> simp only [serverArg, hk, specOfAttr, hl, Option.some.injEq] <;> rfl

end ConjureVerif.EmitUri
