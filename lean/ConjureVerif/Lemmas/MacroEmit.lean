import ConjureVerif.Model.MacroEmit
import ConjureVerif.Lemmas.UriReq
/-
What a `#[conjure_client]` method writes into its URI, for any template, any arguments and any values, is what the
request normal form C07 reasons about writes: one constant segment per literal component (encoded at expansion time),
one parameter segment per text of the path argument a `{name}` component names, one pair per text of each query
argument, with the encoded key.
-/
set_option linter.unusedSimpArgs false
namespace ConjureVerif.MacroEmit
open ConjureVerif ConjureVerif.Uri

def segsOf (tbl : List Nat) (pathArgs : List MArg) (vals : Nat → List Bytes) : Comp → List Uri.Seg
  | .lit l => [.lit (encode tbl l)]
  | .param n => match lookup pathArgs n with
    | some a => (vals a.slot).map .param
    | none => []

/-- the request a derived method makes, in C07's normal form -/
def macroReq (tbl : List Nat) (tmpl : List Comp) (pathArgs queryArgs : List MArg) (vals : Nat → List Bytes) : Req where
  segs := tmpl.flatMap (segsOf tbl pathArgs vals)
  query := queryArgs.flatMap (fun a => (vals a.slot).map (fun v => (a.name, v)))

theorem joinSegs_append (a b : List (List Nat)) : joinSegs (a ++ b) = joinSegs a ++ joinSegs b := by
  simp [joinSegs]

theorem pathBytes_append (tbl : List Nat) (a b : List Uri.Seg) :
    pathBytes tbl (a ++ b) = pathBytes tbl a ++ pathBytes tbl b := by
  simp [pathBytes, joinSegs]

theorem foldl_params (tbl : List Nat) (vs : List Bytes) (b : Builder) :
    (vs.map Push.pathParam).foldl (Builder.push tbl) b =
      { buf := b.buf ++ pathBytes tbl (vs.map Uri.Seg.param), inPath := b.inPath } := by
  have := foldl_path tbl (vs.map Uri.Seg.param) b
  simpa [List.map_map, Function.comp_def, Uri.Seg.push] using this

theorem foldl_flush (tbl : List Nat) (vals : Nat → List Bytes) (cur : List Bytes) (b : Builder) :
    (pushes vals (if cur.isEmpty then [] else [MCall.lit cur])).foldl (Builder.push tbl) b =
      { buf := b.buf ++ joinSegs cur, inPath := b.inPath } := by
  cases cur with
  | nil => simp [pushes, joinSegs]
  | cons c cs => simp [pushes, perform, Builder.push]

/-- the path part: after the derived statements have run, the builder holds the pending literals followed by the
normal form's path -/
theorem foldl_pathWrites (tbl : List Nat) (pathArgs : List MArg) (vals : Nat → List Bytes) :
    ∀ (comps : List Comp) (cur : List Bytes) (cs : List MCall), pathWrites tbl pathArgs comps cur = some cs →
      ∀ b : Builder, (pushes vals cs).foldl (Builder.push tbl) b =
        { buf := b.buf ++ joinSegs cur ++ pathBytes tbl (comps.flatMap (segsOf tbl pathArgs vals)),
          inPath := b.inPath }
  | [], cur, cs, h, b => by
    simp only [pathWrites, Option.some.injEq] at h
    subst h
    rw [foldl_flush]
    simp [pathBytes, joinSegs]
  | .lit l :: r, cur, cs, h, b => by
    simp only [pathWrites] at h
    rw [foldl_pathWrites tbl pathArgs vals r _ cs h b]
    simp [segsOf, pathBytes_append, joinSegs_append, pathBytes, joinSegs, Uri.Seg.raw, List.append_assoc]
  | .param n :: r, cur, cs, h, b => by
    simp only [pathWrites] at h
    cases hl : lookup pathArgs n with
    | none => simp [hl] at h
    | some a =>
      cases hr : pathWrites tbl pathArgs r [] with
      | none => simp [hl, hr] at h
      | some rest =>
        simp only [hl, hr, Option.some.injEq] at h
        subst h
        have ih := foldl_pathWrites tbl pathArgs vals r [] rest hr
        unfold pushes at ih ⊢
        rw [List.flatMap_append, List.foldl_append, List.flatMap_cons, List.foldl_append]
        have hf := foldl_flush tbl vals cur b
        unfold pushes at hf
        rw [hf, ih]
        simp only [perform]
        rw [foldl_params]
        simp [segsOf, hl, pathBytes_append, joinSegs, List.append_assoc]

theorem pushes_queryWrites (tbl : List Nat) (queryArgs : List MArg) (vals : Nat → List Bytes) :
    pushes vals (queryWrites tbl queryArgs) =
      (queryArgs.flatMap (fun a => (vals a.slot).map (fun v => (a.name, v)))).map
        (fun kv => Push.queryParam (encode tbl kv.1) kv.2) := by
  unfold pushes queryWrites
  induction queryArgs with
  | nil => rfl
  | cons a r ih =>
    simp only [List.map_cons, List.flatMap_cons, List.map_append, ih, perform, List.map_map, Function.comp_def]

/-- **the derived method builds the normal form's URI** -/
theorem macro_buildBuf (tbl : List Nat) (tmpl : List Comp) (pathArgs queryArgs : List MArg)
    (vals : Nat → List Bytes) (cs : List MCall) (h : writes tbl tmpl pathArgs queryArgs = some cs) :
    buildBuf tbl (pushes vals cs) = buildBuf tbl ((macroReq tbl tmpl pathArgs queryArgs vals).pushes tbl) := by
  unfold writes at h
  cases hp : pathWrites tbl pathArgs tmpl [] with
  | none => simp [hp] at h
  | some pcs =>
    simp only [hp, Option.map_some, Option.some.injEq] at h
    subst h
    unfold buildBuf Req.pushes
    have : pushes vals (pcs ++ queryWrites tbl queryArgs) = pushes vals pcs ++ pushes vals (queryWrites tbl queryArgs) := by
      simp [pushes]
    rw [this, List.foldl_append, List.foldl_append, foldl_pathWrites tbl pathArgs vals tmpl [] pcs hp, foldl_path,
      pushes_queryWrites]
    simp [macroReq, joinSegs]

/-- a component the macro can expand: a literal, or a `{name}` that names a path argument -/
def named (pathArgs : List MArg) : Comp → Bool
  | .lit _ => true
  | .param n => (lookup pathArgs n).isSome

/-- the expansion fails exactly when some `{name}` names no path argument -/
theorem pathWrites_isSome (tbl : List Nat) (pathArgs : List MArg) :
    ∀ (comps : List Comp) (cur : List Bytes),
      (pathWrites tbl pathArgs comps cur).isSome = comps.all (named pathArgs)
  | [], cur => by simp [pathWrites]
  | .lit l :: r, cur => by simp [pathWrites, pathWrites_isSome tbl pathArgs r, named]
  | .param n :: r, cur => by
    have ih := pathWrites_isSome tbl pathArgs r []
    simp only [pathWrites, List.all_cons, named]
    cases hl : lookup pathArgs n with
    | none => simp
    | some a =>
      cases hr : pathWrites tbl pathArgs r [] with
      | none => rw [hr] at ih; simp at ih ⊢; simpa using ih
      | some rest => rw [hr] at ih; simp at ih ⊢; simpa using ih

/-! ### the template parser -/

/-- printing components back gives the template: parsing loses nothing and invents nothing -/
def Comp.text : Comp → Bytes
  | .lit s => s
  | .param n => 123 :: n ++ [125]

theorem compOf_text (s : Bytes) : (compOf s).text = s := by
  unfold compOf
  split
  · rename_i r
    split
    · rename_i m hm
      have : r = (125 :: m).reverse := by rw [← hm, List.reverse_reverse]
      simp [Comp.text, this]
    · rfl
  · rfl

theorem joinSegs_splitOn (r : Bytes) : joinSegs (splitOn 47 r) = 47 :: r := by
  induction r with
  | nil => simp [splitOn, joinSegs]
  | cons b bs ih =>
    unfold splitOn
    split
    · rename_i h; subst h; simp [joinSegs] at ih ⊢; exact ih
    · cases hs : splitOn 47 bs with
      | nil => exact absurd hs (splitOn_ne_nil 47 bs)
      | cons s ss => rw [hs] at ih; simp [joinSegs] at ih ⊢; exact ih

theorem parse_text (p : Bytes) (comps : List Comp) (h : parse p = some comps) :
    p = [] ∧ comps = [] ∨ (p ≠ [] ∧ joinSegs (comps.map Comp.text) = p) := by
  unfold parse at h
  split at h
  · simp at h; exact Or.inl ⟨rfl, h⟩
  · rename_i r
    simp only [Option.some.injEq] at h
    subst h
    refine Or.inr ⟨by simp, ?_⟩
    rw [List.map_map]
    have : (Comp.text ∘ compOf) = id := by funext s; simp [compOf_text]
    rw [this, List.map_id, joinSegs_splitOn]
  · cases h

/-- no component holds a `/`: a parameter value can only ever fill a whole segment -/
theorem splitOn_no_sep (d : Nat) (s : Bytes) : ∀ p ∈ splitOn d s, d ∉ p := by
  induction s with
  | nil => simp [splitOn]
  | cons b bs ih =>
    unfold splitOn
    split
    · intro p hp; simp at hp; rcases hp with hp | hp
      · subst hp; simp
      · exact ih p hp
    · rename_i hne
      cases hs : splitOn d bs with
      | nil => intro p hp; simp at hp; subst hp; simp; exact fun h => hne h.symm
      | cons x xs =>
        rw [hs] at ih
        intro p hp; simp at hp; rcases hp with hp | hp
        · subst hp; simp; exact ⟨fun h => hne h.symm, ih x (by simp)⟩
        · exact ih p (by simp [hp])

/-! ### the server derived by `#[conjure_endpoints]` from the same declaration -/

/-- `query_param(&query_params, KEY, ..)`: the values the parsed query holds under the key, in order of appearance
(`parse_query_params` groups the pairs by decoded key) -/
def serverQueryValues (pairs : List (Bytes × Bytes)) (k : Bytes) : List Bytes :=
  (pairs.filter (fun p => p.1 == k)).map (·.2)

theorem serverQueryValues_flatMap (vals : Nat → List Bytes) : ∀ (qas : List MArg) (a : MArg), a ∈ qas →
    (qas.map (·.name)).Nodup →
    serverQueryValues (qas.flatMap (fun b => (vals b.slot).map (fun v => (b.name, v)))) a.name = vals a.slot
  | [], a, h, _ => by cases h
  | b :: rest, a, h, hn => by
    simp only [List.map_cons, List.nodup_cons] at hn
    simp only [serverQueryValues, List.flatMap_cons, List.filter_append, List.map_append]
    rcases List.mem_cons.mp h with rfl | hr
    · -- the pairs of `a` itself all pass; no later argument has its name
      have h1 : ((vals a.slot).map (fun v => (a.name, v))).filter (fun p => p.1 == a.name) =
          (vals a.slot).map (fun v => (a.name, v)) := by
        apply List.filter_eq_self.mpr; intro p hp; simp only [List.mem_map] at hp; obtain ⟨v, _, rfl⟩ := hp; simp
      have h2 : (rest.flatMap (fun b => (vals b.slot).map (fun v => (b.name, v)))).filter (fun p => p.1 == a.name) = [] := by
        apply List.filter_eq_nil_iff.mpr
        intro p hp
        simp only [List.mem_flatMap, List.mem_map] at hp
        obtain ⟨c, hc, v, _, rfl⟩ := hp
        simp only [beq_iff_eq]
        intro he
        exact hn.1 (by rw [← he]; exact List.mem_map_of_mem hc)
      rw [h1, h2]; simp [List.map_map, Function.comp_def]
    · have hne : b.name ≠ a.name := by
        intro he; exact hn.1 (by rw [he]; exact List.mem_map_of_mem hr)
      have h1 : ((vals b.slot).map (fun v => (b.name, v))).filter (fun p => p.1 == a.name) = [] := by
        apply List.filter_eq_nil_iff.mpr; intro p hp; simp only [List.mem_map] at hp; obtain ⟨v, _, rfl⟩ := hp
        simpa using hne
      rw [h1]
      have := serverQueryValues_flatMap vals rest a hr hn.2
      simpa [serverQueryValues] using this

end ConjureVerif.MacroEmit

