import ConjureVerif.Lemmas.Base64
/-
The converse of `decode_encode`: the decoder accepts only the canonical spelling, so the text it accepts is
exactly the encoder's text for the bytes it returns, every byte it returns is below 256, and two accepted texts
with the same bytes are the same text (the strict `STANDARD` engine: canonical padding, zero trailing bits).
-/
namespace ConjureVerif.Base64

theorem ch_val (c n : Nat) (h : val c = some n) : ch n = c ∧ n < 64 := by
  unfold val at h
  split at h
  · cases h; unfold ch; constructor
    · rw [if_pos (by omega)]; omega
    · omega
  · split at h
    · cases h; unfold ch; constructor
      · rw [if_neg (by omega), if_pos (by omega)]; omega
      · omega
    · split at h
      · cases h; unfold ch; constructor
        · rw [if_neg (by omega), if_neg (by omega), if_pos (by omega)]; omega
        · omega
      · split at h
        · cases h; subst_vars; exact ⟨by decide, by decide⟩
        · split at h
          · cases h; subst_vars; exact ⟨by decide, by decide⟩
          · cases h

/-- the decoder accepts only canonical text, and returns bytes -/
theorem encode_decode (s bs : List Nat) (h : decode s = some bs) : encode bs = s ∧ ∀ b ∈ bs, b < 256 := by
  fun_induction decode s generalizing bs <;> (try (cases h; done)) <;> cases h
  · simp [encode]
  · rename_i w x w' x' hx hw hz
    obtain ⟨hw1, hw2⟩ := ch_val _ _ hw
    obtain ⟨hx1, hx2⟩ := ch_val _ _ hx
    constructor
    · simp only [encode]
      have e1 : (w' * 4 + x' / 16) / 4 = w' := by omega
      have e2 : (w' * 4 + x' / 16) % 4 * 16 = x' := by omega
      rw [e1, e2, hw1, hx1]
    · intro b hb; simp at hb; omega
  · rename_i w x y _ w' x' y' hy hx hw hz
    obtain ⟨hw1, hw2⟩ := ch_val _ _ hw
    obtain ⟨hx1, hx2⟩ := ch_val _ _ hx
    obtain ⟨hy1, hy2⟩ := ch_val _ _ hy
    constructor
    · simp only [encode]
      have e1 : (w' * 4 + x' / 16) / 4 = w' := by omega
      have e2 : (w' * 4 + x' / 16) % 4 * 16 + (x' % 16 * 16 + y' / 4) / 16 = x' := by omega
      have e3 : (x' % 16 * 16 + y' / 4) % 16 * 4 = y' := by omega
      rw [e1, e2, e3, hw1, hx1, hy1]
    · intro b hb; simp at hb; omega
  · rename_i w x y z rest _ _ w' x' y' z' r hr hz hy hx hw ih
    obtain ⟨hw1, hw2⟩ := ch_val _ _ hw
    obtain ⟨hx1, hx2⟩ := ch_val _ _ hx
    obtain ⟨hy1, hy2⟩ := ch_val _ _ hy
    obtain ⟨hz1, hz2⟩ := ch_val _ _ hz
    obtain ⟨ih1, ih2⟩ := ih r hr
    constructor
    · simp only [encode]
      have e1 : (w' * 4 + x' / 16) / 4 = w' := by omega
      have e2 : (w' * 4 + x' / 16) % 4 * 16 + (x' % 16 * 16 + y' / 4) / 16 = x' := by omega
      have e3 : (x' % 16 * 16 + y' / 4) % 16 * 4 + (y' % 4 * 64 + z') / 64 = y' := by omega
      have e4 : (y' % 4 * 64 + z') % 64 = z' := by omega
      rw [e1, e2, e3, e4, hw1, hx1, hy1, hz1, ih1]
    · intro b hb
      simp only [List.mem_cons] at hb
      rcases hb with rfl | rfl | rfl | hb
      · omega
      · omega
      · omega
      · exact ih2 b hb

/-- two accepted texts that decode to the same bytes are the same text -/
theorem decode_injective (s t bs : List Nat) (hs : decode s = some bs) (ht : decode t = some bs) : s = t := by
  rw [← (encode_decode s bs hs).1, ← (encode_decode t bs ht).1]

/-- decoding is exactly the partial inverse of encoding on byte strings -/
theorem decode_eq_some_iff (s bs : List Nat) :
    decode s = some bs ↔ (encode bs = s ∧ ∀ b ∈ bs, b < 256) :=
  ⟨encode_decode s bs, fun ⟨e, hb⟩ => e ▸ decode_encode bs hb⟩

/-- every alphabet character is a printable ASCII character other than `"` and `\` -/
theorem ch_plain (n : Nat) : 43 ≤ ch n ∧ ch n ≤ 122 ∧ ch n ≠ 92 ∧ ch n ≠ 61 := by
  unfold ch
  split <;> (try split) <;> (try split) <;> (try split) <;> omega

def PlainChar (c : Nat) : Prop := 43 ≤ c ∧ c ≤ 122 ∧ c ≠ 92

/-- the text of a binary has four characters per started group of three bytes, and every character is printable
    ASCII that a JSON string or a header carries unescaped -/
theorem encode_shape : ∀ (bs : List Nat), (encode bs).length = 4 * ((bs.length + 2) / 3) ∧ ∀ c ∈ encode bs, PlainChar c
  | [] => by simp [encode]
  | [a] => by
    refine ⟨by simp [encode], ?_⟩
    intro c hc
    simp only [encode, List.mem_cons, List.not_mem_nil, or_false] at hc
    rcases hc with rfl | rfl | rfl | rfl
    · have := ch_plain (a / 4); exact ⟨this.1, this.2.1, this.2.2.1⟩
    · have := ch_plain ((a % 4) * 16); exact ⟨this.1, this.2.1, this.2.2.1⟩
    · unfold PlainChar; omega
    · unfold PlainChar; omega
  | [a, b] => by
    refine ⟨by simp [encode], ?_⟩
    intro c hc
    simp only [encode, List.mem_cons, List.not_mem_nil, or_false] at hc
    rcases hc with rfl | rfl | rfl | rfl
    · have := ch_plain (a / 4); exact ⟨this.1, this.2.1, this.2.2.1⟩
    · have := ch_plain ((a % 4) * 16 + b / 16); exact ⟨this.1, this.2.1, this.2.2.1⟩
    · have := ch_plain ((b % 16) * 4); exact ⟨this.1, this.2.1, this.2.2.1⟩
    · unfold PlainChar; omega
  | a :: b :: c :: rest => by
    obtain ⟨ih1, ih2⟩ := encode_shape rest
    constructor
    · simp only [encode, List.length_cons, ih1]; omega
    · intro x hx
      simp only [encode, List.mem_cons] at hx
      rcases hx with rfl | rfl | rfl | rfl | hx
      · have := ch_plain (a / 4); exact ⟨this.1, this.2.1, this.2.2.1⟩
      · have := ch_plain ((a % 4) * 16 + b / 16); exact ⟨this.1, this.2.1, this.2.2.1⟩
      · have := ch_plain ((b % 16) * 4 + c / 64); exact ⟨this.1, this.2.1, this.2.2.1⟩
      · have := ch_plain (c % 64); exact ⟨this.1, this.2.1, this.2.2.1⟩
      · exact ih2 x hx

end ConjureVerif.Base64
